(* Model of pkg/state/tracker.go and pkg/state/lock.go (C30).  Definitions only.

   Part 1: an explicit transition system at the level of the atomic steps of the
   Go code: acquiring/releasing Tracker.change.L and TrackingLock.lock,
   sync.Cond Wait/Signal, the buffered per-request response channel, the
   trackDone channel, context cancellation.  [step : state -> action -> option
   state]; a schedule is a [list action]; [None] = the action is not enabled.
   The transition system carries a ghost history [log] of the externally visible
   events (API call / return, context cancel, quiescence).

   Part 2: a monitor [mon_step] over such histories -- the checker that is also
   applied to histories recorded from the real code.  Call/return pairs are
   treated as intervals: the monitor only keeps bounds that hold wherever inside
   its interval an operation took effect. *)
From Coq Require Import List Arith NArith Bool.
Import ListNotations.

(* ------------------------------------------------------------------ *)
(* The index.  NotifyOfChange: t.index++; if t.index == 0 { t.index = 1 }
   on a uint64. *)
Definition max_u64 : N := 18446744073709551615%N.
Definition next_index (i : N) : N := if N.eqb i max_u64 then 1%N else (i + 1)%N.
(* the index after k effective notifications *)
Fixpoint idx_at (i0 : N) (k : nat) : N :=
  match k with O => i0 | S k' => next_index (idx_at i0 k') end.

(* ------------------------------------------------------------------ *)
(* Externally visible events. *)
Inductive werr := WOk | WTerminated | WCancelled.
Inductive op :=
| ONotify                 (* Tracker.NotifyOfChange *)
| OUnlock                 (* TrackingLock.Lock; TrackingLock.Unlock *)
| OUnlockNN               (* TrackingLock.Lock; TrackingLock.UnlockWithoutNotify *)
| OTerminate              (* Tracker.Terminate *)
| OWait (prev : N).       (* Tracker.WaitForChange(ctx, prev) *)
Inductive res := RUnit | RWait (idx : N) (e : werr).
Inductive event :=
| ECall (t : nat) (o : op) (tm : N)
| ERet (t : nat) (r : res) (tm : N)
| ECancel (t : nat) (tm : N)      (* the context of t's current wait is cancelled *)
| EQuiesce (tm : N).              (* nothing can move any more *)

Definition werr_eqb (a b : werr) : bool :=
  match a, b with WOk, WOk | WTerminated, WTerminated | WCancelled, WCancelled => true | _, _ => false end.

(* ------------------------------------------------------------------ *)
(* Part 1: the transition system. *)

(* program counter of the tracking goroutine (Tracker.track) *)
Inductive tkpc :=
| TkStart      (* before t.change.L.Lock() *)
| TkHold       (* holding the lock at the top of the loop *)
| TkPreWait    (* iteration done, about to call t.change.Wait() *)
| TkWaiting    (* inside Wait: lock released, on the notify list *)
| TkWoken      (* signalled; re-acquiring the lock inside Wait *)
| TkExiting    (* terminated branch done; deferred Unlock pending *)
| TkClosing    (* deferred close(trackDone) pending *)
| TkDone.

(* program counter of a client goroutine *)
Inductive pc :=
| Idle
| LAcq (n : bool)       (* TrackingLock.Lock: l.lock.Lock(); n = will notify *)
| LRel (n : bool)       (* l.lock.Unlock() *)
| NAcq                  (* NotifyOfChange: t.change.L.Lock() *)
| NUpd                  (* terminated test, index++ with wrap *)
| NSig                  (* t.change.Signal() *)
| NRel (eff : bool)     (* deferred Unlock; eff = the index was advanced *)
| W0Acq                 (* WaitForChange, previousIndex == 0: Lock *)
| W0Read                (* read terminated and index *)
| WRelRet (i : N) (e : werr)   (* deferred Unlock, then return (i, e) *)
| WAcq (p : N)          (* WaitForChange, previousIndex = p <> 0: Lock *)
| WReg (p : N)          (* terminated test; register the request *)
| WSig (p : N)          (* Signal *)
| WRel (p : N)          (* Unlock *)
| WSel (p : N)          (* select { <-ctx.Done(); <-responses } *)
| WCAcq (p : N)         (* cancelled branch: Lock *)
| WCDel (p : N)         (* delete(pollRequests, request); read index *)
| TAcq                  (* Terminate: Lock *)
| TSet                  (* terminated = true *)
| TSig                  (* Signal *)
| TRel                  (* Unlock *)
| TAwait.               (* <-t.trackDone *)

Inductive owner := OTracker | OThread (t : nat).

Record state := mkSt {
  index : N;                          (* Tracker.index *)
  cnt : nat;                          (* ghost: number of effective notifications *)
  terminated : bool;                  (* Tracker.terminated *)
  mu : option owner;                  (* holder of Tracker.change.L *)
  tl : option nat;                    (* holder of TrackingLock.lock *)
  tk : tkpc;
  tdone : bool;                       (* trackDone closed *)
  reqs : list (nat * N);              (* pollRequests: (request = thread, previousIndex) *)
  resp : list (nat * (N * bool));     (* buffered response of a request's channel *)
  thr : list (pc * bool);             (* client goroutines: pc, context cancelled *)
  log : list event                    (* ghost history, newest first *)
}.

Inductive action :=
| ACall (t : nat) (o : op)    (* idle goroutine t starts an API call *)
| AStep (t : nat)             (* goroutine t takes its next atomic step *)
| ASelCancel (t : nat)        (* t's select takes the <-ctx.Done() branch *)
| ACancel (t : nat)           (* the environment cancels t's context *)
| ATrack                      (* the tracking goroutine takes its next atomic step *)
| AQuiesce.                   (* observe that no goroutine can move *)

Definition init_state (i0 : N) (nthreads : nat) : state :=
  mkSt i0 0 false None None TkStart false [] [] (repeat (Idle, false) nthreads) [].

Fixpoint upd {A} (l : list A) (n : nat) (x : A) : list A :=
  match l, n with
  | [], _ => []
  | _ :: t, O => x :: t
  | h :: t, S n' => h :: upd t n' x
  end.

Fixpoint aget {A} (l : list (nat * A)) (t : nat) : option A :=
  match l with
  | [] => None
  | (k, v) :: r => if Nat.eqb k t then Some v else aget r t
  end.
Fixpoint adel {A} (l : list (nat * A)) (t : nat) : list (nat * A) :=
  match l with
  | [] => []
  | (k, v) :: r => if Nat.eqb k t then adel r t else (k, v) :: adel r t
  end.

(* sync.Cond.Signal: wakes the tracking goroutine iff it is on the notify list;
   otherwise the signal has no effect at all. *)
Definition signal_tk (k : tkpc) : tkpc :=
  match k with TkWaiting => TkWoken | _ => k end.

Definition entry (o : op) : pc :=
  match o with
  | ONotify => NAcq
  | OUnlock => LAcq true
  | OUnlockNN => LAcq false
  | OTerminate => TAcq
  | OWait p => if N.eqb p 0 then W0Acq else WAcq p
  end.

(* setters *)
Definition set_thr (s : state) (t : nat) (p : pc) (c : bool) : state :=
  mkSt (index s) (cnt s) (terminated s) (mu s) (tl s) (tk s) (tdone s) (reqs s) (resp s)
       (upd (thr s) t (p, c)) (log s).
Definition set_mu (s : state) (m : option owner) : state :=
  mkSt (index s) (cnt s) (terminated s) m (tl s) (tk s) (tdone s) (reqs s) (resp s) (thr s) (log s).
Definition set_tl (s : state) (m : option nat) : state :=
  mkSt (index s) (cnt s) (terminated s) (mu s) m (tk s) (tdone s) (reqs s) (resp s) (thr s) (log s).
Definition set_tk (s : state) (k : tkpc) : state :=
  mkSt (index s) (cnt s) (terminated s) (mu s) (tl s) k (tdone s) (reqs s) (resp s) (thr s) (log s).
Definition set_reqs (s : state) (r : list (nat * N)) : state :=
  mkSt (index s) (cnt s) (terminated s) (mu s) (tl s) (tk s) (tdone s) r (resp s) (thr s) (log s).
Definition set_resp (s : state) (r : list (nat * (N * bool))) : state :=
  mkSt (index s) (cnt s) (terminated s) (mu s) (tl s) (tk s) (tdone s) (reqs s) r (thr s) (log s).
Definition add_log (s : state) (e : event) : state :=
  mkSt (index s) (cnt s) (terminated s) (mu s) (tl s) (tk s) (tdone s) (reqs s) (resp s) (thr s)
       (e :: log s).
Definition bump (s : state) : state :=
  mkSt (next_index (index s)) (S (cnt s)) (terminated s) (mu s) (tl s) (tk s) (tdone s)
       (reqs s) (resp s) (thr s) (log s).
Definition set_term (s : state) : state :=
  mkSt (index s) (cnt s) true (mu s) (tl s) (tk s) (tdone s) (reqs s) (resp s) (thr s) (log s).
Definition set_tdone (s : state) : state :=
  mkSt (index s) (cnt s) (terminated s) (mu s) (tl s) (tk s) true (reqs s) (resp s) (thr s) (log s).

Definition mu_free (s : state) : bool := match mu s with None => true | Some _ => false end.
Definition err_of_term (b : bool) : werr := if b then WTerminated else WOk.

(* one atomic step of client goroutine t at pc p (context flag c) *)
Definition thread_step (s : state) (t : nat) (p : pc) (c : bool) : option state :=
  let acquire (p' : pc) :=
      if mu_free s then Some (set_thr (set_mu s (Some (OThread t))) t p' c) else None in
  let ret (s' : state) (r : res) := Some (add_log (set_thr s' t Idle c) (ERet t r 0)) in
  match p with
  | Idle => None
  | LAcq n => match tl s with
              | None => Some (set_thr (set_tl s (Some t)) t (LRel n) c)
              | Some _ => None
              end
  | LRel n => if n then Some (set_thr (set_tl s None) t NAcq c)
              else ret (set_tl s None) RUnit
  | NAcq => acquire NUpd
  | NUpd => if terminated s then Some (set_thr s t (NRel false) c)
            else Some (set_thr (bump s) t NSig c)
  | NSig => Some (set_thr (set_tk s (signal_tk (tk s))) t (NRel true) c)
  | NRel _ => ret (set_mu s None) RUnit
  | W0Acq => acquire W0Read
  | W0Read => Some (set_thr s t (WRelRet (index s) (err_of_term (terminated s))) c)
  | WRelRet i e => ret (set_mu s None) (RWait i e)
  | WAcq q => acquire (WReg q)
  | WReg q => if terminated s then Some (set_thr s t (WRelRet (index s) WTerminated) c)
              else Some (set_thr (set_resp (set_reqs s ((t, q) :: reqs s)) (adel (resp s) t))
                                 t (WSig q) c)
  | WSig q => Some (set_thr (set_tk s (signal_tk (tk s))) t (WRel q) c)
  | WRel q => Some (set_thr (set_mu s None) t (WSel q) c)
  | WSel q => match aget (resp s) t with       (* case response := <-responses *)
              | Some (i, tm) => ret (set_resp s (adel (resp s) t)) (RWait i (err_of_term tm))
              | None => None
              end
  | WCAcq q => acquire (WCDel q)
  | WCDel q => Some (set_thr (set_reqs s (adel (reqs s) t)) t (WRelRet (index s) WCancelled) c)
  | TAcq => acquire TSet
  | TSet => Some (set_thr (set_term s) t TSig c)
  | TSig => Some (set_thr (set_tk s (signal_tk (tk s))) t TRel c)
  | TRel => Some (set_thr (set_mu s None) t TAwait c)
  | TAwait => if tdone s then ret s RUnit else None
  end.

(* the body of one iteration of the loop in Tracker.track *)
Definition answer_all (s : state) : list (nat * (N * bool)) :=
  map (fun r => (fst r, (index s, true))) (reqs s).
Definition stale (s : state) (r : nat * N) : bool := negb (N.eqb (snd r) (index s)).
Definition answer_stale (s : state) : list (nat * (N * bool)) :=
  map (fun r => (fst r, (index s, false))) (filter (stale s) (reqs s)).
Definition keep_current (s : state) : list (nat * N) :=
  filter (fun r => negb (stale s r)) (reqs s).

Definition track_step (s : state) : option state :=
  match tk s with
  | TkStart | TkWoken =>
      if mu_free s then Some (set_tk (set_mu s (Some OTracker)) TkHold) else None
  | TkHold =>
      if terminated s
      then Some (set_tk (set_reqs (set_resp s (answer_all s ++ resp s)) []) TkExiting)
      else Some (set_tk (set_reqs (set_resp s (answer_stale s ++ resp s)) (keep_current s)) TkPreWait)
  | TkPreWait => Some (set_tk (set_mu s None) TkWaiting)   (* Cond.Wait: unlock + enqueue, atomically *)
  | TkWaiting => None
  | TkExiting => Some (set_tk (set_mu s None) TkClosing)
  | TkClosing => Some (set_tk (set_tdone s) TkDone)
  | TkDone => None
  end.

Definition step_thread (s : state) (t : nat) : option state :=
  match nth_error (thr s) t with
  | Some (p, c) => thread_step s t p c
  | None => None
  end.

Definition sel_cancel (s : state) (t : nat) : option state :=
  match nth_error (thr s) t with
  | Some (WSel q, true) => Some (set_thr s t (WCAcq q) true)
  | _ => None
  end.

(* the goroutine is inside WaitForChange *)
Definition in_wait (p : pc) : bool :=
  match p with
  | W0Acq | W0Read | WRelRet _ _ | WAcq _ | WReg _ | WSig _ | WRel _ | WSel _ | WCAcq _ | WCDel _ => true
  | _ => false
  end.

Definition someb {A} (o : option A) : bool := match o with Some _ => true | None => false end.

(* no goroutine has an enabled step *)
Definition quiescent (s : state) : bool :=
  negb (someb (track_step s)) &&
  forallb (fun t => negb (someb (step_thread s t)) && negb (someb (sel_cancel s t)))
          (seq 0 (length (thr s))).

Definition step (s : state) (a : action) : option state :=
  match a with
  | ACall t o =>
      match nth_error (thr s) t with
      | Some (Idle, _) => Some (add_log (set_thr s t (entry o) false) (ECall t o 0))
      | _ => None
      end
  | AStep t => step_thread s t
  | ASelCancel t => sel_cancel s t
  | ACancel t =>
      match nth_error (thr s) t with
      | Some (p, _) => if in_wait p then Some (add_log (set_thr s t p true) (ECancel t 0)) else None
      | None => None
      end
  | ATrack => track_step s
  | AQuiesce => if quiescent s then Some (add_log s (EQuiesce 0)) else None
  end.

Fixpoint run (s : state) (acts : list action) : option state :=
  match acts with
  | [] => Some s
  | a :: r => match step s a with Some s' => run s' r | None => None end
  end.

(* ------------------------------------------------------------------ *)
(* Part 2: the history monitor (checker). *)

Record winfo := mkW {
  w_prev : N;           (* previousIndex *)
  w_floor : nat;        (* at least this many notifications were effective at the call *)
  w_canc : bool;        (* the context was cancelled (event seen) *)
  w_aft : bool;         (* called after a Terminate had returned *)
  w_due : option N      (* time from which the call is known to be answerable *)
}.
(* OpNotify nf: a notifying call; at least nf notifications were effective when it was called *)
Inductive oop := OpNotify (nf : nat) | OpPlain | OpTerm | OpWait (w : winfo).

Record mstate := mkM {
  m_lo : nat;       (* notifying ops that returned before any Terminate was called *)
  m_hi : nat;       (* notifying ops called *)
  m_maxk : nat;     (* largest notification count known to have been reached: decoded from a
                       returned index, or one more than the count at the call of a notifying
                       op that returned before any Terminate was called *)
  m_tcall : bool;   (* a Terminate has been called *)
  m_tret : bool;    (* a Terminate has returned *)
  m_open : list (nat * oop)
}.

Record mcfg := mkCfg {
  c_init : N;             (* index when the history starts *)
  c_total : nat;          (* upper bound on the notifying ops in the whole history *)
  c_slack : option N      (* allowed latency (None: latency not checked) *)
}.

Definition m0 : mstate := mkM 0 0 0 false false [].

(* smallest k in [from, from+n) with idx_at i0 k = i *)
Fixpoint find_k (i0 i : N) (from n : nat) : option nat :=
  match n with
  | O => None
  | S n' => if N.eqb (idx_at i0 from) i then Some from else find_k i0 i (S from) n'
  end.

Definition m_floor (m : mstate) : nat := Nat.max (m_lo m) (m_maxk m).

(* the index can never again (in this history) equal p *)
Definition certainly_stale (c : mcfg) (m : mstate) (p : N) : bool :=
  match find_k (c_init c) p (m_floor m) (S (c_total c) - m_floor m) with
  | Some _ => false
  | None => true
  end.

(* the wait must be answered without anything further happening *)
Definition urgent (c : mcfg) (m : mstate) (w : winfo) : bool :=
  N.eqb (w_prev w) 0 || w_canc w || m_tret m || certainly_stale c m (w_prev w).

Definition refresh_one (c : mcfg) (m : mstate) (tm : N) (o : oop) : oop :=
  match o with
  | OpWait w =>
      match w_due w with
      | Some _ => o
      | None => if urgent c m w
                then OpWait (mkW (w_prev w) (w_floor w) (w_canc w) (w_aft w) (Some tm))
                else o
      end
  | _ => o
  end.

Definition refresh (c : mcfg) (tm : N) (m : mstate) : mstate :=
  mkM (m_lo m) (m_hi m) (m_maxk m) (m_tcall m) (m_tret m)
      (map (fun x => (fst x, refresh_one c m tm (snd x))) (m_open m)).

Definition set_open (m : mstate) (o : list (nat * oop)) : mstate :=
  mkM (m_lo m) (m_hi m) (m_maxk m) (m_tcall m) (m_tret m) o.

(* error codes = verdict bits: 1 the history is not one of the model's;
   2 the property is violated; 8 the log itself is ill formed *)
Inductive mres := MOk (m : mstate) | MErr (code : nat).

Definition late (c : mcfg) (due : option N) (tm : N) : bool :=
  match c_slack c, due with
  | Some sl, Some d => N.ltb (d + sl) tm
  | _, _ => false
  end.

Definition check_wait_ret (c : mcfg) (m : mstate) (w : winfo) (i : N) (e : werr) (tm : N)
  : nat + nat (* inl code | inr k *) :=
  if (werr_eqb e WTerminated && negb (m_tcall m)) || (werr_eqb e WCancelled && negb (w_canc w))
  then inl 2                                   (* returned with an error nobody caused *)
  else if werr_eqb e WOk && negb (N.eqb (w_prev w) 0) && N.eqb i (w_prev w)
  then inl 2                                   (* returned without a change *)
  else match find_k (c_init c) i (w_floor w) (S (m_hi m) - w_floor w) with
       | None =>
           match find_k (c_init c) i 0 (w_floor w) with
           | Some _ => inl 2                   (* index behind: update missed / moved backwards *)
           | None => inl 1                     (* not an index the model can have had *)
           end
       | Some k =>
           if werr_eqb e WOk && w_aft w then inl 1
           else if late c (w_due w) tm then inl 2   (* answered, but not promptly *)
           else inr k
       end.

Definition quiesce_code (o : nat * oop) : nat :=
  match snd o with
  | OpWait w => match w_due w with Some _ => 2 | None => 0 end   (* an update was missed *)
  | _ => 1                                                        (* a non-blocking call hangs *)
  end.

Fixpoint first_nonzero (l : list nat) : nat :=
  match l with [] => 0 | 0 :: r => first_nonzero r | c :: _ => c end.

Definition mon_event (c : mcfg) (m : mstate) (e : event) : mres :=
  match e with
  | ECall t o tm =>
      match aget (m_open m) t with
      | Some _ => MErr 8
      | None =>
          let m' :=
            match o with
            | ONotify | OUnlock =>
                mkM (m_lo m) (S (m_hi m)) (m_maxk m) (m_tcall m) (m_tret m) ((t, OpNotify (m_floor m)) :: m_open m)
            | OUnlockNN => set_open m ((t, OpPlain) :: m_open m)
            | OTerminate =>
                mkM (m_lo m) (m_hi m) (m_maxk m) true (m_tret m) ((t, OpTerm) :: m_open m)
            | OWait p =>
                set_open m ((t, OpWait (mkW p (m_floor m) false (m_tret m) None)) :: m_open m)
            end in
          MOk (refresh c tm m')
      end
  | ERet t r tm =>
      match aget (m_open m) t, r with
      | Some (OpNotify nf), RUnit =>
          MOk (refresh c tm (mkM (if m_tcall m then m_lo m else S (m_lo m)) (m_hi m)
                                 (if m_tcall m then m_maxk m else Nat.max (m_maxk m) (S nf))
                                 (m_tcall m) (m_tret m) (adel (m_open m) t)))
      | Some OpPlain, RUnit => MOk (refresh c tm (set_open m (adel (m_open m) t)))
      | Some OpTerm, RUnit =>
          MOk (refresh c tm (mkM (m_lo m) (m_hi m) (m_maxk m) (m_tcall m) true (adel (m_open m) t)))
      | Some (OpWait w), RWait i e =>
          match check_wait_ret c m w i e tm with
          | inl code => MErr code
          | inr k => MOk (refresh c tm (mkM (m_lo m) (m_hi m) (Nat.max (m_maxk m) k) (m_tcall m)
                                            (m_tret m) (adel (m_open m) t)))
          end
      | _, _ => MErr 8
      end
  | ECancel t tm =>
      match aget (m_open m) t with
      | Some (OpWait w) =>
          MOk (refresh c tm (set_open m ((t, OpWait (mkW (w_prev w) (w_floor w) true (w_aft w) (w_due w)))
                                           :: adel (m_open m) t)))
      | _ => MErr 8
      end
  | EQuiesce tm =>
      let m' := refresh c tm m in
      match first_nonzero (map quiesce_code (m_open m')) with
      | O => MOk m'
      | code => MErr code
      end
  end.

Definition mon_step (c : mcfg) (r : mres) (e : event) : mres :=
  match r with MOk m => mon_event c m e | MErr _ => r end.

Definition mon_run (c : mcfg) (evs : list event) : mres := fold_left (mon_step c) evs (MOk m0).

Definition is_notifying (e : event) : bool :=
  match e with ECall _ ONotify _ | ECall _ OUnlock _ => true | _ => false end.
Definition count_notifying (evs : list event) : nat := length (filter is_notifying evs).

(* The checker applied to recorded histories: 0 = accepted, otherwise the
   verdict bits of the first event that is rejected. *)
Definition check_C30_code (i0 : N) (slack : option N) (evs : list event) : nat :=
  match mon_run (mkCfg i0 (count_notifying evs) slack) evs with
  | MOk _ => 0
  | MErr code => code
  end.
Definition check_C30 (i0 : N) (slack : option N) (evs : list event) : bool :=
  match mon_run (mkCfg i0 (count_notifying evs) slack) evs with
  | MOk _ => true
  | MErr _ => false
  end.

(* The history of a run of the transition system. *)
Definition history (s : state) : list event := rev (log s).
