(* Model of pkg/synchronization/core/transition.go (definitions only).

   The filesystem is a Model/Fs.v tree whose root is the PARENT directory of
   the synchronization root; the synchronization root is its child [rn] (so a
   transition on the root path "" is a change of that child, exactly as
   walkToParentAndComputeLeafName opens the root's parent).  Directory handles
   are the paths of Fs.v; the handle of the directory holding the content at
   the root-relative path p is rn :: removelast p.  The staging area is the
   [store] of Model/FsExt.v.  Every filesystem primitive is one call guarded
   by the oracle of the environment (a failing primitive has no effect);
   cancellation is read off the same oracle (FsExt.cancelled_at).

   Go function                         model
     walkToParentAndComputeLeafName     walk (nameExists... = name_exists)
     ensureExpectedFile                 ensure_expected_file (meta_match)
     ensureExpectedSymbolicLink         ensure_expected_link
     removeFile / removeSymbolicLink    remove_file / remove_link
     removeDirectory                    remove_dir_f + remove_loop
     remove                             remove
     findAndMoveStagedFileIntoPlace     find_and_move (+ fallback)
     swapFile                           swap_file
     createFile / createSymbolicLink    create_file / create_link
     createDirectory                    create_dir_f + create_loop
     create                             create
     Transition                         trans_loop / transition

   Mutation -> values: the transitioner's [problems] and
   [providerMissingFiles] are fields of the threaded state; removeDirectory's
   in-place reduction of [expected] and createDirectory's [created] are
   returned.  Recursion over entries uses fuel = depth of the entry; running
   out of fuel is reported as its own problem code (PK_FUEL) and is a no-op.
   Directory listings and Go map iterations are taken in sorted order.
   Problems are (path, code) with one code per message prefix of
   transition.go (the text of operating-system errors is not modelled).

   Not modelled: Unicode recomposition (false on Linux), Windows/macOS
   branches, the preemption check inside the cross-device copy (it is first
   consulted after 32 MiB), the check-then-act windows marked RACE: in the
   source (no other process acts between two primitives of one transition). *)
From Coq Require Import List Bool Arith String Ascii NArith.
From Mv Require Import Model.Entry Model.Fs Model.FsExt.
Import ListNotations.
Open Scope string_scope.

(* ---------- scan-time cache (core.CacheEntry) ---------- *)
Record centry := {
  ce_mode : N;      (* full st_mode: type bits + permission bits *)
  ce_mtime : N;     (* nanoseconds since the epoch *)
  ce_size : N;
  ce_fid : N;
  ce_digest : string
}.

Definition cache := list (path * centry).

Fixpoint cache_get (c : cache) (p : path) : option centry :=
  match c with
  | [] => None
  | (q, e) :: t => if path_eqb p q then Some e else cache_get t p
  end.

Inductive slmode := SLIgnore | SLPortable | SLRaw.

Definition slmode_eqb (a b : slmode) : bool :=
  match a, b with
  | SLIgnore, SLIgnore | SLPortable, SLPortable | SLRaw, SLRaw => true
  | _, _ => false
  end.

(* ---------- problems ---------- *)
Definition problem := (path * nat)%type.

Definition PK_OPEN_DIR := 1.        (* unable to open directory *)
Definition PK_READ_DIR := 2.        (* unable to read directory contents *)
Definition PK_CANCELLED := 3.       (* transition cancelled *)
Definition PK_UNKNOWN_CONTENT := 4. (* unknown content encountered on disk *)
Definition PK_REMOVE_FILE := 5.     (* unable to remove file *)
Definition PK_REMOVE_LINK := 6.     (* unable to remove symbolic link *)
Definition PK_REMOVE_TYPE := 7.     (* unknown entry type found in removal target *)
Definition PK_REMOVE_DIR := 8.      (* unable to remove directory *)
Definition PK_WALK_REMOVE := 9.     (* unable to walk to transition root *)
Definition PK_WALK_CREATE := 10.    (* unable to walk to transition root parent *)
Definition PK_REMOVAL_TYPE := 11.   (* removal requested for unknown entry type *)
Definition PK_CREATE_DIR := 12.     (* unable to create directory *)
Definition PK_DIR_PERMS := 13.      (* unable to set directory permissions *)
Definition PK_OPEN_NEW_DIR := 14.   (* unable to open new directory *)
Definition PK_CREATE_FILE := 15.    (* unable to create file *)
Definition PK_CREATE_LINK := 16.    (* unable to create symbolic link *)
Definition PK_CREATE_TYPE := 17.    (* creation requested for unknown entry type *)
Definition PK_SWAP := 18.           (* unable to swap file *)
Definition PK_LINK_PERMS := 19.     (* unable to set symbolic link permissions (repaired code only) *)
Definition PK_FUEL := 99.           (* model only: recursion fuel exhausted *)

(* ---------- entry accessors (Go: fields of *Entry) ---------- *)
Definition entry_digest (e : entry) : string :=
  match e with EFile _ d => d | _ => "" end.
Definition entry_exec (e : entry) : bool :=
  match e with EFile x _ => x | _ => false end.
Definition entry_target (e : entry) : string :=
  match e with ELink t => t | _ => "" end.

(* markExecutableForReaders / anyExecutableBitSet (permissions.go) *)
Definition mark_exec (mode : N) : N :=
  let m1 := if N.eqb (N.land mode 256) 0 then mode else N.lor mode 64 in
  let m2 := if N.eqb (N.land m1 32) 0 then m1 else N.lor m1 8 in
  if N.eqb (N.land m2 4) 0 then m2 else N.lor m2 1.
Definition any_exec (mode : N) : bool := negb (N.eqb (N.land mode 73) 0).

(* crossDeviceRenameTemporaryNamePrefix *)
Definition tmp_prefix : string := ".mutagen-temporary-".
Definition xdev_pattern : string := ".mutagen-temporary-cross-device-rename".

(* the five-way comparison of ensureExpectedFile *)
Definition meta_match (md : metadata) (ce : centry) (digest : string) : bool :=
  N.eqb (md_mode md) (ce_mode ce) &&
  N.eqb (md_mtime md) (ce_mtime ce) &&
  N.eqb (md_size md) (ce_size ce) &&
  N.eqb (md_fid md) (ce_fid ce) &&
  String.eqb (ce_digest ce) digest.

(* ---------- transition state ---------- *)
Record tstate := { tx : xstate; tprobs : list problem; tmiss : bool }.

Definition M (A : Type) := tstate -> tstate * result A.

Definition run {A : Type} (m : xstate -> xstate * result A) : M A :=
  fun s => let '(x', r) := m (tx s) in
           ({| tx := x'; tprobs := tprobs s; tmiss := tmiss s |}, r).

Definition tret {A : Type} (a : A) : M A := fun s => (s, ROk a).
Definition terr {A : Type} (e : errno) : M A := fun s => (s, RErr e).

Definition tbind {A B : Type} (m : M A) (f : A -> M B) : M B :=
  fun s => let '(s1, r) := m s in
           match r with
           | ROk a => f a s1
           | RErr e => (s1, RErr e)
           | RCancelled => (s1, RCancelled)
           end.

(* recordProblem *)
Definition problem_at (p : path) (k : nat) (s : tstate) : tstate :=
  {| tx := tx s; tprobs := (p, k) :: tprobs s; tmiss := tmiss s |}.

Definition set_missing (s : tstate) : tstate :=
  {| tx := tx s; tprobs := tprobs s; tmiss := true |}.

Definition note_missing {A : Type} (r : result A) (s : tstate) : tstate :=
  match r with
  | RErr e => if is_not_exist e then set_missing s else s
  | _ => s
  end.

Section Transition.
  Variable norm : path -> string -> option string.  (* normalizeSymbolicLinkAndEnsurePortable *)
  Variable E : env.
  Variable rn : name.          (* base name of the synchronization root *)
  Variable ch : cache.
  Variable slm : slmode.       (* symbolicLinkMode *)
  Variable dfm ddm : N.        (* defaultFileMode, defaultDirectoryMode *)
  Variable own : bool.         (* defaultOwnership names an owner or a group *)
  Variable fixed : bool.       (* createSymbolicLink as repaired (true) or as it is (false) *)

  Let Q : env := quiet E.

  (* select { case <-t.cancelled: ... default: } *)
  Definition cancelled (s : tstate) : bool := cancelled_at E (x_calls (tx s)).

  (* nameExistsInDirectoryWithProperCase (recomposeUnicode = false) *)
  Definition name_exists (h : path) (n : name) : M bool :=
    tbind (run (liftF (read_names Q h))) (fun names => tret (existsb (String.eqb n) names)).

  Fixpoint walk_comps (h : path) (comps : list name) : M path :=
    match comps with
    | [] => tret h
    | c :: rest =>
      tbind (name_exists h c) (fun found =>
        if negb found then terr ENOENT else
        tbind (run (liftF (open_dir Q h c))) (fun h' => walk_comps h' rest))
    end.

  (* walkToParentAndComputeLeafName: (handle of the parent, leaf name) *)
  Definition walk (p : path) (validate : bool) : M (path * name) :=
    match p with
    | [] =>
      tbind (run (liftF (open_root Q []))) (fun ro =>
        match ro with
        | RootDir _ => tret ([], rn)
        | RootFile _ => terr ENOTDIR
        end)
    | _ =>
      let parent := removelast p in
      let leaf := last p "" in
      tbind (run (liftF (open_root Q [rn]))) (fun ro =>
        match ro with
        | RootFile _ => terr ENOTDIR
        | RootDir _ =>
          tbind (walk_comps [rn] parent) (fun h =>
            if validate then
              tbind (name_exists h leaf) (fun found =>
                if found then tret (h, leaf) else terr ENOENT)
            else tret (h, leaf))
        end)
    end.

  (* ensureExpectedFile *)
  Definition ensure_expected_file (h : path) (n : name) (p : path) (expected : entry) : M unit :=
    match cache_get ch p with
    | None => terr ENOENT
    | Some ce =>
      tbind (run (liftF (read_meta Q h n))) (fun md =>
        if meta_match md ce (entry_digest expected) then tret tt else terr EINVAL)
    end.

  (* ensureExpectedSymbolicLink *)
  Definition ensure_expected_link (h : path) (n : name) (p : path) (expected : entry) : M unit :=
    tbind (run (liftF (read_link Q h n))) (fun t =>
      let nt := match slm with SLPortable => norm p t | _ => Some t end in
      match nt with
      | None => terr EINVAL
      | Some t' => if String.eqb t' (entry_target expected) then tret tt else terr EINVAL
      end).

  (* removeFile *)
  Definition remove_file (h : path) (n : name) (p : path) (expected : entry) : M unit :=
    tbind (ensure_expected_file h n p expected) (fun _ => run (liftF (unlink Q h n))).

  (* removeSymbolicLink *)
  Definition remove_link (h : path) (n : name) (p : path) (expected : entry) : M unit :=
    if slmode_eqb slm SLIgnore then terr EINVAL else
    tbind (ensure_expected_link h n p expected) (fun _ => run (liftF (unlink Q h n))).

  (* the three flags of removeDirectory's content loop *)
  Record rflags := { f_cancel : bool; f_unknown : bool; f_failed : bool }.
  Definition no_flags : rflags := {| f_cancel := false; f_unknown := false; f_failed := false |}.
  Definition fl_cancel (f : rflags) :=
    {| f_cancel := true; f_unknown := f_unknown f; f_failed := f_failed f |}.
  Definition fl_unknown (f : rflags) :=
    {| f_cancel := f_cancel f; f_unknown := true; f_failed := f_failed f |}.
  Definition fl_failed (f : rflags) :=
    {| f_cancel := f_cancel f; f_unknown := f_unknown f; f_failed := true |}.

  (* removeDirectory's ContentLoop over the on-disk names; [rec] removes a
     child directory; [ec] is expected.Contents, reduced as content goes *)
  Fixpoint remove_loop
           (rec : path -> name -> path -> list (name * entry) -> tstate
                  -> tstate * bool * list (name * entry))
           (d : path) (p : path) (names : list name) (ec : list (name * entry))
           (s : tstate) (fl : rflags) {struct names}
    : tstate * rflags * list (name * entry) :=
    match names with
    | [] => (s, fl, ec)
    | n :: rest =>
      if cancelled s then (problem_at p PK_CANCELLED s, fl_cancel fl, ec) else
      let cp := (p ++ [n])%list in
      match lookup n ec with
      | None =>
        remove_loop rec d p rest ec (problem_at cp PK_UNKNOWN_CONTENT s) (fl_unknown fl)
      | Some (EDir ec1) =>
        let '(s1, ok, ec1') := rec d n cp ec1 s in
        if ok then remove_loop rec d p rest (set_child n None ec) s1 fl
        else remove_loop rec d p rest (set_child n (Some (EDir ec1')) ec) s1 (fl_failed fl)
      | Some (EFile x dg) =>
        let '(s1, r) := remove_file d n cp (EFile x dg) s in
        match r with
        | ROk _ => remove_loop rec d p rest (set_child n None ec) s1 fl
        | _ => remove_loop rec d p rest ec (problem_at cp PK_REMOVE_FILE s1) (fl_failed fl)
        end
      | Some (ELink t) =>
        let '(s1, r) := remove_link d n cp (ELink t) s in
        match r with
        | ROk _ => remove_loop rec d p rest (set_child n None ec) s1 fl
        | _ => remove_loop rec d p rest ec (problem_at cp PK_REMOVE_LINK s1) (fl_failed fl)
        end
      | Some _ =>
        remove_loop rec d p rest ec (problem_at cp PK_REMOVE_TYPE s) (fl_failed fl)
      end
    end.

  (* Directory.ReadContentNames never reports "." or ".." *)
  Definition listed (k : name) : bool := negb (String.eqb k ".") && negb (String.eqb k "..").

  (* removeDirectory: (state, removed?, what remains of expected.Contents) *)
  Fixpoint remove_dir_f (fuel : nat) (h : path) (n : name) (p : path)
           (ec : list (name * entry)) (s : tstate) {struct fuel}
    : tstate * bool * list (name * entry) :=
    match fuel with
    | O => (problem_at p PK_FUEL s, false, ec)
    | S fuel' =>
      let '(s1, r1) := run (liftF (open_dir Q h n)) s in
      match r1 with
      | ROk d =>
        let '(s2, r2) := run (liftF (read_contents Q d)) s1 in
        match r2 with
        | ROk mds =>
          let '(s3, fl, ec') :=
            remove_loop (remove_dir_f fuel') d p (filter listed (map md_name mds)) ec s2 no_flags in
          let ec'' := if negb (f_cancel fl) && negb (f_failed fl) then [] else ec' in
          if negb (f_cancel fl) && negb (f_unknown fl) && negb (f_failed fl) then
            let '(s4, r4) := run (liftF (rmdir Q h n)) s3 in
            match r4 with
            | ROk _ => (s4, true, ec'')
            | _ => (problem_at p PK_REMOVE_DIR s4, false, ec'')
            end
          else (s3, false, ec'')
        | _ => (problem_at p PK_READ_DIR s2, false, ec)
        end
      | _ => (problem_at p PK_OPEN_DIR s1, false, ec)
      end
    end.

  (* remove: what remains *)
  Definition remove (p : path) (e : oentry) (s : tstate) : tstate * oentry :=
    match e with
    | None => (s, None)
    | Some e0 =>
      let '(s1, r) := walk p true s in
      match r with
      | ROk (h, n) =>
        match e0 with
        | EDir ec =>
          let '(s2, ok, ec') := remove_dir_f (depth_entry e0) h n p ec s1 in
          if ok then (s2, None) else (s2, Some (EDir ec'))
        | EFile _ _ =>
          let '(s2, r2) := remove_file h n p e0 s1 in
          match r2 with
          | ROk _ => (s2, None)
          | _ => (problem_at p PK_REMOVE_FILE s2, Some e0)
          end
        | ELink _ =>
          let '(s2, r2) := remove_link h n p e0 s1 in
          match r2 with
          | ROk _ => (s2, None)
          | _ => (problem_at p PK_REMOVE_LINK s2, Some e0)
          end
        | _ => (problem_at p PK_REMOVAL_TYPE s1, Some e0)
        end
      | _ => (problem_at p PK_WALK_REMOVE s1, Some e0)
      end
    end.

  Definition file_mode (target : entry) : N :=
    if entry_exec target then mark_exec dfm else dfm.

  (* parent.RemoveFile(temporaryName), error ignored *)
  Definition drop_temp {A : Type} (h : path) (tn : name) (r : result A) (s : tstate)
    : tstate * result unit :=
    let '(s', _) := run (liftF (unlink Q h tn)) s in
    (s', match r with RErr e => RErr e | _ => RCancelled end).

  (* the cross-device branch of findAndMoveStagedFileIntoPlace *)
  Definition move_fallback (k : skey) (mode : N) (h : path) (n : name) (replace : bool)
    : M unit :=
    fun s =>
    let '(s3, r3) := run (stage_open Q k) s in
    match r3 with
    | ROk obj =>
      let '(s4, r4) := run (liftF (create_temp Q h xdev_pattern)) s3 in
      match r4 with
      | ROk tn =>
        let '(s5, r5) :=
          run (xbind (stage_read Q obj) (fun data => liftF (write_file Q h tn data))) s4 in
        match r5 with
        | ROk _ =>
          let '(s6, r6) := run (liftF (set_permissions Q h tn own mode)) s5 in
          match r6 with
          | ROk _ =>
            let '(s7, r7) := run (liftF (rename_local Q h tn n replace)) s6 in
            match r7 with
            | ROk _ => let '(s8, _) := run (stage_remove Q k) s7 in (s8, ROk tt)
            | r => drop_temp h tn r s7
            end
          | r => drop_temp h tn r s6
          end
        | r => drop_temp h tn r s5
        end
      | RErr e => (s4, RErr e)
      | RCancelled => (s4, RCancelled)
      end
    | r => (note_missing r s3, match r with RErr e => RErr e | _ => RCancelled end)
    end.

  (* findAndMoveStagedFileIntoPlace *)
  Definition find_and_move (p : path) (target : entry) (h : path) (n : name) (replace : bool)
    : M unit :=
    fun s =>
    let mode := file_mode target in
    let k : skey := (p, entry_digest target) in
    let '(s1, r1) := run (stage_set_permissions Q k own mode) s in
    match r1 with
    | ROk _ =>
      let '(s2, r2) := run (rename_in Q k h n replace) s1 in
      match r2 with
      | ROk _ => (s2, ROk tt)
      | RErr e =>
        if is_cross_device e then move_fallback k mode h n replace s2
        else (note_missing r2 s2, RErr e)
      | RCancelled => (s2, RCancelled)
      end
    | r => (note_missing r s1, r)
    end.

  (* swapFile *)
  Definition swap_file (p : path) (old new : entry) : M unit :=
    tbind (walk p true) (fun hn =>
      let '(h, n) := hn in
      tbind (ensure_expected_file h n p old) (fun _ =>
        if String.eqb (entry_digest old) (entry_digest new) then
          run (liftF (set_permissions Q h n own (file_mode new)))
        else find_and_move p new h n true)).

  (* createFile *)
  Definition create_file (h : path) (n : name) (p : path) (target : entry) : M unit :=
    find_and_move p target h n false.

  (* createSymbolicLink (runtime.GOOS = "linux": permission bits are not set).
     As it is ([fixed] = false) a failure of SetPermissions is returned as the
     failure of the whole creation although the link exists; as repaired
     ([fixed] = true) the link is reported as created and the failure is
     recorded as a problem, the way createDirectory treats its own
     SetPermissions failure. *)
  Definition create_link (h : path) (n : name) (p : path) (target : entry) : M unit :=
    let t := entry_target target in
    if slmode_eqb slm SLIgnore then terr EINVAL else
    if slmode_eqb slm SLPortable &&
       negb (match norm p t with Some t' => String.eqb t' t | None => false end)
    then terr EINVAL else
    tbind (run (liftF (symlink Q h n t))) (fun _ s1 =>
      let '(s2, r2) := run (liftF (set_permissions Q h n own 0)) s1 in
      match r2 with
      | ROk _ => (s2, ROk tt)
      | _ => if fixed then (problem_at p PK_LINK_PERMS s2, ROk tt) else (s2, r2)
      end).

  (* createDirectory's ContentLoop over target.Contents *)
  Fixpoint create_loop
           (rec : path -> name -> path -> list (name * entry) -> tstate
                  -> tstate * option (list (name * entry)))
           (d : path) (p : path) (tc : list (name * entry)) (created : list (name * entry))
           (s : tstate) {struct tc} : tstate * list (name * entry) :=
    match tc with
    | [] => (s, created)
    | (n, e) :: rest =>
      if cancelled s then (problem_at p PK_CANCELLED s, created) else
      let cp := (p ++ [n])%list in
      match e with
      | EDir tc1 =>
        let '(s1, r) := rec d n cp tc1 s in
        match r with
        | Some cr => create_loop rec d p rest (set_child n (Some (EDir cr)) created) s1
        | None => create_loop rec d p rest created s1
        end
      | EFile _ _ =>
        let '(s1, r) := create_file d n cp e s in
        match r with
        | ROk _ => create_loop rec d p rest (set_child n (Some e) created) s1
        | _ => create_loop rec d p rest created (problem_at cp PK_CREATE_FILE s1)
        end
      | ELink _ =>
        let '(s1, r) := create_link d n cp e s in
        match r with
        | ROk _ => create_loop rec d p rest (set_child n (Some e) created) s1
        | _ => create_loop rec d p rest created (problem_at cp PK_CREATE_LINK s1)
        end
      | _ => create_loop rec d p rest created (problem_at cp PK_CREATE_TYPE s)
      end
    end.

  (* createDirectory: None = nothing was created, Some c = created.Contents *)
  Fixpoint create_dir_f (fuel : nat) (h : path) (n : name) (p : path)
           (tc : list (name * entry)) (s : tstate) {struct fuel}
    : tstate * option (list (name * entry)) :=
    match fuel with
    | O => (problem_at p PK_FUEL s, None)
    | S fuel' =>
      let '(s1, r1) := run (liftF (mkdir Q h n)) s in
      match r1 with
      | ROk _ =>
        let '(s2, r2) := run (liftF (set_permissions Q h n own ddm)) s1 in
        match r2 with
        | ROk _ =>
          match tc with
          | [] => (s2, Some [])
          | _ =>
            let '(s3, r3) := run (liftF (open_dir Q h n)) s2 in
            match r3 with
            | ROk d =>
              let '(s4, cr) := create_loop (create_dir_f fuel') d p tc [] s3 in
              (s4, Some cr)
            | _ => (problem_at p PK_OPEN_NEW_DIR s3, Some [])
            end
          end
        | _ => (problem_at p PK_DIR_PERMS s2, Some [])
        end
      | _ => (problem_at p PK_CREATE_DIR s1, None)
      end
    end.

  (* create: what was created *)
  Definition create (p : path) (target : oentry) (s : tstate) : tstate * oentry :=
    match target with
    | None => (s, None)
    | Some e0 =>
      let '(s1, r) := walk p false s in
      match r with
      | ROk (h, n) =>
        match e0 with
        | EDir tc =>
          let '(s2, r2) := create_dir_f (depth_entry e0) h n p tc s1 in
          (s2, option_map EDir r2)
        | EFile _ _ =>
          let '(s2, r2) := create_file h n p e0 s1 in
          match r2 with
          | ROk _ => (s2, Some e0)
          | _ => (problem_at p PK_CREATE_FILE s2, None)
          end
        | ELink _ =>
          let '(s2, r2) := create_link h n p e0 s1 in
          match r2 with
          | ROk _ => (s2, Some e0)
          | _ => (problem_at p PK_CREATE_LINK s2, None)
          end
        | _ => (problem_at p PK_CREATE_TYPE s1, None)
        end
      | _ => (problem_at p PK_WALK_CREATE s1, None)
      end
    end.

  (* one iteration of Transition's loop *)
  Definition trans_one (c : change) (s : tstate) : tstate * oentry :=
    if cancelled s then (problem_at (cpath c) PK_CANCELLED s, cold c) else
    match cold c, cnew c with
    | Some (EFile xo dgo), Some (EFile xn dgn) =>
      let '(s1, r) := swap_file (cpath c) (EFile xo dgo) (EFile xn dgn) s in
      match r with
      | ROk _ => (s1, cnew c)
      | _ => (problem_at (cpath c) PK_SWAP s1, cold c)
      end
    | _, _ =>
      let '(s1, r) := remove (cpath c) (cold c) s in
      match r with
      | Some _ => (s1, r)
      | None => create (cpath c) (cnew c) s1
      end
    end.

  Fixpoint trans_loop (plan : list change) (s : tstate) : tstate * list oentry :=
    match plan with
    | [] => (s, [])
    | c :: rest =>
      let '(s1, r) := trans_one c s in
      let '(s2, rs) := trans_loop rest s1 in
      (s2, r :: rs)
    end.

  Definition init_state (t : node) (st : store) : tstate :=
    {| tx := {| x_fs := t; x_calls := 0; x_stg := st |}; tprobs := []; tmiss := false |}.

  (* core.Transition *)
  Definition transition (t : node) (st : store) (plan : list change) : tstate * list oentry :=
    trans_loop plan (init_state t st).

End Transition.

(* ---------- what a scan reports (restricted to synchronizable content) ---------- *)
Section Describe.
  Variable H : string -> string.          (* the content hash *)
  Variable norm : path -> string -> option string.
  Variable nameok : name -> bool.         (* the name is valid UTF-8 *)
  Variable slm : slmode.

  (* names a scan never reports as synchronizable content: Mutagen's own
     temporary files (skipped), non-UTF-8 names (problematic), and "." / ".."
     (never part of a directory listing) *)
  Definition skip (n : name) : bool :=
    String.prefix tmp_prefix n || negb (nameok n) || negb (listed n).

  (* The entry core.Scan (no ignores, POSIX, portable permissions on a
     filesystem that preserves executability, one device) reports for the
     node [x] at root-relative path [p], after Entry.synchronizable(). *)
  Fixpoint describe (p : path) (x : node) : oentry :=
    let fix go (l : list (name * node)) : list (name * entry) :=
      match l with
      | [] => []
      | (n, y) :: t =>
        if skip n then go t else
        match describe (p ++ [n])%list y with
        | Some e => (n, e) :: go t
        | None => go t
        end
      end in
    match x with
    | NDir _ c => Some (EDir (go c))
    | NFile m d => Some (EFile (any_exec (m_mode m)) (H d))
    | NLink _ t =>
      match slm with
      | SLIgnore => None
      | SLPortable => option_map ELink (norm p t)
      | SLRaw => if String.eqb t "" then None else Some (ELink t)
      end
    | NOther _ _ => None
    end.

  Definition odescribe (p : path) (x : option node) : oentry :=
    match x with Some y => describe p y | None => None end.
End Describe.
