(* Executable checkers for C08 and C09 (definitions only).  They are applied to
   the observable outputs of the IMPLEMENTATION (walk of the disk before and
   after core.Transition, returned results and problems) and, in the theorems,
   to the outputs of the model. *)
From Coq Require Import List Bool Arith String Ascii NArith.
From Mv Require Import Model.Entry Model.Fs Model.FsExt Model.Transition.
Import ListNotations.
Open Scope string_scope.

(* ---------- equality of filesystem trees ---------- *)
Definition meta_eqb (a b : meta) : bool :=
  N.eqb (m_mode a) (m_mode b) && N.eqb (m_size a) (m_size b) &&
  N.eqb (m_mtime a) (m_mtime b) && N.eqb (m_fid a) (m_fid b) && N.eqb (m_dev a) (m_dev b).

(* byte-for-byte: type, all metadata, content, children *)
Fixpoint node_eqb (a b : node) {struct a} : bool :=
  let fix list_eqb (x y : list (name * node)) {struct x} : bool :=
    match x, y with
    | [], [] => true
    | (n, e) :: x', (m, f) :: y' => String.eqb n m && node_eqb e f && list_eqb x' y'
    | _, _ => false
    end in
  match a, b with
  | NDir m c, NDir m' c' => meta_eqb m m' && list_eqb c c'
  | NFile m d, NFile m' d' => meta_eqb m m' && String.eqb d d'
  | NLink m t, NLink m' t' => meta_eqb m m' && String.eqb t t'
  | NOther m ty, NOther m' ty' => meta_eqb m m' && N.eqb ty ty'
  | _, _ => false
  end.

Definition onode_eqb (a b : option node) : bool :=
  match a, b with
  | None, None => true
  | Some x, Some y => node_eqb x y
  | _, _ => false
  end.

(* ---------- C09 ---------- *)
Section Check09.
  Variable H : string -> string.
  Variable norm : path -> string -> option string.
  Variable nameok : name -> bool.
  Variable slm : slmode.
  Variable rn : name.

  (* the scan-level description of what lies at the root-relative path p *)
  Definition described (t : node) (p : path) : oentry :=
    odescribe H norm nameok slm p (get (rn :: p) t).

  (* results[i] describes the disk at plan[i].path, and there is one result per
     transition *)
  Definition check_c09 (plan : list change) (post : node) (results : list oentry) : bool :=
    Nat.eqb (List.length results) (List.length plan) &&
    forallb (fun cr => oentry_eqb (described post (cpath (fst cr))) (snd cr))
            (combine plan results).

  (* the premise of C09: before the transition the disk is what the plan
     believes it to be (nothing was edited after the scan) *)
  Definition pre_described (pre : node) (plan : list change) : bool :=
    forallb (fun c => oentry_eqb (described pre (cpath c)) (cold c)) plan.
End Check09.

(* plans as produced by reconciliation: no path is a prefix of another *)
Fixpoint paths_disjoint (ps : list path) : bool :=
  match ps with
  | [] => true
  | p :: t => forallb (fun q => negb (is_prefix p q) && negb (is_prefix q p)) t
              && paths_disjoint t
  end.

(* ---------- C08 ---------- *)
Section Check08.
  Variable norm : path -> string -> option string.
  Variable slm : slmode.
  Variable rn : name.
  Variable ch : cache.

  (* the five-way match of ensureExpectedFile, as a predicate on the node *)
  Definition file_ok (x : node) (p : path) (digest : string) : bool :=
    match cache_get ch p with
    | None => false
    | Some ce => meta_match (metadata_of "" x) ce digest
    end.

  (* ensureExpectedSymbolicLink *)
  Definition link_ok (x : node) (p : path) (target : string) : bool :=
    match x with
    | NLink _ t =>
      match slm with
      | SLIgnore => false
      | SLPortable => match norm p t with
                      | Some t' => String.eqb t' target
                      | None => false
                      end
      | SLRaw => String.eqb t target
      end
    | _ => false
    end.

  Variable pre post : node.
  Variable problems : list problem.

  (* the node at p is byte-for-byte what it was *)
  Definition untouched (p : path) : bool :=
    onode_eqb (get (rn :: p) post) (get (rn :: p) pre).

  (* a problem was recorded at p or, when the transition stopped before it got
     to p, at an ancestor of p not above the transition's own path [top] *)
  Definition reported (top p : path) : bool :=
    existsb (fun pr => is_prefix top (fst pr) && is_prefix (fst pr) p) problems.

  Definition kept (top p : path) : bool := untouched p && reported top p.

  (* every name on disk that the expected directory does not list is kept *)
  Definition unknown_children_kept (top p : path) (cs : list (name * node))
             (ec : list (name * entry)) : bool :=
    forallb (fun ny => match lookup (fst ny) ec with
                       | Some _ => true
                       | None => kept top (p ++ [fst ny])%list
                       end) cs.

  (* walk the old entry of one transition against the disk before it *)
  Fixpoint guard_entry (top p : path) (e : entry) {struct e} : bool :=
    let fix go (l : list (name * entry)) : bool :=
      match l with
      | [] => true
      | (n, e') :: t => guard_entry top (p ++ [n])%list e' && go t
      end in
    match get (rn :: p) pre with
    | None => true
    | Some x =>
      match e with
      | EFile _ d => if file_ok x p d then true else kept top p
      | ELink t => if link_ok x p t then true else kept top p
      | EDir ec =>
        match x with
        | NDir _ cs => unknown_children_kept top p cs ec && go ec
        | _ => kept top p
        end
      | _ => true
      end
    end.

  Definition check_c08 (plan : list change) : bool :=
    forallb (fun c => match cold c with
                      | None => true
                      | Some e => guard_entry (cpath c) (cpath c) e
                      end) plan.
End Check08.

(* ---------- the statements of C08 / C09 as propositions ---------- *)

(* what the old entry e of a transition expects at the position q below the
   transition's path (removal only descends through directories) *)
Fixpoint expect_at (e : entry) (q : path) : oentry :=
  match q with
  | [] => Some e
  | k :: q' =>
    match e with
    | EDir ec => match lookup k ec with
                 | Some e' => expect_at e' q'
                 | None => None
                 end
    | _ => None
    end
  end.

(* no path of the plan is a prefix of the path of another transition *)
Definition plan_disjoint (plan : list change) : Prop :=
  forall c1 c2, In c1 plan -> In c2 plan -> is_prefix (cpath c1) (cpath c2) = true -> c1 = c2.

(* names a directory listing can contain and a path can be made of *)
Definition listed_name (k : name) : bool := negb (String.eqb k ".") && negb (String.eqb k "..").

(* a problem recorded at a path between top and top ++ q *)
Definition problem_between (problems : list problem) (top q : path) : Prop :=
  exists q1 k, is_prefix q1 q = true /\ In ((top ++ q1)%list, k) problems.

(* ---------- the known-finding class of C09 ---------- *)
(* createSymbolicLink reports a failure when SetPermissions fails AFTER the
   link has been created; on Linux SetPermissions issues a call for a link
   only when an ownership is configured. *)
Fixpoint has_link (e : entry) : bool :=
  let fix go (l : list (name * entry)) : bool :=
    match l with
    | [] => false
    | (_, x) :: t => has_link x || go t
    end in
  match e with
  | ELink _ => true
  | EDir c | EPhantom c => go c
  | _ => false
  end.

Definition creates_link (c : change) : bool :=
  match cnew c with Some e => has_link e | None => false end.

Definition known_c09 (own : bool) (plan : list change) : bool :=
  own && existsb creates_link plan.

(* every name occurring in an entry satisfies f *)
Fixpoint entry_names (f : name -> bool) (e : entry) : bool :=
  let fix go (l : list (name * entry)) : bool :=
    match l with
    | [] => true
    | (n, x) :: t => f n && entry_names f x && go t
    end in
  match e with
  | EDir c | EPhantom c => go c
  | _ => true
  end.

(* ---------- C03 on disk: content synchronization does not track ---------- *)
(* Content the plan knows nothing about -- something sitting at the path of a
   planned creation, or a name inside a directory the plan removes that the
   expected entry does not list -- must be exactly what it was afterwards. *)
Section Check03.
  Variable rn : name.
  Variable pre post : node.

  Definition untouched3 (p : path) : bool :=
    onode_eqb (get (rn :: p) post) (get (rn :: p) pre).

  (* unknown children of expected directories, at any depth *)
  Fixpoint guard_unknown (p : path) (e : entry) {struct e} : bool :=
    let fix go (l : list (name * entry)) : bool :=
      match l with
      | [] => true
      | (n, e') :: t => guard_unknown (p ++ [n])%list e' && go t
      end in
    match e with
    | EDir ec =>
      match get (rn :: p) pre with
      | Some (NDir _ cs) =>
        forallb (fun ny => match lookup (fst ny) ec with
                           | Some _ => true
                           | None => untouched3 (p ++ [fst ny])%list
                           end) cs && go ec
      | _ => true
      end
    | _ => true
    end.

  Definition check_c03_disk (plan : list change) : bool :=
    forallb (fun c => match cold c with
                      | None =>   (* whatever occupies a creation target *)
                        match get (rn :: cpath c) pre with
                        | Some _ => untouched3 (cpath c)
                        | None => true
                        end
                      | Some e => guard_unknown (cpath c) e
                      end) plan.
End Check03.
