(* Model of pkg/url: parse.go, parse_ssh.go, parse_docker.go, parse_local.go,
   format.go, paths.go, url.go (EnsureValid), forwarding/parse.go and
   forwarding/protocol.go (POSIX build). Definitions only.

   A Go string is a [list byte]. The Go loops range over runes but compare
   only with ASCII characters and use the byte index, so they are byte loops.

   [fixes] selects, per defect, between the code as it is in the repository
   (false) and the proposed repair (true):
     fx_port0  formatSSH prints a port of zero when leaving it out would change
               how the text is parsed: the path begins with digits and ':'
               (it would be read as a port), or the text without the port
               would be taken for a Docker URL (C38); parsing is unchanged
     fx_duser  parseDocker: an empty user name before '@' is rejected, as
               parseSCPSSH already does (C38)
     fx_dash   parseSCPSSH, parseDocker and EnsureValid reject a user, host or
               container name that begins with '-' (C36)

   The outside world: [normalize] is filesystem.Normalize (tilde expansion,
   filepath.Abs); the Docker environment variables captured at parse time are
   the argument [env] of [parse]. *)
From Coq Require Import List Bool Arith NArith String.
From Coq.Strings Require Import Byte.
Import ListNotations.
From Mv Require Import Common.Str.
Open Scope N_scope.

Record fixes := { fx_port0 : bool; fx_duser : bool; fx_dash : bool }.
Definition unfixed : fixes := {| fx_port0 := false; fx_duser := false; fx_dash := false |}.
Definition fixed_all : fixes := {| fx_port0 := true; fx_duser := true; fx_dash := true |}.

Inductive kind := KSync | KFwd.                 (* Kind_Synchronization, Kind_Forwarding *)
Inductive protocol := PLocal | PSSH | PDocker.  (* Protocol_Local, _SSH, _Docker *)

Record url := {
  u_kind : kind;
  u_proto : protocol;
  u_user : str;
  u_host : str;
  u_port : N;                      (* uint32 *)
  u_path : str;
  u_env : list (str * str);        (* Environment: present variables, in the order of DockerEnvironmentVariables *)
  u_params : list (str * str)      (* Parameters, in the order of dockerParameterNames *)
}.

Inductive perr :=
| EEmptyURL        (* "empty URL" *)
| EEmptyUser       (* "empty username specified" *)
| EEmptyHost       (* "empty hostname" *)
| ENoHost          (* "no hostname present" *)
| EInvalidPort     (* "invalid port value specified" *)
| EEmptyPath       (* "empty path" *)
| EInvalidFwd      (* "invalid forwarding endpoint URL: ..." *)
| EEmptyContainer  (* "empty container name" *)
| ENormalize       (* "unable to normalize path: ..." / "... socket path: ..." *)
| EDash.           (* repair only: component begins with '-' *)

(* ---------- small string functions ---------- *)

Definition c_at : byte := "@"%byte.
Definition c_tilde : byte := "~"%byte.
Definition c_dash : byte := "-"%byte.

Definition byte_is (c x : byte) : bool := Byte.eqb x c.

(* the text before the first byte that satisfies [p], and the rest starting
   at that byte (empty if there is none) *)
Fixpoint break_at (p : byte -> bool) (s : str) : str * str :=
  match s with
  | [] => ([], [])
  | x :: t => if p x then ([], s)
              else let '(a, b) := break_at p t in (x :: a, b)
  end.

(* the stop conditions of the scanning loops *)
Definition is_sep_or_at (sep : byte) (x : byte) : bool := Byte.eqb x sep || Byte.eqb x c_at.

Definition is_digit (x : byte) : bool :=
  let n := Byte.to_N x in (48 <=? n) && (n <=? 57).

Definition non_digit (x : byte) : bool := negb (is_digit x).

Definition is_letter (x : byte) : bool :=
  let n := Byte.to_N x in ((97 <=? n) && (n <=? 122)) || ((65 <=? n) && (n <=? 90)).

Definition starts_with_dash (s : str) : bool :=
  match s with x :: _ => Byte.eqb x c_dash | [] => false end.

Fixpoint has_str_prefix (p s : str) : bool :=
  match p, s with
  | [], _ => true
  | x :: p', y :: s' => Byte.eqb x y && has_str_prefix p' s'
  | _ :: _, [] => false
  end.

(* isWindowsPath *)
Definition is_windows_path (s : str) : bool :=
  match s with
  | a :: b :: c :: _ => is_letter a && Byte.eqb b c_colon && (Byte.eqb c c_bslash || Byte.eqb c c_slash)
  | _ => false
  end.

(* filepath.IsAbs on POSIX *)
Definition is_abs (s : str) : bool :=
  match s with x :: _ => Byte.eqb x c_slash | [] => false end.

(* strconv.ParseUint(digits, 10, 16) on a string of decimal digits: the empty
   string and values above 65535 are errors *)
Definition digit_val (x : byte) : N := Byte.to_N x - 48.
Definition dec_value (ds : str) : N := fold_left (fun acc x => acc * 10 + digit_val x) ds 0.
Definition parse_uint16 (ds : str) : option N :=
  match ds with
  | [] => None
  | _ => let v := dec_value ds in if v <=? 65535 then Some v else None
  end.

(* fmt.Sprintf("%d", n) *)
Definition digit_byte (d : N) : byte :=
  match Byte.of_N (48 + d) with Some b => b | None => "0"%byte end.
Fixpoint dec_digits (fuel : nat) (n : N) (acc : str) : str :=
  match fuel with
  | O => acc
  | S f => let acc' := digit_byte (n mod 10) :: acc in
           let q := n / 10 in
           if q =? 0 then acc' else dec_digits f q acc'
  end.
Definition N_to_dec (n : N) : str := dec_digits 40 n [].

(* ---------- forwarding.IsValidProtocol, forwarding.Parse ---------- *)

Definition s_tcp : str := Eval vm_compute in B "tcp".
Definition s_tcp4 : str := Eval vm_compute in B "tcp4".
Definition s_tcp6 : str := Eval vm_compute in B "tcp6".
Definition s_unix : str := Eval vm_compute in B "unix".
Definition s_npipe : str := Eval vm_compute in B "npipe".

Definition fwd_valid_protocol (p : str) : bool :=
  str_eqb p s_tcp || str_eqb p s_tcp4 || str_eqb p s_tcp6 || str_eqb p s_unix || str_eqb p s_npipe.

(* Some (protocol, address) or None for any error *)
Definition fwd_parse (s : str) : option (str * str) :=
  match s with
  | [] => None
  | _ =>
      match break_at (byte_is c_colon) s with
      | (_, []) => None                                  (* no colon: one component *)
      | (proto, _ :: addr) =>
          if negb (fwd_valid_protocol proto) then None
          else match addr with [] => None | _ => Some (proto, addr) end
      end
  end.

(* ---------- classification (parse.go, isDockerURL, isSCPSSHURL) ---------- *)

(* strings.ToLower restricted to what can matter for a comparison with an
   ASCII pattern without 'i': ASCII upper case is lowered, the Kelvin sign
   U+212A (E2 84 AA) lowers to 'k', every other byte is kept. *)
Definition lower_ascii (x : byte) : byte :=
  let n := Byte.to_N x in
  if (65 <=? n) && (n <=? 90)
  then match Byte.of_N (n + 32) with Some b => b | None => x end
  else x.

Definition xE2 : byte := Byte.xe2.
Definition x84 : byte := Byte.x84.
Definition xAA : byte := Byte.xaa.

Fixpoint to_lower (fuel : nat) (s : str) : str :=
  match fuel with
  | O => []
  | S f =>
      match s with
      | [] => []
      | a :: t =>
          match t with
          | b :: c :: t' =>
              if Byte.eqb a xE2 && Byte.eqb b x84 && Byte.eqb c xAA
              then "k"%byte :: to_lower f t'
              else lower_ascii a :: to_lower f t
          | _ => lower_ascii a :: to_lower f t
          end
      end
  end.

Definition docker_prefix : str := Eval vm_compute in B "docker://".

(* strings.HasPrefix(strings.ToLower(raw), "docker://"); only the first nine
   bytes of the lowered string matter and they come from at most 27 bytes *)
Definition is_docker_url (raw : str) : bool :=
  has_str_prefix docker_prefix (to_lower 9 raw).

(* is there a ':' before any '/' *)
Fixpoint colon_before_slash (s : str) : bool :=
  match s with
  | [] => false
  | x :: t => if Byte.eqb x c_colon then true
              else if Byte.eqb x c_slash then false
              else colon_before_slash t
  end.

Definition is_scp_ssh_url (raw : str) (k : kind) : bool :=
  match k with
  | KSync => colon_before_slash raw
  | KFwd => match fwd_parse raw with
            | Some _ => false
            | None => Nat.leb 2 (count c_colon raw)
            end
  end.

(* ---------- parseSCPSSH ---------- *)

(* first loop: the user name is the text before an '@' that comes before any
   ':'; returns (user, remaining text) *)
Definition ssh_user_step (raw : str) : perr + (str * str) :=
  match break_at (is_sep_or_at c_colon) raw with
  | (pre, x :: after) =>
      if Byte.eqb x c_at
      then match pre with [] => inl EEmptyUser | _ => inr (pre, after) end
      else inr ([], raw)
  | (_, []) => inr ([], raw)
  end.

(* second loop: the host name is the text before the next ':' *)
Definition ssh_host_step (raw1 : str) : perr + (str * str) :=
  match break_at (byte_is c_colon) raw1 with
  | (_, []) => inl ENoHost
  | ([], _ :: _) => inl EEmptyHost
  | (host, _ :: raw2) => inr (host, raw2)
  end.

(* third loop: a run of digits followed by ':' is a port *)
Definition ssh_port_step (raw2 : str) : perr + (N * str) :=
  match break_at non_digit raw2 with
  | (digits, x :: after) =>
      if Byte.eqb x c_colon
      then match parse_uint16 digits with
           | None => inl EInvalidPort
           | Some p => inr (p, after)
           end
      else inr (0, raw2)
  | (_, []) => inr (0, raw2)
  end.

Definition path_check (k : kind) (path : str) : perr + unit :=
  match k with
  | KSync => match path with [] => inl EEmptyPath | _ => inr tt end
  | KFwd => match fwd_parse path with None => inl EInvalidFwd | Some _ => inr tt end
  end.

Definition parse_ssh (fx : fixes) (raw : str) (k : kind) : perr + url :=
  match ssh_user_step raw with
  | inl e => inl e
  | inr (user, raw1) =>
      if fx_dash fx && starts_with_dash user then inl EDash else
      match ssh_host_step raw1 with
      | inl e => inl e
      | inr (host, raw2) =>
          if fx_dash fx && starts_with_dash host then inl EDash else
          match ssh_port_step raw2 with
          | inl e => inl e
          | inr (port, path) =>
              match path_check k path with
              | inl e => inl e
              | inr _ =>
                  inr {| u_kind := k; u_proto := PSSH; u_user := user; u_host := host;
                         u_port := port; u_path := path; u_env := []; u_params := [] |}
              end
          end
      end
  end.

(* ---------- parseDocker ---------- *)

(* first loop: the user name is the text before an '@' that comes before the
   split character *)
Definition docker_user_step (fx : fixes) (split : byte) (raw0 : str) : perr + (str * str) :=
  match break_at (is_sep_or_at split) raw0 with
  | (pre, x :: after) =>
      if Byte.eqb x split then inr ([], raw0)
      else match pre with
           | [] => if fx_duser fx then inl EEmptyUser else inr ([], after)
           | _ => inr (pre, after)
           end
  | (_, []) => inr ([], raw0)
  end.

(* second loop: container = text before the split character, path = the rest
   including that character *)
Definition docker_container_step (split : byte) (raw1 : str) : perr + (str * str) :=
  match break_at (byte_is split) raw1 with
  | (_, []) => inl EEmptyContainer               (* no split character *)
  | ([], _) => inl EEmptyContainer
  | (container, path0) => inr (container, path0)
  end.

(* path processing for synchronization URLs; [path0] starts with '/' *)
Definition docker_sync_path (path0 : str) : str :=
  let path1 := match path0 with
               | _ :: (y :: _) as t => if Byte.eqb y c_tilde then t else path0
               | _ => path0
               end in
  if is_windows_path (tl path1) then tl path1 else path1.

Definition parse_docker (fx : fixes) (raw : str) (k : kind) (env : list (str * str)) : perr + url :=
  let raw0 := skipn 9 raw in                       (* raw[len(dockerURLPrefix):] *)
  let split := match k with KSync => c_slash | KFwd => c_colon end in
  match docker_user_step fx split raw0 with
  | inl e => inl e
  | inr (user, raw1) =>
      if fx_dash fx && starts_with_dash user then inl EDash else
      match docker_container_step split raw1 with
      | inl e => inl e
      | inr (container, path0) =>
          if fx_dash fx && starts_with_dash container then inl EDash else
          match k with
          | KSync =>
              inr {| u_kind := k; u_proto := PDocker; u_user := user; u_host := container;
                     u_port := 0; u_path := docker_sync_path path0; u_env := env; u_params := [] |}
          | KFwd =>
              let path1 := tl path0 in
              match fwd_parse path1 with
              | None => inl EInvalidFwd
              | Some _ =>
                  inr {| u_kind := k; u_proto := PDocker; u_user := user; u_host := container;
                         u_port := 0; u_path := path1; u_env := env; u_params := [] |}
              end
          end
      end
  end.

Section Local.
Variable normalize : str -> option str.          (* filesystem.Normalize *)

(* ---------- parseLocal ---------- *)

Definition parse_local (raw : str) (k : kind) : perr + url :=
  let mk p := inr {| u_kind := k; u_proto := PLocal; u_user := []; u_host := [];
                     u_port := 0; u_path := p; u_env := []; u_params := [] |} in
  match k with
  | KSync => match normalize raw with None => inl ENormalize | Some n => mk n end
  | KFwd =>
      match fwd_parse raw with
      | None => inl EInvalidFwd
      | Some (proto, addr) =>
          if str_eqb proto s_unix
          then match normalize addr with
               | None => inl ENormalize
               | Some n => mk (proto ++ c_colon :: n)
               end
          else mk raw
      end
  end.

(* ---------- Parse ---------- *)

Definition parse (fx : fixes) (raw : str) (k : kind) (env : list (str * str)) : perr + url :=
  match raw with
  | [] => inl EEmptyURL
  | _ => if is_docker_url raw then parse_docker fx raw k env
         else if is_scp_ssh_url raw k then parse_ssh fx raw k
         else parse_local raw k
  end.

End Local.

(* ---------- Format("") ---------- *)

(* pathBeginsWithPortLikePrefix (repair): a possibly empty run of ASCII digits
   followed by ':' -- what parseSCPSSH would read as a port specification *)
Definition port_like_prefix (path : str) : bool :=
  match break_at non_digit path with
  | (_, x :: _) => Byte.eqb x c_colon
  | (_, []) => false
  end.

Definition format_ssh (fx : fixes) (u : url) : str :=
  let r0 := u_host u in
  let r1 := match u_user u with [] => r0 | usr => usr ++ c_at :: r0 end in
  let without_port := r1 ++ c_colon :: u_path u in
  if negb (u_port u =? 0)
     || (fx_port0 fx && (port_like_prefix (u_path u) || is_docker_url without_port))
  then r1 ++ c_colon :: N_to_dec (u_port u) ++ c_colon :: u_path u
  else without_port.

Definition invalid_docker_url : str := Eval vm_compute in B "<invalid-docker-url>".

Definition format_docker (u : url) : str :=
  let r0 := u_host u in
  let r1 := match u_user u with [] => r0 | usr => usr ++ c_at :: r0 end in
  match u_kind u with
  | KSync =>
      match u_path u with
      | [] => invalid_docker_url
      | x :: _ =>
          if Byte.eqb x c_slash then docker_prefix ++ r1 ++ u_path u
          else if Byte.eqb x c_tilde || is_windows_path (u_path u)
               then docker_prefix ++ r1 ++ c_slash :: u_path u
               else invalid_docker_url
      end
  | KFwd => docker_prefix ++ r1 ++ c_colon :: u_path u
  end.

(* Format with an empty environment prefix (the reparsable form) *)
Definition format (fx : fixes) (u : url) : str :=
  match u_proto u with
  | PLocal => u_path u
  | PSSH => format_ssh fx u
  | PDocker => format_docker u
  end.

(* ---------- EnsureValid ---------- *)

Definition is_nil {A : Type} (l : list A) : bool := match l with [] => true | _ => false end.

(* extension.EnvironmentIsExtension() is taken to be false *)
Definition url_valid (fx : fixes) (u : url) : bool :=
  let head_ok :=
      match u_proto u with
      | PLocal => is_nil (u_user u) && is_nil (u_host u) && (u_port u =? 0)
                  && is_nil (u_env u) && is_nil (u_params u)
      | PSSH => negb (is_nil (u_host u)) && (u_port u <=? 65535) && is_nil (u_env u)
                && negb (fx_dash fx && (starts_with_dash (u_user u) || starts_with_dash (u_host u)))
      | PDocker => negb (is_nil (u_host u)) && (u_port u =? 0)
                   && negb (fx_dash fx && (starts_with_dash (u_user u) || starts_with_dash (u_host u)))
      end in
  let path_ok :=
      match u_kind u with
      | KSync =>
          negb (is_nil (u_path u))
          && match u_proto u with
             | PLocal => is_abs (u_path u)
             | PDocker => match u_path u with
                          | x :: _ => Byte.eqb x c_slash || Byte.eqb x c_tilde || is_windows_path (u_path u)
                          | [] => false
                          end
             | PSSH => true
             end
      | KFwd =>
          match fwd_parse (u_path u) with
          | None => false
          | Some (proto, addr) =>
              match u_proto u with
              | PLocal => negb (str_eqb proto s_unix) || is_abs addr
              | _ => true
              end
          end
      end in
  head_ok && path_ok.

(* ---------- equality (URL.Equal on the represented fields) ---------- *)

Definition kind_eqb (a b : kind) : bool :=
  match a, b with KSync, KSync | KFwd, KFwd => true | _, _ => false end.
Definition proto_eqb (a b : protocol) : bool :=
  match a, b with PLocal, PLocal | PSSH, PSSH | PDocker, PDocker => true | _, _ => false end.
Fixpoint kv_eqb (a b : list (str * str)) : bool :=
  match a, b with
  | [], [] => true
  | (k1, v1) :: a', (k2, v2) :: b' => str_eqb k1 k2 && str_eqb v1 v2 && kv_eqb a' b'
  | _, _ => false
  end.
Definition url_eqb (a b : url) : bool :=
  kind_eqb (u_kind a) (u_kind b) && proto_eqb (u_proto a) (u_proto b)
  && str_eqb (u_user a) (u_user b) && str_eqb (u_host a) (u_host b)
  && (u_port a =? u_port b) && str_eqb (u_path a) (u_path b)
  && kv_eqb (u_env a) (u_env b) && kv_eqb (u_params a) (u_params b).

Definition perr_eqb (a b : perr) : bool :=
  match a, b with
  | EEmptyURL, EEmptyURL | EEmptyUser, EEmptyUser | EEmptyHost, EEmptyHost
  | ENoHost, ENoHost | EInvalidPort, EInvalidPort | EEmptyPath, EEmptyPath
  | EInvalidFwd, EInvalidFwd | EEmptyContainer, EEmptyContainer
  | ENormalize, ENormalize | EDash, EDash => true
  | _, _ => false
  end.

Definition result_eqb (a b : perr + url) : bool :=
  match a, b with
  | inl x, inl y => perr_eqb x y
  | inr x, inr y => url_eqb x y
  | _, _ => false
  end.

(* ---------- the checker for C38 ---------- *)

(* Applied to the implementation's observed behaviour on one input:
   [out1] = Parse(raw), and when it succeeded [valid1] = (EnsureValid() == nil)
   and [out2] = Parse(Format("")) of the result. *)
Definition check_C38 (out1 : perr + url) (valid1 : bool) (out2 : perr + url) : bool :=
  match out1 with
  | inl _ => true
  | inr u => valid1 && match out2 with inr u' => url_eqb u' u | inl _ => false end
  end.
