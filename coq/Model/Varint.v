(* Unsigned varints as used by the control-stream framing (C22).
   Definitions only.

   Go sources modelled:
     google.golang.org/protobuf/encoding/protowire.AppendVarint  -> [uvarint]
     encoding/binary.ReadUvarint (MaxVarintLen64 = 10)           -> [vstep], [read_uvarint]

   Bytes are [Coq.Init.Byte.byte]; sizes and values are [N]. *)
From Coq Require Import List NArith Strings.Byte.
Import ListNotations.
Local Open Scope N_scope.

(* byte <-> number *)
Definition bval (b : byte) : N := Byte.to_N b.
Definition b8 (n : N) : byte :=
  match Byte.of_N (n mod 256) with Some b => b | None => x00 end.

(* Length of a list as an [N], with an accumulator (the harness evaluates it
   on lists of 10^6 elements; deep non-tail recursion is quadratic in the VM). *)
Fixpoint lenN_acc {A} (l : list A) (acc : N) : N :=
  match l with [] => acc | _ :: t => lenN_acc t (N.succ acc) end.
Definition lenN {A} (l : list A) : N := lenN_acc l 0.

Definition rev' {A} (l : list A) : list A := rev_append l [].

(* byte-string equality (tail calls only) *)
Fixpoint bytes_eqb (a b : list byte) : bool :=
  match a, b with
  | [], [] => true
  | x :: a', y :: b' => if Byte.eqb x y then bytes_eqb a' b' else false
  | _, _ => false
  end.

(* ---- protowire.AppendVarint ------------------------------------------- *)
(* The Go function is unrolled by size; its meaning is: emit the low seven
   bits with the continuation bit while the value is >= 0x80, then the rest.
   Ten bytes suffice for every uint64; the fuel never runs out below 2^70. *)
Fixpoint uvarint_fuel (fuel : nat) (n : N) : list byte :=
  match fuel with
  | O => []
  | S f => if n <? 128 then [b8 n]
           else b8 (n mod 128 + 128) :: uvarint_fuel f (n / 128)
  end.
Definition uvarint (n : N) : list byte := uvarint_fuel 10 n.

(* ---- encoding/binary.ReadUvarint -------------------------------------- *)
(* The loop state: accumulated value x, shift s, index i of the next byte. *)
Record vstate := { vx : N; vs : N; vi : nat }.
Definition v0 : vstate := {| vx := 0; vs := 0; vi := 0 |}.

Inductive vstep_res :=
| VCont (st : vstate)   (* continuation bit set, fewer than 10 bytes so far *)
| VDone (n : N)         (* last byte: the value *)
| VOver.                (* errOverflow: 10th byte > 1, or 10 continuation bytes *)

(* One iteration of the loop body of ReadUvarint on byte [b].
   uint64 wrap-around cannot occur: for i <= 8 the shifted seven bits stay
   below 2^63, and for i = 9 only the values 0 and 1 are accepted. *)
Definition vstep (st : vstate) (b : byte) : vstep_res :=
  let v := bval b in
  if v <? 128 then
    if andb (Nat.eqb (vi st) 9) (1 <? v) then VOver
    else VDone (N.lor (vx st) (N.shiftl v (vs st)))
  else if Nat.eqb (vi st) 9 then VOver
  else VCont {| vx := N.lor (vx st) (N.shiftl (N.land v 127) (vs st));
                vs := vs st + 7; vi := S (vi st) |}.

Inductive uv_result :=
| UvOk (n : N) (rest : list byte)
| UvShort                 (* input ended inside (or before) the varint *)
| UvOverflow.

Fixpoint read_uvarint_from (st : vstate) (l : list byte) : uv_result :=
  match l with
  | [] => UvShort
  | b :: t => match vstep st b with
              | VCont st' => read_uvarint_from st' t
              | VDone n => UvOk n t
              | VOver => UvOverflow
              end
  end.
Definition read_uvarint (l : list byte) : uv_result := read_uvarint_from v0 l.
