(* Model of poll-based watching with accelerated scanning (C42).
   Definitions only.
   Go: pkg/synchronization/endpoint/local/endpoint.go
         watchPoll (the polling loop: lock, accelerate = false, scan,
           accelerate = accelerationAllowed, unlock, compare with the previous
           polling snapshot, strobe),
         Scan (cached snapshot iff accelerate && !full, else full scan),
         Transition (lock released around core.Transition; afterwards, under
           the lock: transitionMadeChanges, accelerate = false, strobe),
         Poll (returns when the poll signal was strobed).

   An explicit transition system over atomic actions of three parties: the
   polling goroutine, the controller (Scan and Transition calls, one at a
   time: the Endpoint interface is not used concurrently), and the outside
   world (external edits, timer ticks). Everything done while the scan lock
   is held and not interleaved with a scan is one action.

   The root's content is an abstract identifier [nat] (0 = the empty snapshot
   the polling loop starts from), so that "the same content again" (an edit
   that undoes a transition) is expressible. A scan observes the root at one
   instant ([APollRead], [AScanRead]) between taking and releasing the lock.
   [transitionMadeChanges] is taken to be "core.Transition changed the disk"
   (results describe the disk exactly: C09).

   [fixed = false] is the code AS IT IS. [fixed = true] adds the proposed
   repair: Transition also sets pollNotifyForced when it made changes, and the
   next successful poll scan consumes it and strobes.

   Ghost fields (no influence on behaviour) carry what the theorems speak
   about: a step counter, the step at which the last changing Transition
   ended, and per polling window the external edits / transition changes. *)
From Coq Require Import List Bool Arith.
Import ListNotations.

Inductive owner := Free | ByPoll | ByCtrl.

(* what is known about the polling window that a poll scan closes, captured at
   the instant the scan reads the root *)
Record window := {
  wbased : bool;    (* an earlier poll scan succeeded (a baseline exists) *)
  wedits : nat;     (* content-changing external edits since that scan read the root *)
  wtchg : bool;     (* some Transition changed the root since then *)
  wtbe : bool;      (* a changing Transition ENDED in the window before its last external edit *)
  wsa : bool        (* a strobe happened after the window's last external edit (kept up to date
                       until the compare) *)
}.

Inductive ppc :=
| PWait
| PScanning (b : nat) (first : bool)
| PScanned (b : nat) (first : bool) (c : nat) (w : window)
| PCompare (c : nat) (ignore : bool) (forced : bool) (w : window).

Inductive cpc :=
| CIdle
| CScanning (b : nat) (read : option nat)
| TRunning (changed : bool).

Inductive source := SrcPoll | SrcPollFail | SrcTransition.

Inductive event :=
| EvStrobe (src : source) (at_step : nat)
| EvScanCached (c : nat) (began : nat) (last_tend : nat)   (* Scan returned the cached snapshot *)
| EvScanFull (c : nat) (began : nat)
| EvScanFail
| EvPollCompare (modified : bool) (strobed : bool).

Record snapinfo := { scontent : nat; sbegan : nat; sread : nat }.

Record st := {
  disk : nat;
  now : nat;
  snap : option snapinfo;      (* e.snapshot with the step its scan began / read the root *)
  accel : bool;                (* e.accelerate *)
  lock : owner;                (* e.scanLock *)
  pc : ppc;
  pfirst : bool;               (* watchPoll's [first] *)
  pprev : nat;                 (* watchPoll's [previous] (content) *)
  tick : bool;                 (* a timer tick is pending *)
  cc : cpc;
  forced : bool;               (* pollNotifyForced (repair only) *)
  allowed : bool;              (* accelerationAllowed (static: scan mode accelerated) *)
  (* ghost *)
  last_tend : nat;             (* step of the last Transition end that had made changes *)
  g_based : bool;
  g_edits : nat;
  g_tchg : bool;
  g_tended : bool;             (* a changing Transition ended since the last successful poll read *)
  g_tbe : bool;
  g_sae : bool;
  log : list event             (* newest first *)
}.

Definition init (a : bool) (d : nat) : st :=
  {| disk := d; now := 1; snap := None; accel := false; lock := Free; pc := PWait; pfirst := true;
     pprev := 0; tick := false; cc := CIdle; forced := false; allowed := a; last_tend := 0; g_based := false;
     g_edits := 0; g_tchg := false; g_tended := false; g_tbe := false; g_sae := false; log := [] |}.

Inductive action :=
| ATick
| APollBegin
| APollFail                      (* the poll scan fails *)
| APollRead
| APollEnd
| APollCompare
| AScan (full : bool)            (* controller Scan: returns at once if cached, else begins a full scan *)
| AScanRead
| AScanEnd (ok : bool)
| ATBegin                        (* Transition: guards under the lock, lock released *)
| ATChange (c : nat)             (* core.Transition changes the root *)
| ATEnd                          (* lock; made-changes; accelerate; strobe; unlock *)
| AEdit (c : nat).               (* external edit *)

(* a strobe: recorded, and every pending "strobe after the edit" flag is set *)
Definition w_strobed (w : window) : window :=
  {| wbased := wbased w; wedits := wedits w; wtchg := wtchg w; wtbe := wtbe w; wsa := true |}.

Definition pc_strobed (p : ppc) : ppc :=
  match p with
  | PScanned b f c w => PScanned b f c (w_strobed w)
  | PCompare c i z w => PCompare c i z (w_strobed w)
  | _ => p
  end.

Section Step.
Variable fixed : bool.


Definition bump (s : st) : st :=
  {| disk := disk s; now := S (now s); snap := snap s; accel := accel s; lock := lock s; pc := pc s;
     pfirst := pfirst s; pprev := pprev s; tick := tick s; cc := cc s; forced := forced s;
     allowed := allowed s; last_tend := last_tend s; g_based := g_based s; g_edits := g_edits s; g_tchg := g_tchg s;
     g_tended := g_tended s; g_tbe := g_tbe s; g_sae := g_sae s; log := log s |}.

Definition strobe (src : source) (s : st) : st :=
  {| disk := disk s; now := now s; snap := snap s; accel := accel s; lock := lock s;
     pc := pc_strobed (pc s);
     pfirst := pfirst s; pprev := pprev s; tick := tick s; cc := cc s; forced := forced s;
     allowed := allowed s; last_tend := last_tend s; g_based := g_based s; g_edits := g_edits s; g_tchg := g_tchg s;
     g_tended := g_tended s; g_tbe := g_tbe s; g_sae := true;
     log := EvStrobe src (now s) :: log s |}.

Definition step (s : st) (a : action) : option st :=
  match a with
  | ATick =>
      Some (bump {| disk := disk s; now := now s; snap := snap s; accel := accel s; lock := lock s;
                    pc := pc s; pfirst := pfirst s; pprev := pprev s; tick := true; cc := cc s;
                    forced := forced s; allowed := allowed s; last_tend := last_tend s; g_based := g_based s;
                    g_edits := g_edits s; g_tchg := g_tchg s; g_tended := g_tended s;
                    g_tbe := g_tbe s; g_sae := g_sae s; log := log s |})
  | APollBegin =>
      (* leave the wait (first iteration, or a tick), take the lock, accelerate = false *)
      match pc s, lock s with
      | PWait, Free =>
          if pfirst s || tick s then
            Some (bump {| disk := disk s; now := now s; snap := snap s; accel := false; lock := ByPoll;
                          pc := PScanning (now s) (pfirst s); pfirst := false; pprev := pprev s;
                          tick := false; cc := cc s; forced := forced s; allowed := allowed s; last_tend := last_tend s;
                          g_based := g_based s; g_edits := g_edits s; g_tchg := g_tchg s;
                          g_tended := g_tended s; g_tbe := g_tbe s; g_sae := g_sae s; log := log s |})
          else None
      | _, _ => None
      end
  | APollFail =>
      (* scan error: unlock, strobe, next iteration *)
      match pc s with
      | PScanning _ _ =>
          Some (bump (strobe SrcPollFail
                 {| disk := disk s; now := now s; snap := snap s; accel := accel s; lock := Free;
                    pc := PWait; pfirst := pfirst s; pprev := pprev s; tick := tick s; cc := cc s;
                    forced := forced s; allowed := allowed s; last_tend := last_tend s; g_based := g_based s;
                    g_edits := g_edits s; g_tchg := g_tchg s; g_tended := g_tended s;
                    g_tbe := g_tbe s; g_sae := g_sae s; log := log s |}))
      | _ => None
      end
  | APollRead =>
      match pc s with
      | PScanning b f =>
          Some (bump {| disk := disk s; now := now s; snap := snap s; accel := accel s; lock := lock s;
                        pc := PScanned b f (disk s)
                                {| wbased := g_based s; wedits := g_edits s; wtchg := g_tchg s;
                                   wtbe := g_tbe s; wsa := g_sae s |};
                        pfirst := pfirst s; pprev := pprev s; tick := tick s; cc := cc s;
                        forced := forced s; allowed := allowed s; last_tend := last_tend s; g_based := true;
                        g_edits := 0; g_tchg := false; g_tended := false; g_tbe := false;
                        g_sae := g_sae s; log := log s |})
      | _ => None
      end
  | APollEnd =>
      (* e.snapshot set, accelerate = accelerationAllowed, (repair: consume the flag), unlock *)
      match pc s with
      | PScanned b f c w =>
          Some (bump {| disk := disk s; now := now s;
                        snap := Some {| scontent := c; sbegan := b; sread := now s |};
                        accel := allowed s; lock := Free;
                        pc := PCompare c f (fixed && forced s) w;
                        pfirst := pfirst s; pprev := pprev s; tick := tick s; cc := cc s;
                        forced := if fixed then false else forced s;
                        allowed := allowed s; last_tend := last_tend s; g_based := g_based s; g_edits := g_edits s;
                        g_tchg := g_tchg s; g_tended := g_tended s; g_tbe := g_tbe s;
                        g_sae := g_sae s; log := log s |})
      | _ => None
      end
  | APollCompare =>
      match pc s with
      | PCompare c ign fz w =>
          let modified := negb (Nat.eqb c (pprev s)) in
          let strobes := (modified && negb ign) || fz in
          let s1 := {| disk := disk s; now := now s; snap := snap s; accel := accel s; lock := lock s;
                       pc := PWait; pfirst := pfirst s; pprev := c; tick := tick s; cc := cc s;
                       forced := forced s; allowed := allowed s; last_tend := last_tend s; g_based := g_based s;
                       g_edits := g_edits s; g_tchg := g_tchg s; g_tended := g_tended s;
                       g_tbe := g_tbe s; g_sae := g_sae s;
                       log := EvPollCompare modified strobes :: log s |} in
          Some (bump (if strobes then strobe SrcPoll s1 else s1))
      | _ => None
      end
  | AScan full =>
      match cc s, lock s with
      | CIdle, Free =>
          if accel s && negb full then
            match snap s with
            | Some i =>
                Some (bump {| disk := disk s; now := now s; snap := snap s; accel := accel s;
                              lock := lock s; pc := pc s; pfirst := pfirst s; pprev := pprev s;
                              tick := tick s; cc := cc s; forced := forced s;
                              allowed := allowed s; last_tend := last_tend s; g_based := g_based s; g_edits := g_edits s;
                              g_tchg := g_tchg s; g_tended := g_tended s; g_tbe := g_tbe s;
                              g_sae := g_sae s;
                              log := EvScanCached (scontent i) (sbegan i) (last_tend s) :: log s |})
            | None => None
            end
          else
            Some (bump {| disk := disk s; now := now s; snap := snap s; accel := accel s;
                          lock := ByCtrl; pc := pc s; pfirst := pfirst s; pprev := pprev s;
                          tick := tick s; cc := CScanning (now s) None; forced := forced s;
                          allowed := allowed s; last_tend := last_tend s; g_based := g_based s; g_edits := g_edits s;
                          g_tchg := g_tchg s; g_tended := g_tended s; g_tbe := g_tbe s;
                          g_sae := g_sae s; log := log s |})
      | _, _ => None
      end
  | AScanRead =>
      match cc s with
      | CScanning b None =>
          Some (bump {| disk := disk s; now := now s; snap := snap s; accel := accel s; lock := lock s;
                        pc := pc s; pfirst := pfirst s; pprev := pprev s; tick := tick s;
                        cc := CScanning b (Some (disk s)); forced := forced s;
                        allowed := allowed s; last_tend := last_tend s; g_based := g_based s; g_edits := g_edits s;
                        g_tchg := g_tchg s; g_tended := g_tended s; g_tbe := g_tbe s;
                        g_sae := g_sae s; log := log s |})
      | _ => None
      end
  | AScanEnd ok =>
      match cc s with
      | CScanning b r =>
          match ok, r with
          | true, Some c =>
              Some (bump {| disk := disk s; now := now s;
                            snap := Some {| scontent := c; sbegan := b; sread := now s |};
                            accel := accel s; lock := Free; pc := pc s; pfirst := pfirst s;
                            pprev := pprev s; tick := tick s; cc := CIdle; forced := forced s;
                            allowed := allowed s; last_tend := last_tend s; g_based := g_based s; g_edits := g_edits s;
                            g_tchg := g_tchg s; g_tended := g_tended s; g_tbe := g_tbe s;
                            g_sae := g_sae s; log := EvScanFull c b :: log s |})
          | true, None => None
          | false, _ =>
              Some (bump {| disk := disk s; now := now s; snap := snap s; accel := accel s;
                            lock := Free; pc := pc s; pfirst := pfirst s; pprev := pprev s;
                            tick := tick s; cc := CIdle; forced := forced s;
                            allowed := allowed s; last_tend := last_tend s; g_based := g_based s; g_edits := g_edits s;
                            g_tchg := g_tchg s; g_tended := g_tended s; g_tbe := g_tbe s;
                            g_sae := g_sae s; log := EvScanFail :: log s |})
          end
      | _ => None
      end
  | ATBegin =>
      match cc s, lock s with
      | CIdle, Free =>
          Some (bump {| disk := disk s; now := now s; snap := snap s; accel := accel s; lock := lock s;
                        pc := pc s; pfirst := pfirst s; pprev := pprev s; tick := tick s;
                        cc := TRunning false; forced := forced s; allowed := allowed s; last_tend := last_tend s;
                        g_based := g_based s; g_edits := g_edits s; g_tchg := g_tchg s;
                        g_tended := g_tended s; g_tbe := g_tbe s; g_sae := g_sae s; log := log s |})
      | _, _ => None
      end
  | ATChange c =>
      match cc s with
      | TRunning _ =>
          Some (bump {| disk := c; now := now s; snap := snap s; accel := accel s; lock := lock s;
                        pc := pc s; pfirst := pfirst s; pprev := pprev s; tick := tick s;
                        cc := TRunning true; forced := forced s; allowed := allowed s; last_tend := last_tend s;
                        g_based := g_based s; g_edits := g_edits s; g_tchg := true;
                        g_tended := g_tended s; g_tbe := g_tbe s; g_sae := g_sae s; log := log s |})
      | _ => None
      end
  | ATEnd =>
      match cc s, lock s with
      | TRunning ch, Free =>
          let s1 := {| disk := disk s; now := now s; snap := snap s;
                       accel := if ch then false else accel s; lock := Free; pc := pc s;
                       pfirst := pfirst s; pprev := pprev s; tick := tick s; cc := CIdle;
                       forced := if fixed && ch then true else forced s;
                       allowed := allowed s; last_tend := if ch then now s else last_tend s;
                       g_based := g_based s; g_edits := g_edits s; g_tchg := g_tchg s;
                       g_tended := if ch then true else g_tended s; g_tbe := g_tbe s;
                       g_sae := g_sae s; log := log s |} in
          Some (bump (if ch then strobe SrcTransition s1 else s1))
      | _, _ => None
      end
  | AEdit c =>
      (* an external edit that changes the content (an edit to the same
         content is not an edit) *)
      if Nat.eqb c (disk s) then None
      else
        Some (bump {| disk := c; now := now s; snap := snap s; accel := accel s; lock := lock s;
                      pc := pc s; pfirst := pfirst s; pprev := pprev s; tick := tick s; cc := cc s;
                      forced := forced s; allowed := allowed s; last_tend := last_tend s; g_based := g_based s;
                      g_edits := S (g_edits s); g_tchg := g_tchg s; g_tended := g_tended s;
                      g_tbe := g_tended s; g_sae := false; log := log s |})
  end.

Fixpoint run (s : st) (sched : list action) : option st :=
  match sched with
  | [] => Some s
  | a :: t => match step s a with
              | Some s' => run s' t
              | None => None
              end
  end.

End Step.

(* does the compare that is about to happen strobe? *)
Definition compare_strobes (s : st) : bool :=
  match pc s with
  | PCompare c ign fz w => (negb (Nat.eqb c (pprev s)) && negb ign) || fz
  | _ => false
  end.
