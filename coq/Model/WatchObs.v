(* The C42 checker on what is OBSERVED of a real endpoint in real time
   (definitions only). A history is the chronological list of: changes of the
   root's content (by an external edit or by a Transition; contents are
   identifiers, equal identifier = equal content), returns of Transition,
   Scan calls with the content they returned, and returns of Poll. Times are
   milliseconds.

   Two demands, exactly those of the property:
   - fresh: a Scan never returns a content the root last had BEFORE the most
     recent Transition that changed the disk returned;
   - noticed: an external edit that is the only external edit of the polling
     window before it and whose result stays on disk for a whole window is
     followed by a return of Poll within the window (W = polling interval +
     coalescing + slack; discrete sampling of "eventually", hence PARTIAL). *)
From Coq Require Import List Bool Arith NArith.
Import ListNotations.

Inductive oev :=
| XDisk (t : N) (c : nat) (ext : bool)     (* the root's content became c at time t *)
| XTEnd (t : N) (changed : bool)           (* a Transition returned at time t *)
| XScan (t0 t1 : N) (c : nat)              (* Scan called at t0 returned content c at t1 *)
| XPoll (t : N).                           (* Poll returned at time t *)

(* contents the root has had since the last changing Transition returned,
   given the events so far (newest content first) *)
Fixpoint allowed (cur : nat) (acc : list nat) (evs : list oev) : nat * list nat :=
  match evs with
  | [] => (cur, acc)
  | XDisk _ c _ :: t => allowed c (c :: acc) t
  | XTEnd _ true :: t => allowed cur [cur] t
  | _ :: t => allowed cur acc t
  end.

Fixpoint check_fresh (cur : nat) (acc : list nat) (evs : list oev) : bool :=
  match evs with
  | [] => true
  | XDisk _ c _ :: t => check_fresh c (c :: acc) t
  | XTEnd _ true :: t => check_fresh cur [cur] t
  | XScan _ _ c :: t => existsb (Nat.eqb c) acc && check_fresh cur acc t
  | _ :: t => check_fresh cur acc t
  end.

Definition edit_times (evs : list oev) : list N :=
  flat_map (fun e => match e with XDisk t _ true => [t] | _ => [] end) evs.
Definition change_times (evs : list oev) : list N :=
  flat_map (fun e => match e with XDisk t _ _ => [t] | _ => [] end) evs.
Definition poll_times (evs : list oev) : list N :=
  flat_map (fun e => match e with XPoll t => [t] | _ => [] end) evs.

Section Noticed.
Variable W : N.        (* the window *)
Variable warm : N.     (* edits before this time belong to the baseline *)
Variable tend : N.     (* the history was observed up to this time *)

(* must the edit at time t be followed by a notification? *)
Definition owed (evs : list oev) (t : N) : bool :=
  (warm <=? t)%N && (t + W <=? tend)%N
  && forallb (fun t' => negb ((t' <? t)%N && (t <? t' + W)%N)) (edit_times evs)      (* isolated *)
  && forallb (fun t' => negb ((t <? t')%N && (t' <=? t + W)%N)) (change_times evs).  (* persisting *)

Definition notified (evs : list oev) (t : N) : bool :=
  existsb (fun p => (t <? p)%N && (p <=? t + W)%N) (poll_times evs).

Definition check_noticed (evs : list oev) : bool :=
  forallb (fun t => implb (owed evs t) (notified evs t)) (edit_times evs).

End Noticed.

Definition check_C42 (W warm tend : N) (c0 : nat) (evs : list oev) : bool :=
  check_fresh c0 [c0] evs && check_noticed W warm tend evs.
