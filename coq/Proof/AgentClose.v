(* Proofs about Model/AgentClose.v (C35). *)
From Coq Require Import NArith List Bool Lia ZifyN ZifyBool.
Import ListNotations.
From Mv Require Import Model.AgentClose.
Open Scope N_scope.

Lemma wins_some : forall x T tie t, wins x T tie = Some t -> x = Some t /\ t <= T.
Proof.
  intros [x|] T tie t H; cbn in H; try discriminate.
  destruct ((x <? T) || ((x =? T) && negb tie)) eqn:E; try discriminate.
  inversion H; subst. split; auto.
  apply orb_true_iff in E. destruct E as [E|E].
  - apply N.ltb_lt in E. lia.
  - apply andb_true_iff in E. destruct E as [E _]. apply N.eqb_eq in E. lia.
Qed.

Lemma wins_none : forall x T tie, wins x T tie = None ->
  match x with Some t => T <= t | None => True end.
Proof.
  intros [x|] T tie H; cbn in H; auto.
  destruct ((x <? T) || ((x =? T) && negb tie)) eqn:E; try discriminate.
  apply orb_false_iff in E. destruct E as [E _]. apply N.ltb_ge in E. exact E.
Qed.

Lemma wins_lt : forall t T tie, t < T -> wins (Some t) T tie = Some t.
Proof.
  intros t T tie H. cbn. apply N.ltb_lt in H. rewrite H. reflexivity.
Qed.

(* Close returns, and when it does the process has exited: the exit time is
   the earliest exit of the process under exactly the signals that were sent,
   it is not later than the return, and the signals were sent in order. *)
Lemma close_returns_dead : forall d p e, p_kill p <> None ->
  exists o, close_run d p e = Some o
    /\ earliest_exit p (o_stdin_at o) (o_term_at o) (o_kill_at o) = Some (o_exit o)
    /\ o_exit o <= o_ret o.
Proof.
  intros d p e K. unfold close_run. cbv zeta.
  destruct (wins (earliest_exit p None None None) (d + j0 e) (tie0 e)) as [t|] eqn:W0.
  { apply wins_some in W0. destruct W0 as [W0 _]. eexists. split; [reflexivity|]. cbn. split; auto. lia. }
  destruct (wins (earliest_exit p (Some (d + j0 e)) None None) (d + j0 e + w_stdin + j1 e) (tie1 e))
    as [t|] eqn:W1.
  { apply wins_some in W1. destruct W1 as [W1 _]. eexists. split; [reflexivity|]. cbn. split; auto. lia. }
  destruct (wins (earliest_exit p (Some (d + j0 e)) (Some (d + j0 e + w_stdin + j1 e)) None)
                 (d + j0 e + w_stdin + j1 e + w_term + j2 e) (tie2 e)) as [t|] eqn:W2.
  { apply wins_some in W2. destruct W2 as [W2 _]. eexists. split; [reflexivity|]. cbn. split; auto. lia. }
  destruct (earliest_exit p (Some (d + j0 e)) (Some (d + j0 e + w_stdin + j1 e))
                          (Some (d + j0 e + w_stdin + j1 e + w_term + j2 e))) as [t|] eqn:X.
  { eexists. split; [reflexivity|]. cbn. split; auto. lia. }
  exfalso. unfold earliest_exit in X. destruct (p_kill p) as [k|]; [|apply K; reflexivity].
  cbn [oadd] in X. destruct (omin (omin (p_self p) _) _) in X; cbn in X; discriminate.
Qed.

Lemma omin_le_r : forall a y t, omin a (Some y) = Some t -> t <= y.
Proof. intros [x|] y t H; cbn in H; inversion H; subst; lia. Qed.

(* ... within the sum of the waits (as long as the timers actually took) plus
   the time the process needs to die of SIGKILL; and stage by stage. *)
Lemma close_bound : forall d p e o k, p_kill p = Some k -> close_run d p e = Some o ->
  o_ret o <= d + j0 e + w_stdin + j1 e + w_term + j2 e + k
  /\ match o_stage o with
     | StSelf => o_ret o <= d + j0 e /\ o_stdin_at o = None /\ o_term_at o = None /\ o_kill_at o = None
     | StStdin => o_ret o <= d + j0 e + w_stdin + j1 e /\ o_term_at o = None /\ o_kill_at o = None
     | StTerm => o_ret o <= d + j0 e + w_stdin + j1 e + w_term + j2 e /\ o_kill_at o = None
     | StKill => True
     end.
Proof.
  intros d p e o k K H. unfold close_run in H. cbv zeta in H.
  destruct (wins (earliest_exit p None None None) (d + j0 e) (tie0 e)) as [t|] eqn:W0.
  { apply wins_some in W0. destruct W0 as [_ W0]. inversion H; subst; cbn. repeat split; auto; lia. }
  destruct (wins (earliest_exit p (Some (d + j0 e)) None None) (d + j0 e + w_stdin + j1 e) (tie1 e))
    as [t|] eqn:W1.
  { apply wins_some in W1. destruct W1 as [_ W1]. inversion H; subst; cbn. repeat split; auto; lia. }
  destruct (wins (earliest_exit p (Some (d + j0 e)) (Some (d + j0 e + w_stdin + j1 e)) None)
                 (d + j0 e + w_stdin + j1 e + w_term + j2 e) (tie2 e)) as [t|] eqn:W2.
  { apply wins_some in W2. destruct W2 as [_ W2]. inversion H; subst; cbn. repeat split; auto; lia. }
  destruct (earliest_exit p (Some (d + j0 e)) (Some (d + j0 e + w_stdin + j1 e))
                          (Some (d + j0 e + w_stdin + j1 e + w_term + j2 e))) as [t|] eqn:X;
    try discriminate.
  inversion H; subst; cbn. split; auto.
  unfold earliest_exit in X. rewrite K in X. cbn [oadd] in X. apply omin_le_r in X. lia.
Qed.

(* a descendant that keeps the agent's standard error open changes nothing:
   Close does not wait for the end of that stream *)
Lemma close_linger_irrelevant : forall d p e b,
  close_run d (with_linger b p) e = close_run d p e.
Proof. reflexivity. Qed.

(* a cooperative agent is not signalled at all *)
Lemma close_no_force : forall d p e t, p_self p = Some t -> t < d ->
  exists o, close_run d p e = Some o /\ o_stage o = StSelf /\ o_ret o = t
            /\ o_stdin_at o = None /\ o_term_at o = None /\ o_kill_at o = None.
Proof.
  intros d p e t S L. unfold close_run. cbv zeta. unfold earliest_exit. rewrite S. cbn [oadd omin].
  rewrite wins_lt by lia. eexists. split; [reflexivity|]. cbn. auto.
Qed.

Lemma check_C35_sound : forall o, check_C35 o = true -> ob_returned o = true /\ ob_dead o = true.
Proof. intros o H. unfold check_C35 in H. apply andb_true_iff in H. exact H. Qed.

Lemma model_passes_C35 : forall d p e o, close_run d p e = Some o -> check_C35 (obs_of p o) = true.
Proof.
  intros d p e o H. unfold check_C35, obs_of. cbn. apply N.leb_le.
  unfold close_run in H. cbv zeta in H.
  destruct (wins _ _ (tie0 e)) in H; [inversion H; subst; cbn; lia|].
  destruct (wins _ _ (tie1 e)) in H; [inversion H; subst; cbn; lia|].
  destruct (wins _ _ (tie2 e)) in H; [inversion H; subst; cbn; lia|].
  destruct (earliest_exit _ _ _ _) in H; [inversion H; subst; cbn; lia|discriminate].
Qed.
