(* Lemmas for C36 about Model/Argv.v. *)
From Coq Require Import List Bool Arith NArith Lia String.
From Coq.Strings Require Import Byte.
Import ListNotations.
From Mv Require Import Common.Str Proof.Str Model.Url Model.Argv
     Proof.UrlBase Proof.UrlSsh Proof.UrlClass Proof.UrlDocker Proof.Url.
Open Scope N_scope.

(* ================================================================ *)
(* getopt: one word at a time                                        *)

Lemma classify_operand : forall sp w, starts_with_dash w = false -> classify_word sp w = WOperand.
Proof.
  intros sp [|x t] H; [reflexivity|]. cbn [starts_with_dash] in H.
  unfold classify_word. rewrite H. reflexivity.
Qed.

Lemma getopt_operand_np : forall sp w t,
    sp_permute sp = false -> starts_with_dash w = false ->
    getopt sp (w :: t) = map IOperand (w :: t).
Proof.
  intros sp w t P H. cbn [getopt]. rewrite (classify_operand sp w H), P. reflexivity.
Qed.

Lemma getopt_operand_p : forall sp w t,
    sp_permute sp = true -> starts_with_dash w = false ->
    getopt sp (w :: t) = IOperand w :: getopt sp t.
Proof.
  intros sp w t P H. cbn [getopt]. rewrite (classify_operand sp w H), P. reflexivity.
Qed.

Lemma classify_short : forall sp c rest,
    Byte.eqb c c_dash = false -> classify_word sp (c_dash :: c :: rest) = WShort (c :: rest).
Proof.
  intros sp c rest H. unfold classify_word. rewrite byte_eqb_refl. cbn [negb]. rewrite H. reflexivity.
Qed.

(* -cARG *)
Lemma getopt_short_attached : forall sp c rest t,
    Byte.eqb c c_dash = false -> mem_byte c (sp_args sp) = true -> rest <> [] ->
    getopt sp ((c_dash :: c :: rest) :: t) = IOptArg c rest :: getopt sp t.
Proof.
  intros sp c rest t Hc Ha Hr. cbn [getopt]. rewrite (classify_short sp c rest Hc).
  cbn [cluster]. rewrite Ha. destruct rest; [contradiction|]. reflexivity.
Qed.

(* -c ARG *)
Lemma getopt_short_separate : forall sp c v t,
    Byte.eqb c c_dash = false -> mem_byte c (sp_args sp) = true ->
    getopt sp ([c_dash; c] :: v :: t) = IOptArg c v :: getopt sp t.
Proof.
  intros sp c v t Hc Ha. cbn [getopt]. rewrite (classify_short sp c [] Hc).
  cbn [cluster]. rewrite Ha. reflexivity.
Qed.

(* -c *)
Lemma getopt_short_flag : forall sp c t,
    Byte.eqb c c_dash = false -> mem_byte c (sp_args sp) = false -> mem_byte c (sp_flags sp) = true ->
    getopt sp ([c_dash; c] :: t) = IFlag c :: getopt sp t.
Proof.
  intros sp c t Hc Ha Hf. cbn [getopt]. rewrite (classify_short sp c [] Hc).
  cbn [cluster]. rewrite Ha, Hf. reflexivity.
Qed.

Lemma classify_long : forall sp name,
    has_long sp = true -> name <> [] -> none_sat (byte_is c_eq) name = true ->
    classify_word sp (dd name) = WLong name None.
Proof.
  intros sp name HL Hn Ne. unfold classify_word, dd.
  change (Byte.eqb "-"%byte c_dash) with true. cbn [negb].
  destruct name as [|n0 name']; [contradiction|]. rewrite HL.
  rewrite (break_at_all (byte_is c_eq) (n0 :: name') Ne). reflexivity.
Qed.

(* --name ARG *)
Lemma getopt_long_arg : forall sp name v t,
    has_long sp = true -> name <> [] -> none_sat (byte_is c_eq) name = true ->
    mem_str name (sp_largs sp) = true ->
    getopt sp (dd name :: v :: t) = ILArg name v :: getopt sp t.
Proof.
  intros sp name v t HL Hn Ne Hm. cbn [getopt]. rewrite (classify_long sp name HL Hn Ne), Hm.
  reflexivity.
Qed.

(* --name *)
Lemma getopt_long_flag : forall sp name t,
    has_long sp = true -> name <> [] -> none_sat (byte_is c_eq) name = true ->
    mem_str name (sp_largs sp) = false -> mem_str name (sp_lflags sp) = true ->
    getopt sp (dd name :: t) = ILFlag name :: getopt sp t.
Proof.
  intros sp name t HL Hn Ne Hm Hf. cbn [getopt]. rewrite (classify_long sp name HL Hn Ne), Hm, Hf.
  reflexivity.
Qed.

Lemma until_operand_app : forall a w t,
    forallb (fun i => match i with IOperand _ => false | _ => true end) a = true ->
    until_operand (a ++ IOperand w :: t) = (a, Some (w, t)).
Proof.
  induction a as [|i a IH]; intros w t H; [reflexivity|].
  cbn [forallb] in H. apply andb_true_iff in H as [H1 H2].
  cbn [app until_operand]. rewrite (IH w t H2). destruct i; try reflexivity; discriminate.
Qed.

Lemma operands_map : forall l, operands (map IOperand l) = l.
Proof.
  unfold operands. induction l as [|x l IH]; [reflexivity|].
  cbn [map flat_map app]. rewrite IH. reflexivity.
Qed.

Lemma options_map : forall l, options (map IOperand l) = [].
Proof.
  unfold options. induction l as [|x l IH]; [reflexivity|]. cbn [map filter]. exact IH.
Qed.

(* ================================================================ *)
(* the components of a valid URL do not begin with '-'               *)

Lemma valid_no_dash : forall fx u,
    fx_dash fx = true -> url_valid fx u = true -> u_proto u <> PLocal ->
    starts_with_dash (u_user u) = false /\ starts_with_dash (u_host u) = false
    /\ u_host u <> [].
Proof.
  intros fx u F V P. unfold url_valid in V. apply andb_true_iff in V as [V _].
  rewrite F in V. cbn [andb] in V.
  destruct (u_proto u); [contradiction| |].
  - apply andb_true_iff in V as [V D]. apply andb_true_iff in V as [V _].
    apply andb_true_iff in V as [Hh _].
    apply negb_true_iff in D. apply orb_false_iff in D as [D1 D2].
    repeat split; auto. intro E. rewrite E in Hh. discriminate.
  - apply andb_true_iff in V as [V D]. apply andb_true_iff in V as [Hh _].
    apply negb_true_iff in D. apply orb_false_iff in D as [D1 D2].
    repeat split; auto. intro E. rewrite E in Hh. discriminate.
Qed.

Lemma dash_rejected : forall fx u,
    fx_dash fx = true -> u_proto u <> PLocal ->
    starts_with_dash (u_user u) || starts_with_dash (u_host u) = true ->
    url_valid fx u = false.
Proof.
  intros fx u F P D. destruct (url_valid fx u) eqn:V; [|reflexivity].
  destruct (valid_no_dash fx u F V P) as (A & B & _). rewrite A, B in D. discriminate.
Qed.

Lemma starts_with_dash_app : forall a c b,
    starts_with_dash (a ++ c :: b) = match a with [] => Byte.eqb c c_dash | _ => starts_with_dash a end.
Proof. intros [|x a] c b; reflexivity. Qed.

Lemma target_no_dash : forall user host,
    starts_with_dash user = false -> starts_with_dash host = false ->
    starts_with_dash (ssh_target user host) = false.
Proof.
  intros user host Hu Hh. unfold ssh_target. destruct user as [|u0 us]; [exact Hh|].
  exact Hu.
Qed.

Lemma scp_destination_no_dash : forall user host remote,
    starts_with_dash user = false -> starts_with_dash host = false -> host <> [] ->
    starts_with_dash (scp_destination user host remote) = false.
Proof.
  intros user host remote Hu Hh Hne. unfold scp_destination.
  destruct user as [|u0 us].
  - rewrite starts_with_dash_app. destruct host; [contradiction|exact Hh].
  - exact Hu.
Qed.

Lemma scp_destination_prefix : forall user host remote,
    has_str_prefix (ssh_target user host ++ [c_colon]) (scp_destination user host remote) = true.
Proof.
  intros user host remote.
  assert (P : forall a b, has_str_prefix a (a ++ b) = true).
  { induction a as [|x a IH]; intro b; [reflexivity|]. cbn. rewrite byte_eqb_refl. apply IH. }
  unfold ssh_target, scp_destination. destruct user as [|u0 us].
  - replace (host ++ c_colon :: remote) with ((host ++ [c_colon]) ++ remote)
      by (rewrite <- app_assoc; reflexivity). apply P.
  - replace ((u0 :: us) ++ c_at :: host ++ c_colon :: remote)
      with ((((u0 :: us) ++ c_at :: host) ++ [c_colon]) ++ remote)
      by (rewrite <- !app_assoc; reflexivity). apply P.
Qed.

(* ================================================================ *)
(* ssh                                                               *)

Definition ssh_expected_opts (timeout port : N) : list item :=
  [IOptArg "o"%byte (B "ConnectTimeout=" ++ N_to_dec timeout);
   IOptArg "o"%byte (B "ServerAliveInterval=" ++ N_to_dec alive_interval);
   IOptArg "o"%byte (B "ServerAliveCountMax=" ++ N_to_dec alive_count)]
  ++ (if port =? 0 then [] else [IOptArg "p"%byte (N_to_dec port)]).

Lemma ssh_getopt : forall timeout user host port command,
    starts_with_dash (ssh_target user host) = false ->
    getopt ssh_spec (ssh_argv timeout user host port command)
    = ssh_expected_opts timeout port ++ [IOperand (ssh_target user host); IOperand command].
Proof.
  intros timeout user host port command Ht.
  unfold ssh_argv, connect_timeout_flag, server_alive_flags, ssh_expected_opts.
  unfold s_oConnectTimeout, s_oServerAliveInterval, s_oServerAliveCountMax. cbn [app].
  rewrite getopt_short_attached; [|reflexivity|reflexivity|discriminate].
  rewrite getopt_short_attached; [|reflexivity|reflexivity|discriminate].
  rewrite getopt_short_attached; [|reflexivity|reflexivity|discriminate].
  destruct (port =? 0); cbn [app].
  - rewrite getopt_operand_np; [reflexivity|reflexivity|exact Ht].
  - unfold s_p. rewrite getopt_short_separate; [|reflexivity|reflexivity].
    rewrite getopt_operand_np; [reflexivity|reflexivity|exact Ht].
Qed.

Lemma ssh_opts_no_operand : forall timeout port,
    forallb (fun i => match i with IOperand _ => false | _ => true end)
            (ssh_expected_opts timeout port) = true.
Proof. intros. unfold ssh_expected_opts. destruct (port =? 0); reflexivity. Qed.

Lemma ssh_opts_no_bad : forall timeout port, no_bad (ssh_expected_opts timeout port) = true.
Proof. intros. unfold ssh_expected_opts. destruct (port =? 0); reflexivity. Qed.

Lemma ssh_parse_argv : forall timeout user host port command,
    starts_with_dash (ssh_target user host) = false -> starts_with_dash command = false ->
    ssh_parse (ssh_argv timeout user host port command)
    = {| sshp_opts := ssh_expected_opts timeout port;
         sshp_dest := Some (ssh_target user host);
         sshp_opts2 := []; sshp_command := [command] |}.
Proof.
  intros timeout user host port command Ht Hc. unfold ssh_parse.
  rewrite (ssh_getopt timeout user host port command Ht).
  rewrite (until_operand_app _ _ _ (ssh_opts_no_operand timeout port)).
  cbn [operands flat_map app].
  rewrite (getopt_operand_np ssh_spec command [] eq_refl Hc). reflexivity.
Qed.

(* ================================================================ *)
(* scp                                                               *)

Definition scp_expected_opts (timeout port : N) : list item :=
  [IFlag "C"%byte;
   IOptArg "o"%byte (B "ConnectTimeout=" ++ N_to_dec timeout);
   IOptArg "o"%byte (B "ServerAliveInterval=" ++ N_to_dec alive_interval);
   IOptArg "o"%byte (B "ServerAliveCountMax=" ++ N_to_dec alive_count)]
  ++ (if port =? 0 then [] else [IOptArg "P"%byte (N_to_dec port)]).

Lemma scp_getopt : forall permute timeout user host port base remote,
    starts_with_dash base = false ->
    starts_with_dash (scp_destination user host remote) = false ->
    getopt (scp_spec permute) (scp_argv timeout user host port base remote)
    = scp_expected_opts timeout port
      ++ [IOperand base; IOperand (scp_destination user host remote)].
Proof.
  intros permute timeout user host port base remote Hb Hd.
  unfold scp_argv, connect_timeout_flag, server_alive_flags, scp_expected_opts.
  unfold s_C, s_oConnectTimeout, s_oServerAliveInterval, s_oServerAliveCountMax. cbn [app].
  rewrite getopt_short_flag; [|reflexivity|reflexivity|reflexivity].
  rewrite getopt_short_attached; [|reflexivity|reflexivity|discriminate].
  rewrite getopt_short_attached; [|reflexivity|reflexivity|discriminate].
  rewrite getopt_short_attached; [|reflexivity|reflexivity|discriminate].
  assert (Tail : getopt (scp_spec permute) [base; scp_destination user host remote]
                 = [IOperand base; IOperand (scp_destination user host remote)]).
  { destruct permute.
    - rewrite getopt_operand_p; [|reflexivity|exact Hb].
      rewrite getopt_operand_p; [|reflexivity|exact Hd]. reflexivity.
    - rewrite getopt_operand_np; [reflexivity|reflexivity|exact Hb]. }
  destruct (port =? 0); cbn [app].
  - rewrite Tail. reflexivity.
  - unfold s_P. rewrite getopt_short_separate; [|reflexivity|reflexivity].
    rewrite Tail. reflexivity.
Qed.

(* ================================================================ *)
(* docker                                                            *)

Definition dflag_items (f : dflags) : list item :=
  (match df_config f with [] => [] | v => [ILArg s_config v] end)
  ++ (match df_host f with [] => [] | v => [ILArg s_host v] end)
  ++ (match df_context f with [] => [] | v => [ILArg s_context v] end)
  ++ (if df_tls f then [ILFlag s_tls] else [])
  ++ (match df_tlscacert f with [] => [] | v => [ILArg s_tlscacert v] end)
  ++ (match df_tlscert f with [] => [] | v => [ILArg s_tlscert v] end)
  ++ (match df_tlskey f with [] => [] | v => [ILArg s_tlskey v] end)
  ++ (if df_tlsverify f then [ILFlag s_tlsverify] else []).

Lemma docker_global_flags : forall f rest,
    getopt docker_global_spec (to_flags f ++ rest)
    = dflag_items f ++ getopt docker_global_spec rest.
Proof.
  intros [cfg hst ctx tls ca cert key ver] rest. unfold to_flags, dflag_items.
  cbn [df_config df_host df_context df_tls df_tlscacert df_tlscert df_tlskey df_tlsverify].
  assert (LA : forall name v t,
             existsb (str_eqb name) [s_config; s_host; s_context; s_tlscacert; s_tlscert; s_tlskey] = true ->
             getopt docker_global_spec (dd name :: v :: t) = ILArg name v :: getopt docker_global_spec t).
  { intros name v t H. cbn [existsb] in H.
    repeat (apply orb_true_iff in H; destruct H as [H|H]); try discriminate;
      apply str_eqb_eq in H; subst name;
      (apply getopt_long_arg; [reflexivity|discriminate|reflexivity|reflexivity]). }
  assert (LF : forall name t,
             existsb (str_eqb name) [s_tls; s_tlsverify] = true ->
             getopt docker_global_spec (dd name :: t) = ILFlag name :: getopt docker_global_spec t).
  { intros name t H. cbn [existsb] in H.
    repeat (apply orb_true_iff in H; destruct H as [H|H]); try discriminate;
      apply str_eqb_eq in H; subst name;
      (apply getopt_long_flag; [reflexivity|discriminate|reflexivity|reflexivity|reflexivity]). }
  destruct cfg as [|c0 cfg]; destruct hst as [|h0 hst]; destruct ctx as [|x0 ctx]; destruct tls;
    destruct ca as [|a0 ca]; destruct cert as [|e0 cert]; destruct key as [|k0 key]; destruct ver;
    cbn [app]; repeat (first [rewrite LA by reflexivity | rewrite LF by reflexivity]); reflexivity.
Qed.

Lemma dflag_items_no_operand : forall f,
    forallb (fun i => match i with IOperand _ => false | _ => true end) (dflag_items f) = true.
Proof.
  intros [cfg hst ctx tls ca cert key ver]. unfold dflag_items.
  cbn [df_config df_host df_context df_tls df_tlscacert df_tlscert df_tlskey df_tlsverify].
  destruct cfg, hst, ctx, tls, ca, cert, key, ver; reflexivity.
Qed.

Lemma dflag_items_no_bad : forall f, no_bad (dflag_items f) = true.
Proof.
  intros [cfg hst ctx tls ca cert key ver]. unfold dflag_items.
  cbn [df_config df_host df_context df_tls df_tlscacert df_tlscert df_tlskey df_tlsverify].
  destruct cfg, hst, ctx, tls, ca, cert, key, ver; reflexivity.
Qed.

Definition exec_user_items (t_user user_override : str) : list item :=
  match user_override with
  | [] => match t_user with [] => [] | _ => [ILArg s_user t_user] end
  | _ => [ILArg s_user user_override]
  end.

Definition exec_expected_items (container t_user command workdir user_override : str) : list item :=
  [ILFlag s_interactive] ++ exec_user_items t_user user_override
  ++ (match workdir with [] => [] | _ => [ILArg s_workdir workdir] end)
  ++ IOperand container :: map IOperand (split_on c_space command).

Lemma docker_exec_parse : forall f container t_user command workdir user_override,
    starts_with_dash container = false ->
    docker_parse (docker_exec_argv (to_flags f) container t_user command workdir user_override)
    = {| dkp_global := dflag_items f; dkp_sub := Some s_exec;
         dkp_items := exec_expected_items container t_user command workdir user_override |}.
Proof.
  intros f container t_user command workdir user_override Hc.
  unfold docker_parse, docker_exec_argv. rewrite docker_global_flags.
  cbn [app]. rewrite (getopt_operand_np docker_global_spec s_exec _ eq_refl eq_refl).
  rewrite map_cons. rewrite (until_operand_app _ _ _ (dflag_items_no_operand f)).
  rewrite operands_map.
  change (str_eqb s_exec s_exec) with true. cbv iota.
  unfold exec_expected_items, exec_user_items.
  assert (I : forall t, getopt docker_exec_spec (dd s_interactive :: t)
                        = ILFlag s_interactive :: getopt docker_exec_spec t).
  { intro t. apply getopt_long_flag; [reflexivity|discriminate|reflexivity|reflexivity|reflexivity]. }
  assert (U : forall v t, getopt docker_exec_spec (dd s_user :: v :: t)
                          = ILArg s_user v :: getopt docker_exec_spec t).
  { intros v t. apply getopt_long_arg; [reflexivity|discriminate|reflexivity|reflexivity]. }
  assert (W : forall v t, getopt docker_exec_spec (dd s_workdir :: v :: t)
                          = ILArg s_workdir v :: getopt docker_exec_spec t).
  { intros v t. apply getopt_long_arg; [reflexivity|discriminate|reflexivity|reflexivity]. }
  assert (C : forall t, getopt docker_exec_spec (container :: t) = map IOperand (container :: t)).
  { intro t. apply getopt_operand_np; [reflexivity|exact Hc]. }
  rewrite I.
  destruct user_override as [|o0 ov]; destruct t_user as [|u0 us]; destruct workdir as [|w0 wd];
    cbn [app]; rewrite ?U, ?W, C; reflexivity.
Qed.

Lemma docker_cp_parse : forall f container home local_path remote windows,
    starts_with_dash local_path = false -> starts_with_dash container = false -> container <> [] ->
    docker_parse (docker_cp_argv (to_flags f) container home local_path remote windows)
    = {| dkp_global := dflag_items f; dkp_sub := Some s_cp;
         dkp_items :=
           [IOperand local_path;
            IOperand (container ++ c_colon :: home ++ (if windows then c_bslash else c_slash) :: remote)] |}.
Proof.
  intros f container home local_path remote windows Hl Hc Hne.
  unfold docker_parse, docker_cp_argv. rewrite docker_global_flags.
  rewrite (getopt_operand_np docker_global_spec s_cp _ eq_refl eq_refl).
  rewrite map_cons. rewrite (until_operand_app _ _ _ (dflag_items_no_operand f)).
  rewrite operands_map.
  change (str_eqb s_cp s_exec) with false. change (str_eqb s_cp s_cp) with true. cbv iota.
  rewrite (getopt_operand_p docker_cp_spec local_path _ eq_refl Hl).
  rewrite getopt_operand_p; [reflexivity|reflexivity|].
  rewrite starts_with_dash_app. destruct container; [contradiction|exact Hc].
Qed.

Lemma docker_status_parse : forall f container stop,
    starts_with_dash container = false ->
    docker_parse (docker_status_argv (to_flags f) container stop)
    = {| dkp_global := dflag_items f; dkp_sub := Some (if stop then s_stop else s_start);
         dkp_items := [IOperand container] |}.
Proof.
  intros f container stop Hc.
  unfold docker_parse, docker_status_argv. rewrite docker_global_flags.
  rewrite (getopt_operand_np docker_global_spec (if stop then s_stop else s_start) _ eq_refl);
    [|destruct stop; reflexivity].
  rewrite map_cons. rewrite (until_operand_app _ _ _ (dflag_items_no_operand f)).
  rewrite operands_map.
  assert (E : (if str_eqb (if stop then s_stop else s_start) s_exec then docker_exec_spec
               else if str_eqb (if stop then s_stop else s_start) s_cp then docker_cp_spec
                    else docker_status_spec) = docker_status_spec)
    by (destruct stop; reflexivity).
  rewrite E. rewrite (getopt_operand_p docker_status_spec container [] eq_refl Hc). reflexivity.
Qed.

(* ================================================================ *)
(* record_ok on the model's own argument vectors                     *)

Lemma record_ok_ssh : forall timeout user host port command,
    starts_with_dash user = false -> starts_with_dash host = false ->
    starts_with_dash command = false ->
    record_ok user host (TSsh, ssh_argv timeout user host port command) = true.
Proof.
  intros timeout user host port command Hu Hh Hc. unfold record_ok.
  rewrite (ssh_parse_argv _ _ _ _ _ (target_no_dash _ _ Hu Hh) Hc).
  cbn [sshp_dest sshp_opts]. rewrite (proj2 (str_eqb_eq _ _) eq_refl). apply ssh_opts_no_bad.
Qed.

Lemma scp_opts_no_bad : forall timeout port, no_bad (scp_expected_opts timeout port) = true.
Proof. intros. unfold scp_expected_opts. destruct (port =? 0); reflexivity. Qed.

Lemma no_bad_app : forall a b, no_bad (a ++ b) = no_bad a && no_bad b.
Proof. intros. unfold no_bad. apply forallb_app. Qed.

Lemma operands_app : forall a b, operands (a ++ b) = operands a ++ operands b.
Proof. intros. unfold operands. apply flat_map_app. Qed.

Lemma operands_none : forall a,
    forallb (fun i => match i with IOperand _ => false | _ => true end) a = true -> operands a = [].
Proof.
  unfold operands. induction a as [|i a IH]; intro H; [reflexivity|]. cbn [forallb] in H.
  apply andb_true_iff in H as [H1 H2]. cbn [flat_map]. rewrite (IH H2).
  destruct i; try reflexivity; discriminate.
Qed.

Lemma scp_opts_no_operand : forall timeout port,
    forallb (fun i => match i with IOperand _ => false | _ => true end)
            (scp_expected_opts timeout port) = true.
Proof. intros. unfold scp_expected_opts. destruct (port =? 0); reflexivity. Qed.

Lemma record_ok_scp : forall timeout user host port base remote,
    starts_with_dash user = false -> starts_with_dash host = false -> host <> [] ->
    starts_with_dash base = false ->
    record_ok user host (TScp, scp_argv timeout user host port base remote) = true.
Proof.
  intros timeout user host port base remote Hu Hh Hne Hb. unfold record_ok.
  pose proof (scp_destination_no_dash user host remote Hu Hh Hne) as Hd.
  cbn [forallb].
  rewrite !(scp_getopt _ timeout user host port base remote Hb Hd).
  rewrite no_bad_app, scp_opts_no_bad, operands_app, (operands_none _ (scp_opts_no_operand _ _)).
  cbn [app operands flat_map no_bad forallb andb]. rewrite scp_destination_prefix. reflexivity.
Qed.

Lemma exec_items_until : forall container t_user command workdir user_override,
    until_operand (exec_expected_items container t_user command workdir user_override)
    = ([ILFlag s_interactive] ++ exec_user_items t_user user_override
       ++ (match workdir with [] => [] | _ => [ILArg s_workdir workdir] end),
       Some (container, map IOperand (split_on c_space command))).
Proof.
  intros. unfold exec_expected_items, exec_user_items.
  destruct user_override, t_user, workdir; reflexivity.
Qed.

Lemma item_eqb_refl : forall i, item_eqb i i = true.
Proof.
  intros []; cbn [item_eqb]; rewrite ?byte_eqb_refl, ?(proj2 (str_eqb_eq _ _) eq_refl); reflexivity.
Qed.

Lemma no_bad_map_operand : forall l, no_bad (map IOperand l) = true.
Proof. induction l; [reflexivity|]. cbn. exact IHl. Qed.

Lemma record_ok_docker_exec : forall f user container command workdir user_override,
    starts_with_dash container = false ->
    user_override = [] \/ user_override = s_root ->
    record_ok user container
      (TDocker, docker_exec_argv (to_flags f) container user command workdir user_override) = true.
Proof.
  intros f user container command workdir user_override Hc Ho. unfold record_ok.
  rewrite (docker_exec_parse f container user command workdir user_override Hc).
  cbn [dkp_global dkp_items dkp_sub]. rewrite dflag_items_no_bad.
  change (str_eqb s_exec s_exec) with true. cbv iota.
  rewrite exec_items_until. rewrite (proj2 (str_eqb_eq _ _) eq_refl).
  assert (NB : no_bad (exec_expected_items container user command workdir user_override) = true).
  { unfold exec_expected_items, exec_user_items. rewrite !no_bad_app.
    cbn [no_bad forallb]. rewrite no_bad_map_operand.
    destruct user_override, user, workdir; reflexivity. }
  rewrite NB. cbn [andb].
  destruct user as [|u0 us]; [reflexivity|].
  unfold exec_user_items. apply existsb_exists.
  destruct Ho as [->| ->].
  - exists (ILArg s_user (u0 :: us)). split; [cbn [app]; right; left; reflexivity|].
    rewrite item_eqb_refl. reflexivity.
  - exists (ILArg s_user s_root). split; [cbn [app]; right; left; reflexivity|].
    rewrite item_eqb_refl. apply orb_true_r.
Qed.

Lemma record_ok_docker_cp : forall f user container home local_path remote windows,
    starts_with_dash local_path = false -> starts_with_dash container = false -> container <> [] ->
    record_ok user container
      (TDocker, docker_cp_argv (to_flags f) container home local_path remote windows) = true.
Proof.
  intros f user container home local_path remote windows Hl Hc Hne. unfold record_ok.
  rewrite (docker_cp_parse f container home local_path remote windows Hl Hc Hne).
  cbn [dkp_global dkp_items dkp_sub]. rewrite dflag_items_no_bad.
  change (str_eqb s_cp s_exec) with false. change (str_eqb s_cp s_cp) with true. cbv iota.
  cbn [no_bad forallb operands flat_map app andb].
  assert (P : forall a b, has_str_prefix a (a ++ b) = true).
  { induction a as [|x a IH]; intro b; [reflexivity|]. cbn. rewrite byte_eqb_refl. apply IH. }
  replace (container ++ c_colon :: home ++ (if windows then c_bslash else c_slash) :: remote)
    with ((container ++ [c_colon]) ++ home ++ (if windows then c_bslash else c_slash) :: remote)
    by (rewrite <- app_assoc; reflexivity).
  apply P.
Qed.

Lemma record_ok_docker_status : forall f user container stop,
    starts_with_dash container = false ->
    record_ok user container (TDocker, docker_status_argv (to_flags f) container stop) = true.
Proof.
  intros f user container stop Hc. unfold record_ok.
  rewrite (docker_status_parse f container stop Hc).
  cbn [dkp_global dkp_items dkp_sub]. rewrite dflag_items_no_bad.
  assert (E1 : str_eqb (if stop then s_stop else s_start) s_exec = false) by (destruct stop; reflexivity).
  assert (E2 : str_eqb (if stop then s_stop else s_start) s_cp = false) by (destruct stop; reflexivity).
  rewrite E1, E2. cbn [no_bad forallb operands flat_map app andb].
  apply str_eqb_eq. reflexivity.
Qed.

(* ================================================================ *)
(* the checker                                                       *)

Lemma check_C36_sound : forall out valid recs,
    check_C36 out valid recs = true ->
    (forall u, out = inr u -> u_proto u <> PLocal -> valid = true ->
               starts_with_dash (u_user u) = false /\ starts_with_dash (u_host u) = false
               /\ forall r, In r recs -> record_ok (u_user u) (u_host u) r = true)
    /\ ((forall u, out = inr u -> valid = false) -> recs = []).
Proof.
  intros out valid recs H. split.
  - intros u -> P ->. cbn [check_C36] in H.
    destruct (u_proto u); [contradiction| |];
      (apply andb_true_iff in H as [H1 H2]; apply negb_true_iff in H1;
       apply orb_false_iff in H1 as [A B]; repeat split; auto;
       intros r Hr; apply (proj1 (forallb_forall _ _) H2 r Hr)).
  - intro Hrej. unfold check_C36 in H. destruct out as [e|u].
    + destruct recs; [reflexivity|discriminate].
    + rewrite (Hrej u eq_refl) in H. destruct (u_proto u); destruct recs; try reflexivity; discriminate.
Qed.

(* ================================================================ *)
(* the code as it is: refutation                                     *)

Definition witness_raw : str := B "-oProxyCommand=x:path".
Definition witness_cmd : str := B ".mutagen/agents/v/mutagen-agent synchronizer".

Lemma unfixed_option_injection :
  exists u,
    parse no_normalize unfixed witness_raw KSync [] = inr u
    /\ url_valid unfixed u = true
    /\ u_host u = B "-oProxyCommand=x"
    /\ let p := ssh_parse (ssh_argv 5 (u_user u) (u_host u) (transport_port u) witness_cmd) in
       In (IOptArg "o"%byte (B "ProxyCommand=x")) (sshp_opts p)
       /\ sshp_dest p = Some witness_cmd
       /\ record_ok (u_user u) (u_host u)
            (TSsh, ssh_argv 5 (u_user u) (u_host u) (transport_port u) witness_cmd) = false.
Proof.
  eexists. split; [vm_compute; reflexivity|]. split; [vm_compute; reflexivity|].
  split; [vm_compute; reflexivity|]. cbv zeta. split; [|split].
  - vm_compute. right. right. right. left. reflexivity.
  - vm_compute. reflexivity.
  - vm_compute. reflexivity.
Qed.

Lemma unfixed_option_injection_user_and_docker :
  (exists u, parse no_normalize unfixed (B "-luser@host:path") KSync [] = inr u
             /\ url_valid unfixed u = true
             /\ record_ok (u_user u) (u_host u)
                  (TSsh, ssh_argv 5 (u_user u) (u_host u) (transport_port u) witness_cmd) = false)
  /\ (exists u, parse no_normalize unfixed (B "docker://--privileged/path") KSync [] = inr u
                /\ url_valid unfixed u = true
                /\ record_ok (u_user u) (u_host u)
                     (TDocker, docker_exec_argv [] (u_host u) (u_user u) (B "env") [] []) = false).
Proof.
  split; eexists; (split; [vm_compute; reflexivity|]); (split; vm_compute; reflexivity).
Qed.

Lemma fixed_rejects_injection :
  parse no_normalize fixed_all witness_raw KSync [] = inl EDash
  /\ parse no_normalize fixed_all (B "-luser@host:path") KSync [] = inl EDash
  /\ parse no_normalize fixed_all (B "docker://--privileged/path") KSync [] = inl EDash
  /\ parse no_normalize fixed_all (B "docker://-u@c/path") KSync [] = inl EDash.
Proof. vm_compute. repeat split; reflexivity. Qed.

(* non-vacuity: an accepted SSH URL with user and port, and its parsed argv *)
Lemma accepted_example :
  exists u,
    parse no_normalize fixed_all (B "user@example.com:2222:~/proj") KSync [] = inr u
    /\ url_valid fixed_all u = true
    /\ sshp_dest (ssh_parse (ssh_argv 5 (u_user u) (u_host u) (transport_port u) witness_cmd))
       = Some (B "user@example.com")
    /\ In (IOptArg "p"%byte (B "2222"))
          (sshp_opts (ssh_parse (ssh_argv 5 (u_user u) (u_host u) (transport_port u) witness_cmd))).
Proof.
  eexists. split; [vm_compute; reflexivity|]. split; [vm_compute; reflexivity|].
  split; [vm_compute; reflexivity|]. vm_compute. right. right. right. left. reflexivity.
Qed.

(* ================================================================ *)
(* assembled                                                         *)

Lemma accepted_records_ok : forall (fx : fixes) (u : url),
    fx_dash fx = true -> url_valid fx u = true -> u_proto u <> PLocal ->
    (forall timeout command, starts_with_dash command = false ->
       record_ok (u_user u) (u_host u)
         (TSsh, ssh_argv timeout (u_user u) (u_host u) (transport_port u) command) = true)
    /\ (forall timeout base remote, starts_with_dash base = false ->
          record_ok (u_user u) (u_host u)
            (TScp, scp_argv timeout (u_user u) (u_host u) (transport_port u) base remote) = true)
    /\ (forall f command workdir user_override,
          user_override = [] \/ user_override = s_root ->
          record_ok (u_user u) (u_host u)
            (TDocker, docker_exec_argv (to_flags f) (u_host u) (u_user u) command workdir user_override) = true)
    /\ (forall f home local_path remote windows, starts_with_dash local_path = false ->
          record_ok (u_user u) (u_host u)
            (TDocker, docker_cp_argv (to_flags f) (u_host u) home local_path remote windows) = true)
    /\ (forall f stop,
          record_ok (u_user u) (u_host u)
            (TDocker, docker_status_argv (to_flags f) (u_host u) stop) = true).
Proof.
  intros fx u F V P. destruct (valid_no_dash fx u F V P) as (Hu & Hh & Hne).
  split; [|split; [|split; [|split]]].
  - intros timeout command Hc. apply record_ok_ssh; assumption.
  - intros timeout base remote Hb. apply record_ok_scp; assumption.
  - intros f command workdir user_override Ho. apply record_ok_docker_exec; assumption.
  - intros f home local_path remote windows Hl. apply record_ok_docker_cp; assumption.
  - intros f stop. apply record_ok_docker_status; assumption.
Qed.

Section ParseNoDash.
Variable normalize : str -> option str.
Hypothesis normalize_abs : forall s n, normalize s = Some n -> is_abs n = true.

Lemma parsed_no_dash : forall fx raw k env u,
    fx_dash fx = true -> parse normalize fx raw k env = inr u -> u_proto u <> PLocal ->
    starts_with_dash (u_user u) = false /\ starts_with_dash (u_host u) = false
    /\ u_host u <> [].
Proof.
  intros fx raw k env u F H P.
  apply (valid_no_dash fx u F (parse_valid normalize normalize_abs _ _ _ _ _ H) P).
Qed.
End ParseNoDash.
