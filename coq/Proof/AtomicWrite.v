(* Proofs about Model/AtomicWrite.v (C27). *)
From Coq Require Import List Arith NArith String Bool Lia.
Import ListNotations.
From Mv Require Import Model.AtomicWrite.

(* ---- association lists ---- *)

Lemma lookup_remove_same : forall n d, lookup n (remove n d) = None.
Proof.
  induction d as [|[k f] t IH]; cbn; [reflexivity|].
  destruct (String.eqb n k) eqn:E; [exact IH|]. cbn. rewrite E. exact IH.
Qed.

Lemma lookup_remove_other : forall n k d, n <> k -> lookup n (remove k d) = lookup n d.
Proof.
  intros n k d Hne. induction d as [|[k' f] t IH]; cbn; [reflexivity|].
  destruct (String.eqb k k') eqn:E.
  - apply String.eqb_eq in E. subst k'.
    destruct (String.eqb n k) eqn:E2; [apply String.eqb_eq in E2; contradiction|exact IH].
  - cbn. destruct (String.eqb n k'); [reflexivity|exact IH].
Qed.

Lemma lookup_set_same : forall n f d, lookup n (set n f d) = Some f.
Proof. intros. unfold set. cbn. rewrite String.eqb_refl. reflexivity. Qed.

Lemma lookup_set_other : forall n k f d, n <> k -> lookup n (set k f d) = lookup n d.
Proof.
  intros n k f d Hne. unfold set. cbn.
  destruct (String.eqb n k) eqn:E; [apply String.eqb_eq in E; contradiction|].
  apply lookup_remove_other; exact Hne.
Qed.

Lemma mem_lookup : forall n d, mem n d = true <-> exists f, lookup n d = Some f.
Proof.
  intros. unfold mem. destruct (lookup n d).
  - split; eauto.
  - split; [discriminate|intros [f H]; discriminate].
Qed.

Lemma mem_false_lookup : forall n d, mem n d = false <-> lookup n d = None.
Proof.
  intros. unfold mem. destruct (lookup n d); split; intro H; try reflexivity; discriminate.
Qed.

(* ---- prefixes ---- *)

Lemma prefix_app : forall a s, prefix a (a ++ s) = true.
Proof.
  induction a as [|c a IH]; intro s; cbn.
  - destruct s; reflexivity.
  - destruct (Ascii.ascii_dec c c) as [_|N]; [apply IH|contradiction].
Qed.

Lemma prefix_app_l : forall a b n, prefix (a ++ b) n = true -> prefix a n = true.
Proof.
  induction a as [|c a IH]; intros b n H; cbn in *.
  - destruct n; reflexivity.
  - destruct n as [|c' n]; [discriminate|]. cbn in *.
    destruct (Ascii.ascii_dec c c'); [eapply IH; exact H|discriminate].
Qed.

Lemma atomic_prefix_temporary :
  forall n, prefix atomic_prefix n = true -> prefix temporary_name_prefix n = true.
Proof. intros n H. unfold atomic_prefix in H. eapply prefix_app_l; exact H. Qed.

Lemma temp_name_prefixed : forall s, prefix atomic_prefix (atomic_prefix ++ s) = true.
Proof. intro s. apply prefix_app. Qed.

Local Opaque atomic_prefix.

(* ---- run projections ---- *)

Lemma r_dir_pre : forall e r, r_dir (pre e r) = r_dir r.
Proof. reflexivity. Qed.
Lemma r_result_pre : forall e r, r_result (pre e r) = r_result r.
Proof. reflexivity. Qed.

(* ---- the post-condition shared by all stages ----
   [d0] is the directory when the stage starts. *)
Definition post (tmp target : name) (data : bytes) (perm : nat) (d0 : dir) (r : run) : Prop :=
  (forall n, n <> tmp -> n <> target -> lookup n (r_dir r) = lookup n d0)
  /\ (lookup target (r_dir r) = lookup target d0
      \/ lookup target (r_dir r) = Some (perm, data))
  /\ (r_result r = RNil ->
      lookup target (r_dir r) = Some (perm, data) /\ lookup tmp (r_dir r) = None)
  /\ (r_result r = RErr -> lookup target (r_dir r) = lookup target d0).

Lemma post_pre : forall tmp target data perm d0 e r,
  post tmp target data perm d0 r -> post tmp target data perm d0 (pre e r).
Proof. intros. exact H. Qed.

Lemma post_trans_dir : forall tmp target data perm d0 d1 r,
  (forall n, n <> tmp -> lookup n d1 = lookup n d0) -> tmp <> target ->
  post tmp target data perm d1 r -> post tmp target data perm d0 r.
Proof.
  intros tmp target data perm d0 d1 r Hd Hne (A & B & C & D).
  assert (Ht : lookup target d1 = lookup target d0) by (apply Hd; congruence).
  split; [|split; [|split]].
  - intros n H1 H2. rewrite A by assumption. apply Hd; assumption.
  - rewrite <- Ht. exact B.
  - exact C.
  - intro H. rewrite <- Ht. apply D; assumption.
Qed.

(* a stage that only touched the temporary and then stopped (crash or error) *)
Lemma post_only_tmp : forall tmp target data perm d0 res tr d1,
  res <> RNil -> tmp <> target ->
  (forall n, n <> tmp -> lookup n d1 = lookup n d0) ->
  post tmp target data perm d0 (mk res tr d1).
Proof.
  intros tmp target data perm d0 res tr d1 Hres Hne Hd.
  assert (Ht : lookup target d1 = lookup target d0) by (apply Hd; congruence).
  split; [|split; [|split]]; cbn.
  - intros; apply Hd; assumption.
  - left; exact Ht.
  - intro; contradiction.
  - intro; exact Ht.
Qed.

Lemma unlink_frame : forall tmp d d', os_unlink tmp d = Some d' ->
  forall n, n <> tmp -> lookup n d' = lookup n d.
Proof.
  intros tmp d d' H n Hn. unfold os_unlink in H. destruct (mem tmp d); [|discriminate].
  injection H as <-. apply lookup_remove_other; exact Hn.
Qed.

Lemma os_remove_post : forall o i tmp target data perm d,
  tmp <> target -> post tmp target data perm d (os_remove o i tmp d).
Proof.
  intros o i tmp target data perm d Hne. unfold os_remove.
  assert (Hrm : forall tr, post tmp target data perm d
     match o (S i) with
     | Crash _ _ => mk RCrashed (tr ++ [(PRmdir tmp, SKill)]) d
     | _ => mk RErr (tr ++ [(PRmdir tmp, SFail)]) d
     end).
  { intro tr. destruct (o (S i)); apply post_only_tmp; try discriminate; auto. }
  destruct (o i) as [| ex cut | done cut].
  - destruct (os_unlink tmp d) as [d'|] eqn:E.
    + apply post_only_tmp; [discriminate|exact Hne|]. eapply unlink_frame; exact E.
    + apply Hrm.
  - apply Hrm.
  - apply post_only_tmp; [discriminate|exact Hne|].
    destruct done; [|auto].
    destruct (os_unlink tmp d) as [d'|] eqn:E; [|auto]. eapply unlink_frame; exact E.
Qed.

Lemma rename_frame : forall tmp target d d' f,
  tmp <> target -> lookup tmp d = Some f -> os_rename tmp target d = Some d' ->
  lookup target d' = Some f /\ lookup tmp d' = None
  /\ forall n, n <> tmp -> n <> target -> lookup n d' = lookup n d.
Proof.
  intros tmp target d d' f Hne Hl H. unfold os_rename in H. rewrite Hl in H. injection H as <-.
  split; [apply lookup_set_same|]. split.
  - rewrite lookup_set_other by exact Hne. apply lookup_remove_same.
  - intros n H1 H2. rewrite lookup_set_other by exact H2. apply lookup_remove_other; exact H1.
Qed.

Lemma stage_rename_post : forall o i tmp target data perm d,
  tmp <> target -> lookup tmp d = Some (perm, data) ->
  post tmp target data perm d (stage_rename o i tmp target d).
Proof.
  intros o i tmp target data perm d Hne Hl. unfold stage_rename.
  assert (Hren : forall d', os_rename tmp target d = Some d' ->
            forall res tr, (res = RErr -> False) -> post tmp target data perm d (mk res tr d')).
  { intros d' E res tr Hres. destruct (rename_frame _ _ _ _ _ Hne Hl E) as (A & B & C).
    split; [|split; [|split]]; cbn; auto; intro; contradiction. }
  destruct (o i) as [| ex cut | done cut].
  - destruct (os_rename tmp target d) as [d'|] eqn:E.
    + eapply Hren; [reflexivity|discriminate].
    + apply post_pre. apply os_remove_post; exact Hne.
  - apply post_pre. apply os_remove_post; exact Hne.
  - destruct done.
    + destruct (os_rename tmp target d) as [d'|] eqn:E.
      * eapply Hren; [reflexivity|discriminate].
      * apply post_only_tmp; [discriminate|exact Hne|auto].
    + apply post_only_tmp; [discriminate|exact Hne|auto].
Qed.

Lemma chmod_frame : forall tmp p d d' m c,
  lookup tmp d = Some (m, c) -> os_chmod tmp p d = Some d' ->
  lookup tmp d' = Some (p, c) /\ forall n, n <> tmp -> lookup n d' = lookup n d.
Proof.
  intros tmp p d d' m c Hl H. unfold os_chmod in H. rewrite Hl in H. injection H as <-.
  split; [apply lookup_set_same|]. intros n Hn. apply lookup_set_other; exact Hn.
Qed.

Lemma stage_chmod_post : forall o i tmp target data perm d m,
  tmp <> target -> lookup tmp d = Some (m, data) ->
  post tmp target data perm d (stage_chmod o i tmp target perm d).
Proof.
  intros o i tmp target data perm d m Hne Hl. unfold stage_chmod.
  destruct (o i) as [| ex cut | done cut].
  - destruct (os_chmod tmp perm d) as [d'|] eqn:E.
    + destruct (chmod_frame _ _ _ _ _ _ Hl E) as (A & B).
      apply post_pre. eapply post_trans_dir; [exact B|exact Hne|].
      apply stage_rename_post; assumption.
    + apply post_pre. apply os_remove_post; exact Hne.
  - apply post_pre. apply os_remove_post; exact Hne.
  - apply post_only_tmp; [discriminate|exact Hne|].
    destruct done; [|auto].
    destruct (os_chmod tmp perm d) as [d'|] eqn:E; [|auto].
    destruct (chmod_frame _ _ _ _ _ _ Hl E) as (A & B). exact B.
Qed.

Lemma stage_close_post : forall o i tmp target data perm d m,
  tmp <> target -> lookup tmp d = Some (m, data) ->
  post tmp target data perm d (stage_close o i tmp target perm d).
Proof.
  intros o i tmp target data perm d m Hne Hl. unfold stage_close.
  destruct (o i) as [| ex cut | done cut].
  - apply post_pre. eapply stage_chmod_post; eassumption.
  - apply post_pre. apply os_remove_post; exact Hne.
  - apply post_only_tmp; [discriminate|exact Hne|auto].
Qed.

Lemma append_frame : forall tmp b d m c,
  lookup tmp d = Some (m, c) ->
  lookup tmp (os_append tmp b d) = Some (m, (c ++ b)%list)
  /\ forall n, n <> tmp -> lookup n (os_append tmp b d) = lookup n d.
Proof.
  intros tmp b d m c Hl. unfold os_append. rewrite Hl.
  split; [apply lookup_set_same|]. intros n Hn. apply lookup_set_other; exact Hn.
Qed.

Lemma stage_write_post : forall o i tmp target data perm d m,
  tmp <> target -> lookup tmp d = Some (m, []) ->
  post tmp target data perm d (stage_write o i tmp target data perm d).
Proof.
  intros o i tmp target data perm d m Hne Hl. unfold stage_write.
  destruct (o i) as [| ex cut | done cut].
  - destruct (append_frame tmp data d m [] Hl) as (A & B). cbn in A.
    apply post_pre. eapply post_trans_dir; [exact B|exact Hne|].
    eapply stage_close_post; eassumption.
  - destruct (append_frame tmp (firstn cut data) d m [] Hl) as (A & B).
    destruct (o (S i)) as [| ex2 cut2 | done2 cut2].
    + apply post_pre. eapply post_trans_dir; [exact B|exact Hne|].
      apply os_remove_post; exact Hne.
    + apply post_pre. eapply post_trans_dir; [exact B|exact Hne|].
      apply os_remove_post; exact Hne.
    + apply post_only_tmp; [discriminate|exact Hne|exact B].
  - destruct (append_frame tmp (firstn cut data) d m [] Hl) as (A & B).
    apply post_only_tmp; [discriminate|exact Hne|exact B].
Qed.

(* ---- os.CreateTemp ---- *)

Definition fresh_temp (d d' : dir) (tmp : name) : Prop :=
  prefix atomic_prefix tmp = true /\ lookup tmp d = None /\ d' = set tmp (384, []) d.

Lemma create_frame : forall nm d d', os_create nm d = Some d' ->
  lookup nm d = None /\ d' = set nm (384, []) d.
Proof.
  intros nm d d' H. unfold os_create in H. destruct (mem nm d) eqn:E; [discriminate|].
  injection H as <-. split; [apply mem_false_lookup; exact E|reflexivity].
Qed.

Lemma create_temp_spec : forall sufs o i d cr j tr d',
  create_temp o i sufs d = (cr, j, tr, d') ->
  match cr with
  | CCreated tmp => fresh_temp d d' tmp
  | CFail => d' = d
  | CCrash => d' = d \/ exists tmp, fresh_temp d d' tmp
  end.
Proof.
  induction sufs as [|s rest IH]; intros o i d cr j tr d' H; cbn [create_temp] in H.
  - injection H as <- <- <- <-. reflexivity.
  - destruct (o i) as [| ex cut | done cut].
    + destruct (os_create (atomic_prefix ++ s)%string d) as [d1|] eqn:E.
      * injection H as <- <- <- <-. destruct (create_frame _ _ _ E) as (A & B).
        split; [apply temp_name_prefixed|]. split; assumption.
      * destruct (create_temp o (S i) rest d) as [[[r1 j1] tr1] d1] eqn:E1.
        injection H as <- <- <- <-. eapply IH; exact E1.
    + destruct ex.
      * destruct (create_temp o (S i) rest d) as [[[r1 j1] tr1] d1] eqn:E1.
        injection H as <- <- <- <-. eapply IH; exact E1.
      * injection H as <- <- <- <-. reflexivity.
    + injection H as <- <- <- <-. destruct done; [|left; reflexivity].
      destruct (os_create (atomic_prefix ++ s)%string d) as [d1|] eqn:E; [|left; reflexivity].
      right. exists (atomic_prefix ++ s)%string. destruct (create_frame _ _ _ E) as (A & B).
      split; [apply temp_name_prefixed|]. split; assumption.
Qed.

Lemma fresh_not_target : forall d d' tmp target,
  prefix atomic_prefix target = false -> fresh_temp d d' tmp -> tmp <> target.
Proof. intros d d' tmp target Ht (Hp & _ & _) ->. congruence. Qed.

(* ---- the general theorem: every oracle ---- *)

Definition wfa_post (target : name) (data : bytes) (perm : nat) (d : dir) (r : run) : Prop :=
  (* names that are neither the target nor an atomic-write temporary are untouched *)
  (forall n, n <> target -> prefix atomic_prefix n = false -> lookup n (r_dir r) = lookup n d)
  (* the target holds the old file or the complete new one *)
  /\ (lookup target (r_dir r) = lookup target d \/ lookup target (r_dir r) = Some (perm, data))
  (* nil: the new file is in place and nothing else changed *)
  /\ (r_result r = RNil ->
      lookup target (r_dir r) = Some (perm, data)
      /\ forall n, n <> target -> lookup n (r_dir r) = lookup n d)
  (* error: the target is as it was *)
  /\ (r_result r = RErr -> lookup target (r_dir r) = lookup target d)
  (* whatever happened, at most one name besides the target changed *)
  /\ ((forall n, n <> target -> lookup n (r_dir r) = lookup n d)
      \/ exists tmp, prefix atomic_prefix tmp = true /\ lookup tmp d = None
                     /\ forall n, n <> target -> n <> tmp -> lookup n (r_dir r) = lookup n d).

Lemma wfa_post_of_post : forall tmp target data perm d d1 r,
  prefix atomic_prefix target = false -> fresh_temp d d1 tmp ->
  post tmp target data perm d1 r -> wfa_post target data perm d r.
Proof.
  intros tmp target data perm d d1 r Ht Hf Hp.
  assert (Hne : tmp <> target) by (eapply fresh_not_target; eassumption).
  destruct Hf as (Hpre & Hnone & ->).
  assert (Hd : forall n, n <> tmp -> lookup n (set tmp (384, []) d) = lookup n d)
    by (intros; apply lookup_set_other; assumption).
  apply (post_trans_dir _ _ _ _ d _ _ Hd Hne) in Hp.
  destruct Hp as (A & B & C & D).
  unfold wfa_post. split; [|split; [|split; [|split]]].
  - intros n H1 H2. apply A; [intros ->; congruence|exact H1].
  - exact B.
  - intro Hr. split; [apply C; assumption|]. intros n Hn. destruct (String.eqb n tmp) eqn:E.
    + apply String.eqb_eq in E. subst n. rewrite Hnone. apply C; assumption.
    + apply String.eqb_neq in E. apply A; assumption.
  - exact D.
  - right. exists tmp. split; [exact Hpre|]. split; [exact Hnone|]. intros n H1 H2. apply A; assumption.
Qed.

Lemma wfa_post_same : forall target data perm d res tr,
  res <> RNil -> wfa_post target data perm d (mk res tr d).
Proof.
  intros target data perm d res tr Hres. unfold wfa_post; cbn.
  split; [|split; [|split; [|split]]]; auto.
  intro; contradiction.
Qed.

Theorem wfa_all_oracles : forall o sufs target data perm d,
  prefix atomic_prefix target = false ->
  wfa_post target data perm d (write_file_atomic o sufs target data perm d).
Proof.
  intros o sufs target data perm d Ht. unfold write_file_atomic.
  destruct (create_temp o 0 sufs d) as [[[cr j] tr] d1] eqn:E.
  pose proof (create_temp_spec _ _ _ _ _ _ _ _ E) as Hs.
  destruct cr as [tmp| |].
  - eapply wfa_post_of_post; [exact Ht|exact Hs|].
    apply post_pre. destruct Hs as (Hp & Hn & ->).
    eapply stage_write_post; [|apply lookup_set_same].
    intros ->. congruence.
  - subst d1. apply wfa_post_same. discriminate.
  - destruct Hs as [->|[tmp Hf]].
    + apply wfa_post_same. discriminate.
    + eapply wfa_post_of_post; [exact Ht|exact Hf|].
      assert (Hne : tmp <> target) by (eapply fresh_not_target; eassumption).
      apply post_only_tmp; [discriminate|exact Hne|auto].
Qed.

(* ---- exactly one primitive fails, nothing dies: the temporary is removed ---- *)
Section Single.
Variables (o : oracle) (k : nat) (ex : bool) (cut : nat).
Hypothesis Hk : forall j, j <> k -> o j = Ok.
Hypothesis Hf : o k = Fail ex cut.

Definition clean (tmp : name) (r : run) : Prop :=
  r_result r <> RCrashed /\ lookup tmp (r_dir r) = None.

Lemma single_cases : forall i,
  (o i = Ok /\ i <> k) \/ (o i = Fail ex cut /\ i = k /\ o (S i) = Ok /\ o (S (S i)) = Ok).
Proof.
  intro i. destruct (Nat.eq_dec i k) as [->|N].
  - right. repeat split; [exact Hf|apply Hk; lia|apply Hk; lia].
  - left. split; [apply Hk; exact N|exact N].
Qed.

Lemma os_remove_ok : forall i tmp d f,
  o i = Ok -> lookup tmp d = Some f -> clean tmp (os_remove o i tmp d).
Proof.
  intros i tmp d f Ho Hl. unfold os_remove. rewrite Ho. unfold os_unlink, mem. rewrite Hl.
  split; cbn; [discriminate|apply lookup_remove_same].
Qed.

Lemma clean_pre : forall tmp e r, clean tmp r -> clean tmp (pre e r).
Proof. intros. exact H. Qed.

Lemma stage_rename_single : forall i tmp target d f,
  tmp <> target -> lookup tmp d = Some f -> clean tmp (stage_rename o i tmp target d).
Proof.
  intros i tmp target d f Hne Hl. unfold stage_rename.
  destruct (single_cases i) as [(Ho & _)|(Ho & _ & Ho1 & _)]; rewrite Ho.
  - destruct (os_rename tmp target d) as [d'|] eqn:E.
    + destruct (rename_frame _ _ _ _ _ Hne Hl E) as (_ & B & _). split; cbn; [discriminate|exact B].
    + unfold os_rename in E. rewrite Hl in E. discriminate.
  - apply clean_pre. eapply os_remove_ok; eassumption.
Qed.

Lemma stage_chmod_single : forall i tmp target perm d m c,
  tmp <> target -> lookup tmp d = Some (m, c) -> clean tmp (stage_chmod o i tmp target perm d).
Proof.
  intros i tmp target perm d m c Hne Hl. unfold stage_chmod.
  destruct (single_cases i) as [(Ho & _)|(Ho & _ & Ho1 & _)]; rewrite Ho.
  - destruct (os_chmod tmp perm d) as [d'|] eqn:E.
    + destruct (chmod_frame _ _ _ _ _ _ Hl E) as (A & _).
      apply clean_pre. eapply stage_rename_single; eassumption.
    + unfold os_chmod in E. rewrite Hl in E. discriminate.
  - apply clean_pre. eapply os_remove_ok; eassumption.
Qed.

Lemma stage_close_single : forall i tmp target perm d m c,
  tmp <> target -> lookup tmp d = Some (m, c) -> clean tmp (stage_close o i tmp target perm d).
Proof.
  intros i tmp target perm d m c Hne Hl. unfold stage_close.
  destruct (single_cases i) as [(Ho & _)|(Ho & _ & Ho1 & _)]; rewrite Ho.
  - apply clean_pre. eapply stage_chmod_single; eassumption.
  - apply clean_pre. eapply os_remove_ok; eassumption.
Qed.

Lemma stage_write_single : forall i tmp target data perm d m c,
  tmp <> target -> lookup tmp d = Some (m, c) ->
  clean tmp (stage_write o i tmp target data perm d).
Proof.
  intros i tmp target data perm d m c Hne Hl. unfold stage_write.
  destruct (single_cases i) as [(Ho & _)|(Ho & _ & Ho1 & Ho2)]; rewrite Ho.
  - destruct (append_frame tmp data d m c Hl) as (A & _).
    apply clean_pre. eapply stage_close_single; eassumption.
  - rewrite Ho1. destruct (append_frame tmp (firstn cut data) d m c Hl) as (A & _).
    apply clean_pre. eapply os_remove_ok; eassumption.
Qed.

Lemma create_temp_single : forall sufs i d cr j tr d',
  create_temp o i sufs d = (cr, j, tr, d') -> cr <> CCrash.
Proof.
  induction sufs as [|s rest IH]; intros i d cr j tr d' H; cbn [create_temp] in H.
  - injection H as <- <- <- <-. discriminate.
  - destruct (single_cases i) as [(Ho & _)|(Ho & _ & _ & _)]; rewrite Ho in H.
    + destruct (os_create (atomic_prefix ++ s)%string d) as [d1|].
      * injection H as <- <- <- <-. discriminate.
      * destruct (create_temp o (S i) rest d) as [[[r1 j1] tr1] d1] eqn:E1.
        injection H as <- <- <- <-. eapply IH; exact E1.
    + destruct ex.
      * destruct (create_temp o (S i) rest d) as [[[r1 j1] tr1] d1] eqn:E1.
        injection H as <- <- <- <-. eapply IH; exact E1.
      * injection H as <- <- <- <-. discriminate.
Qed.

Theorem wfa_single_fault : forall sufs target data perm d,
  prefix atomic_prefix target = false ->
  let r := write_file_atomic o sufs target data perm d in
  r_result r <> RCrashed
  /\ (forall n, n <> target -> lookup n (r_dir r) = lookup n d)
  /\ (r_result r = RErr -> lookup target (r_dir r) = lookup target d).
Proof.
  intros sufs target data perm d Ht r.
  pose proof (wfa_all_oracles o sufs target data perm d Ht) as (_ & _ & _ & HE & _).
  fold r in HE. split; [|split; [|exact HE]]; subst r; unfold write_file_atomic.
  - destruct (create_temp o 0 sufs d) as [[[cr j] tr] d1] eqn:E.
    pose proof (create_temp_single _ _ _ _ _ _ _ E) as Hc.
    pose proof (create_temp_spec _ _ _ _ _ _ _ _ E) as Hs.
    destruct cr as [tmp| |]; [|discriminate|contradiction].
    destruct Hs as (Hp & Hn & ->).
    assert (Hne : tmp <> target) by (intros ->; congruence).
    apply (clean_pre tmp tr).
    eapply stage_write_single; [exact Hne|apply lookup_set_same].
  - destruct (create_temp o 0 sufs d) as [[[cr j] tr] d1] eqn:E.
    pose proof (create_temp_single _ _ _ _ _ _ _ E) as Hc.
    pose proof (create_temp_spec _ _ _ _ _ _ _ _ E) as Hs.
    destruct cr as [tmp| |]; [|subst d1; reflexivity|contradiction].
    destruct Hs as (Hp & Hn & ->).
    assert (Hne : tmp <> target) by (intros ->; congruence).
    intros n Hnt. rewrite r_dir_pre.
    destruct (String.eqb n tmp) eqn:En.
    + apply String.eqb_eq in En. subst n. rewrite Hn.
      eapply stage_write_single; [exact Hne|apply lookup_set_same].
    + apply String.eqb_neq in En.
      pose proof (stage_write_post o j tmp target data perm _ 384 Hne
                    (lookup_set_same tmp (384, []) d)) as (A & _).
      rewrite A by assumption. apply lookup_set_other; exact En.
Qed.
End Single.

Lemma only_at_other : forall k x j, j <> k -> only_at k x j = Ok.
Proof. intros k x j H. unfold only_at. apply Nat.eqb_neq in H. rewrite H. reflexivity. Qed.

Lemma only_at_same : forall k x, only_at k x k = x.
Proof. intros. unfold only_at. rewrite Nat.eqb_refl. reflexivity. Qed.

Theorem wfa_fail_at : forall k ex cut sufs target data perm d,
  prefix atomic_prefix target = false ->
  let r := write_file_atomic (only_at k (Fail ex cut)) sufs target data perm d in
  r_result r <> RCrashed
  /\ (forall n, n <> target -> lookup n (r_dir r) = lookup n d)
  /\ (r_result r = RErr -> lookup target (r_dir r) = lookup target d).
Proof.
  intros k ex cut sufs target data perm d Ht.
  eapply wfa_single_fault; [apply only_at_other|apply only_at_same|exact Ht].
Qed.

(* ---- contents ---- *)

Lemma content_lookup : forall n d d', lookup n d = lookup n d' -> content n d = content n d'.
Proof. intros n d d' H. unfold content. rewrite H. reflexivity. Qed.

Lemma content_some : forall n d p c, lookup n d = Some (p, c) -> content n d = Some c.
Proof. intros n d p c H. unfold content. rewrite H. reflexivity. Qed.

Theorem wfa_content : forall o sufs target data perm d,
  prefix atomic_prefix target = false ->
  let r := write_file_atomic o sufs target data perm d in
  content target (r_dir r) = content target d \/ content target (r_dir r) = Some data.
Proof.
  intros o sufs target data perm d Ht r.
  pose proof (wfa_all_oracles o sufs target data perm d Ht) as (_ & [B|B] & _).
  - left. apply content_lookup. exact B.
  - right. eapply content_some. exact B.
Qed.

Theorem wfa_stray_prefixed : forall o sufs target data perm d n,
  prefix atomic_prefix target = false ->
  let r := write_file_atomic o sufs target data perm d in
  n <> target -> lookup n (r_dir r) <> lookup n d ->
  prefix temporary_name_prefix n = true /\ prefix atomic_prefix n = true
  /\ scan_visible n = false.
Proof.
  intros o sufs target data perm d n Ht r Hn Hch.
  pose proof (wfa_all_oracles o sufs target data perm d Ht) as (A & _).
  destruct (prefix atomic_prefix n) eqn:E.
  - pose proof (atomic_prefix_temporary n E) as Hp.
    split; [exact Hp|]. split; [reflexivity|]. unfold scan_visible. rewrite Hp. reflexivity.
  - exfalso. apply Hch. apply A; assumption.
Qed.

(* ---- the checker ---- *)

Lemma bytes_eqb_eq : forall a b, bytes_eqb a b = true <-> a = b.
Proof.
  induction a as [|x a IH]; destruct b as [|y b]; cbn; split; intro H;
    try reflexivity; try discriminate.
  - apply andb_true_iff in H. destruct H as [H1 H2]. apply N.eqb_eq in H1.
    apply IH in H2. congruence.
  - injection H as -> ->. rewrite N.eqb_refl. cbn. apply IH. reflexivity.
Qed.

Lemma ocontent_eqb_eq : forall a b, ocontent_eqb a b = true <-> a = b.
Proof.
  destruct a as [x|]; destruct b as [y|]; cbn; split; intro H;
    try reflexivity; try discriminate.
  - apply bytes_eqb_eq in H. congruence.
  - injection H as ->. apply bytes_eqb_eq. reflexivity.
Qed.

Lemma mem_in : forall n d, mem n d = true -> In n (map fst d).
Proof.
  intros n d. unfold mem. induction d as [|[k f] t IH]; cbn; [discriminate|].
  destruct (String.eqb n k) eqn:E.
  - apply String.eqb_eq in E. intros _. left. symmetry. exact E.
  - intro H. right. apply IH. exact H.
Qed.

Lemma in_mem : forall n d, In n (map fst d) -> mem n d = true.
Proof.
  intros n d. unfold mem. induction d as [|[k f] t IH]; cbn; [contradiction|].
  intros [<-|H].
  - rewrite String.eqb_refl. reflexivity.
  - destruct (String.eqb n k); [reflexivity|apply IH; exact H].
Qed.

Lemma existsb_eqb_false : forall n l, existsb (String.eqb n) l = false <-> ~ In n l.
Proof.
  intros n l. induction l as [|x l IH]; cbn.
  - split; [intros _ []|reflexivity].
  - rewrite orb_false_iff, IH. split.
    + intros [H1 H2] [<-|H]; [rewrite String.eqb_refl in H1; discriminate|contradiction].
    + intro H. split.
      * apply String.eqb_neq. intros ->. apply H. left. reflexivity.
      * intro H'. apply H. right. exact H'.
Qed.

(* The property on an observed outcome, as a proposition. *)
Definition holds_C27 (target : name) (data : bytes) (before after : dir) (scanned : list name) : Prop :=
  (content target after = content target before \/ content target after = Some data)
  /\ forall n, mem n after = true -> n <> target -> mem n before = false ->
               prefix temporary_name_prefix n = true /\ ~ In n scanned.

Theorem check_C27_sound : forall target data before after scanned,
  check_C27 target data before after scanned = true ->
  holds_C27 target data before after scanned.
Proof.
  intros target data before after scanned H. unfold check_C27 in H.
  apply andb_true_iff in H. destruct H as [H1 H2]. split.
  - apply orb_true_iff in H1. destruct H1 as [H1|H1]; apply ocontent_eqb_eq in H1; auto.
  - intros n Hm Hn Hb. rewrite forallb_forall in H2.
    specialize (H2 n (mem_in _ _ Hm)). unfold stray_ok in H2. rewrite Hb in H2.
    apply String.eqb_neq in Hn. rewrite Hn in H2. cbn in H2.
    apply andb_true_iff in H2. destruct H2 as [H2 H3]. split; [exact H2|].
    apply existsb_eqb_false. apply negb_true_iff. exact H3.
Qed.

Lemma not_scanned : forall n d, scan_visible n = false ->
  existsb (String.eqb n) (scan_names d) = false.
Proof.
  intros n d H. apply existsb_eqb_false. unfold scan_names. intro Hin.
  apply filter_In in Hin. destruct Hin as [_ Hv]. congruence.
Qed.

Theorem check_C27_model : forall o sufs target data perm d,
  prefix atomic_prefix target = false ->
  let r := write_file_atomic o sufs target data perm d in
  check_C27 target data d (r_dir r) (scan_names (r_dir r)) = true.
Proof.
  intros o sufs target data perm d Ht r. unfold check_C27. apply andb_true_iff. split.
  - apply orb_true_iff.
    destruct (wfa_content o sufs target data perm d Ht) as [H|H]; fold r in H;
      [left|right]; apply ocontent_eqb_eq; exact H.
  - apply forallb_forall. intros n Hin. unfold stray_ok.
    destruct (String.eqb n target) eqn:E; [reflexivity|]. apply String.eqb_neq in E. cbn.
    destruct (prefix atomic_prefix n) eqn:Ep.
    + pose proof (atomic_prefix_temporary n Ep) as Hp. rewrite Hp.
      rewrite not_scanned; [apply orb_true_r|]. unfold scan_visible. rewrite Hp. reflexivity.
    + pose proof (wfa_all_oracles o sufs target data perm d Ht) as (A & _). fold r in A.
      apply in_mem in Hin. unfold mem in *. rewrite (A n E Ep) in Hin. rewrite Hin. reflexivity.
Qed.

(* Non-vacuity: a concrete run with a fault in the middle and a failing cleanup. *)
Local Open Scope string_scope.
Example wfa_example :
  let d := [("session"%string, (420, [1; 2; 3]%N)); ("other"%string, (384, [9]%N))] in
  let o := fun i => match i with 3 => Fail false 0 | 4 => Fail false 0 | _ => Ok end in
  let r := write_file_atomic o ["77"%string] "session" [4; 5; 6; 7]%N 384 d in
  prefix atomic_prefix "session" = false
  /\ r_result r = RErr
  /\ content "session" (r_dir r) = Some [1; 2; 3]%N
  /\ content (atomic_prefix ++ "77") (r_dir r) = Some [4; 5; 6; 7]%N
  /\ r_result (write_file_atomic (fun _ => Ok) ["77"%string] "session" [4; 5; 6; 7]%N 384 d) = RNil
  /\ content "session"
       (r_dir (write_file_atomic (only_at 4 (Crash true 0)) ["77"%string] "session" [4; 5; 6; 7]%N 384 d))
     = Some [4; 5; 6; 7]%N
  /\ content (atomic_prefix ++ "77")
       (r_dir (write_file_atomic (only_at 1 (Crash false 2)) ["77"%string] "session" [4; 5; 6; 7]%N 384 d))
     = Some [4; 5]%N.
Proof. vm_compute. repeat split; reflexivity. Qed.
