(* Lemmas about Model/Bundle.v (C46). *)
From Coq Require Import List String Bool.
Import ListNotations.
From Mv Require Import Model.Bundle.
Local Open Scope string_scope.
Local Open Scope list_scope.

(* ---- the search loop with the repair: first hit wins ---- *)

Lemma locate_fixed_found :
  forall dirs f, locate true dirs = LFound f <-> first_holder dirs f.
Proof.
  unfold locate, first_holder, all_absent.
  induction dirs as [|s t IH]; intros f; cbn.
  - split; [discriminate|]. intros (pre & post & H & _). destruct pre; discriminate.
  - destruct s; cbn.
    + rewrite IH. split.
      * intros (pre & post & -> & Hp). exists (SAbsent :: pre), post. split; [reflexivity|].
        constructor; auto.
      * intros (pre & post & H & Hp). destruct pre as [|p pre]; cbn in H; [discriminate|].
        inversion H; subst. inversion Hp; subst. exists pre, post. auto.
    + split; [discriminate|]. intros (pre & post & H & Hp).
      destruct pre as [|p pre]; cbn in H; [discriminate|]. inversion H; subst.
      inversion Hp; subst. discriminate.
    + split; [discriminate|]. intros (pre & post & H & Hp).
      destruct pre as [|p pre]; cbn in H; [discriminate|]. inversion H; subst.
      inversion Hp; subst. discriminate.
    + split.
      * intros H; inversion H; subst. exists [], t. split; [reflexivity|constructor].
      * intros (pre & post & H & Hp). destruct pre as [|p pre]; cbn in H.
        -- inversion H; subst. reflexivity.
        -- inversion H; subst. inversion Hp; subst. discriminate.
Qed.

Lemma first_holder_unique :
  forall dirs f g, first_holder dirs f -> first_holder dirs g -> f = g.
Proof.
  intros dirs f g Hf Hg. apply locate_fixed_found in Hf. apply locate_fixed_found in Hg.
  rewrite Hf in Hg. inversion Hg; reflexivity.
Qed.

Lemma bundle_first_wins :
  forall i f, first_holder (search_dirs i) f ->
              run true i = extract f (goos i) (goarch i).
Proof.
  intros i f H. apply locate_fixed_found in H. unfold run. rewrite H. reflexivity.
Qed.

Lemma bundle_exe_precedence :
  forall i f, exe_slot i = SFile f -> run true i = extract f (goos i) (goarch i).
Proof.
  intros i f H. apply bundle_first_wins. exists [], (if in_bin i then [lib_slot i] else []).
  split; [|constructor]. unfold search_dirs. rewrite H. reflexivity.
Qed.

Lemma bundle_libexec_second :
  forall i f, exe_slot i = SAbsent -> in_bin i = true -> lib_slot i = SFile f ->
              run true i = extract f (goos i) (goarch i).
Proof.
  intros i f He Hb Hl. apply bundle_first_wins. exists [SAbsent], [].
  split; [|repeat constructor]. unfold search_dirs. rewrite He, Hb, Hl. reflexivity.
Qed.

Lemma bundle_libexec_only_in_bin :
  forall fixed i, in_bin i = false -> exe_slot i = SAbsent -> run fixed i = OErr ENotFound.
Proof.
  intros fixed i Hb He. unfold run, locate, search_dirs. rewrite Hb, He. reflexivity.
Qed.

(* ---- extraction ---- *)

Lemma find_entry_spec :
  forall n a b, find_entry n a = Some b <->
    exists a1 a2, a = a1 ++ (n, b) :: a2 /\ ~ In n (map fst a1).
Proof.
  intros n a; induction a as [|[m c] t IH]; intros b; cbn.
  - split; [discriminate|]. intros (a1 & a2 & H & _). destruct a1; discriminate.
  - destruct (String.eqb m n) eqn:E.
    + apply String.eqb_eq in E; subst m. split.
      * intros H; inversion H; subst. exists [], t. split; [reflexivity|]. intros [].
      * intros (a1 & a2 & H & Hn). destruct a1 as [|[m' c'] a1]; cbn in H.
        -- inversion H; reflexivity.
        -- inversion H; subst. exfalso. apply Hn. left; reflexivity.
    + apply String.eqb_neq in E. rewrite IH. split.
      * intros (a1 & a2 & -> & Hn). exists ((m, c) :: a1), a2. split; [reflexivity|].
        cbn. intros [H|H]; [congruence|auto].
      * intros (a1 & a2 & H & Hn). destruct a1 as [|[m' c'] a1]; cbn in H.
        -- inversion H; subst. congruence.
        -- inversion H; subst. exists a1, a2. split; [reflexivity|].
           intros Hin. apply Hn. right; exact Hin.
Qed.

Lemma find_entry_none :
  forall n a, find_entry n a = None <-> ~ In n (map fst a).
Proof.
  intros n a; induction a as [|[m c] t IH]; cbn.
  - split; auto.
  - destruct (String.eqb m n) eqn:E.
    + apply String.eqb_eq in E; subst. split; [discriminate|]. intros H; exfalso; apply H; auto.
    + apply String.eqb_neq in E. rewrite IH. split.
      * intros H [H1|H1]; auto.
      * intros H H1; apply H; auto.
Qed.

Lemma bundle_bytes :
  forall i b x, run true i = OOk b x ->
    exists a, first_holder (search_dirs i) (FArchive a)
              /\ find_entry (platform_name (goos i) (goarch i)) a = Some b
              /\ x = negb (String.eqb (goos i) "windows").
Proof.
  intros i b x H. unfold run in H.
  destruct (locate true (search_dirs i)) as [e| |f] eqn:L; try discriminate.
  apply locate_fixed_found in L. destruct f as [| |a]; cbn in H; try discriminate.
  exists a. destruct (find_entry _ a) eqn:F; [|discriminate]. inversion H; subst. auto.
Qed.

Lemma bundle_unknown :
  forall i a, first_holder (search_dirs i) (FArchive a) ->
    ~ In (platform_name (goos i) (goarch i)) (map fst a) ->
    run true i = OErr EUnsupported.
Proof.
  intros i a H Hn. rewrite (bundle_first_wins _ _ H). cbn.
  apply find_entry_none in Hn. rewrite Hn. reflexivity.
Qed.

(* whatever the search does (repaired or not): bytes only ever come from an
   entry named for the platform in one of the bundles present *)
Lemma locate_from_found_in :
  forall fixed dirs cur f, locate_from fixed cur dirs = LFound f ->
    cur = Some f \/ In (SFile f) dirs.
Proof.
  induction dirs as [|s t IH]; intros cur f H; cbn in H.
  - destruct cur; inversion H; auto.
  - destruct s; try discriminate.
    + destruct (IH _ _ H); auto. right; right; auto.
    + destruct fixed.
      * inversion H; subst. right; left; reflexivity.
      * destruct (IH _ _ H) as [E|E]; [inversion E; subst; right; left; reflexivity|right; right; auto].
Qed.

Lemma bundle_bytes_any :
  forall fixed i b x, run fixed i = OOk b x ->
    exists a, In (SFile (FArchive a)) (search_dirs i)
              /\ In (platform_name (goos i) (goarch i), b) a.
Proof.
  intros fixed i b x H. unfold run in H.
  destruct (locate fixed (search_dirs i)) as [e| |f] eqn:L; try discriminate.
  apply locate_from_found_in in L. destruct L as [L|L]; [discriminate|].
  destruct f as [| |a]; cbn in H; try discriminate.
  exists a. split; [exact L|].
  destruct (find_entry _ a) eqn:F; [|discriminate]. inversion H; subst.
  apply find_entry_spec in F. destruct F as (a1 & a2 & -> & _). apply in_or_app. right; left; reflexivity.
Qed.

(* extraction replaces whatever the output path held *)
Lemma output_replaced :
  forall fixed i p, run fixed (with_pre i p) = run fixed i.
Proof. intros fixed i p. reflexivity. Qed.

Lemma bundle_bytes_over_existing :
  forall i old b x, run true (with_pre i (Some old)) = OOk b x ->
    exists a, first_holder (search_dirs i) (FArchive a)
              /\ find_entry (platform_name (goos i) (goarch i)) a = Some b.
Proof.
  intros i old b x H. rewrite output_replaced in H.
  destruct (bundle_bytes i b x H) as (a & Ha & Hb & _). eauto.
Qed.

(* ---- the checker ---- *)

Lemma has_entry_In :
  forall n b a, has_entry n b a = true <-> In (n, b) a.
Proof.
  intros n b a; induction a as [|[m c] t IH]; cbn.
  - split; [discriminate|tauto].
  - rewrite orb_true_iff, andb_true_iff, IH, !String.eqb_eq. split.
    + intros [[-> ->]|H]; auto.
    + intros [H|H]; [inversion H; auto|auto].
Qed.

Lemma existsb_name_In :
  forall n l, existsb (String.eqb n) l = true <-> In n l.
Proof.
  intros n l. rewrite existsb_exists. split.
  - intros (x & Hx & E). apply String.eqb_eq in E. subst; auto.
  - intros H. exists n. split; auto. apply String.eqb_refl.
Qed.

Lemma respects_sound :
  forall f os arch o, respects f os arch o = true -> respects_prop f os arch o.
Proof.
  intros f os arch o H. destruct f as [| |a]; cbn in *; try (destruct o; exact H).
  destruct o as [e|b x].
  - apply negb_true_iff in H. intros Hin. apply existsb_name_In in Hin. congruence.
  - apply has_entry_In; exact H.
Qed.

Lemma first_present_holder :
  forall dirs f, first_present dirs = Some (SFile f) <-> first_holder dirs f.
Proof.
  unfold first_holder, all_absent.
  induction dirs as [|s t IH]; intros f; cbn.
  - split; [discriminate|]. intros (pre & post & H & _); destruct pre; discriminate.
  - destruct s; cbn.
    + rewrite IH. split.
      * intros (pre & post & -> & Hp). exists (SAbsent :: pre), post. split; [reflexivity|constructor; auto].
      * intros (pre & post & H & Hp). destruct pre as [|p pre]; cbn in H; [discriminate|].
        inversion H; subst. inversion Hp; subst. exists pre, post; auto.
    + split; [discriminate|]. intros (pre & post & H & Hp).
      destruct pre as [|p pre]; cbn in H; [discriminate|]. inversion H; subst. inversion Hp; subst. discriminate.
    + split; [discriminate|]. intros (pre & post & H & Hp).
      destruct pre as [|p pre]; cbn in H; [discriminate|]. inversion H; subst. inversion Hp; subst. discriminate.
    + split.
      * intros H; inversion H; subst. exists [], t. split; [reflexivity|constructor].
      * intros (pre & post & H & Hp). destruct pre as [|p pre]; cbn in H.
        -- inversion H; reflexivity.
        -- inversion H; subst. inversion Hp; subst. discriminate.
Qed.

Lemma first_present_none :
  forall dirs, first_present dirs = None -> forall s, In s dirs -> s = SAbsent.
Proof.
  induction dirs as [|s t IH]; cbn; intros H x Hx; [contradiction|].
  destruct s; cbn in H; try discriminate. destruct Hx; [auto|apply IH; auto].
Qed.

Lemma existsb_is_file_false :
  forall dirs, existsb is_file dirs = false <-> (forall s, In s dirs -> is_file s = false).
Proof.
  intros dirs. split.
  - intros H s Hs. destruct (is_file s) eqn:E; [|reflexivity].
    assert (existsb is_file dirs = true) by (apply existsb_exists; eauto). congruence.
  - intros H. destruct (existsb is_file dirs) eqn:E; [|reflexivity].
    apply existsb_exists in E. destruct E as (s & Hs & E). rewrite (H s Hs) in E. discriminate.
Qed.

Lemma check_sound :
  forall i o, check_C46 i o = true -> prop_C46 i o.
Proof.
  intros i o H. unfold check_C46 in H. split.
  - intros f Hf. apply first_present_holder in Hf. rewrite Hf in H.
    apply respects_sound; exact H.
  - intros Hnf. destruct (first_present (search_dirs i)) as [s|] eqn:F; [|exact H].
    apply existsb_is_file_false in Hnf. rewrite Hnf in H.
    destruct s as [| | |f]; try exact H.
    apply first_present_holder in F. destruct F as (pre & post & E & _).
    apply existsb_is_file_false with (s := SFile f) in Hnf; [discriminate|].
    rewrite E. apply in_or_app. right; left; reflexivity.
Qed.

Lemma extract_respects :
  forall f os arch, respects f os arch (extract f os arch) = true.
Proof.
  intros f os arch. destruct f as [| |a]; cbn; try reflexivity.
  destruct (find_entry (platform_name os arch) a) eqn:F.
  - apply has_entry_In. apply find_entry_spec in F. destruct F as (a1 & a2 & -> & _).
    apply in_or_app; right; left; reflexivity.
  - apply negb_true_iff. apply find_entry_none in F.
    destruct (existsb _ _) eqn:E; [|reflexivity]. apply existsb_name_In in E. contradiction.
Qed.

Lemma locate_fixed_no_file :
  forall dirs, existsb is_file dirs = false ->
    match locate true dirs with LFound _ => False | _ => True end.
Proof.
  intros dirs H. destruct (locate true dirs) eqn:L; auto.
  apply locate_fixed_found in L. destruct L as (pre & post & E & _).
  assert (existsb is_file dirs = true).
  { apply existsb_exists. exists (SFile f). split; [|reflexivity]. rewrite E. apply in_or_app; right; left; reflexivity. }
  congruence.
Qed.

Lemma model_passes :
  forall i, check_C46 i (run true i) = true.
Proof.
  intros i. unfold check_C46.
  destruct (first_present (search_dirs i)) as [s|] eqn:F.
  - destruct s as [| | |f].
    + destruct (existsb is_file (search_dirs i)) eqn:E; [reflexivity|].
      apply locate_fixed_no_file in E. unfold run. destruct (locate true (search_dirs i)); tauto || reflexivity.
    + destruct (existsb is_file (search_dirs i)) eqn:E; [reflexivity|].
      apply locate_fixed_no_file in E. unfold run. destruct (locate true (search_dirs i)); tauto || reflexivity.
    + destruct (existsb is_file (search_dirs i)) eqn:E; [reflexivity|].
      apply locate_fixed_no_file in E. unfold run. destruct (locate true (search_dirs i)); tauto || reflexivity.
    + apply first_present_holder in F. rewrite (bundle_first_wins _ _ F). apply extract_respects.
  - assert (E : existsb is_file (search_dirs i) = false).
    { apply existsb_is_file_false. intros s Hs. rewrite (first_present_none _ F s Hs). reflexivity. }
    apply locate_fixed_no_file in E. unfold run. destruct (locate true (search_dirs i)); tauto || reflexivity.
Qed.

(* ---- the unrepaired loop refutes the property ---- *)

Definition witness_both : input :=
  {| in_bin := true;
     exe_slot := SFile (FArchive [("linux_amd64", "EXE")]);
     lib_slot := SFile (FArchive [("linux_amd64", "LIB")]);
     goos := "linux"; goarch := "amd64"; out_pre := Some "a longer file that was there before" |}.

Definition witness_later_error : input :=
  {| in_bin := true;
     exe_slot := SFile (FArchive [("linux_amd64", "EXE")]);
     lib_slot := SOpenErr;
     goos := "linux"; goarch := "amd64"; out_pre := Some "a longer file that was there before" |}.

Lemma refuted_unfixed_check :
  exists i, check_C46 i (run false i) = false.
Proof. exists witness_both. vm_compute. reflexivity. Qed.

Lemma refuted_unfixed_statement :
  exists i f, first_holder (search_dirs i) f /\ run false i <> extract f (goos i) (goarch i).
Proof.
  exists witness_both, (FArchive [("linux_amd64", "EXE")]). split.
  - exists [], [SFile (FArchive [("linux_amd64", "LIB")])]. split; [reflexivity|constructor].
  - vm_compute. discriminate.
Qed.

Lemma refuted_unfixed_later_error :
  check_C46 witness_later_error (run false witness_later_error) = false.
Proof. vm_compute. reflexivity. Qed.

Lemma example_fixed :
  run true witness_both = OOk "EXE" true /\ run false witness_both = OOk "LIB" true
  /\ first_holder (search_dirs witness_both) (FArchive [("linux_amd64", "EXE")]).
Proof.
  split; [vm_compute; reflexivity|]. split; [vm_compute; reflexivity|].
  exists [], [SFile (FArchive [("linux_amd64", "LIB")])]. split; [reflexivity|constructor].
Qed.
