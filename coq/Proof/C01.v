(* C01: two-way-safe synchronization never loses a modification.
   Handler lemmas, the one-cycle theorems, checker <-> proposition, histories. *)
From Coq Require Import List Bool Arith String Lia.
Import ListNotations.
From Mv Require Import Model.Entry Model.Reconcile Model.CheckC01
  Proof.EntryFacts Proof.C01Base Proof.C01Diff Proof.C01Reach.

Local Open Scope list_scope.

(* ---------- what a side looks like when the handler decides to overwrite it ---------- *)
Lemma side_unchanged : forall s p anc e,
  wf true anc = true -> wf s e = true ->
  diff p anc (synchronizable e) = [] -> diff p (synchronizable e) e = [] -> anc = e.
Proof.
  intros s p anc e Wa We H1 H2.
  apply (residue_nil_iff s e p We) in H2.
  apply (diff_nil_eq true true) in H1; [congruence|exact Wa|].
  apply (synchronizable_wf s). exact We.
Qed.

Lemma side_deleted_only : forall s p anc e,
  wf true anc = true -> wf s e = true ->
  non_deletion (diff p anc (synchronizable e)) = [] -> diff p (synchronizable e) e = [] ->
  synchronizable e = e /\ unsync_free e = true /\ subtree e anc = true.
Proof.
  intros s p anc e Wa We H1 H2. split.
  - apply (residue_nil_iff s e p We). exact H2.
  - eapply nd_nil_side; eauto.
Qed.

Ltac in_single H := cbn [alpha_ch beta_ch conflicts p_alpha p_beta p_conflict p_anc empty_plan In] in H.

(* alpha side, both two-way modes *)
Lemma hb_alpha : forall m p anc al be ch,
  wf true anc = true -> wf false al = true ->
  In ch (alpha_ch (handle_bidirectional m p anc al be)) ->
  cpath ch = p /\ cold ch = al /\ unsync_free al = true /\ subtree al anc = true.
Proof.
  intros m p anc al be ch Wa Wl H. unfold handle_bidirectional in H. cbv zeta in H.
  destruct (is_nil (diff p anc (synchronizable be))) eqn:Eb.
  { destruct (negb (is_nil (diff p (synchronizable be) be))); in_single H; destruct H. }
  destruct (is_nil (diff p anc (synchronizable al))) eqn:Ea.
  { destruct (is_nil (diff p (synchronizable al) al)) eqn:Eu; cbn [negb] in H; in_single H;
      [|destruct H].
    destruct H as [<-|[]]. apply is_nil_true in Ea, Eu.
    pose proof (side_unchanged false p anc al Wa Wl Ea Eu) as Eq.
    assert (Hnd : non_deletion (diff p anc (synchronizable al)) = []) by (rewrite Ea; reflexivity).
    destruct (side_deleted_only false p anc al Wa Wl Hnd Eu) as [_ [U S]].
    cbn [cpath cold mk]. auto. }
  destruct (is_nil (non_deletion (diff p anc (synchronizable al)))) eqn:Na;
    destruct (is_nil (non_deletion (diff p anc (synchronizable be)))) eqn:Nb; cbn [andb] in H.
  - (* both sides deleted only *)
    destruct (synchronizable al) as [a|] eqn:Sa.
    + destruct (is_nil (diff p (Some a) al)) eqn:Eu; cbn [negb] in H; in_single H; [|destruct H].
      destruct H as [<-|[]]. apply is_nil_true in Na, Eu. rewrite <- Sa in Na, Eu.
      destruct (side_deleted_only false p anc al Wa Wl Na Eu) as [Eq [U S]].
      cbn [cpath cold mk]. rewrite <- Sa. auto.
    + destruct (negb (is_nil (diff p (synchronizable be) be))); in_single H; destruct H.
  - (* alpha deleted only, beta has creations/modifications *)
    destruct (is_nil (diff p (synchronizable al) al)) eqn:Eu; cbn [negb] in H; in_single H;
      [|destruct H].
    destruct H as [<-|[]]. apply is_nil_true in Na, Eu.
    destruct (side_deleted_only false p anc al Wa Wl Na Eu) as [Eq [U S]].
    cbn [cpath cold mk]. auto.
  - destruct (negb (is_nil (diff p (synchronizable be) be))); in_single H; destruct H.
  - destruct m; try (destruct (negb (is_nil (diff p (synchronizable be) be))));
      in_single H; destruct H.
Qed.

(* beta side, two-way-safe *)
Lemma hb_beta_safe : forall p anc al be ch,
  wf true anc = true -> wf false be = true ->
  In ch (beta_ch (handle_bidirectional TwoWaySafe p anc al be)) ->
  cpath ch = p /\ cold ch = be /\ unsync_free be = true /\ subtree be anc = true.
Proof.
  intros p anc al be ch Wa Wb H. unfold handle_bidirectional in H. cbv zeta in H.
  destruct (is_nil (diff p anc (synchronizable be))) eqn:Eb.
  { destruct (is_nil (diff p (synchronizable be) be)) eqn:Eu; cbn [negb] in H; in_single H;
      [|destruct H].
    destruct H as [<-|[]]. apply is_nil_true in Eb, Eu.
    pose proof (side_unchanged false p anc be Wa Wb Eb Eu) as Eq.
    assert (Hnd : non_deletion (diff p anc (synchronizable be)) = []) by (rewrite Eb; reflexivity).
    destruct (side_deleted_only false p anc be Wa Wb Hnd Eu) as [_ [U S]].
    cbn [cpath cold mk]. auto. }
  destruct (is_nil (diff p anc (synchronizable al))) eqn:Ea.
  { destruct (negb (is_nil (diff p (synchronizable al) al))); in_single H; destruct H. }
  destruct (is_nil (non_deletion (diff p anc (synchronizable al)))) eqn:Na;
    destruct (is_nil (non_deletion (diff p anc (synchronizable be)))) eqn:Nb; cbn [andb] in H.
  - destruct (synchronizable al) as [a|] eqn:Sa.
    + destruct (negb (is_nil (diff p (Some a) al))); in_single H; destruct H.
    + destruct (is_nil (diff p (synchronizable be) be)) eqn:Eu; cbn [negb] in H; in_single H;
        [|destruct H].
      destruct H as [<-|[]]. apply is_nil_true in Nb, Eu.
      destruct (side_deleted_only false p anc be Wa Wb Nb Eu) as [Eq [U S]].
      cbn [cpath cold mk]. auto.
  - destruct (negb (is_nil (diff p (synchronizable al) al))); in_single H; destruct H.
  - destruct (is_nil (diff p (synchronizable be) be)) eqn:Eu; cbn [negb] in H; in_single H;
      [|destruct H].
    destruct H as [<-|[]]. apply is_nil_true in Nb, Eu.
    destruct (side_deleted_only false p anc be Wa Wb Nb Eu) as [Eq [U S]].
    cbn [cpath cold mk]. auto.
  - in_single H. destruct H.
Qed.

(* every change a handler emits sits exactly at the handler's path *)
Lemma handle_paths : forall m p anc al be ch,
  In ch (alpha_ch (handle m p anc al be) ++ beta_ch (handle m p anc al be)) -> cpath ch = p.
Proof.
  intros m p anc al be ch H. apply in_app_or in H.
  unfold handle, handle_bidirectional, handle_one_way_safe, handle_one_way_replica in H.
  cbv zeta in H.
  destruct m;
    repeat match type of H with
           | context [if ?b then _ else _] => destruct b
           | context [match ?x with Some _ => _ | None => _ end] => destruct x
           end;
    in_single H; destruct H as [H|H]; try (destruct H as [<-|[]]; reflexivity); destruct H.
Qed.

(* where both sides created or modified, two-way-safe reports a conflict *)
Lemma hb_both_modified : forall p anc al be,
  has_non_deletion p anc al = true -> has_non_deletion p anc be = true ->
  handle_bidirectional TwoWaySafe p anc al be =
  p_conflict (mkc p (non_deletion (diff p anc (synchronizable al)))
                    (non_deletion (diff p anc (synchronizable be)))).
Proof.
  intros p anc al be Ha Hb. unfold has_non_deletion in *.
  apply negb_true_iff in Ha, Hb.
  unfold handle_bidirectional. cbv zeta.
  destruct (diff p anc (synchronizable be)) as [|cb tb] eqn:Eb; [discriminate|].
  destruct (diff p anc (synchronizable al)) as [|ca ta] eqn:Ea; [discriminate|].
  cbn [is_nil]. rewrite Ha, Hb. reflexivity.
Qed.

(* ---------- the one-cycle theorems ---------- *)
Lemma subtree_reached : forall x anc' anc q,
  subtree x anc' = true -> (anc' = at_path anc q \/ anc' = None) ->
  subtree x (at_path anc q) = true.
Proof.
  intros x anc' anc q S [->| ->]; [exact S|].
  apply subtree_none_r in S. subst. reflexivity.
Qed.

Theorem c01_beta_safe : forall anc al be,
  wf true anc = true -> wf false al = true -> wf false be = true ->
  side_safe anc be (beta_ch (reconcile TwoWaySafe anc al be)).
Proof.
  intros anc al be Wa Wl Wb ch H.
  apply beta_reached in H. destruct H as [q [anc' [R [G H]]]].
  cbn [app handle] in H.
  apply hb_beta_safe in H; [|eapply reached_wf; eauto|apply at_path_wf; exact Wb].
  destruct H as [-> [-> [U S]]]. split; [reflexivity|]. split; [exact U|].
  eapply subtree_reached; [exact S|]. eapply reached_anc; eauto.
Qed.

Theorem c01_alpha_safe : forall m anc al be,
  (m = TwoWaySafe \/ m = TwoWayResolved) ->
  wf true anc = true -> wf false al = true -> wf false be = true ->
  side_safe anc al (alpha_ch (reconcile m anc al be)).
Proof.
  intros m anc al be Hm Wa Wl Wb ch H.
  apply alpha_reached in H. destruct H as [q [anc' [R [G H]]]].
  cbn [app] in H.
  assert (H' : In ch (alpha_ch (handle_bidirectional m q anc' (at_path al q) (at_path be q)))).
  { destruct Hm as [-> | ->]; exact H. }
  apply hb_alpha in H'; [|eapply reached_wf; eauto|apply at_path_wf; exact Wl].
  destruct H' as [-> [-> [U S]]]. split; [reflexivity|]. split; [exact U|].
  eapply subtree_reached; [exact S|]. eapply reached_anc; eauto.
Qed.

Theorem c01_both_modified : forall anc al be,
  both_modified_conflict anc al be (reconcile TwoWaySafe anc al be).
Proof.
  intros anc al be q anc' [R G] Ha Hb.
  pose proof (hb_both_modified q anc' _ _ Ha Hb) as Hh.
  split.
  - exists (mkc q (non_deletion (diff q anc' (synchronizable (at_path al q))))
                  (non_deletion (diff q anc' (synchronizable (at_path be q))))).
    split; [|reflexivity].
    apply conflicts_reached. exists q, anc'. split; [exact R|]. split; [exact G|].
    cbn [app handle]. rewrite Hh. left. reflexivity.
  - intros ch H.
    assert (Hq : exists q2 a2, stops_at anc al be q2 a2 /\
               In ch (alpha_ch (handle TwoWaySafe q2 a2 (at_path al q2) (at_path be q2)) ++
                      beta_ch (handle TwoWaySafe q2 a2 (at_path al q2) (at_path be q2)))).
    { apply in_app_or in H. destruct H as [H|H].
      - apply alpha_reached in H. destruct H as [q2 [a2 [R2 [G2 H]]]].
        exists q2, a2. split; [split; assumption|]. apply in_or_app. left. exact H.
      - apply beta_reached in H. destruct H as [q2 [a2 [R2 [G2 H]]]].
        exists q2, a2. split; [split; assumption|]. apply in_or_app. right. exact H. }
    destruct Hq as [q2 [a2 [S2 Hin]]].
    pose proof (handle_paths _ _ _ _ _ _ Hin) as Hp. rewrite Hp.
    destruct (comparable q q2) eqn:C; [|reflexivity]. exfalso.
    pose proof (stops_comparable anc al be q anc' q2 a2 (conj R G) S2 C) as E.
    destruct S2 as [R2 _]. rewrite <- E in R2, Hin. rewrite R in R2. inversion R2; subst a2.
    cbn [handle] in Hin. rewrite Hh in Hin. in_single Hin. destruct Hin.
Qed.

Theorem c01_plan_ok_model : forall anc al be,
  wf true anc = true -> wf false al = true -> wf false be = true ->
  c01_plan_ok anc al be (reconcile TwoWaySafe anc al be).
Proof.
  intros anc al be Wa Wl Wb. split; [|split].
  - apply c01_beta_safe; assumption.
  - apply c01_alpha_safe; auto.
  - apply c01_both_modified.
Qed.

(* ---------- checker <-> proposition ---------- *)
Lemma side_safe_b_iff : forall anc side chs,
  side_safe_b anc side chs = true <-> side_safe anc side chs.
Proof.
  intros anc side chs. unfold side_safe_b, side_safe. rewrite forallb_forall.
  split; intros H ch I; specialize (H ch I).
  - apply andb_true_iff in H. destruct H as [H H3]. apply andb_true_iff in H. destruct H as [H1 H2].
    apply oentry_eqb_eq in H1. auto.
  - destruct H as [H1 [H2 H3]]. rewrite H2, H3, andb_true_r, andb_true_r.
    apply oentry_eqb_eq. exact H1.
Qed.

Lemma disagree_some : forall x y, disagree x y = true -> x <> None \/ y <> None.
Proof.
  intros [x|] [y|] H; [left; discriminate|left; discriminate|right; discriminate|discriminate H].
Qed.

Lemma both_modified_b_iff : forall anc al be pl,
  both_modified_b anc al be pl = true <-> both_modified_conflict anc al be pl.
Proof.
  intros anc al be pl. unfold both_modified_b, both_modified_conflict. rewrite forallb_forall.
  split.
  - intros H q anc' [R G] Ha Hb.
    assert (I : In q (paths_of al ++ paths_of be)).
    { apply in_or_app. destruct (disagree_some _ _ G) as [N|N];
        [left|right]; apply paths_of_complete; exact N. }
    specialize (H q I). unfold both_modified_at in H. rewrite R, G, Ha, Hb in H.
    cbn [andb] in H. apply andb_true_iff in H. destruct H as [H1 H2]. split.
    + apply existsb_exists in H1. destruct H1 as [c [Ic Ec]]. apply path_eqb_eq in Ec. eauto.
    + intros ch Ich. rewrite forallb_forall in H2. specialize (H2 ch Ich).
      apply negb_true_iff in H2. exact H2.
  - intros H q _. unfold both_modified_at.
    destruct (reached anc al be q) as [anc'|] eqn:R; [|reflexivity].
    destruct (disagree (at_path al q) (at_path be q) && has_non_deletion q anc' (at_path al q)
              && has_non_deletion q anc' (at_path be q)) eqn:E; [|reflexivity].
    apply andb_true_iff in E. destruct E as [E Hb]. apply andb_true_iff in E. destruct E as [G Ha].
    destruct (H q anc' (conj R G) Ha Hb) as [[c [Ic Ec]] H2].
    apply andb_true_iff. split.
    + apply existsb_exists. exists c. split; [exact Ic|]. apply path_eqb_eq. exact Ec.
    + apply forallb_forall. intros ch Ich. apply negb_true_iff. apply H2. exact Ich.
Qed.

Theorem c01_plan_ok_b_iff : forall anc al be pl,
  c01_plan_ok_b anc al be pl = true <-> c01_plan_ok anc al be pl.
Proof.
  intros. unfold c01_plan_ok_b, c01_plan_ok.
  rewrite !andb_true_iff, !side_safe_b_iff, both_modified_b_iff. tauto.
Qed.

Theorem check_c01_sound : forall anc al be pl,
  check_c01 (TwoWaySafe, anc, al, be, pl) = true -> c01_plan_ok anc al be pl.
Proof. intros anc al be pl H. apply c01_plan_ok_b_iff. exact H. Qed.

Theorem check_c01_model : forall m anc al be,
  wf true anc = true -> wf false al = true -> wf false be = true ->
  check_c01 (m, anc, al, be, reconcile m anc al be) = true.
Proof.
  intros m anc al be Wa Wl Wb. destruct m; try reflexivity.
  apply c01_plan_ok_b_iff. apply c01_plan_ok_model; assumption.
Qed.

(* ---------- histories ---------- *)
Lemma cycle_wf : forall m anc s, wf true anc = true -> wf true (cycle m anc s) = true.
Proof.
  intros m anc s W. unfold cycle.
  destruct (apply anc (cycle_changes m anc s)) as [anc'| | |]; try exact W.
  destruct (wf true anc') eqn:E; [exact E|exact W].
Qed.

Definition cycle_guarantee (anc : oentry) (s : hstep) : Prop :=
  wf true anc = true /\
  c01_plan_ok anc (st_alpha s) (st_beta s) (reconcile TwoWaySafe anc (st_alpha s) (st_beta s)).

Theorem c01_history_lemma : forall h anc0,
  wf true anc0 = true -> (forall s, In s h -> step_wf s) ->
  forall anc s, In (anc, s) (run_history (cycle TwoWaySafe) anc0 h) -> cycle_guarantee anc s.
Proof.
  induction h as [|s0 t IH]; intros anc0 W0 Hs anc s I; [destruct I|].
  cbn [run_history] in I. destruct I as [E|I].
  - inversion E; subst. split; [exact W0|].
    destruct (Hs s (or_introl eq_refl)) as [Wl Wb].
    apply c01_plan_ok_model; assumption.
  - apply (IH (cycle TwoWaySafe anc0 s0)); [apply cycle_wf; exact W0| |exact I].
    intros s' I'. apply Hs. right. exact I'.
Qed.

(* without the EnsureValid gate, under the statement of C05 as a hypothesis *)
Definition apply_valid_hyp : Prop :=
  forall anc s, wf true anc = true -> step_wf s -> step_outcomes_ok TwoWaySafe anc s ->
    exists anc', apply anc (cycle_changes TwoWaySafe anc s) = FOk anc' /\ wf true anc' = true.

Theorem c01_history_nogate_lemma :
  apply_valid_hyp ->
  forall h anc0,
  wf true anc0 = true -> (forall s, In s h -> step_wf s) ->
  (forall anc s, In (anc, s) (run_history (cycle_nogate TwoWaySafe) anc0 h) ->
     step_outcomes_ok TwoWaySafe anc s) ->
  run_history (cycle_nogate TwoWaySafe) anc0 h = run_history (cycle TwoWaySafe) anc0 h
  /\ forall anc s, In (anc, s) (run_history (cycle_nogate TwoWaySafe) anc0 h) -> cycle_guarantee anc s.
Proof.
  intros HA h. induction h as [|s0 t IH]; intros anc0 W0 Hs Ho; [split; [reflexivity|intros ? ? []]|].
  assert (Hstep : cycle_nogate TwoWaySafe anc0 s0 = cycle TwoWaySafe anc0 s0).
  { unfold cycle_nogate, cycle.
    destruct (HA anc0 s0 W0 (Hs s0 (or_introl eq_refl))) as [anc' [-> ->]]; [|reflexivity].
    apply Ho. left. reflexivity. }
  cbn [run_history].
  destruct (IH (cycle_nogate TwoWaySafe anc0 s0)) as [E G].
  - rewrite Hstep. apply cycle_wf. exact W0.
  - intros s' I'. apply Hs. right. exact I'.
  - intros anc s I. apply Ho. right. exact I.
  - split.
    + f_equal. rewrite E. rewrite Hstep. reflexivity.
    + intros anc s [Eq|I].
      * inversion Eq; subst. split; [exact W0|].
        destruct (Hs s (or_introl eq_refl)) as [Wl Wb].
        apply c01_plan_ok_model; assumption.
      * apply G. exact I.
Qed.

(* "created or modified relative to the ancestor" does not depend on whether
   the ancestor argument was cut off by an agreeing parent *)
Lemma has_non_deletion_none : forall q a x,
  has_non_deletion q a x = true -> has_non_deletion q None x = true.
Proof.
  intros q a x H. unfold has_non_deletion in *.
  destruct (synchronizable x) as [s|] eqn:S.
  - rewrite diff_unfold. reflexivity.
  - rewrite diff_unfold in H. destruct a as [a|]; cbn in H; discriminate.
Qed.

Theorem c01_both_modified_ancestor : forall anc al be q anc',
  stops_at anc al be q anc' ->
  has_non_deletion q (at_path anc q) (at_path al q) = true ->
  has_non_deletion q (at_path anc q) (at_path be q) = true ->
  let pl := reconcile TwoWaySafe anc al be in
  (exists c, In c (conflicts pl) /\ root c = q)
  /\ forall ch, In ch (alpha_ch pl ++ beta_ch pl) -> comparable q (cpath ch) = false.
Proof.
  intros anc al be q anc' S Ha Hb pl.
  apply (c01_both_modified anc al be q anc' S).
  - destruct S as [R _]. destruct (reached_anc _ _ _ _ _ R) as [->| ->];
      [exact Ha|eapply has_non_deletion_none; exact Ha].
  - destruct S as [R _]. destruct (reached_anc _ _ _ _ _ R) as [->| ->];
      [exact Hb|eapply has_non_deletion_none; exact Hb].
Qed.
