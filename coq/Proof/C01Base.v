(* General lemmas for C01/C02: subtree / unsync_free / paths_of, facts about
   diff, and the characterisation of the plan of reconcile by the nodes at
   which the recursion stops ([reached], [disagree], [handle]). *)
From Coq Require Import List Bool Arith String Lia.
Import ListNotations.
From Mv Require Import Model.Entry Model.Reconcile Model.CheckC01 Proof.EntryFacts.

Local Open Scope list_scope.

(* ---------- top-level names for the local fixes ---------- *)
Definition subtree_list_of (bc : list (name * entry)) : list (name * entry) -> bool :=
  fix go (l : list (name * entry)) : bool :=
    match l with
    | [] => true
    | (n, x) :: t =>
      match lookup n bc with
      | Some y => subtree_entry x y
      | None => false
      end && go t
    end.
Definition subtree_list (l bc : list (name * entry)) : bool := subtree_list_of bc l.

Lemma subtree_list_nil : forall bc, subtree_list [] bc = true.
Proof. reflexivity. Qed.

Lemma subtree_list_cons : forall n x t bc,
  subtree_list ((n, x) :: t) bc =
  match lookup n bc with Some y => subtree_entry x y | None => false end && subtree_list t bc.
Proof. reflexivity. Qed.

Fixpoint unsync_free_list (l : list (name * entry)) : bool :=
  match l with
  | [] => true
  | (_, x) :: t => unsync_free_entry x && unsync_free_list t
  end.

Fixpoint paths_list (l : list (name * entry)) : list path :=
  match l with
  | [] => []
  | (n, x) :: t => map (cons n) (paths_entry x) ++ paths_list t
  end.

Lemma subtree_entry_dir : forall c b,
  subtree_entry (EDir c) b = shallow_eqb (EDir c) b && subtree_list c (contents (Some b)).
Proof. reflexivity. Qed.

Lemma subtree_entry_phantom : forall c b,
  subtree_entry (EPhantom c) b = shallow_eqb (EPhantom c) b && subtree_list c (contents (Some b)).
Proof. reflexivity. Qed.

Lemma unsync_free_entry_dir : forall c, unsync_free_entry (EDir c) = unsync_free_list c.
Proof. reflexivity. Qed.

Lemma paths_entry_dir : forall c, paths_entry (EDir c) = [] :: paths_list c.
Proof. reflexivity. Qed.

Lemma paths_entry_phantom : forall c, paths_entry (EPhantom c) = [] :: paths_list c.
Proof. reflexivity. Qed.

Lemma subtree_list_forall : forall l bc,
  subtree_list l bc = true <->
  (forall n x, In (n, x) l -> exists y, lookup n bc = Some y /\ subtree_entry x y = true).
Proof.
  induction l as [|[m e] t IH]; intros bc.
  - split; [intros _ n x []|reflexivity].
  - rewrite subtree_list_cons, andb_true_iff, IH. split.
    + intros [H1 H2] n x [E|I].
      * inversion E; subst. destruct (lookup n bc) as [y|]; [eauto|discriminate].
      * eauto.
    + intros H. split.
      * destruct (H m e (or_introl eq_refl)) as [y [-> Hy]]. exact Hy.
      * intros n x I. apply H. right. exact I.
Qed.

Lemma unsync_free_list_forall : forall l,
  unsync_free_list l = true <-> (forall n x, In (n, x) l -> unsync_free_entry x = true).
Proof.
  induction l as [|[m e] t IH]; cbn [unsync_free_list].
  - split; [intros _ n x []|reflexivity].
  - rewrite andb_true_iff, IH. split.
    + intros [H1 H2] n x [E|I]; [inversion E; subst; exact H1|eauto].
    + intros H. split; [apply (H m); left; reflexivity|intros n x I; apply (H n); right; exact I].
Qed.

(* ---------- at_path ---------- *)
Lemma at_path_none : forall q, at_path None q = None.
Proof. induction q as [|n r IH]; [reflexivity|exact IH]. Qed.

Lemma at_path_app : forall e p q, at_path e (p ++ q) = at_path (at_path e p) q.
Proof. intros e p; revert e; induction p as [|n r IH]; intros e q; [reflexivity|apply IH]. Qed.

Lemma at_path_wf : forall s q e, wf s e = true -> wf s (at_path e q) = true.
Proof.
  intros s; induction q as [|n r IH]; intros e H; [exact H|].
  cbn [at_path]. apply IH. apply wf_lookup. exact H.
Qed.

Lemma at_path_cons : forall e n r, at_path e (n :: r) = at_path (lookup n (contents e)) r.
Proof. reflexivity. Qed.

(* ---------- paths_of is complete ---------- *)
Lemma paths_list_in : forall l n x r,
  In (n, x) l -> In r (paths_entry x) -> In (n :: r) (paths_list l).
Proof.
  induction l as [|[m e] t IH]; intros n x r I R; [destruct I|].
  cbn [paths_list]. apply in_or_app. destruct I as [E|I].
  - inversion E; subst. left. apply in_map. exact R.
  - right. eapply IH; eauto.
Qed.

Lemma paths_entry_complete : forall e q,
  at_path (Some e) q <> None -> In q (paths_entry e).
Proof.
  induction e as [c IH|x d|t| |m|c IH] using entry_nested_ind; intros q H;
    try (destruct q as [|n r]; [left; reflexivity|
         exfalso; apply H; cbn [at_path contents lookup]; apply at_path_none]).
  - destruct q as [|n r]; [left; reflexivity|].
    rewrite paths_entry_dir. right.
    rewrite at_path_cons in H. cbn [contents] in H.
    destruct (lookup n c) as [x|] eqn:L; [|exfalso; apply H; apply at_path_none].
    apply lookup_some_in in L.
    eapply paths_list_in; [exact L|].
    rewrite Forall_forall in IH. apply (IH (n, x) L). exact H.
  - destruct q as [|n r]; [left; reflexivity|].
    rewrite paths_entry_phantom. right.
    rewrite at_path_cons in H. cbn [contents] in H.
    destruct (lookup n c) as [x|] eqn:L; [|exfalso; apply H; apply at_path_none].
    apply lookup_some_in in L.
    eapply paths_list_in; [exact L|].
    rewrite Forall_forall in IH. apply (IH (n, x) L). exact H.
Qed.

Lemma paths_of_complete : forall e q, at_path e q <> None -> In q (paths_of e).
Proof.
  intros [e|] q H; [apply paths_entry_complete; exact H|].
  exfalso; apply H; apply at_path_none.
Qed.

(* ---------- unsync_free ---------- *)
Lemma wf_true_unsync_free_entry : forall e, wf_entry true e = true -> unsync_free_entry e = true.
Proof.
  induction e as [c IH|x d|t| |m|c IH] using entry_nested_ind; intros H;
    try reflexivity; try discriminate.
  - rewrite unsync_free_entry_dir. apply unsync_free_list_forall. intros n x I.
    rewrite Forall_forall in IH. apply (IH (n, x) I).
    apply wf_dir_inv in H. destruct H as [H _].
    rewrite wf_list_forall in H. apply (H n x I).
Qed.

Lemma wf_true_unsync_free : forall e, wf true e = true -> unsync_free e = true.
Proof. intros [e|] H; [apply wf_true_unsync_free_entry; exact H|reflexivity]. Qed.

(* ---------- subtree ---------- *)
Lemma subtree_none_r : forall x, subtree x None = true -> x = None.
Proof. intros [x|] H; [discriminate|reflexivity]. Qed.

Lemma subtree_unsync_free_entry : forall a b,
  subtree_entry a b = true -> unsync_free_entry b = true -> unsync_free_entry a = true.
Proof.
  induction a as [c IH|x d|t| |m|c IH] using entry_nested_ind; intros b S U.
  - rewrite subtree_entry_dir in S. apply andb_true_iff in S. destruct S as [Sh Sl].
    destruct b as [c'| | | | |]; try discriminate.
    rewrite unsync_free_entry_dir in *. apply unsync_free_list_forall. intros n x I.
    rewrite subtree_list_forall in Sl. destruct (Sl n x I) as [y [Ly Sy]].
    rewrite Forall_forall in IH. apply (IH (n, x) I y Sy).
    rewrite unsync_free_list_forall in U. apply (U n). cbn [contents] in Ly.
    apply lookup_some_in. exact Ly.
  - reflexivity.
  - reflexivity.
  - destruct b; cbn in S, U; discriminate.
  - destruct b; cbn in S, U; discriminate.
  - rewrite subtree_entry_phantom in S. apply andb_true_iff in S. destruct S as [Sh _].
    destruct b; try discriminate.
Qed.

Lemma subtree_unsync_free : forall a b,
  subtree a b = true -> unsync_free b = true -> unsync_free a = true.
Proof.
  intros [a|] [b|] S U; try reflexivity; try discriminate.
  eapply subtree_unsync_free_entry; eauto.
Qed.

(* the reading of subtree: every entry of a is present and shallow-equal in b *)
Lemma subtree_entry_at : forall a b q x,
  subtree_entry a b = true -> at_path (Some a) q = Some x ->
  exists y, at_path (Some b) q = Some y /\ shallow_eqb x y = true.
Proof.
  induction a as [c IH|x0 d|t| |m|c IH] using entry_nested_ind; intros b q x S A;
    try (destruct q as [|n r];
         [inversion A; subst; exists b; split; [reflexivity|];
          cbn in S; rewrite ?andb_true_r in S; exact S
         |cbn [at_path contents lookup] in A; rewrite at_path_none in A; discriminate]).
  - rewrite subtree_entry_dir in S. apply andb_true_iff in S. destruct S as [Sh Sl].
    destruct q as [|n r].
    + inversion A; subst. exists b. split; [reflexivity|exact Sh].
    + rewrite at_path_cons in A. cbn [contents] in A.
      destruct (lookup n c) as [e|] eqn:L; [|rewrite at_path_none in A; discriminate].
      apply lookup_some_in in L.
      rewrite subtree_list_forall in Sl. destruct (Sl n e L) as [y [Ly Sy]].
      rewrite Forall_forall in IH.
      destruct (IH (n, e) L y r x Sy A) as [z [Az Hz]].
      exists z. split; [|exact Hz]. rewrite at_path_cons. rewrite Ly. exact Az.
  - rewrite subtree_entry_phantom in S. apply andb_true_iff in S. destruct S as [Sh Sl].
    destruct q as [|n r].
    + inversion A; subst. exists b. split; [reflexivity|exact Sh].
    + rewrite at_path_cons in A. cbn [contents] in A.
      destruct (lookup n c) as [e|] eqn:L; [|rewrite at_path_none in A; discriminate].
      apply lookup_some_in in L.
      rewrite subtree_list_forall in Sl. destruct (Sl n e L) as [y [Ly Sy]].
      rewrite Forall_forall in IH.
      destruct (IH (n, e) L y r x Sy A) as [z [Az Hz]].
      exists z. split; [|exact Hz]. rewrite at_path_cons. rewrite Ly. exact Az.
Qed.

Lemma subtree_entry_of_at : forall a b,
  wf_entry false a = true ->
  (forall q x, at_path (Some a) q = Some x ->
     exists y, at_path (Some b) q = Some y /\ shallow_eqb x y = true) ->
  subtree_entry a b = true.
Proof.
  induction a as [c IH|x0 d|t| |m|c IH] using entry_nested_ind; intros b W H;
    try (destruct (H [] _ eq_refl) as [y [Ay Hy]]; inversion Ay; subst;
         cbn; rewrite ?andb_true_r; exact Hy).
  - rewrite subtree_entry_dir. apply andb_true_iff. split.
    + destruct (H [] _ eq_refl) as [y [Ay Hy]]; inversion Ay; subst. exact Hy.
    + apply subtree_list_forall. intros n x I.
      pose proof (wf_dir_inv _ _ W) as [Wl Ws].
      pose proof (in_lookup_sorted _ _ _ Ws I) as L.
      destruct (H [n] x) as [y [Ay Hy]].
      { cbn [at_path contents]. rewrite L. reflexivity. }
      cbn [at_path] in Ay. exists y. split; [exact Ay|].
      rewrite Forall_forall in IH. apply (IH (n, x) I).
      * rewrite wf_list_forall in Wl. apply (Wl n x I).
      * intros q z Az. destruct (H (n :: q) z) as [z' [Az' Hz']].
        { rewrite at_path_cons. cbn [contents]. rewrite L. exact Az. }
        exists z'. split; [|exact Hz']. rewrite at_path_cons in Az'. rewrite Ay in Az'. exact Az'.
  - rewrite subtree_entry_phantom. apply andb_true_iff. split.
    + destruct (H [] _ eq_refl) as [y [Ay Hy]]; inversion Ay; subst. exact Hy.
    + apply subtree_list_forall. intros n x I.
      pose proof (wf_phantom_inv _ _ W) as [_ [Wl Ws]].
      pose proof (in_lookup_sorted _ _ _ Ws I) as L.
      destruct (H [n] x) as [y [Ay Hy]].
      { cbn [at_path contents]. rewrite L. reflexivity. }
      cbn [at_path] in Ay. exists y. split; [exact Ay|].
      rewrite Forall_forall in IH. apply (IH (n, x) I).
      * rewrite wf_list_forall in Wl. apply (Wl n x I).
      * intros q z Az. destruct (H (n :: q) z) as [z' [Az' Hz']].
        { rewrite at_path_cons. cbn [contents]. rewrite L. exact Az. }
        exists z'. split; [|exact Hz']. rewrite at_path_cons in Az'. rewrite Ay in Az'. exact Az'.
Qed.

Lemma subtree_meaning : forall a b,
  wf false a = true ->
  (subtree a b = true <->
   forall q x, at_path a q = Some x ->
     exists y, at_path b q = Some y /\ shallow_eqb x y = true).
Proof.
  intros [a|] b W; cbn [subtree].
  - destruct b as [b|].
    + split; [intros S q x A; eapply subtree_entry_at; eauto|apply subtree_entry_of_at; exact W].
    + split; [discriminate|]. intros H. destruct (H [] a eq_refl) as [y [Ay _]]. discriminate.
  - split; [|reflexivity]. intros _ q x A. rewrite at_path_none in A. discriminate.
Qed.

Lemma unsync_free_entry_at : forall a q x,
  unsync_free_entry a = true -> at_path (Some a) q = Some x -> kind_sync (kind_of x) = true.
Proof.
  induction a as [c IH|x0 d|t| |m|c IH] using entry_nested_ind; intros q x U A;
    try discriminate;
    try (destruct q as [|n r];
         [inversion A; subst; reflexivity
         |cbn [at_path contents lookup] in A; rewrite at_path_none in A; discriminate]).
  destruct q as [|n r]; [inversion A; subst; reflexivity|].
  rewrite at_path_cons in A. cbn [contents] in A.
  destruct (lookup n c) as [e|] eqn:L; [|rewrite at_path_none in A; discriminate].
  apply lookup_some_in in L. rewrite Forall_forall in IH.
  apply (IH (n, e) L r x); [|exact A].
  rewrite unsync_free_entry_dir, unsync_free_list_forall in U. apply (U n e L).
Qed.

Lemma unsync_free_entry_of_at : forall a,
  wf_entry false a = true ->
  (forall q x, at_path (Some a) q = Some x -> kind_sync (kind_of x) = true) ->
  unsync_free_entry a = true.
Proof.
  induction a as [c IH|x0 d|t| |m|c IH] using entry_nested_ind; intros W H;
    try reflexivity; try (specialize (H [] _ eq_refl); discriminate).
  rewrite unsync_free_entry_dir. apply unsync_free_list_forall. intros n x I.
  pose proof (wf_dir_inv _ _ W) as [Wl Ws].
  pose proof (in_lookup_sorted _ _ _ Ws I) as L.
  rewrite Forall_forall in IH. apply (IH (n, x) I).
  - rewrite wf_list_forall in Wl. apply (Wl n x I).
  - intros q z Az. apply (H (n :: q) z). rewrite at_path_cons. cbn [contents]. rewrite L. exact Az.
Qed.

Lemma unsync_free_meaning : forall a,
  wf false a = true ->
  (unsync_free a = true <->
   forall q x, at_path a q = Some x -> kind_sync (kind_of x) = true).
Proof.
  intros [a|] W; cbn [unsync_free].
  - split; [intros U q x A; eapply unsync_free_entry_at; eauto|apply unsync_free_entry_of_at; exact W].
  - split; [|reflexivity]. intros _ q x A. rewrite at_path_none in A. discriminate.
Qed.
