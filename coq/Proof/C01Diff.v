(* Facts about diff used by C01/C02: an empty diff means equality, a diff
   without creations/modifications means "deletion-only subtree". *)
From Coq Require Import List Bool Arith String Lia.
Import ListNotations.
From Mv Require Import Model.Entry Model.Reconcile Model.CheckC01 Proof.EntryFacts Proof.C01Base.

Local Open Scope list_scope.

Lemma flat_map_nil_inv : forall (A B : Type) (f : A -> list B) l,
  flat_map f l = [] -> forall x, In x l -> f x = [].
Proof.
  induction l as [|a t IH]; intros H x I; [destruct I|].
  cbn [flat_map] in H. apply app_eq_nil in H. destruct H as [H1 H2].
  destruct I as [->|I]; [exact H1|apply IH; assumption].
Qed.

Lemma flat_map_nil : forall (A B : Type) (f : A -> list B) l,
  (forall x, In x l -> f x = []) -> flat_map f l = [].
Proof.
  induction l as [|a t IH]; intros H; [reflexivity|].
  cbn [flat_map]. rewrite (H a (or_introl eq_refl)), IH; [reflexivity|].
  intros x I. apply H. right. exact I.
Qed.

Lemma non_deletion_app : forall l l', non_deletion (l ++ l') = non_deletion l ++ non_deletion l'.
Proof. intros. unfold non_deletion. apply filter_app. Qed.

Lemma non_deletion_flat_map : forall (A : Type) (f : A -> list change) l,
  non_deletion (flat_map f l) = flat_map (fun x => non_deletion (f x)) l.
Proof.
  induction l as [|a t IH]; [reflexivity|].
  cbn [flat_map]. rewrite non_deletion_app, IH. reflexivity.
Qed.

Lemma non_deletion_in : forall l c, In c (non_deletion l) <-> In c l /\ cnew c <> None.
Proof.
  intros l c. unfold non_deletion. rewrite filter_In. split; intros [H1 H2]; split; auto.
  - destruct (cnew c); [discriminate|discriminate H2].
  - destruct (cnew c); [reflexivity|contradiction].
Qed.

Lemma is_nil_true : forall (l : list change), is_nil l = true <-> l = [].
Proof. intros [|a t]; split; intros H; try reflexivity; discriminate. Qed.

Lemma is_nil_false : forall (l : list change), is_nil l = false <-> l <> [].
Proof.
  intros [|a t]; split; intros H.
  - discriminate H.
  - exfalso. apply H. reflexivity.
  - discriminate.
  - reflexivity.
Qed.

(* ---------- empty diff = equal trees ---------- *)
Lemma diff_none_l_nil : forall p y, diff p None y = [] -> y = None.
Proof.
  intros p [y|] H; [|reflexivity]. rewrite diff_unfold in H. cbn in H. discriminate.
Qed.

Lemma oshallow_some_inv : forall y x,
  oshallow_eqb y (Some x) = true -> exists y0, y = Some y0 /\ shallow_eqb y0 x = true.
Proof. intros [y|] x H; [eauto|discriminate]. Qed.

Lemma diff_nil_eq_entry : forall x s s' y p,
  wf_entry s x = true -> wf s' y = true -> diff p (Some x) y = [] -> y = Some x.
Proof.
  induction x as [c IH|x0 d|t| |m|c IH] using entry_nested_ind; intros s s' y p W W' H;
    rewrite diff_unfold in H;
    destruct (oshallow_eqb y (Some _)) eqn:E; cbn [negb] in H; try discriminate;
    apply oshallow_some_inv in E; destruct E as [y0 [-> E]];
    try (rewrite shallow_eqb_sym in E; apply shallow_eqb_leaf in E; subst; reflexivity).
  - destruct y0 as [c'| | | | |]; try discriminate. f_equal. f_equal.
    pose proof (wf_dir_inv _ _ W) as [Wl Ws].
    cbn [wf] in W'. pose proof (wf_dir_inv _ _ W') as [Wl' Ws'].
    symmetry. apply contents_ext; [exact Ws|exact Ws'|]. intros n.
    cbn [contents] in H.
    destruct (in_dec string_dec n (name_union [c; c'])) as [I|NI].
    + pose proof (flat_map_nil_inv _ _ _ _ H n I) as Hn. cbn beta in Hn.
      destruct (lookup n c) as [x'|] eqn:L.
      * rewrite Forall_forall in IH. symmetry.
        apply (IH (n, x') (lookup_some_in _ _ _ L) s s' _ (p ++ [n])).
        -- rewrite wf_list_forall in Wl. apply (Wl n x'). apply lookup_some_in. exact L.
        -- apply (wf_lookup s' (Some (EDir c')) n). exact W'.
        -- exact Hn.
      * symmetry. eapply diff_none_l_nil. exact Hn.
    + rewrite name_union_in2 in NI.
      assert (L1 : lookup n c = None) by (apply lookup_none_notin; tauto).
      assert (L2 : lookup n c' = None) by (apply lookup_none_notin; tauto).
      congruence.
  - destruct y0 as [| | | | |c']; try discriminate. f_equal. f_equal.
    pose proof (wf_phantom_inv _ _ W) as [_ [Wl Ws]].
    cbn [wf] in W'. pose proof (wf_phantom_inv _ _ W') as [_ [Wl' Ws']].
    symmetry. apply contents_ext; [exact Ws|exact Ws'|]. intros n.
    cbn [contents] in H.
    destruct (in_dec string_dec n (name_union [c; c'])) as [I|NI].
    + pose proof (flat_map_nil_inv _ _ _ _ H n I) as Hn. cbn beta in Hn.
      destruct (lookup n c) as [x'|] eqn:L.
      * rewrite Forall_forall in IH. symmetry.
        apply (IH (n, x') (lookup_some_in _ _ _ L) s s' _ (p ++ [n])).
        -- rewrite wf_list_forall in Wl. apply (Wl n x'). apply lookup_some_in. exact L.
        -- apply (wf_lookup s' (Some (EPhantom c')) n). exact W'.
        -- exact Hn.
      * symmetry. eapply diff_none_l_nil. exact Hn.
    + rewrite name_union_in2 in NI.
      assert (L1 : lookup n c = None) by (apply lookup_none_notin; tauto).
      assert (L2 : lookup n c' = None) by (apply lookup_none_notin; tauto).
      congruence.
Qed.

Lemma diff_nil_eq : forall s s' x y p,
  wf s x = true -> wf s' y = true -> diff p x y = [] -> x = y.
Proof.
  intros s s' [x|] y p W W' H.
  - symmetry. eapply diff_nil_eq_entry; eauto.
  - symmetry. eapply diff_none_l_nil; eauto.
Qed.

Lemma diff_refl_entry : forall x p, diff p (Some x) (Some x) = [].
Proof.
  induction x as [c IH|x0 d|t| |m|c IH] using entry_nested_ind; intros p;
    rewrite diff_unfold, oshallow_eqb_refl; cbn [negb]; try reflexivity.
  - apply flat_map_nil. intros n _. cbn [contents].
    destruct (lookup n c) as [x'|] eqn:L; [|apply diff_none_none].
    rewrite Forall_forall in IH. apply (IH (n, x') (lookup_some_in _ _ _ L)).
  - apply flat_map_nil. intros n _. cbn [contents].
    destruct (lookup n c) as [x'|] eqn:L; [|apply diff_none_none].
    rewrite Forall_forall in IH. apply (IH (n, x') (lookup_some_in _ _ _ L)).
Qed.

Lemma diff_refl : forall x p, diff p x x = [].
Proof. intros [x|] p; [apply diff_refl_entry|apply diff_none_none]. Qed.

(* the unsynchronizable residue is empty iff the entry is its own synchronizable part *)
Lemma residue_nil_iff : forall s e p,
  wf s e = true -> (diff p (synchronizable e) e = [] <-> synchronizable e = e).
Proof.
  intros s e p W. split.
  - intros H. eapply diff_nil_eq; [apply (synchronizable_wf s); exact W|exact W|exact H].
  - intros ->. apply diff_refl.
Qed.

(* ---------- no creation/modification = deletion-only subtree ---------- *)
Lemma nd_nil_subtree_entry : forall x s anc p,
  wf_entry s x = true ->
  non_deletion (diff p anc (Some x)) = [] -> subtree (Some x) anc = true.
Proof.
  induction x as [c IH|x0 d|t| |m|c IH] using entry_nested_ind; intros s anc p W H;
    rewrite diff_unfold in H;
    destruct (oshallow_eqb (Some _) anc) eqn:E; cbn [negb] in H; try discriminate;
    destruct anc as [f|]; try discriminate; cbn [oshallow_eqb] in E; cbn [subtree];
    try (cbn [subtree_entry]; rewrite E; reflexivity).
  - rewrite subtree_entry_dir, E. cbn [andb]. apply subtree_list_forall. intros n x' I.
    pose proof (wf_dir_inv _ _ W) as [Wl Ws].
    pose proof (in_lookup_sorted _ _ _ Ws I) as L.
    rewrite non_deletion_flat_map in H.
    assert (U : In n (name_union [contents (Some f); contents (Some (EDir c))])).
    { apply name_union_in2. right. cbn [contents]. eapply lookup_some_in_keys; eauto. }
    pose proof (flat_map_nil_inv _ _ _ _ H n U) as Hn. cbn beta in Hn.
    change (contents (Some (EDir c))) with c in Hn. rewrite L in Hn.
    rewrite Forall_forall in IH.
    assert (Wx : wf_entry s x' = true) by (rewrite wf_list_forall in Wl; apply (Wl n x' I)).
    pose proof (IH (n, x') I s _ _ Wx Hn) as S. cbn [subtree] in S.
    destruct (lookup n (contents (Some f))) as [y|]; [eauto|discriminate].
  - rewrite subtree_entry_phantom, E. cbn [andb]. apply subtree_list_forall. intros n x' I.
    pose proof (wf_phantom_inv _ _ W) as [_ [Wl Ws]].
    pose proof (in_lookup_sorted _ _ _ Ws I) as L.
    rewrite non_deletion_flat_map in H.
    assert (U : In n (name_union [contents (Some f); contents (Some (EPhantom c))])).
    { apply name_union_in2. right. cbn [contents]. eapply lookup_some_in_keys; eauto. }
    pose proof (flat_map_nil_inv _ _ _ _ H n U) as Hn. cbn beta in Hn.
    change (contents (Some (EPhantom c))) with c in Hn. rewrite L in Hn.
    rewrite Forall_forall in IH.
    assert (Wx : wf_entry s x' = true) by (rewrite wf_list_forall in Wl; apply (Wl n x' I)).
    pose proof (IH (n, x') I s _ _ Wx Hn) as S. cbn [subtree] in S.
    destruct (lookup n (contents (Some f))) as [y|]; [eauto|discriminate].
Qed.

Lemma nd_nil_subtree : forall s x anc p,
  wf s x = true -> non_deletion (diff p anc x) = [] -> subtree x anc = true.
Proof.
  intros s [x|] anc p W H; [eapply nd_nil_subtree_entry; eauto|reflexivity].
Qed.

(* a deletion-only diff against a tree without unsynchronizable content *)
Lemma nd_nil_side : forall s e anc p,
  wf true anc = true -> wf s e = true ->
  non_deletion (diff p anc (synchronizable e)) = [] ->
  diff p (synchronizable e) e = [] ->
  unsync_free e = true /\ subtree e anc = true.
Proof.
  intros s e anc p Wa We Hnd Hres.
  pose proof (proj1 (residue_nil_iff s e p We) Hres) as Eq.
  rewrite Eq in Hnd.
  pose proof (nd_nil_subtree s e anc p We Hnd) as S.
  split; [|exact S].
  eapply subtree_unsync_free; [exact S|]. apply wf_true_unsync_free. exact Wa.
Qed.
