(* The plan of reconcile, field by field, is the union of what the mode's
   disagreement handler produces at the nodes where the recursion stops. *)
From Coq Require Import List Bool Arith String Lia.
Import ListNotations.
From Mv Require Import Model.Entry Model.Reconcile Model.CheckC01
  Proof.EntryFacts Proof.C01Base Proof.C01Diff.

Local Open Scope list_scope.

Lemma anc_below_eq : forall anc al, anc_contents anc al = anc_below anc al.
Proof. reflexivity. Qed.

Lemma descends_not_disagree : forall al be, descends al be = true -> disagree al be = false.
Proof.
  intros al be. unfold descends, disagree.
  destruct (is_problem al), (is_problem be), (both_gone al be), (oshallow_eqb al be);
    cbn; congruence.
Qed.

Lemma disagree_not_descends : forall al be, disagree al be = true -> descends al be = false.
Proof.
  intros al be H. destruct (descends al be) eqn:D; [|reflexivity].
  apply descends_not_disagree in D. congruence.
Qed.

Lemma descends_none_none : descends None None = false.
Proof. reflexivity. Qed.

Lemma disagree_none_none : disagree None None = false.
Proof. reflexivity. Qed.

Lemma reconcile_at_none : forall m p, reconcile_at m p None None None = empty_plan.
Proof. intros. rewrite reconcile_unfold. reflexivity. Qed.

Lemma reconcile_at_disagree : forall m p anc al be,
  disagree al be = true -> reconcile_at m p anc al be = handle m p anc al be.
Proof.
  intros m p anc al be H. rewrite reconcile_unfold. unfold disagree, both_gone in H.
  destruct (is_problem al); [discriminate|].
  destruct (is_problem be); [discriminate|].
  destruct ((is_none al || is_untracked al) && (is_none be || is_untracked be)); [discriminate|].
  destruct (oshallow_eqb al be); [discriminate|]. reflexivity.
Qed.

Lemma reconcile_at_descends : forall m p anc al be,
  descends al be = true ->
  reconcile_at m p anc al be =
  plan_app
    (if negb (oshallow_eqb anc al) then p_anc (mk p None (oslim al)) else empty_plan)
    (plan_concat
       (map (fun n => reconcile_at m (p ++ [n]) (lookup n (anc_below anc al))
                                   (lookup n (contents al)) (lookup n (contents be)))
            (name_union [anc_below anc al; contents al; contents be]))).
Proof.
  intros m p anc al be H. unfold descends, both_gone in H.
  destruct (is_problem al) eqn:Pa; [discriminate|].
  destruct (is_problem be) eqn:Pb; [discriminate|].
  destruct ((is_none al || is_untracked al) && (is_none be || is_untracked be)) eqn:G; [discriminate|].
  cbn in H. apply reconcile_unfold_rec; assumption.
Qed.

(* ---------- reached ---------- *)
Lemma reached_app : forall q r anc al be,
  reached anc al be (q ++ r) =
  match reached anc al be q with
  | Some anc' => reached anc' (at_path al q) (at_path be q) r
  | None => None
  end.
Proof.
  induction q as [|n q IH]; intros r anc al be; [reflexivity|].
  cbn [app reached at_path]. destruct (descends al be); [apply IH|reflexivity].
Qed.

Lemma reached_none : forall q anc', reached None None None q = Some anc' -> q = [] /\ anc' = None.
Proof.
  intros [|n r] anc' H; [inversion H; auto|]. cbn in H. discriminate.
Qed.

Lemma anc_below_none : forall al, anc_below None al = [].
Proof. intros al. unfold anc_below. destruct (negb (oshallow_eqb None al)); reflexivity. Qed.

(* the ancestor handed down is the ancestor's entry at that path, or nil below
   a node where the sides agree with each other but not with the ancestor *)
Lemma reached_anc : forall q anc al be anc',
  reached anc al be q = Some anc' -> anc' = at_path anc q \/ anc' = None.
Proof.
  induction q as [|n r IH]; intros anc al be anc' H.
  - inversion H. left. reflexivity.
  - cbn [reached] in H. destruct (descends al be); [|discriminate].
    unfold anc_below in H. destruct (negb (oshallow_eqb anc al)).
    + cbn [lookup] in H. destruct (IH _ _ _ _ H) as [->| ->]; right;
        [apply at_path_none|reflexivity].
    + destruct (IH _ _ _ _ H) as [->| ->]; [left; reflexivity|right; reflexivity].
Qed.

Lemma reached_wf : forall q anc al be anc',
  wf true anc = true -> reached anc al be q = Some anc' -> wf true anc' = true.
Proof.
  intros q anc al be anc' W H. destruct (reached_anc _ _ _ _ _ H) as [->| ->];
    [apply at_path_wf; exact W|reflexivity].
Qed.

Lemma reached_prefix_descends : forall q n r anc al be anc',
  reached anc al be (q ++ n :: r) = Some anc' ->
  descends (at_path al q) (at_path be q) = true.
Proof.
  intros q n r anc al be anc' H. rewrite reached_app in H.
  destruct (reached anc al be q) as [a|]; [|discriminate].
  cbn [reached] in H. destruct (descends (at_path al q) (at_path be q)); [reflexivity|discriminate].
Qed.

Lemma is_prefix_app : forall p q, is_prefix p q = true -> exists r, q = p ++ r.
Proof.
  induction p as [|x p IH]; intros q H; [exists q; reflexivity|].
  destruct q as [|y q]; [discriminate|]. cbn [is_prefix] in H.
  apply andb_true_iff in H. destruct H as [E H]. apply str_eqb_eq in E. subst y.
  destruct (IH q H) as [r ->]. exists r. reflexivity.
Qed.

Lemma is_prefix_app_r : forall p r, is_prefix p (p ++ r) = true.
Proof.
  induction p as [|x p IH]; intros r; [reflexivity|].
  cbn [app is_prefix]. rewrite str_eqb_refl, IH. reflexivity.
Qed.

(* two stopping points of the same recursion are never comparable unless equal *)
Lemma stops_comparable : forall anc al be q1 a1 q2 a2,
  stops_at anc al be q1 a1 -> stops_at anc al be q2 a2 ->
  comparable q1 q2 = true -> q1 = q2.
Proof.
  intros anc al be q1 a1 q2 a2 [R1 D1] [R2 D2] C.
  unfold comparable in C. apply orb_true_iff in C. destruct C as [C|C];
    apply is_prefix_app in C; destruct C as [r E].
  - destruct r as [|n r]; [rewrite app_nil_r in E; congruence|].
    subst q2. apply reached_prefix_descends in R2.
    apply descends_not_disagree in R2. congruence.
  - destruct r as [|n r]; [rewrite app_nil_r in E; congruence|].
    subst q1. apply reached_prefix_descends in R1.
    apply descends_not_disagree in R1. congruence.
Qed.

(* ---------- one field of the plan ---------- *)
Section Field.
Variable A : Type.
Variable f : plan -> list A.
Hypothesis f_app : forall x y, f (plan_app x y) = f x ++ f y.
Hypothesis f_empty : f empty_plan = [].
Hypothesis f_anc : forall c, f (p_anc c) = [].

Lemma f_concat : forall (B : Type) (g : B -> plan) l x,
  In x (f (plan_concat (map g l))) <-> exists n, In n l /\ In x (f (g n)).
Proof.
  intros B g l x. induction l as [|a t IH].
  - cbn. rewrite f_empty. split; [intros []|intros [n [[] _]]].
  - cbn [map plan_concat fold_right]. fold (plan_concat (map g t)).
    rewrite f_app, in_app_iff, IH. split.
    + intros [H|[n [I H]]]; [exists a; split; [left; reflexivity|exact H]
                             |exists n; split; [right; exact I|exact H]].
    + intros [n [[->|I] H]]; [left; exact H|right; exists n; split; assumption].
Qed.

Lemma field_stop : forall m p anc al be,
  descends al be = false -> disagree al be = false ->
  f (reconcile_at m p anc al be) = [].
Proof.
  intros m p anc al be H1 H2. rewrite reconcile_unfold.
  unfold descends, disagree, both_gone in *.
  destruct (is_problem al); [apply f_empty|].
  destruct (is_problem be); [apply f_empty|].
  destruct ((is_none al || is_untracked al) && (is_none be || is_untracked be)).
  - destruct (is_none anc); [apply f_empty|apply f_anc].
  - destruct (oshallow_eqb al be); cbn in *; discriminate.
Qed.

Definition field_spec (m : mode) (p : path) (anc al be : oentry) (x : A) : Prop :=
  exists q anc', reached anc al be q = Some anc'
    /\ disagree (at_path al q) (at_path be q) = true
    /\ In x (f (handle m (p ++ q) anc' (at_path al q) (at_path be q))).

Lemma field_reached_k : forall k m p anc al be x,
  depth3 anc al be <= k ->
  (In x (f (reconcile_at m p anc al be)) <-> field_spec m p anc al be x).
Proof.
  induction k as [|k IH]; intros m p anc al be x Hk;
    destruct (descends al be) eqn:D.
  - (* depth 0 cannot descend *)
    apply Nat.le_0_r in Hk. apply shallow_eq_none_depth0 in Hk.
    destruct Hk as [-> [-> ->]]. discriminate.
  - destruct (disagree al be) eqn:G.
    + rewrite reconcile_at_disagree by exact G. split.
      * intros H. exists [], anc. rewrite app_nil_r. cbn [reached at_path]. auto.
      * intros [q [anc' [R [G' H]]]]. destruct q as [|n r].
        -- cbn [reached] in R. inversion R; subst. rewrite app_nil_r in H. exact H.
        -- cbn [reached] in R. rewrite D in R. discriminate.
    + rewrite field_stop by assumption. split; [intros []|].
      intros [q [anc' [R [G' H]]]]. destruct q as [|n r].
      * cbn [at_path] in G'. congruence.
      * cbn [reached] in R. rewrite D in R. discriminate.
  - (* descends, fuel S k *)
    rewrite reconcile_at_descends by exact D.
    rewrite f_app, in_app_iff.
    assert (Hhere : f (if negb (oshallow_eqb anc al) then p_anc (mk p None (oslim al)) else empty_plan) = []).
    { destruct (negb (oshallow_eqb anc al)); [apply f_anc|apply f_empty]. }
    rewrite Hhere, f_concat.
    assert (Hchild : forall n,
      depth3 (lookup n (anc_below anc al)) (lookup n (contents al)) (lookup n (contents be)) <= k).
    { intros n. pose proof (depth_lookup_anc_contents anc al n) as H1.
      rewrite anc_below_eq in H1.
      pose proof (depth_lookup_le al n) as H2. pose proof (depth_lookup_le be n) as H3.
      unfold depth3 in *. lia. }
    split.
    + intros [[]|[n [I H]]].
      apply (IH m _ _ _ _ x (Hchild n)) in H.
      destruct H as [r [anc' [R [G H]]]].
      exists (n :: r), anc'. cbn [reached at_path]. rewrite D.
      rewrite <- app_assoc in H. cbn [app] in H. auto.
    + intros [q [anc' [R [G H]]]]. right. destruct q as [|n r].
      * cbn [at_path] in G. apply descends_not_disagree in D. congruence.
      * cbn [reached] in R. rewrite D in R. cbn [at_path] in G, H.
        assert (Hn : In x (f (reconcile_at m (p ++ [n]) (lookup n (anc_below anc al))
                                          (lookup n (contents al)) (lookup n (contents be))))).
        { apply (IH m _ _ _ _ x (Hchild n)). exists r, anc'.
          rewrite <- app_assoc. cbn [app]. auto. }
        exists n. split; [|exact Hn].
        destruct (in_dec string_dec n (name_union [anc_below anc al; contents al; contents be]))
          as [I|NI]; [exact I|exfalso].
        rewrite name_union_in3 in NI.
        assert (L1 : lookup n (anc_below anc al) = None) by (apply lookup_none_notin; tauto).
        assert (L2 : lookup n (contents al) = None) by (apply lookup_none_notin; tauto).
        assert (L3 : lookup n (contents be) = None) by (apply lookup_none_notin; tauto).
        rewrite L1, L2, L3, reconcile_at_none, f_empty in Hn. destruct Hn.
  - destruct (disagree al be) eqn:G.
    + rewrite reconcile_at_disagree by exact G. split.
      * intros H. exists [], anc. rewrite app_nil_r. cbn [reached at_path]. auto.
      * intros [q [anc' [R [G' H]]]]. destruct q as [|n r].
        -- cbn [reached] in R. inversion R; subst. rewrite app_nil_r in H. exact H.
        -- cbn [reached] in R. rewrite D in R. discriminate.
    + rewrite field_stop by assumption. split; [intros []|].
      intros [q [anc' [R [G' H]]]]. destruct q as [|n r].
      * cbn [at_path] in G'. congruence.
      * cbn [reached] in R. rewrite D in R. discriminate.
Qed.

Lemma field_reached : forall m anc al be x,
  In x (f (reconcile m anc al be)) <-> field_spec m [] anc al be x.
Proof.
  intros. rewrite reconcile_at_root. apply (field_reached_k (depth3 anc al be)). apply le_n.
Qed.
End Field.

Lemma alpha_app : forall x y, alpha_ch (plan_app x y) = alpha_ch x ++ alpha_ch y.
Proof. reflexivity. Qed.
Lemma beta_app : forall x y, beta_ch (plan_app x y) = beta_ch x ++ beta_ch y.
Proof. reflexivity. Qed.
Lemma conflicts_app : forall x y, conflicts (plan_app x y) = conflicts x ++ conflicts y.
Proof. reflexivity. Qed.

Definition alpha_reached := field_reached change alpha_ch alpha_app eq_refl (fun _ => eq_refl).
Definition beta_reached := field_reached change beta_ch beta_app eq_refl (fun _ => eq_refl).
Definition conflicts_reached := field_reached conflict conflicts conflicts_app eq_refl (fun _ => eq_refl).
