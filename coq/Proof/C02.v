(* C02: directional modes respect their direction and protect the right side. *)
From Coq Require Import List Bool Arith String Lia.
Import ListNotations.
From Mv Require Import Model.Entry Model.Reconcile Model.CheckC01 Model.CheckC02
  Proof.EntryFacts Proof.C01Base Proof.C01Diff Proof.C01Reach Proof.C01 Proof.C02Apply.

Local Open Scope list_scope.

(* ================= one-way modes never plan a change of alpha ================= *)
Lemma ows_alpha_nil : forall p anc al be, alpha_ch (handle_one_way_safe p anc al be) = [].
Proof.
  intros. unfold handle_one_way_safe. cbv zeta.
  repeat match goal with |- context [if ?b then _ else _] => destruct b end; reflexivity.
Qed.

Lemma owr_alpha_nil : forall p anc al be, alpha_ch (handle_one_way_replica p anc al be) = [].
Proof.
  intros. unfold handle_one_way_replica. cbv zeta.
  repeat match goal with |- context [if ?b then _ else _] => destruct b end; reflexivity.
Qed.

Theorem oneway_alpha_untouched : forall m anc al be,
  unidirectional m = true -> alpha_ch (reconcile m anc al be) = [].
Proof.
  intros m anc al be Hm.
  destruct (alpha_ch (reconcile m anc al be)) as [|x t] eqn:E; [reflexivity|exfalso].
  assert (I : In x (alpha_ch (reconcile m anc al be))) by (rewrite E; left; reflexivity).
  apply alpha_reached in I. destruct I as [q [anc' [_ [_ I]]]].
  destruct m; try discriminate; cbn [handle] in I;
    [rewrite ows_alpha_nil in I|rewrite owr_alpha_nil in I]; destruct I.
Qed.

(* ================= one-way-safe: what a beta change overwrites ================= *)
Lemma ows_beta : forall p anc al be ch,
  wf true anc = true -> wf false be = true ->
  In ch (beta_ch (handle_one_way_safe p anc al be)) ->
  cpath ch = p /\ cold ch = be /\ synchronizable be = be
  /\ unsync_free be = true /\ subtree be anc = true.
Proof.
  intros p anc al be ch Wa Wb H. unfold handle_one_way_safe in H. cbv zeta in H.
  destruct (is_nil (non_deletion (diff p anc (synchronizable be)))) eqn:N.
  - destruct (is_nil (diff p (synchronizable be) be)) eqn:Eu; cbn [negb] in H; in_single H;
      [|destruct H].
    destruct H as [<-|[]]. apply is_nil_true in N, Eu.
    destruct (side_deleted_only false p anc be Wa Wb N Eu) as [Eq [U S]].
    cbn [cpath cold mk]. auto.
  - repeat match type of H with context [if ?b then _ else _] => destruct b end;
      in_single H; destruct H.
Qed.

Theorem oneway_safe_beta : forall anc al be,
  wf true anc = true -> wf false al = true -> wf false be = true ->
  let pl := reconcile OneWaySafe anc al be in
  beta_protected anc be (beta_ch pl) /\ side_safe anc be (beta_ch pl).
Proof.
  intros anc al be Wa Wl Wb pl.
  assert (K : forall ch, In ch (beta_ch pl) ->
            cold ch = at_path be (cpath ch)
            /\ synchronizable (at_path be (cpath ch)) = at_path be (cpath ch)
            /\ unsync_free (at_path be (cpath ch)) = true
            /\ subtree (at_path be (cpath ch)) (at_path anc (cpath ch)) = true).
  { intros ch H. apply beta_reached in H. destruct H as [q [anc' [R [G H]]]].
    cbn [app handle] in H.
    apply ows_beta in H; [|eapply reached_wf; eauto|apply at_path_wf; exact Wb].
    destruct H as [-> [-> [Eq [U S]]]]. repeat split; auto.
    eapply subtree_reached; [exact S|]. eapply reached_anc; eauto. }
  split; intros ch H; destruct (K ch H) as [H1 [H2 [H3 H4]]].
  - split; [exact H1|]. rewrite H2. exact H4.
  - auto.
Qed.

(* ================= two-way-resolved: what an alpha change overwrites ================= *)
Theorem resolved_alpha : forall anc al be,
  wf true anc = true -> wf false al = true -> wf false be = true ->
  let pl := reconcile TwoWayResolved anc al be in
  alpha_protected anc al (alpha_ch pl) /\ side_safe anc al (alpha_ch pl).
Proof.
  intros anc al be Wa Wl Wb pl.
  pose proof (c01_alpha_safe TwoWayResolved anc al be (or_intror eq_refl) Wa Wl Wb) as S.
  split; [|exact S]. intros ch H. destruct (S ch H) as [H1 [_ H3]]. auto.
Qed.

(* ================= one-way-replica: beta becomes a mirror of alpha ================= *)

(* the beta changes of the recursion, with paths relative to its starting node *)
Definition rel_beta (anc al be : oentry) : list change :=
  beta_ch (reconcile_at OneWayReplica [] anc al be).

Definition beta_stop := field_stop change beta_ch eq_refl (fun _ => eq_refl).

Lemma replica_handler_beta : forall p anc al be,
  wf false be = true ->
  beta_ch (handle_one_way_replica p anc al be) =
  if oentry_eqb (synchronizable be) be then [mk p be (synchronizable al)] else [].
Proof.
  intros p anc al be Wb. unfold handle_one_way_replica. cbv zeta.
  destruct (oentry_eqb (synchronizable be) be) eqn:E.
  - apply oentry_eqb_eq in E.
    assert (H : diff p (synchronizable be) be = []) by (apply (residue_nil_iff false); auto).
    rewrite H. reflexivity.
  - destruct (is_nil (diff p (synchronizable be) be)) eqn:N; cbn [negb]; [exfalso|reflexivity].
    apply is_nil_true in N. apply (residue_nil_iff false be p Wb) in N.
    rewrite N, oentry_eqb_refl in E. discriminate.
Qed.

Lemma child_depth3 : forall k anc al be n,
  depth3 anc al be <= S k ->
  depth3 (lookup n (anc_below anc al)) (lookup n (contents al)) (lookup n (contents be)) <= k.
Proof.
  intros k anc al be n Hk.
  pose proof (depth_lookup_anc_contents anc al n) as H1. rewrite anc_below_eq in H1.
  pose proof (depth_lookup_le al n) as H2. pose proof (depth_lookup_le be n) as H3.
  unfold depth3 in *. lia.
Qed.

Lemma anc_below_wf : forall anc al n,
  wf true anc = true -> wf true (lookup n (anc_below anc al)) = true.
Proof.
  intros anc al n W. unfold anc_below. destruct (negb (oshallow_eqb anc al)); [reflexivity|].
  apply wf_lookup. exact W.
Qed.

Lemma beta_descends : forall p anc al be,
  descends al be = true ->
  beta_ch (reconcile_at OneWayReplica p anc al be) =
  flat_map (fun n => beta_ch (reconcile_at OneWayReplica (p ++ [n]) (lookup n (anc_below anc al))
                                            (lookup n (contents al)) (lookup n (contents be))))
           (name_union [anc_below anc al; contents al; contents be]).
Proof.
  intros p anc al be D. rewrite reconcile_at_descends by exact D.
  rewrite beta_app, plan_concat_beta.
  destruct (negb (oshallow_eqb anc al)); reflexivity.
Qed.

Lemma beta_shift_k : forall k p anc al be,
  depth3 anc al be <= k -> wf false be = true ->
  beta_ch (reconcile_at OneWayReplica p anc al be) = map (shift p) (rel_beta anc al be).
Proof.
  induction k as [|k IH]; intros p anc al be Hk Wb; destruct (descends al be) eqn:D.
  - apply Nat.le_0_r in Hk. apply shallow_eq_none_depth0 in Hk.
    destruct Hk as [-> [-> ->]]. discriminate.
  - unfold rel_beta. destruct (disagree al be) eqn:G.
    + rewrite !reconcile_at_disagree by exact G. cbn [handle].
      rewrite !replica_handler_beta by exact Wb.
      destruct (oentry_eqb (synchronizable be) be); [|reflexivity].
      cbn [map]. unfold shift. cbn [cpath cold cnew mk]. rewrite app_nil_r. reflexivity.
    + rewrite !beta_stop by assumption. reflexivity.
  - unfold rel_beta. rewrite !beta_descends by exact D. rewrite map_flat_map.
    apply flat_map_ext_in. intros n _.
    assert (Wn : wf false (lookup n (contents be)) = true) by (apply wf_lookup; exact Wb).
    rewrite (IH (p ++ [n])) by (try apply child_depth3; assumption).
    rewrite (IH ([] ++ [n])) by (try apply child_depth3; assumption).
    rewrite map_map. apply map_ext. intros ch. rewrite shift_shift. reflexivity.
  - unfold rel_beta. destruct (disagree al be) eqn:G.
    + rewrite !reconcile_at_disagree by exact G. cbn [handle].
      rewrite !replica_handler_beta by exact Wb.
      destruct (oentry_eqb (synchronizable be) be); [|reflexivity].
      cbn [map]. unfold shift. cbn [cpath cold cnew mk]. rewrite app_nil_r. reflexivity.
    + rewrite !beta_stop by assumption. reflexivity.
Qed.

Lemma rel_beta_descends : forall anc al be,
  descends al be = true -> wf false be = true ->
  rel_beta anc al be =
  flat_map (fun n => map (shift [n]) (rel_beta (lookup n (anc_below anc al))
                                               (lookup n (contents al)) (lookup n (contents be))))
           (name_union [anc_below anc al; contents al; contents be]).
Proof.
  intros anc al be D Wb. unfold rel_beta at 1. rewrite beta_descends by exact D.
  apply flat_map_ext_in. intros n _. cbn [app].
  apply (beta_shift_k _ _ _ _ _ (le_n _)). apply wf_lookup. exact Wb.
Qed.

(* walking down towards q, the recursion meets problematic content, or stops
   at a node whose beta side holds unsynchronizable content (a conflict) *)
Fixpoint blocked (al be : oentry) (q : path) : bool :=
  is_problem al || is_problem be
  || (disagree al be && negb (oentry_eqb (synchronizable be) be))
  || match q with
     | [] => false
     | n :: r => descends al be && blocked (lookup n (contents al)) (lookup n (contents be)) r
     end.

Definition mirror_at (al be' : oentry) (q : path) : Prop :=
  oshallow_eqb (at_path (synchronizable be') q) (at_path (synchronizable al) q) = true.

Lemma blocked_inv : forall al be q,
  blocked al be q = false ->
  is_problem al = false /\ is_problem be = false
  /\ (disagree al be = true -> synchronizable be = be)
  /\ match q with
     | [] => True
     | n :: r => descends al be = true ->
                 blocked (lookup n (contents al)) (lookup n (contents be)) r = false
     end.
Proof.
  intros al be q H. destruct q as [|n r]; cbn [blocked] in H;
    repeat (apply orb_false_iff in H; destruct H as [H ?]).
  - repeat split; auto. intros G. rewrite G in *. cbn [andb] in *.
    apply negb_false_iff in H1. apply oentry_eqb_eq. exact H1.
  - repeat split; auto.
    + intros G. rewrite G in *. cbn [andb] in *.
      apply negb_false_iff in H1. apply oentry_eqb_eq. exact H1.
    + intros D. rewrite D in *. exact H0.
Qed.

Lemma name_valid_keys : forall s e n,
  wf s e = true -> In n (map fst (contents e)) -> name_valid n = true.
Proof.
  intros s e n W I. apply in_map_iff in I. destruct I as [[m x] [E I]]. cbn in E. subst m.
  pose proof (wf_contents_list s e W) as Wl. rewrite wf_list_forall in Wl.
  apply (Wl n x I).
Qed.

Lemma wf_setc : forall e c',
  is_dirlike e = true -> wf_entry false e = true ->
  sorted_names (map fst c') = true ->
  (forall n x, In (n, x) c' -> name_valid n = true /\ wf_entry false x = true) ->
  wf_entry false (setc e c') = true.
Proof.
  intros e c' D W S H. destruct e; try discriminate; cbn [setc].
  - rewrite wf_entry_dir, S, andb_true_r. apply wf_list_forall. exact H.
  - rewrite wf_entry_phantom, S, andb_true_r. cbn [negb andb]. apply wf_list_forall. exact H.
Qed.

Lemma not_both_no_problem_gone : forall al be,
  descends al be = false -> disagree al be = false ->
  is_problem al = false -> is_problem be = false -> both_gone al be = true.
Proof.
  intros al be D G Pa Pb. unfold descends, disagree in *. rewrite Pa, Pb in *. cbn [negb andb] in *.
  destruct (both_gone al be); [reflexivity|]. cbn [negb andb] in *.
  destruct (oshallow_eqb al be); discriminate.
Qed.

Lemma gone_sync_none : forall e, (is_none e || is_untracked e) = true -> synchronizable e = None.
Proof. intros [[]|] H; try discriminate; reflexivity. Qed.

Lemma replica_rel_k : forall k anc al be,
  depth3 anc al be <= k ->
  wf true anc = true -> wf false al = true -> wf false be = true ->
  exists be',
    apply be (rel_beta anc al be) = FOk be'
    /\ wf false be' = true
    /\ forall q, blocked al be q = false -> mirror_at al be' q.
Proof.
  induction k as [|k IH]; intros anc al be Hk Wa Wl Wb; destruct (descends al be) eqn:D.
  - apply Nat.le_0_r in Hk. apply shallow_eq_none_depth0 in Hk.
    destruct Hk as [-> [-> ->]]. discriminate.
  - (* no recursion: stop or disagreement *)
    destruct (disagree al be) eqn:G.
    + unfold rel_beta. rewrite reconcile_at_disagree by exact G. cbn [handle].
      rewrite replica_handler_beta by exact Wb.
      destruct (oentry_eqb (synchronizable be) be) eqn:E.
      * exists (synchronizable al). split; [reflexivity|]. split.
        -- apply wf_o_true_false. apply (synchronizable_wf false). exact Wl.
        -- intros q _. unfold mirror_at. rewrite (synchronizable_idem false) by exact Wl.
           apply oshallow_eqb_refl.
      * exists be. split; [reflexivity|]. split; [exact Wb|].
        intros q B. apply blocked_inv in B. destruct B as [_ [_ [B _]]].
        rewrite (B G), oentry_eqb_refl in E. discriminate.
    + unfold rel_beta. rewrite beta_stop by assumption.
      exists be. split; [reflexivity|]. split; [exact Wb|].
      intros q B. apply blocked_inv in B. destruct B as [Pa [Pb _]].
      pose proof (not_both_no_problem_gone al be D G Pa Pb) as Gn.
      unfold both_gone in Gn. apply andb_true_iff in Gn. destruct Gn as [G1 G2].
      unfold mirror_at. rewrite (gone_sync_none al G1), (gone_sync_none be G2), !at_path_none.
      reflexivity.
  - (* recursion into the children *)
    destruct al as [ea|]; [|destruct be as [[]|]; discriminate].
    destruct be as [eb|]; [|destruct ea; discriminate].
    assert (Sh : shallow_eqb ea eb = true).
    { unfold descends in D. apply andb_true_iff in D. destruct D as [_ D]. exact D. }
    set (l := name_union [anc_below anc (Some ea); contents (Some ea); contents (Some eb)]).
    rewrite rel_beta_descends by assumption. fold l.
    destruct (is_dirlike eb) eqn:Dl.
    + set (R := fun (n : name) (v : oentry) =>
                  wf false v = true /\
                  forall r, blocked (lookup n (contents (Some ea))) (lookup n (contents (Some eb))) r = false ->
                            mirror_at (lookup n (contents (Some ea))) v r).
      destruct (apply_fold
                  (fun n => rel_beta (lookup n (anc_below anc (Some ea)))
                                     (lookup n (contents (Some ea))) (lookup n (contents (Some eb))))
                  R l (name_union_NoDup _) eb Dl (wf_contents_sorted false (Some eb) Wb))
        as [c' [Sc' [Ac' [Rc' Fc']]]].
      { intros n _.
        destruct (IH (lookup n (anc_below anc (Some ea))) (lookup n (contents (Some ea)))
                     (lookup n (contents (Some eb)))) as [v [Av [Wv Mv]]].
        - apply child_depth3. exact Hk.
        - apply anc_below_wf. exact Wa.
        - apply wf_lookup. exact Wl.
        - apply wf_lookup. exact Wb.
        - exists v. split; [exact Av|]. split; assumption. }
      exists (Some (setc eb c')). split; [exact Ac'|].
      assert (Hin : forall n, In n (map fst (contents (Some eb))) -> In n l).
      { intros n I. apply name_union_in3. right. right. exact I. }
      split.
      * cbn [wf]. apply wf_setc; [exact Dl|exact Wb|exact Sc'|].
        intros n x I. pose proof (in_lookup_sorted _ _ _ Sc' I) as L.
        destruct (in_dec string_dec n l) as [Il|Nl].
        -- split.
           ++ apply name_union_in3 in Il. destruct Il as [Il|[Il|Il]].
              ** unfold anc_below in Il. destruct (negb (oshallow_eqb anc (Some ea))); [destruct Il|].
                 apply (name_valid_keys true anc); assumption.
              ** apply (name_valid_keys false (Some ea)); assumption.
              ** apply (name_valid_keys false (Some eb)); assumption.
           ++ destruct (Rc' n Il) as [Wv _]. rewrite L in Wv. exact Wv.
        -- exfalso. apply Nl. apply Hin. rewrite (Fc' n Nl) in L.
           eapply lookup_some_in_keys. exact L.
      * intros q B. apply blocked_inv in B. destruct B as [_ [_ [_ B]]].
        unfold mirror_at.
        destruct eb as [bc| | | | |bc]; try discriminate;
          destruct ea as [lc| | | | |lc]; try discriminate; cbn [setc].
        -- (* directories *)
           destruct q as [|n r]; [reflexivity|].
           specialize (B D).
           rewrite !at_path_cons, !contents_synchronizable.
           rewrite !lookup_sync_list
             by (try exact Sc'; apply (wf_contents_sorted false (Some (EDir lc))); exact Wl).
           destruct (in_dec string_dec n l) as [Il|Nl].
           ++ destruct (Rc' n Il) as [_ M]. apply M. exact B.
           ++ rewrite (Fc' n Nl).
              assert (L1 : lookup n (contents (Some (EDir bc))) = None).
              { apply lookup_none_notin. intros I. apply Nl. apply Hin. exact I. }
              assert (L2 : lookup n lc = None).
              { apply lookup_none_notin. intros I. apply Nl. apply name_union_in3. right. left. exact I. }
              rewrite L1, L2. cbn [synchronizable]. rewrite at_path_none. reflexivity.
        -- (* phantom directories: no synchronizable content on either side *)
           cbn [synchronizable sync_entry]. rewrite !at_path_none. reflexivity.
    + (* shallow-equal leaves: nothing below *)
      assert (Eq : eb = ea).
      { rewrite shallow_eqb_sym in Sh. apply shallow_eqb_leaf in Sh.
        destruct eb; try discriminate; exact Sh. }
      subst ea.
      assert (Hnil : flat_map (fun n => map (shift [n])
                 (rel_beta (lookup n (anc_below anc (Some eb)))
                           (lookup n (contents (Some eb))) (lookup n (contents (Some eb))))) l = []).
      { apply flat_map_nil. intros n _.
        assert (C : contents (Some eb) = []) by (destruct eb; try discriminate; reflexivity).
        rewrite C. cbn [lookup]. unfold rel_beta. rewrite beta_stop by reflexivity. reflexivity. }
      rewrite Hnil. exists (Some eb). split; [reflexivity|]. split; [exact Wb|].
      intros q _. apply oshallow_eqb_refl.
  - destruct (disagree al be) eqn:G.
    + unfold rel_beta. rewrite reconcile_at_disagree by exact G. cbn [handle].
      rewrite replica_handler_beta by exact Wb.
      destruct (oentry_eqb (synchronizable be) be) eqn:E.
      * exists (synchronizable al). split; [reflexivity|]. split.
        -- apply wf_o_true_false. apply (synchronizable_wf false). exact Wl.
        -- intros q _. unfold mirror_at. rewrite (synchronizable_idem false) by exact Wl.
           apply oshallow_eqb_refl.
      * exists be. split; [reflexivity|]. split; [exact Wb|].
        intros q B. apply blocked_inv in B. destruct B as [_ [_ [B _]]].
        rewrite (B G), oentry_eqb_refl in E. discriminate.
    + unfold rel_beta. rewrite beta_stop by assumption.
      exists be. split; [reflexivity|]. split; [exact Wb|].
      intros q B. apply blocked_inv in B. destruct B as [Pa [Pb _]].
      pose proof (not_both_no_problem_gone al be D G Pa Pb) as Gn.
      unfold both_gone in Gn. apply andb_true_iff in Gn. destruct Gn as [G1 G2].
      unfold mirror_at. rewrite (gone_sync_none al G1), (gone_sync_none be G2), !at_path_none.
      reflexivity.
Qed.

(* blocked paths are exactly those the statement excludes *)
Lemma problem_prefix_here : forall e q, is_problem e = true -> problem_prefix e q = true.
Proof. intros e [|n r] H; cbn [problem_prefix]; rewrite H; reflexivity. Qed.

Lemma blocked_cases : forall q anc al be,
  blocked al be q = true ->
  problem_prefix al q = true \/ problem_prefix be q = true
  \/ exists q0 r anc', q = q0 ++ r /\ reached anc al be q0 = Some anc'
       /\ disagree (at_path al q0) (at_path be q0) = true
       /\ oentry_eqb (synchronizable (at_path be q0)) (at_path be q0) = false.
Proof.
  induction q as [|n r IH]; intros anc al be H; cbn [blocked] in H;
    repeat (apply orb_true_iff in H; destruct H as [H|H]);
    try (left; apply problem_prefix_here; exact H);
    try (right; left; apply problem_prefix_here; exact H);
    try discriminate.
  - apply andb_true_iff in H. destruct H as [G E]. apply negb_true_iff in E.
    right. right. exists [], [], anc. cbn [app reached at_path]. auto.
  - apply andb_true_iff in H. destruct H as [G E]. apply negb_true_iff in E.
    right. right. exists [], (n :: r), anc. cbn [app reached at_path]. auto.
  - apply andb_true_iff in H. destruct H as [D H].
    destruct (IH (lookup n (anc_below anc al)) _ _ H) as [P|[P|[q0 [r' [anc' [E [Rq [G Eq]]]]]]]].
    + left. cbn [problem_prefix]. rewrite P. apply orb_true_r.
    + right. left. cbn [problem_prefix]. rewrite P. apply orb_true_r.
    + right. right. exists (n :: q0), r', anc'. subst r. cbn [app reached at_path].
      rewrite D. auto.
Qed.

Theorem replica_mirror : forall anc al be,
  wf true anc = true -> wf false al = true -> wf false be = true ->
  mirrored al be (reconcile OneWayReplica anc al be).
Proof.
  intros anc al be Wa Wl Wb.
  destruct (replica_rel_k _ anc al be (le_n _) Wa Wl Wb) as [be' [A [W' M]]].
  exists be'. split.
  - rewrite reconcile_at_root. exact A.
  - intros q Ex. apply M. destruct (blocked al be q) eqn:B; [exfalso|reflexivity].
    unfold excluded in Ex.
    apply orb_false_iff in Ex. destruct Ex as [Ex Pb].
    apply orb_false_iff in Ex. destruct Ex as [Ec Pa].
    destruct (blocked_cases q anc al be B) as [P|[P|[q0 [r [anc' [E [Rq [G Eq]]]]]]]];
      [congruence|congruence|].
    assert (Hc : In (mkc q0 [mk q0 anc' (at_path al q0)]
                        (diff q0 (synchronizable (at_path be q0)) (at_path be q0)))
                    (conflicts (reconcile OneWayReplica anc al be))).
    { apply conflicts_reached. exists q0, anc'. split; [exact Rq|]. split; [exact G|].
      cbn [app handle]. unfold handle_one_way_replica. cbv zeta.
      destruct (is_nil (diff q0 (synchronizable (at_path be q0)) (at_path be q0))) eqn:N.
      - apply is_nil_true in N.
        apply (residue_nil_iff false) in N; [|apply at_path_wf; exact Wb].
        rewrite N, oentry_eqb_refl in Eq. discriminate.
      - left. reflexivity. }
    assert (Hx : existsb (fun c => is_prefix (root c) q)
                         (conflicts (reconcile OneWayReplica anc al be)) = true).
    { apply existsb_exists. eexists. split; [exact Hc|]. cbn [root mkc]. subst q.
      apply is_prefix_app_r. }
    congruence.
Qed.

(* the apply result is also well formed; used for the exact form *)
Lemma replica_mirror_wf : forall anc al be,
  wf true anc = true -> wf false al = true -> wf false be = true ->
  exists be', apply be (beta_ch (reconcile OneWayReplica anc al be)) = FOk be'
              /\ wf false be' = true.
Proof.
  intros anc al be Wa Wl Wb.
  destruct (replica_rel_k _ anc al be (le_n _) Wa Wl Wb) as [be' [A [W' _]]].
  exists be'. rewrite reconcile_at_root. auto.
Qed.

Lemma problem_free_prefix : forall q e, problem_free e -> problem_prefix e q = false.
Proof.
  induction q as [|n r IH]; intros e H; cbn [problem_prefix];
    pose proof (H []) as H0; cbn [at_path] in H0; rewrite H0.
  - reflexivity.
  - cbn [orb]. apply IH. intros q. apply (H (n :: q)).
Qed.

(* without conflicts and without problematic content the mirror is exact *)
Theorem replica_mirror_exact : forall anc al be,
  wf true anc = true -> wf false al = true -> wf false be = true ->
  let pl := reconcile OneWayReplica anc al be in
  conflicts pl = [] -> problem_free al -> problem_free be ->
  exists be', apply be (beta_ch pl) = FOk be' /\ synchronizable be' = synchronizable al.
Proof.
  intros anc al be Wa Wl Wb pl Hc Pa Pb.
  destruct (replica_mirror anc al be Wa Wl Wb) as [be' [A M]].
  destruct (replica_mirror_wf anc al be Wa Wl Wb) as [be'' [A' W']].
  fold pl in A, A'. rewrite A in A'. inversion A'; subst be''.
  exists be'. split; [exact A|].
  apply (at_path_ext true true).
  - apply (synchronizable_wf false). exact W'.
  - apply (synchronizable_wf false). exact Wl.
  - intros q. apply M. unfold excluded. fold pl. rewrite Hc.
    rewrite (problem_free_prefix q al Pa), (problem_free_prefix q be Pb). reflexivity.
Qed.

(* ================= checker <-> proposition ================= *)
Lemma beta_protected_b_iff : forall anc be chs,
  beta_protected_b anc be chs = true <-> beta_protected anc be chs.
Proof.
  intros anc be chs. unfold beta_protected_b, beta_protected. rewrite forallb_forall.
  split; intros H ch I; specialize (H ch I).
  - apply andb_true_iff in H. destruct H as [H1 H2]. apply oentry_eqb_eq in H1. auto.
  - destruct H as [H1 H2]. rewrite H2, andb_true_r. apply oentry_eqb_eq. exact H1.
Qed.

Lemma alpha_protected_b_iff : forall anc al chs,
  alpha_protected_b anc al chs = true <-> alpha_protected anc al chs.
Proof.
  intros anc al chs. unfold alpha_protected_b, alpha_protected. rewrite forallb_forall.
  split; intros H ch I; specialize (H ch I).
  - apply andb_true_iff in H. destruct H as [H1 H2]. apply oentry_eqb_eq in H1. auto.
  - destruct H as [H1 H2]. rewrite H2, andb_true_r. apply oentry_eqb_eq. exact H1.
Qed.

Lemma mirrored_b_iff : forall al be pl, mirrored_b al be pl = true <-> mirrored al be pl.
Proof.
  intros al be pl. unfold mirrored_b, mirrored. split.
  - destruct (apply be (beta_ch pl)) as [be'| | |]; try discriminate.
    intros H. exists be'. split; [reflexivity|]. intros q Ex.
    rewrite forallb_forall in H.
    destruct (at_path (synchronizable be') q) as [x|] eqn:A1.
    + assert (I : In q (paths_of (synchronizable be') ++ paths_of (synchronizable al))).
      { apply in_or_app. left. apply paths_of_complete. congruence. }
      specialize (H q I). rewrite Ex, A1 in H. exact H.
    + destruct (at_path (synchronizable al) q) as [y|] eqn:A2; [|reflexivity].
      assert (I : In q (paths_of (synchronizable be') ++ paths_of (synchronizable al))).
      { apply in_or_app. right. apply paths_of_complete. congruence. }
      specialize (H q I). rewrite Ex, A1, A2 in H. exact H.
  - intros [be' [A H]]. rewrite A. apply forallb_forall. intros q _.
    destruct (excluded pl al be q) eqn:Ex; [reflexivity|]. cbn [orb]. apply H. exact Ex.
Qed.

Theorem c02_plan_ok_b_iff : forall m anc al be pl,
  c02_plan_ok_b m anc al be pl = true <-> c02_plan_ok m anc al be pl.
Proof.
  intros m anc al be pl. destruct m; cbn [c02_plan_ok_b c02_plan_ok].
  - tauto.
  - apply alpha_protected_b_iff.
  - rewrite andb_true_iff, is_nil_true, beta_protected_b_iff. tauto.
  - rewrite andb_true_iff, is_nil_true, mirrored_b_iff. tauto.
Qed.

Theorem c02_plan_ok_model : forall m anc al be,
  wf true anc = true -> wf false al = true -> wf false be = true ->
  c02_plan_ok m anc al be (reconcile m anc al be).
Proof.
  intros m anc al be Wa Wl Wb. destruct m; cbn [c02_plan_ok].
  - exact I.
  - apply resolved_alpha; assumption.
  - split; [apply oneway_alpha_untouched; reflexivity|apply oneway_safe_beta; assumption].
  - split; [apply oneway_alpha_untouched; reflexivity|apply replica_mirror; assumption].
Qed.

Theorem check_c02_sound : forall m anc al be pl,
  check_c02 (m, anc, al, be, pl) = true -> c02_plan_ok m anc al be pl.
Proof. intros m anc al be pl H. apply c02_plan_ok_b_iff. exact H. Qed.

Theorem check_c02_model : forall m anc al be,
  wf true anc = true -> wf false al = true -> wf false be = true ->
  check_c02 (m, anc, al, be, reconcile m anc al be) = true.
Proof.
  intros m anc al be Wa Wl Wb. apply c02_plan_ok_b_iff. apply c02_plan_ok_model; assumption.
Qed.

(* ================= the endpoint guard ================= *)
Theorem readonly_iff : forall alpha cfg,
  read_only alpha cfg = true <-> alpha = true /\ unidirectional (effective_mode cfg) = true.
Proof. intros. unfold read_only. apply andb_true_iff. Qed.

Theorem readonly_refuses : forall (R P : Type) cfg (rest : unit -> R * list P),
  unidirectional (effective_mode cfg) = true ->
  guarded (read_only true cfg) rest = (Refused, []).
Proof. intros R P cfg rest H. unfold read_only, guarded. rewrite H. reflexivity. Qed.

Theorem not_readonly_proceeds : forall (R P : Type) alpha cfg (rest : unit -> R * list P),
  read_only alpha cfg = false ->
  guarded (read_only alpha cfg) rest = (Proceeded (fst (rest tt)), snd (rest tt)).
Proof. intros R P alpha cfg rest H. unfold guarded. rewrite H. destruct (rest tt). reflexivity. Qed.

Theorem guard_obs_sound : forall o,
  guard_corr o = true ->
  (read_only (g_alpha o) (g_mode o) = true ->
   g_root_unchanged o = true /\ g_staging_unchanged o = true) ->
  guard_ok o = true.
Proof.
  intros o C U. unfold guard_corr in C. apply andb_true_iff in C. destruct C as [C1 C2].
  apply eqb_prop in C1, C2. unfold guard_ok. unfold read_only in *.
  destruct (g_alpha o && unidirectional (effective_mode (g_mode o))); [|reflexivity].
  destruct (U eq_refl) as [U1 U2]. rewrite C1, C2, U1, U2. reflexivity.
Qed.

Theorem oneway_alpha_untouched_modes : forall m anc al be,
  m = OneWaySafe \/ m = OneWayReplica -> alpha_ch (reconcile m anc al be) = [].
Proof.
  intros m anc al be [-> | ->]; apply oneway_alpha_untouched; reflexivity.
Qed.
