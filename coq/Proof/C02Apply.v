(* Applying (core.Apply, Model/Entry.v [apply]) the changes that a recursion
   over the children of a directory produced: child by child, each child's
   changes only touch that child. Used by the mirror theorem of C02. *)
From Coq Require Import List Bool Arith String Lia.
Import ListNotations.
From Mv Require Import Model.Entry Model.Reconcile Model.CheckC01
  Proof.EntryFacts Proof.C01Base Proof.C01Diff.

Local Open Scope list_scope.

Definition setc (e : entry) (c : list (name * entry)) : entry :=
  match e with
  | EDir _ => EDir c
  | EPhantom _ => EPhantom c
  | x => x
  end.

Definition is_dirlike (e : entry) : bool :=
  match e with EDir _ | EPhantom _ => true | _ => false end.

(* a change moved below the path p *)
Definition shift (p : path) (ch : change) : change :=
  mk (p ++ cpath ch) (cold ch) (cnew ch).

Lemma setc_id : forall e, setc e (contents (Some e)) = e.
Proof. intros e; destruct e; reflexivity. Qed.

Lemma setc_setc : forall e c c', setc (setc e c) c' = setc e c'.
Proof. intros e c c'; destruct e; reflexivity. Qed.

Lemma contents_setc : forall e c, is_dirlike e = true -> contents (Some (setc e c)) = c.
Proof. intros e c H; destruct e; try discriminate; reflexivity. Qed.

Lemma is_dirlike_setc : forall e c, is_dirlike (setc e c) = is_dirlike e.
Proof. intros e c; destruct e; reflexivity. Qed.

Lemma shift_shift : forall p q ch, shift p (shift q ch) = shift (p ++ q) ch.
Proof. intros p q ch. unfold shift. cbn [cpath cold cnew mk]. rewrite app_assoc. reflexivity. Qed.

Lemma map_flat_map : forall (A B C : Type) (f : B -> C) (g : A -> list B) l,
  map f (flat_map g l) = flat_map (fun x => map f (g x)) l.
Proof.
  induction l as [|a t IH]; [reflexivity|].
  cbn [flat_map]. rewrite map_app, IH. reflexivity.
Qed.

Lemma apply_app : forall x y b,
  apply b (x ++ y) = match apply b x with FOk b' => apply b' y | r => r end.
Proof.
  induction x as [|ch x IH]; intros y b; [reflexivity|].
  cbn [app apply]. destruct (apply_one b ch); try reflexivity. apply IH.
Qed.

Lemma set_child_twice : forall n v v' c,
  sorted_names (map fst c) = true ->
  set_child n v' (set_child n v c) = set_child n v' c.
Proof.
  intros n v v' c S.
  pose proof (set_child_sorted n v c S) as S1.
  apply contents_ext.
  - apply set_child_sorted. exact S1.
  - apply set_child_sorted. exact S.
  - intros k. rewrite !lookup_set_child by assumption.
    destruct (String.eqb k n); reflexivity.
Qed.

Lemma apply_at_deep : forall e n m r v,
  apply_at e (n :: m :: r) v =
  match lookup n (contents (Some e)) with
  | None => A1ErrParent
  | Some child =>
    match apply_at child (m :: r) v with
    | A1Ok child' =>
      match with_contents e (set_child n (Some child') (contents (Some e))) with
      | Some e' => A1Ok e'
      | None => A1Malformed
      end
    | r => r
    end
  end.
Proof. reflexivity. Qed.

(* one change below the child n of a directory-like entry *)
Lemma apply_one_child : forall e n ch v',
  is_dirlike e = true ->
  apply_one (lookup n (contents (Some e))) ch = FOk v' ->
  apply_one (Some e) (shift [n] ch) =
  FOk (Some (setc e (set_child n v' (contents (Some e))))).
Proof.
  intros e n [q o v] v' D H. unfold apply_one, shift in *. cbn [cpath cnew cold mk app] in *.
  destruct q as [|m r].
  - inversion H; subst v'. destruct e; try discriminate; reflexivity.
  - destruct (lookup n (contents (Some e))) as [child|] eqn:L; [|discriminate].
    destruct (apply_at child (m :: r) v) as [child'| | |] eqn:A; try discriminate.
    inversion H; subst v'.
    rewrite apply_at_deep, L, A.
    destruct e; try discriminate; reflexivity.
Qed.

(* all changes produced below the child n *)
Lemma apply_children : forall n chs e v',
  is_dirlike e = true -> sorted_names (map fst (contents (Some e))) = true ->
  apply (lookup n (contents (Some e))) chs = FOk v' ->
  apply (Some e) (map (shift [n]) chs) =
  FOk (Some (setc e (set_child n v' (contents (Some e))))).
Proof.
  intros n chs. induction chs as [|ch chs IH]; intros e v' D S H.
  - cbn [apply] in H. inversion H; subst v'. cbn [map apply].
    rewrite set_child_lookup_id by exact S. rewrite setc_id. reflexivity.
  - cbn [apply] in H.
    destruct (apply_one (lookup n (contents (Some e))) ch) as [v1| | |] eqn:A; try discriminate.
    cbn [map apply]. rewrite (apply_one_child e n ch v1 D A).
    set (c := contents (Some e)) in *.
    set (e1 := setc e (set_child n v1 c)).
    assert (C1 : contents (Some e1) = set_child n v1 c) by (apply contents_setc; exact D).
    assert (S1 : sorted_names (map fst (contents (Some e1))) = true).
    { rewrite C1. apply set_child_sorted. exact S. }
    assert (L1 : lookup n (contents (Some e1)) = v1).
    { rewrite C1. apply lookup_set_child_same. exact S. }
    rewrite (IH e1 v').
    + rewrite C1. unfold e1. rewrite setc_setc, set_child_twice by exact S. reflexivity.
    + unfold e1. rewrite is_dirlike_setc. exact D.
    + exact S1.
    + rewrite L1. exact H.
Qed.

(* the children one after the other *)
Lemma apply_fold : forall (chs : name -> list change) (R : name -> oentry -> Prop) l,
  NoDup l -> forall e,
  is_dirlike e = true -> sorted_names (map fst (contents (Some e))) = true ->
  (forall n, In n l -> exists v, apply (lookup n (contents (Some e))) (chs n) = FOk v /\ R n v) ->
  exists c',
    sorted_names (map fst c') = true
    /\ apply (Some e) (flat_map (fun n => map (shift [n]) (chs n)) l) = FOk (Some (setc e c'))
    /\ (forall n, In n l -> R n (lookup n c'))
    /\ (forall n, ~ In n l -> lookup n c' = lookup n (contents (Some e))).
Proof.
  intros chs R l ND. induction ND as [|n1 l' NI ND IH]; intros e D S H.
  - exists (contents (Some e)). split; [exact S|]. split; [cbn; rewrite setc_id; reflexivity|].
    split; [intros n []|reflexivity].
  - destruct (H n1 (or_introl eq_refl)) as [v1 [A1 R1]].
    set (c := contents (Some e)) in *.
    set (e1 := setc e (set_child n1 v1 c)).
    assert (C1 : contents (Some e1) = set_child n1 v1 c) by (apply contents_setc; exact D).
    assert (S1 : sorted_names (map fst (contents (Some e1))) = true).
    { rewrite C1. apply set_child_sorted. exact S. }
    assert (D1 : is_dirlike e1 = true) by (unfold e1; rewrite is_dirlike_setc; exact D).
    destruct (IH e1 D1 S1) as [c' [Sc' [Ac' [Rc' Fc']]]].
    { intros n I. destruct (H n (or_intror I)) as [v [A Rv]]. exists v. split; [|exact Rv].
      rewrite C1, lookup_set_child_other; [exact A|]. intros ->. contradiction. }
    exists c'. split; [exact Sc'|]. split; [|split].
    + cbn [flat_map]. rewrite apply_app.
      rewrite (apply_children n1 (chs n1) e v1 D S A1). fold c. fold e1.
      rewrite Ac'. unfold e1. rewrite setc_setc. reflexivity.
    + intros n [<-|I]; [|apply Rc'; exact I].
      rewrite (Fc' n1 NI), C1, lookup_set_child_same by exact S. exact R1.
    + intros n N. rewrite Fc' by (intros I; apply N; right; exact I).
      rewrite C1. apply lookup_set_child_other. intros ->. apply N. left. reflexivity.
Qed.

(* two trees that are shallow-equal at every path are equal *)
Lemma at_path_ext_entry : forall x s s' y,
  wf_entry s x = true -> wf_entry s' y = true ->
  (forall q, oshallow_eqb (at_path (Some x) q) (at_path (Some y) q) = true) -> x = y.
Proof.
  induction x as [c IH|x0 d|t| |m|c IH] using entry_nested_ind; intros s s' y W W' H;
    pose proof (H []) as H0; cbn [at_path oshallow_eqb] in H0;
    try (apply shallow_eqb_leaf in H0; exact H0).
  - destruct y as [c'| | | | |]; try discriminate. f_equal.
    pose proof (wf_dir_inv _ _ W) as [Wl Ws]. pose proof (wf_dir_inv _ _ W') as [Wl' Ws'].
    apply contents_ext; [exact Ws|exact Ws'|]. intros n.
    pose proof (H [n]) as Hn. cbn [at_path contents] in Hn.
    destruct (lookup n c) as [x'|] eqn:L, (lookup n c') as [y'|] eqn:L'; try discriminate;
      [|reflexivity].
    f_equal. rewrite Forall_forall in IH.
    apply (IH (n, x') (lookup_some_in _ _ _ L) s s').
    + rewrite wf_list_forall in Wl. apply (Wl n). apply lookup_some_in. exact L.
    + rewrite wf_list_forall in Wl'. apply (Wl' n). apply lookup_some_in. exact L'.
    + intros q. specialize (H (n :: q)). rewrite !at_path_cons in H. cbn [contents] in H.
      rewrite L, L' in H. exact H.
  - destruct y as [| | | | |c']; try discriminate. f_equal.
    pose proof (wf_phantom_inv _ _ W) as [_ [Wl Ws]].
    pose proof (wf_phantom_inv _ _ W') as [_ [Wl' Ws']].
    apply contents_ext; [exact Ws|exact Ws'|]. intros n.
    pose proof (H [n]) as Hn. cbn [at_path contents] in Hn.
    destruct (lookup n c) as [x'|] eqn:L, (lookup n c') as [y'|] eqn:L'; try discriminate;
      [|reflexivity].
    f_equal. rewrite Forall_forall in IH.
    apply (IH (n, x') (lookup_some_in _ _ _ L) s s').
    + rewrite wf_list_forall in Wl. apply (Wl n). apply lookup_some_in. exact L.
    + rewrite wf_list_forall in Wl'. apply (Wl' n). apply lookup_some_in. exact L'.
    + intros q. specialize (H (n :: q)). rewrite !at_path_cons in H. cbn [contents] in H.
      rewrite L, L' in H. exact H.
Qed.

Lemma at_path_ext : forall s s' x y,
  wf s x = true -> wf s' y = true ->
  (forall q, oshallow_eqb (at_path x q) (at_path y q) = true) -> x = y.
Proof.
  intros s s' [x|] [y|] W W' H; try reflexivity;
    try (specialize (H []); discriminate).
  f_equal. eapply at_path_ext_entry; eauto.
Qed.
