(* C03 - proofs: the checker of Model/CheckC03.v is sound for the three
   statements, and the plan of the reconcile model satisfies them and passes
   the checker. *)
From Coq Require Import List Bool Arith String Lia Permutation.
Import ListNotations.
From Mv Require Import Model.Entry Model.Reconcile Model.CheckC06 Model.CheckC03
  Proof.EntryFacts Proof.ReconcileShape.

(* ================================================================== *)
(* 1. unsync_free and the residue diff(p, synchronizable x, x)         *)
(* ================================================================== *)

Fixpoint unsync_free_list (l : list (name * entry)) : bool :=
  match l with
  | [] => true
  | (_, x) :: t => unsync_free_entry x && unsync_free_list t
  end.

Lemma unsync_free_dir : forall c, unsync_free_entry (EDir c) = unsync_free_list c.
Proof.
  intros c. cbn [unsync_free_entry]. induction c as [|[n x] t IH]; [reflexivity|].
  cbn [unsync_free_list]. rewrite <- IH. reflexivity.
Qed.

Lemma unsync_free_list_forall : forall c,
  unsync_free_list c = true <-> forall n x, In (n, x) c -> unsync_free_entry x = true.
Proof.
  induction c as [|[k y] t IH]; cbn [unsync_free_list].
  - split; [intros _ n x []|reflexivity].
  - rewrite andb_true_iff, IH. split.
    + intros [H1 H2] n x [E|H]; [injection E as <- <-; exact H1|apply (H2 n x H)].
    + intros H. split; [apply (H k y); left; reflexivity|intros n x Hi; apply (H n x); right; exact Hi].
Qed.

Lemma flat_map_nil : forall (A B : Type) (f : A -> list B) (l : list A),
  flat_map f l = [] <-> forall x, In x l -> f x = [].
Proof.
  intros A B f l. induction l as [|a l IH]; cbn [flat_map].
  - split; [intros _ x []|reflexivity].
  - split.
    + intros H. apply app_eq_nil in H as [H1 H2]. intros x [<-|Hx]; [exact H1|apply IH; assumption].
    + intros H. rewrite (H a (or_introl eq_refl)). cbn [app]. apply IH. intros x Hx. apply H. right. exact Hx.
Qed.

Lemma diff_self_entry : forall e p, diff p (Some e) (Some e) = [].
Proof.
  induction e as [c IH|x d|t| |msg|c IH] using entry_nested_ind; intros p;
    rewrite diff_unfold; cbn [oshallow_eqb]; rewrite shallow_eqb_refl; cbn [negb contents];
    try reflexivity.
  - apply flat_map_nil. intros n _. destruct (lookup n c) as [x|] eqn:L; [|apply diff_none_none].
    rewrite Forall_forall in IH. apply (IH (n, x)). apply lookup_some_in. exact L.
  - apply flat_map_nil. intros n _. destruct (lookup n c) as [x|] eqn:L; [|apply diff_none_none].
    rewrite Forall_forall in IH. apply (IH (n, x)). apply lookup_some_in. exact L.
Qed.

Lemma diff_self : forall p x, diff p x x = [].
Proof. intros p [e|]; [apply diff_self_entry|apply diff_none_none]. Qed.

Lemma residue_entry_nil : forall e p,
  wf_entry false e = true ->
  (residue p (Some e) = [] <-> unsync_free_entry e = true).
Proof.
  induction e as [c IH|x d|t| |msg|c IH] using entry_nested_ind; intros p W; unfold residue;
    cbn [synchronizable].
  - rewrite sync_entry_dir, unsync_free_dir, unsync_free_list_forall.
    destruct (wf_dir_inv _ _ W) as [Wl Ws].
    rewrite diff_unfold. cbn [oshallow_eqb shallow_eqb negb contents].
    rewrite flat_map_nil. rewrite Forall_forall in IH. split.
    + intros H n x Hin.
      assert (Hn : In n (name_union [sync_list c; c])).
      { apply name_union_in2. right. apply in_map_iff. exists (n, x). split; [reflexivity|exact Hin]. }
      specialize (H n Hn). rewrite lookup_sync_list in H by exact Ws.
      rewrite (in_lookup_sorted _ _ _ Ws Hin) in H.
      apply (IH (n, x) Hin (p ++ [n])%list); [|exact H].
      apply (proj1 (wf_list_forall _ _) Wl n x Hin).
    + intros H n Hn. rewrite lookup_sync_list by exact Ws.
      destruct (lookup n c) as [x|] eqn:L; [|apply diff_none_none].
      pose proof (lookup_some_in _ _ _ L) as Hin.
      apply (IH (n, x) Hin (p ++ [n])%list); [|apply (H n x Hin)].
      apply (proj1 (wf_list_forall _ _) Wl n x Hin).
  - cbn [sync_entry unsync_free_entry]. split; [reflexivity|]. intros _. apply diff_self.
  - cbn [sync_entry unsync_free_entry]. split; [reflexivity|]. intros _. apply diff_self.
  - cbn [sync_entry unsync_free_entry]. rewrite diff_unfold. cbn. split; discriminate.
  - cbn [sync_entry unsync_free_entry]. rewrite diff_unfold. cbn. split; discriminate.
  - cbn [sync_entry unsync_free_entry]. rewrite diff_unfold. cbn. split; discriminate.
Qed.

Lemma residue_nil : forall p x, wf false x = true -> is_nil (residue p x) = unsync_free x.
Proof.
  intros p [e|] W.
  - cbn [unsync_free]. pose proof (residue_entry_nil e p W) as H.
    destruct (residue p (Some e)) eqn:E; destruct (unsync_free_entry e) eqn:U; try reflexivity.
    + symmetry. apply H. reflexivity.
    + destruct H as [_ H]. discriminate (H eq_refl).
  - reflexivity.
Qed.

(* ================================================================== *)
(* 2. The checker's conjuncts and the statements                       *)
(* ================================================================== *)

Lemma side_okb_spec : forall p x, side_okb x p = true <-> side_ok x p.
Proof.
  unfold side_ok. induction p as [|n r IH]; intros x; cbn [side_okb at_path].
  - split; [intros H; split; [exact H|intros q Hq; destruct (strict_prefix_nil _ Hq)]|intros [H _]; exact H].
  - rewrite andb_true_iff, IH. split.
    + intros [H1 [H2 H3]]. split; [exact H2|]. intros q Hq.
      apply strict_prefix_cons in Hq as [->|[q' [-> Hq']]]; cbn [at_path]; auto.
    + intros [H1 H2]. split; [|split].
      * apply (H2 []). apply strict_prefix_cons. left. reflexivity.
      * exact H1.
      * intros q Hq. specialize (H2 (n :: q)). cbn [at_path] in H2. apply H2.
        apply strict_prefix_cons. right. exists q. auto.
Qed.

Lemma no_problem_alongb_spec : forall r a b,
  no_problem_alongb a b r = true <->
  forall t, prefix t r -> is_problem (at_path a t) = false /\ is_problem (at_path b t) = false.
Proof.
  induction r as [|n r IH]; intros a b; cbn [no_problem_alongb].
  - rewrite andb_true_r, andb_true_iff, !negb_true_iff. split.
    + intros H t [s Hs]. symmetry in Hs. apply app_eq_nil in Hs as [-> _]. exact H.
    + intros H. apply (H []). apply prefix_nil_l.
  - rewrite !andb_true_iff, !negb_true_iff, IH. split.
    + intros [[H1 H2] H3] t Ht. apply prefix_cons in Ht as [->|[t' [-> Ht']]]; cbn [at_path]; auto.
    + intros H. split.
      * apply (H []). apply prefix_nil_l.
      * intros t Ht. specialize (H (n :: t)). cbn [at_path] in H. apply H.
        apply prefix_cons. right. exists t. auto.
Qed.

Lemma problem_skipped_spec : forall a b pl,
  forallb (no_problem_alongb a b) (out_paths pl) = true <-> c03_problem_skipped_prop a b pl.
Proof.
  intros a b pl. unfold c03_problem_skipped_prop. rewrite forallb_forall. split.
  - intros H t Ht r Hr Hp. specialize (H r Hr). rewrite no_problem_alongb_spec in H.
    destruct (H t Hp) as [H1 H2]. destruct Ht; congruence.
  - intros H r Hr. apply no_problem_alongb_spec. intros t Hp.
    destruct (is_problem (at_path a t)) eqn:E1.
    { exfalso. apply (H t (or_introl E1) r Hr Hp). }
    destruct (is_problem (at_path b t)) eqn:E2.
    { exfalso. apply (H t (or_intror E2) r Hr Hp). }
    auto.
Qed.

(* ---- every path holding an entry is enumerated by paths_of ---- *)
Fixpoint paths_list (l : list (name * entry)) : list path :=
  match l with
  | [] => []
  | (n, x) :: t => (map (cons n) (paths_entry x) ++ paths_list t)%list
  end.

Lemma paths_entry_dir : forall c, paths_entry (EDir c) = [] :: paths_list c.
Proof.
  intros c. reflexivity.
Qed.

Lemma paths_entry_phantom : forall c, paths_entry (EPhantom c) = [] :: paths_list c.
Proof.
  intros c. reflexivity.
Qed.

Lemma paths_list_in : forall c n x r,
  In (n, x) c -> In r (paths_entry x) -> In (n :: r) (paths_list c).
Proof.
  induction c as [|[k y] t IH]; intros n x r Hin Hr; [destruct Hin|].
  cbn [paths_list]. apply in_app_iff. destruct Hin as [E|Hin].
  - injection E as -> ->. left. apply in_map. exact Hr.
  - right. apply (IH n x r Hin Hr).
Qed.

Lemma paths_entry_nil : forall e, In [] (paths_entry e).
Proof. intros e. destruct e; left; reflexivity. Qed.

Lemma at_path_in_paths : forall p e x, at_path (Some e) p = Some x -> In p (paths_entry e).
Proof.
  induction p as [|n r IH]; intros e x H; [apply paths_entry_nil|].
  cbn [at_path] in H.
  destruct (lookup n (contents (Some e))) as [y|] eqn:L; [|rewrite at_path_none in H; discriminate].
  pose proof (lookup_some_in _ _ _ L) as Hin.
  destruct e as [c|? ?|?| |?|c]; cbn [contents] in Hin; try destruct Hin.
  - rewrite paths_entry_dir. right. apply (paths_list_in c n y r Hin). apply (IH y x H).
  - rewrite paths_entry_phantom. right. apply (paths_list_in c n y r Hin). apply (IH y x H).
Qed.

Lemma disagrees_in_paths : forall a b p,
  disagrees (at_path a p) (at_path b p) = true -> In p (paths_of a ++ paths_of b)%list.
Proof.
  intros a b p H. apply in_app_iff.
  destruct (at_path a p) as [x|] eqn:Ea.
  - left. destruct a as [e|]; [|rewrite at_path_none in Ea; discriminate].
    apply (at_path_in_paths p e x Ea).
  - destruct (at_path b p) as [y|] eqn:Eb; [|discriminate].
    right. destruct b as [e|]; [|rewrite at_path_none in Eb; discriminate].
    apply (at_path_in_paths p e y Eb).
Qed.

(* ---- the canonical sort is a permutation ---- *)
Lemma insert_change_perm : forall c l, Permutation (insert_change c l) (c :: l).
Proof.
  intros c l. induction l as [|d t IH]; cbn [insert_change]; [reflexivity|].
  destruct (path_ltb (cpath d) (cpath c)); [|reflexivity].
  etransitivity; [apply perm_skip, IH|apply perm_swap].
Qed.

Lemma sort_changes_perm : forall l, Permutation (sort_changes l) l.
Proof.
  induction l as [|c t IH]; [reflexivity|]. unfold sort_changes. cbn [fold_right].
  etransitivity; [apply insert_change_perm|]. apply perm_skip. exact IH.
Qed.

Lemma handledb_spec : forall a b p, handledb a b p = true <-> handled a b p.
Proof.
  intros a b p. unfold handledb, handled. rewrite andb_true_iff, reachb_spec. reflexivity.
Qed.

Lemma conflict_instead_sound : forall m anc a b pl,
  forallb (conflict_instead_atb m anc a b pl) (paths_of a ++ paths_of b)%list = true ->
  c03_conflict_instead_prop m anc a b pl.
Proof.
  intros m anc a b pl H p X Hh Hw Hu. rewrite forallb_forall in H.
  specialize (H p (disagrees_in_paths a b p (proj2 Hh))). unfold conflict_instead_atb in H.
  rewrite (proj2 (handledb_spec a b p) Hh) in H. rewrite forallb_forall in H.
  assert (HX : In X [SAlpha; SBeta]) by (destruct X; cbn; auto).
  specialize (H X HX). rewrite Hw, Hu in H. cbn [negb andb] in H.
  apply existsb_exists in H as [c [Hc H]]. apply andb_true_iff in H as [H1 H2].
  apply path_eqb_eq in H1. apply changes_eqb_eq in H2.
  exists c. split; [exact Hc|]. split; [exact H1|].
  etransitivity; [symmetry; apply sort_changes_perm|]. rewrite H2. apply sort_changes_perm.
Qed.

Lemma check_c03_plan_sound : forall m anc a b pl,
  check_c03_plan m anc a b pl = true -> c03_prop m anc a b pl.
Proof.
  intros m anc a b pl H. unfold check_c03_plan in H.
  apply andb_true_iff in H as [H H4]. apply andb_true_iff in H as [H H3].
  apply andb_true_iff in H as [H1 H2]. rewrite forallb_forall in H1, H2.
  split; [|split].
  - intros X ch Hc. apply side_okb_spec. destruct X; [apply H1|apply H2]; exact Hc.
  - apply conflict_instead_sound. exact H3.
  - apply problem_skipped_spec. exact H4.
Qed.

Lemma check_c03_sound : forall m anc a b pl,
  check_c03 (m, anc, a, b, pl) = true -> c03_prop m anc a b pl.
Proof. intros m anc a b pl H. cbn [check_c03] in H. apply check_c03_plan_sound. exact H. Qed.

(* ================================================================== *)
(* 3. The handlers guard every transition and report the conflict      *)
(* ================================================================== *)

Ltac split_ifs_eqn :=
  repeat match goal with
         | |- context [if ?c then _ else _] => destruct c eqn:?
         | |- context [match ?c with None => _ | Some _ => _ end] => destruct c eqn:?
         end.

(* every transition a handler emits on a side is guarded by an empty residue *)
Lemma handler_guarded : forall m p anc a b X ch,
  In ch (side_changes X (handler m p anc a b)) ->
  is_nil (residue p (side_entry X a b)) = true.
Proof.
  intros m p anc a b X ch. unfold residue.
  destruct X, m; unfold handler, handle_bidirectional, handle_one_way_safe, handle_one_way_replica;
    cbv zeta; cbn [side_entry];
    generalize (synchronizable a) (synchronizable b); intros sa sb; split_ifs_eqn;
    cbn [side_changes side_entry alpha_ch beta_ch p_conflict p_alpha p_beta p_anc empty_plan In];
    intros Hc; try contradiction;
    match goal with
    | H : negb (is_nil ?l) = false |- is_nil ?l = true => apply negb_false_iff in H; exact H
    end.
Qed.

(* when the decision on the synchronizable parts would write a side that
   holds unsynchronizable content, the handler reports a conflict whose
   changes on that side are exactly the residue *)
Lemma handler_conflict_instead : forall m p anc a b X,
  wf false a = true -> wf false b = true ->
  would_write m p anc a b X = true ->
  unsync_free (side_entry X a b) = false ->
  exists c, In c (conflicts (handler m p anc a b)) /\ root c = p
            /\ conflict_side X c = residue p (side_entry X a b).
Proof.
  intros m p anc a b X Wa Wb Hw Hu.
  rewrite <- (residue_nil p) in Hu by (destruct X; assumption).
  unfold would_write, decision in Hw. unfold residue in *.
  revert Hw.
  destruct X, m; cbn [side_entry] in Hu |- *;
    unfold handler, handle_bidirectional, handle_one_way_safe, handle_one_way_replica;
    rewrite ?(synchronizable_idem false a Wa), ?(synchronizable_idem false b Wb), ?diff_self, ?Hu;
    cbv zeta; cbn [is_nil negb]; clear Hu;
    generalize (synchronizable a) (synchronizable b); intros sa sb;
    split_ifs_eqn;
    cbn [side_changes conflict_side alpha_ch beta_ch conflicts p_conflict p_alpha p_beta p_anc
         empty_plan is_nil negb];
    intros Hw; try discriminate Hw;
    (eexists; split; [left; reflexivity|split; reflexivity]).
Qed.

(* ================================================================== *)
(* 4. The three statements on the model's plan                         *)
(* ================================================================== *)

Lemma side_app : forall X x y,
  side_changes X (plan_app x y) = (side_changes X x ++ side_changes X y)%list.
Proof. intros [] x y; reflexivity. Qed.

Lemma leaf_side_path : forall X p pl ch, leaf p pl -> In ch (side_changes X pl) -> cpath ch = p.
Proof. intros [] p pl ch; [apply leaf_alpha_path|apply leaf_beta_path]. Qed.

(* along a reached path, each side is a directory at every strict prefix *)
Lemma reachb_side_okb : forall s a b X,
  reachb a b s = true -> unsync_free (at_path (side_entry X a b) s) = true ->
  side_okb (side_entry X a b) s = true.
Proof.
  induction s as [|n r IH]; intros a b X Hr Hu; [exact Hu|].
  cbn [reachb] in Hr. apply andb_true_iff in Hr as [Hr H4]. apply andb_true_iff in Hr as [Hr H3].
  apply andb_true_iff in Hr as [_ H2]. cbn [side_okb].
  specialize (IH (lookup n (contents a)) (lookup n (contents b)) X H4).
  destruct X; cbn [side_entry at_path] in *.
  - rewrite H2. apply IH. exact Hu.
  - rewrite H3. apply IH. exact Hu.
Qed.

Lemma side_entry_at : forall X a b s,
  at_path (side_entry X a b) s = side_entry X (at_path a s) (at_path b s).
Proof. intros [] a b s; reflexivity. Qed.

Lemma reconcile_no_change_over_unsync : forall m anc a b,
  wf false a = true -> wf false b = true ->
  c03_no_change_over_unsync_prop a b (reconcile m anc a b).
Proof.
  intros m anc a b Wa Wb X ch Hc. unfold reconcile in Hc.
  apply (shape_sel _ (side_changes X) (side_app X) (match X with SAlpha => eq_refl | SBeta => eq_refl end)
           (fun c => match X with SAlpha => eq_refl | SBeta => eq_refl end)) in Hc as [s [Hr [Hd Hc]]].
  cbn [app] in Hc.
  rewrite (leaf_side_path X _ _ _ (handler_leaf _ _ _ _ _) Hc).
  apply side_okb_spec. apply reachb_side_okb; [exact Hr|].
  apply handler_guarded in Hc. rewrite residue_nil in Hc.
  - rewrite side_entry_at. exact Hc.
  - destruct X; cbn [side_entry]; apply at_path_wf; assumption.
Qed.

(* the exact form on the model: the conflict's changes on the blocked side
   EQUAL the residue *)
Lemma reconcile_conflict_instead_eq : forall m anc a b p X,
  wf false a = true -> wf false b = true ->
  handledb a b p = true ->
  would_write m p (anc_seen anc a p) (at_path a p) (at_path b p) X = true ->
  unsync_free (at_path (side_entry X a b) p) = false ->
  exists c, In c (conflicts (reconcile m anc a b)) /\ root c = p
            /\ conflict_side X c = residue p (at_path (side_entry X a b) p).
Proof.
  intros m anc a b p X Wa Wb Hh Hw Hu. unfold handledb in Hh. apply andb_true_iff in Hh as [Hr Hd].
  rewrite side_entry_at in *.
  destruct (handler_conflict_instead m p (anc_seen anc a p) (at_path a p) (at_path b p) X
              (at_path_wf _ _ _ Wa) (at_path_wf _ _ _ Wb) Hw Hu) as [c [Hc [E1 E2]]].
  exists c. split; [|split; assumption].
  rewrite reconcile_at_root.
  apply (reaches_sel _ conflicts conflicts_app eq_refl p m [] anc a b c Hr Hd). exact Hc.
Qed.

Lemma reconcile_conflict_instead : forall m anc a b,
  wf false a = true -> wf false b = true ->
  c03_conflict_instead_prop m anc a b (reconcile m anc a b).
Proof.
  intros m anc a b Wa Wb p X Hh Hw Hu. apply handledb_spec in Hh.
  destruct (reconcile_conflict_instead_eq m anc a b p X Wa Wb Hh Hw Hu) as [c [H1 [H2 H3]]].
  exists c. split; [exact H1|]. split; [exact H2|]. rewrite H3. reflexivity.
Qed.

Lemma reachb_no_problem_along : forall s a b,
  reachb a b s = true -> is_problem (at_path a s) = false -> is_problem (at_path b s) = false ->
  no_problem_alongb a b s = true.
Proof.
  induction s as [|n r IH]; intros a b Hr Ha Hb; cbn [no_problem_alongb].
  - cbn [at_path] in Ha, Hb. rewrite Ha, Hb. reflexivity.
  - cbn [reachb] in Hr. apply andb_true_iff in Hr as [Hr H4]. apply andb_true_iff in Hr as [Hr _].
    apply andb_true_iff in Hr as [Hr _]. destruct (descends_no_problem _ _ Hr) as [-> ->].
    cbn [negb andb]. apply IH; assumption.
Qed.

Lemma reconcile_problem_skipped_b : forall m anc a b,
  forallb (no_problem_alongb a b) (out_paths (reconcile m anc a b)) = true.
Proof.
  intros m anc a b. apply forallb_forall. intros r Hr. unfold out_paths, anc_paths in Hr.
  unfold reconcile in Hr. apply in_app_iff in Hr as [Hr|Hr].
  - apply in_map_iff in Hr as [ch [<- Hc]].
    apply shape_anc in Hc as [s [-> [Hs [Ha [Hb _]]]]]. cbn [app].
    apply reachb_no_problem_along; assumption.
  - apply root_source in Hr as [s [-> [Hs [Hd _]]]]. cbn [app].
    destruct (disagrees_no_problem _ _ Hd). apply reachb_no_problem_along; assumption.
Qed.

Lemma reconcile_problem_skipped : forall m anc a b,
  c03_problem_skipped_prop a b (reconcile m anc a b).
Proof. intros m anc a b. apply problem_skipped_spec, reconcile_problem_skipped_b. Qed.

Lemma reconcile_c03 : forall m anc a b,
  wf false a = true -> wf false b = true -> c03_prop m anc a b (reconcile m anc a b).
Proof.
  intros m anc a b Wa Wb. split; [|split].
  - apply reconcile_no_change_over_unsync; assumption.
  - apply reconcile_conflict_instead; assumption.
  - apply reconcile_problem_skipped.
Qed.

(* ================================================================== *)
(* 5. The model's plan passes the checker                              *)
(* ================================================================== *)

Lemma reconcile_check_c03 : forall m anc a b,
  wf false a = true -> wf false b = true ->
  check_c03 (m, anc, a, b, reconcile m anc a b) = true.
Proof.
  intros m anc a b Wa Wb. cbn [check_c03]. unfold check_c03_plan.
  pose proof (reconcile_no_change_over_unsync m anc a b Wa Wb) as H1.
  rewrite !andb_true_iff. split; [split; [split|]|].
  - apply forallb_forall. intros ch Hc. apply side_okb_spec. apply (H1 SAlpha ch Hc).
  - apply forallb_forall. intros ch Hc. apply side_okb_spec. apply (H1 SBeta ch Hc).
  - apply forallb_forall. intros p _. unfold conflict_instead_atb.
    destruct (handledb a b p) eqn:Hh; [|reflexivity].
    apply forallb_forall. intros X _.
    destruct (would_write m p (anc_seen anc a p) (at_path a p) (at_path b p) X) eqn:Hw; [|reflexivity].
    destruct (unsync_free (at_path (side_entry X a b) p)) eqn:Hu; [reflexivity|]. cbn [negb andb].
    destruct (reconcile_conflict_instead_eq m anc a b p X Wa Wb Hh Hw Hu) as [c [Hc [E1 E2]]].
    apply existsb_exists. exists c. split; [exact Hc|]. apply andb_true_iff. split.
    + apply path_eqb_eq. exact E1.
    + apply changes_eqb_eq. rewrite E2. reflexivity.
  - apply reconcile_problem_skipped_b.
Qed.

(* ================================================================== *)
(* 6. Non-vacuity                                                      *)
(* ================================================================== *)
Open Scope string_scope.

(* a: alpha modified a file             -> propagation to beta
   b: alpha deleted the directory, beta added an ignored file inside it
                                        -> conflict instead of the removal
   d: beta is unreadable at d           -> nothing planned at d
   e: both sides created the same file  -> ancestor change *)
Definition ex3_anc : oentry :=
  Some (EDir [("a", EFile false "d1"); ("b", EDir [("c", EFile false "d1")]); ("d", EFile false "d1")]).
Definition ex3_alpha : oentry :=
  Some (EDir [("a", EFile false "d2"); ("d", EFile false "d2"); ("e", EFile false "d5")]).
Definition ex3_beta : oentry :=
  Some (EDir [("a", EFile false "d1"); ("b", EDir [("c", EFile false "d1"); ("u", EUntracked)]);
              ("d", EProblem "unreadable"); ("e", EFile false "d5")]).

Lemma c03_example_plan :
  reconcile TwoWaySafe ex3_anc ex3_alpha ex3_beta =
  {| anc_changes := [mk ["e"] None (Some (EFile false "d5"))];
     alpha_ch := [];
     beta_ch := [mk ["a"] (Some (EFile false "d1")) (Some (EFile false "d2"))];
     conflicts := [mkc ["b"] [mk ["b"] (Some (EDir [("c", EFile false "d1")])) None]
                             [mk ["b"; "u"] None (Some EUntracked)]] |}.
Proof. vm_compute. reflexivity. Qed.

Lemma c03_example_hyps :
  wf true ex3_anc = true /\ wf false ex3_alpha = true /\ wf false ex3_beta = true
  /\ handledb ex3_alpha ex3_beta ["b"] = true
  /\ would_write TwoWaySafe ["b"] (anc_seen ex3_anc ex3_alpha ["b"])
       (at_path ex3_alpha ["b"]) (at_path ex3_beta ["b"]) SBeta = true
  /\ unsync_free (at_path ex3_beta ["b"]) = false
  /\ is_problem (at_path ex3_beta ["d"]) = true.
Proof. repeat split; vm_compute; reflexivity. Qed.
