(* C04, part 1: Apply distributes over the children of a directory, and
   reconcile commutes with path prefixes. (Model/Entry.v, Model/Reconcile.v) *)
From Coq Require Import List Bool Arith String Lia.
Import ListNotations.
From Mv Require Import Model.Entry Model.Reconcile Model.C04Cycle Proof.EntryFacts Proof.C07.
Close Scope string_scope.
Open Scope list_scope.

(* ================================================================== *)
(* 1. The changes that concern one child                               *)
(* ================================================================== *)

(* the changes of L whose path starts with n, with that component removed *)
Definition sub1 (n : name) (ch : change) : list change :=
  match cpath ch with
  | [] => []
  | k :: q => if String.eqb k n then [mk q (cold ch) (cnew ch)] else []
  end.

Definition sub (n : name) (L : list change) : list change := flat_map (sub1 n) L.

Lemma sub_app : forall n L1 L2, sub n (L1 ++ L2) = (sub n L1 ++ sub n L2)%list.
Proof. intros. unfold sub. apply flat_map_app. Qed.

Lemma pre_eta : forall ch, mk (cpath ch) (cold ch) (cnew ch) = ch.
Proof. intros [p o n]. reflexivity. Qed.

Lemma sub_map_pre_same : forall n L, sub n (map (pre [n]) L) = L.
Proof.
  intros n L. induction L as [|ch L IH]; [reflexivity|].
  cbn [map sub flat_map]. fold (sub n (map (pre [n]) L)). rewrite IH.
  unfold sub1, pre. cbn [cpath cold cnew app]. rewrite str_eqb_refl, pre_eta. reflexivity.
Qed.

Lemma sub_map_pre_other : forall n k L, k <> n -> sub n (map (pre [k]) L) = [].
Proof.
  intros n k L Hk. induction L as [|ch L IH]; [reflexivity|].
  cbn [map sub flat_map]. fold (sub n (map (pre [k]) L)). rewrite IH.
  unfold sub1, pre. cbn [cpath cold cnew app].
  destruct (String.eqb k n) eqn:E; [apply str_eqb_eq in E; contradiction|reflexivity].
Qed.

Lemma sub_flat_map_pre_in : forall (F : name -> list change) (l : list name) n,
  NoDup l -> In n l -> sub n (flat_map (fun k => map (pre [k]) (F k)) l) = F n.
Proof.
  intros F l n. induction l as [|k l IH]; intros Hnd Hin; [destruct Hin|].
  cbn [flat_map]. rewrite sub_app. inversion Hnd as [|? ? Hk Hnd']; subst.
  destruct Hin as [->|Hin].
  - rewrite sub_map_pre_same.
    assert (H0 : sub n (flat_map (fun k => map (pre [k]) (F k)) l) = []).
    { clear IH Hnd Hnd'. induction l as [|k l IH]; [reflexivity|].
      cbn [flat_map]. rewrite sub_app, sub_map_pre_other.
      - apply IH. intro H. apply Hk. right. exact H.
      - intros ->. apply Hk. left. reflexivity. }
    rewrite H0. apply app_nil_r.
  - rewrite sub_map_pre_other by (intros ->; contradiction).
    apply IH; assumption.
Qed.

Lemma sub_flat_map_pre_notin : forall (F : name -> list change) (l : list name) n,
  ~ In n l -> sub n (flat_map (fun k => map (pre [k]) (F k)) l) = [].
Proof.
  intros F l n. induction l as [|k l IH]; intro Hin; [reflexivity|].
  cbn [flat_map]. rewrite sub_app, sub_map_pre_other.
  - apply IH. intro H. apply Hin. right. exact H.
  - intros ->. apply Hin. left. reflexivity.
Qed.

Lemma sub_ideal : forall n L, sub n (ideal L) = ideal (sub n L).
Proof.
  intros n L. induction L as [|ch L IH]; [reflexivity|].
  change (sub n (ideal (ch :: L))) with (sub1 n (ideal1 ch) ++ sub n (ideal L))%list.
  change (sub n (ch :: L)) with (sub1 n ch ++ sub n L)%list.
  unfold ideal at 2. rewrite map_app. fold (ideal (sub n L)). rewrite <- IH. f_equal.
  unfold sub1, ideal1. cbn [cpath cold cnew mk].
  destruct (cpath ch) as [|k q]; [reflexivity|]. destruct (String.eqb k n); reflexivity.
Qed.

Lemma ideal_map_pre : forall q L, ideal (map (pre q) L) = map (pre q) (ideal L).
Proof.
  intros q L. unfold ideal. rewrite !map_map. apply map_ext. intros [p o n]. reflexivity.
Qed.

Lemma ideal_app : forall L1 L2, ideal (L1 ++ L2) = (ideal L1 ++ ideal L2)%list.
Proof. intros. unfold ideal. apply map_app. Qed.

Lemma ideal_flat_map : forall (A : Type) (F : A -> list change) l,
  ideal (flat_map F l) = flat_map (fun x => ideal (F x)) l.
Proof. intros. unfold ideal. apply map_flat_map. Qed.

(* ================================================================== *)
(* 2. Apply on a directory = Apply on each child                       *)
(* ================================================================== *)

Definition nonroot (L : list change) : Prop := forall ch, In ch L -> cpath ch <> [].

Lemma nonroot_map_pre : forall n L, nonroot (map (pre [n]) L).
Proof.
  intros n L ch H. apply in_map_iff in H. destruct H as [x [<- _]]. discriminate.
Qed.

Lemma nonroot_app : forall L1 L2, nonroot L1 -> nonroot L2 -> nonroot (L1 ++ L2).
Proof. intros L1 L2 H1 H2 ch H. apply in_app_or in H. destruct H; auto. Qed.

Lemma nonroot_flat_map_pre : forall (F : name -> list change) l,
  nonroot (flat_map (fun k => map (pre [k]) (F k)) l).
Proof.
  intros F l ch H. apply in_flat_map in H. destruct H as [k [_ H]].
  exact (nonroot_map_pre k (F k) ch H).
Qed.

Lemma nonroot_ideal : forall L, nonroot L -> nonroot (ideal L).
Proof.
  intros L H ch Hin. unfold ideal in Hin. apply in_map_iff in Hin.
  destruct Hin as [x [<- Hx]]. cbn. apply H. exact Hx.
Qed.

(* one change with a non-empty path on a directory *)
Lemma apply_one_dir : forall c k q o v r,
  apply_one (Some (EDir c)) (mk (k :: q) o v) = FOk r ->
  exists y, apply_one (lookup k c) (mk q o v) = FOk y /\ r = Some (EDir (set_child k y c)).
Proof.
  intros c k q o v r H. unfold apply_one in *. cbn [cpath cnew mk] in *.
  destruct q as [|k2 q'].
  - cbn [apply_at] in H. injection H as <-. exists v. split; reflexivity.
  - rewrite apply_at_cons2 in H. cbn [contents] in H.
    destruct (lookup k c) as [child|] eqn:E; [|discriminate H].
    destruct (apply_at child (k2 :: q') v) as [child'| | |] eqn:A; try discriminate H.
    cbn [with_contents] in H. injection H as <-.
    exists (Some child'). split; reflexivity.
Qed.

Lemma apply_one_dir_conv : forall c k q o v y,
  apply_one (lookup k c) (mk q o v) = FOk y ->
  apply_one (Some (EDir c)) (mk (k :: q) o v) = FOk (Some (EDir (set_child k y c))).
Proof.
  intros c k q o v y H. unfold apply_one in *. cbn [cpath cnew mk] in *.
  destruct q as [|k2 q'].
  - injection H as <-. reflexivity.
  - destruct (lookup k c) as [child|] eqn:E; [|discriminate H].
    destruct (apply_at child (k2 :: q') v) as [child'| | |] eqn:A; try discriminate H.
    injection H as <-. rewrite apply_at_cons2. cbn [contents]. rewrite E, A. reflexivity.
Qed.

(* if Apply on a directory succeeds, it succeeded on every child, and the
   result is the directory of the children's results *)
Lemma apply_split : forall L c r,
  sorted_names (map fst c) = true -> nonroot L ->
  apply (Some (EDir c)) L = FOk r ->
  exists c', r = Some (EDir c') /\ sorted_names (map fst c') = true
             /\ forall n, apply (lookup n c) (sub n L) = FOk (lookup n c').
Proof.
  induction L as [|ch L IH]; intros c r Hs Hnr H.
  - cbn [apply] in H. injection H as <-. exists c. split; [reflexivity|]. split; [exact Hs|].
    intro n. reflexivity.
  - cbn [apply] in H.
    destruct (apply_one (Some (EDir c)) ch) as [b1| | |] eqn:A; try discriminate H.
    destruct ch as [p o v]. destruct p as [|k q].
    { exfalso. apply (Hnr (mk [] o v)); [left; reflexivity|reflexivity]. }
    destruct (apply_one_dir c k q o v b1 A) as [y [Ay ->]].
    assert (Hs1 : sorted_names (map fst (set_child k y c)) = true) by (apply set_child_sorted; exact Hs).
    assert (Hnr' : nonroot L) by (intros x Hx; apply Hnr; right; exact Hx).
    destruct (IH (set_child k y c) r Hs1 Hnr' H) as [c' [-> [Hs' Hc']]].
    exists c'. split; [reflexivity|]. split; [exact Hs'|].
    intro n. cbn [sub flat_map]. fold (sub n L). unfold sub1. cbn [cpath cold cnew].
    destruct (String.eqb k n) eqn:E.
    + apply str_eqb_eq in E. subst n. cbn [app apply]. fold (mk q o v). rewrite Ay.
      specialize (Hc' k). rewrite lookup_set_child_same in Hc' by exact Hs. exact Hc'.
    + cbn [app]. specialize (Hc' n). rewrite lookup_set_child_other in Hc'; [exact Hc'|].
      intros ->. rewrite str_eqb_refl in E. discriminate E.
Qed.

(* conversely: if Apply succeeds on every child it succeeds on the directory *)
Lemma apply_join : forall L c,
  sorted_names (map fst c) = true -> nonroot L ->
  (forall n, exists y, apply (lookup n c) (sub n L) = FOk y) ->
  exists r, apply (Some (EDir c)) L = FOk r.
Proof.
  induction L as [|ch L IH]; intros c Hs Hnr H.
  - exists (Some (EDir c)). reflexivity.
  - destruct ch as [p o v]. destruct p as [|k q].
    { exfalso. apply (Hnr (mk [] o v)); [left; reflexivity|reflexivity]. }
    assert (Hnr' : nonroot L) by (intros x Hx; apply Hnr; right; exact Hx).
    destruct (H k) as [yk Hk]. cbn [sub flat_map] in Hk. fold (sub k L) in Hk.
    unfold sub1 in Hk. cbn [cpath cold cnew] in Hk. rewrite str_eqb_refl in Hk.
    cbn [app apply] in Hk.
    destruct (apply_one (lookup k c) (mk q o v)) as [y1| | |] eqn:A; try discriminate Hk.
    cbn [apply]. fold (mk (k :: q) o v). rewrite (apply_one_dir_conv c k q o v y1 A).
    apply IH; [apply set_child_sorted; exact Hs|exact Hnr'|].
    intro n. destruct (String.eqb k n) eqn:E.
    + apply str_eqb_eq in E. subst n. exists yk.
      rewrite lookup_set_child_same by exact Hs. exact Hk.
    + destruct (H n) as [yn Hn]. exists yn. cbn [sub flat_map] in Hn. fold (sub n L) in Hn.
      unfold sub1 in Hn. cbn [cpath cold cnew] in Hn. rewrite E in Hn. cbn [app] in Hn.
      rewrite lookup_set_child_other; [exact Hn|].
      intros ->. rewrite str_eqb_refl in E. discriminate E.
Qed.

(* ================================================================== *)
(* 3. Plans under a path prefix                                        *)
(* ================================================================== *)

Definition conf_pre (q : path) (c : conflict) : conflict :=
  mkc (q ++ root c) (map (pre q) (alpha_changes c)) (map (pre q) (beta_changes c)).

Definition plan_pre (q : path) (pl : plan) : plan :=
  {| anc_changes := map (pre q) (anc_changes pl);
     alpha_ch := map (pre q) (alpha_ch pl);
     beta_ch := map (pre q) (beta_ch pl);
     conflicts := map (conf_pre q) (conflicts pl) |}.

Lemma plan_pre_app : forall q x y, plan_pre q (plan_app x y) = plan_app (plan_pre q x) (plan_pre q y).
Proof. intros q x y. unfold plan_pre, plan_app. cbn. rewrite !map_app. reflexivity. Qed.

Lemma plan_pre_empty : forall q, plan_pre q empty_plan = empty_plan.
Proof. reflexivity. Qed.

Lemma plan_pre_concat : forall q l, plan_pre q (plan_concat l) = plan_concat (map (plan_pre q) l).
Proof.
  intros q l. induction l as [|x l IH]; [reflexivity|].
  cbn [plan_concat fold_right map]. fold (plan_concat l). fold (plan_concat (map (plan_pre q) l)).
  rewrite plan_pre_app, IH. reflexivity.
Qed.

Lemma is_nil_map : forall (A B : Type) (f : A -> B) (l : list A),
  match map f l with [] => true | _ => false end = match l with [] => true | _ => false end.
Proof. intros A B f [|x l]; reflexivity. Qed.

Lemma is_nil_map_pre : forall q l, is_nil (map (pre q) l) = is_nil l.
Proof. intros q [|x l]; reflexivity. Qed.

Lemma non_deletion_map_pre : forall q l, non_deletion (map (pre q) l) = map (pre q) (non_deletion l).
Proof.
  intros q l. induction l as [|x l IH]; [reflexivity|].
  cbn [map non_deletion filter]. fold (non_deletion (map (pre q) l)). fold (non_deletion l).
  rewrite IH. destruct x as [p o n]. cbn [pre cnew]. destruct n; reflexivity.
Qed.

Lemma p_conflict_pre : forall q p a b,
  p_conflict (mkc (q ++ p) (map (pre q) a) (map (pre q) b)) = plan_pre q (p_conflict (mkc p a b)).
Proof. reflexivity. Qed.

Lemma p_conflict_pre1 : forall q p o n b,
  p_conflict (mkc (q ++ p) [mk (q ++ p) o n] (map (pre q) b)) = plan_pre q (p_conflict (mkc p [mk p o n] b)).
Proof. reflexivity. Qed.

Lemma p_beta_pre : forall q p o n, p_beta (mk (q ++ p) o n) = plan_pre q (p_beta (mk p o n)).
Proof. reflexivity. Qed.
Lemma p_alpha_pre : forall q p o n, p_alpha (mk (q ++ p) o n) = plan_pre q (p_alpha (mk p o n)).
Proof. reflexivity. Qed.
Lemma p_anc_pre : forall q p o n, p_anc (mk (q ++ p) o n) = plan_pre q (p_anc (mk p o n)).
Proof. reflexivity. Qed.

Ltac split_ifs :=
  repeat match goal with
         | |- context [if ?c then _ else _] => destruct c
         end.

Lemma handle_bidirectional_prefix : forall m q p anc a b,
  handle_bidirectional m (q ++ p) anc a b = plan_pre q (handle_bidirectional m p anc a b).
Proof.
  intros m q p anc a b. unfold handle_bidirectional. cbv zeta.
  rewrite !diff_prefix, !non_deletion_map_pre, !is_nil_map_pre.
  destruct (is_nil (diff p anc (synchronizable b))).
  { destruct (negb (is_nil (diff p (synchronizable b) b))); reflexivity. }
  destruct (is_nil (diff p anc (synchronizable a))).
  { destruct (negb (is_nil (diff p (synchronizable a) a))); reflexivity. }
  destruct (is_nil (non_deletion (diff p anc (synchronizable a))) &&
            is_nil (non_deletion (diff p anc (synchronizable b)))).
  { destruct (synchronizable a).
    - destruct (negb (is_nil (diff p (Some e) a))); reflexivity.
    - destruct (negb (is_nil (diff p (synchronizable b) b))); reflexivity. }
  destruct (is_nil (non_deletion (diff p anc (synchronizable b)))).
  { destruct (negb (is_nil (diff p (synchronizable b) b))); reflexivity. }
  destruct (is_nil (non_deletion (diff p anc (synchronizable a)))).
  { destruct (negb (is_nil (diff p (synchronizable a) a))); reflexivity. }
  destruct m; try reflexivity;
    destruct (negb (is_nil (diff p (synchronizable b) b))); reflexivity.
Qed.

Lemma handle_one_way_safe_prefix : forall q p anc a b,
  handle_one_way_safe (q ++ p) anc a b = plan_pre q (handle_one_way_safe p anc a b).
Proof.
  intros q p anc a b. unfold handle_one_way_safe. cbv zeta.
  rewrite !diff_prefix, !non_deletion_map_pre, !is_nil_map_pre.
  destruct (is_nil (non_deletion (diff p anc (synchronizable b)))).
  { destruct (negb (is_nil (diff p (synchronizable b) b))); reflexivity. }
  destruct ((is_none a || is_untracked a) &&
            (is_none anc || negb (is_dir anc) || is_none b || negb (is_dir b))).
  { destruct (is_none anc); reflexivity. }
  reflexivity.
Qed.

Lemma handle_one_way_replica_prefix : forall q p anc a b,
  handle_one_way_replica (q ++ p) anc a b = plan_pre q (handle_one_way_replica p anc a b).
Proof.
  intros q p anc a b. unfold handle_one_way_replica. cbv zeta.
  rewrite !diff_prefix, !is_nil_map_pre.
  destruct (negb (is_nil (diff p (synchronizable b) b))); reflexivity.
Qed.

Lemma reconcile_f_prefix : forall f m q p anc a b,
  reconcile_f f m (q ++ p) anc a b = plan_pre q (reconcile_f f m p anc a b).
Proof.
  induction f as [|f IH]; intros m q p anc a b; cbn [reconcile_f].
  - destruct (is_problem a); [reflexivity|]. destruct (is_problem b); [reflexivity|].
    destruct ((is_none a || is_untracked a) && (is_none b || is_untracked b)).
    { destruct (is_none anc); reflexivity. }
    destruct (oshallow_eqb a b); [reflexivity|].
    destruct m; [apply handle_bidirectional_prefix|apply handle_bidirectional_prefix
                |apply handle_one_way_safe_prefix|apply handle_one_way_replica_prefix].
  - destruct (is_problem a); [reflexivity|]. destruct (is_problem b); [reflexivity|].
    destruct ((is_none a || is_untracked a) && (is_none b || is_untracked b)).
    { destruct (is_none anc); reflexivity. }
    destruct (oshallow_eqb a b).
    + rewrite !fold_plan_app, plan_pre_app, plan_pre_concat, map_map. f_equal.
      * destruct (negb (oshallow_eqb anc a)); reflexivity.
      * f_equal. apply map_ext. intro n. rewrite <- app_assoc. apply IH.
    + destruct m; [apply handle_bidirectional_prefix|apply handle_bidirectional_prefix
                  |apply handle_one_way_safe_prefix|apply handle_one_way_replica_prefix].
Qed.

Lemma reconcile_at_prefix : forall m q p anc a b,
  reconcile_at m (q ++ p) anc a b = plan_pre q (reconcile_at m p anc a b).
Proof. intros. unfold reconcile_at. apply reconcile_f_prefix. Qed.

(* the recursive step, with every child reconciled at the root path *)
Lemma reconcile_root_rec : forall m ancestor alpha beta,
  is_problem alpha = false -> is_problem beta = false ->
  (is_none alpha || is_untracked alpha) && (is_none beta || is_untracked beta) = false ->
  oshallow_eqb alpha beta = true ->
  reconcile_at m [] ancestor alpha beta =
  plan_app
    (if negb (oshallow_eqb ancestor alpha) then p_anc (mk [] None (oslim alpha)) else empty_plan)
    (plan_concat
       (map (fun n => plan_pre [n]
                        (reconcile_at m [] (lookup n (anc_contents ancestor alpha))
                                      (lookup n (contents alpha)) (lookup n (contents beta))))
            (name_union [anc_contents ancestor alpha; contents alpha; contents beta]))).
Proof.
  intros m anc a b H1 H2 H3 H4. rewrite (reconcile_unfold_rec m [] anc a b H1 H2 H3 H4).
  f_equal. f_equal. apply map_ext. intro n.
  change ([] ++ [n])%list with ([n] ++ [])%list. apply reconcile_at_prefix.
Qed.

(* projections of a concatenation of prefixed child plans *)
Section Projections.
  Variable G : name -> plan.
  Variable l : list name.
  Let pl := plan_concat (map (fun n => plan_pre [n] (G n)) l).

  Lemma proj_anc : anc_changes pl = flat_map (fun n => map (pre [n]) (anc_changes (G n))) l.
  Proof. unfold pl. rewrite plan_concat_anc. reflexivity. Qed.
  Lemma proj_alpha : alpha_ch pl = flat_map (fun n => map (pre [n]) (alpha_ch (G n))) l.
  Proof. unfold pl. rewrite plan_concat_alpha. reflexivity. Qed.
  Lemma proj_beta : beta_ch pl = flat_map (fun n => map (pre [n]) (beta_ch (G n))) l.
  Proof. unfold pl. rewrite plan_concat_beta. reflexivity. Qed.
  Lemma proj_conflicts : conflicts pl = flat_map (fun n => map (conf_pre [n]) (conflicts (G n))) l.
  Proof. unfold pl. rewrite plan_concat_conflicts. reflexivity. Qed.
End Projections.

Lemma roots_plan_pre : forall q pl, roots (plan_pre q pl) = map (app q) (roots pl).
Proof.
  intros q pl. unfold roots, plan_pre. cbn [conflicts]. rewrite !map_map. reflexivity.
Qed.
