(* C04, part 4: convergence of two-way modes, totality of Apply on a plan,
   soundness of check_c04 and the model passing its own checker. *)
From Coq Require Import List Bool Arith String Lia.
Import ListNotations.
From Mv Require Import Model.Entry Model.Reconcile Model.C04Cycle
  Proof.EntryFacts Proof.C07 Proof.C04Apply Proof.C04Fix Proof.C04Main.
Close Scope string_scope.
Open Scope list_scope.

(* ================================================================== *)
(* 1. a tree and its synchronizable part hold the same content         *)
(* ================================================================== *)

Lemma same_sync_self_left : forall p a,
  wf false a = true -> phantom_free a = true ->
  same_sync_at a (synchronizable a) p = true.
Proof.
  induction p as [|n r IH]; intros a W P; unfold same_sync_at.
  - cbn [at_path]. rewrite (synchronizable_idem false a W). apply oshallow_eqb_refl.
  - cbn [at_path]. rewrite contents_synchronizable.
    destruct a as [[c| | | | |c]|]; cbn [contents lookup]; try discriminate P;
      try (rewrite at_path_none; reflexivity).
    rewrite lookup_sync_list by (apply (wf_contents_sorted false (Some (EDir c)) W)).
    apply (IH (lookup n c)).
    + apply (wf_lookup false (Some (EDir c)) n W).
    + apply (phantom_free_lookup (Some (EDir c)) n P).
Qed.

Lemma same_sync_sym : forall a b p, same_sync_at a b p = same_sync_at b a p.
Proof. intros. unfold same_sync_at. apply oshallow_eqb_sym. Qed.

Lemma same_sync_self_right : forall p b,
  wf false b = true -> phantom_free b = true ->
  same_sync_at (synchronizable b) b p = true.
Proof. intros. rewrite same_sync_sym. apply same_sync_self_left; assumption. Qed.

Lemma same_sync_refl : forall a p, same_sync_at a a p = true.
Proof. intros. unfold same_sync_at. apply oshallow_eqb_refl. Qed.

(* ================================================================== *)
(* 2. ways to establish converge_at                                    *)
(* ================================================================== *)

Lemma conv_root : forall rs a b p, under_root rs p = true -> converge_at rs a b p = true.
Proof. intros rs a b p H. unfold converge_at. rewrite H. reflexivity. Qed.

Lemma conv_untracked_a : forall rs a b p, tracked a p = false -> converge_at rs a b p = true.
Proof.
  intros rs a b p H. unfold converge_at. rewrite H. cbn [negb]. rewrite orb_true_r. reflexivity.
Qed.

Lemma conv_untracked_b : forall rs a b p, tracked b p = false -> converge_at rs a b p = true.
Proof.
  intros rs a b p H. unfold converge_at. rewrite H. cbn [negb]. rewrite orb_true_r. reflexivity.
Qed.

Lemma conv_same : forall rs a b p, same_sync_at a b p = true -> converge_at rs a b p = true.
Proof. intros rs a b p H. unfold converge_at. rewrite H. apply orb_true_r. Qed.

Lemma tracked_problem : forall t p, is_problem t = true -> tracked t p = false.
Proof.
  intros t p H. destruct p; cbn [tracked]; rewrite H; destruct (is_untracked t); reflexivity.
Qed.

Lemma tracked_untracked : forall t p, is_untracked t = true -> tracked t p = false.
Proof. intros t p H. destruct p; cbn [tracked]; rewrite H; reflexivity. Qed.

Lemma under_root_child : forall (F : name -> list path) names n r,
  In n names -> under_root (F n) r = true ->
  under_root (flat_map (fun k => map (cons k) (F k)) names) (n :: r) = true.
Proof.
  intros F names n r Hin H. unfold under_root in *. apply existsb_exists in H.
  destruct H as [q [Hq Hp]]. apply existsb_exists. exists (n :: q). split.
  - apply in_flat_map. exists n. split; [exact Hin|]. apply in_map. exact Hq.
  - cbn [is_prefix]. rewrite str_eqb_refl. exact Hp.
Qed.

Lemma conv_child : forall rsn rs n r ca' cb',
  (under_root rsn r = true -> under_root rs (n :: r) = true) ->
  converge_at rsn (lookup n ca') (lookup n cb') r = true ->
  converge_at rs (Some (EDir ca')) (Some (EDir cb')) (n :: r) = true.
Proof.
  intros rsn rs n r ca' cb' Hr H. unfold converge_at, same_sync_at in *.
  change (tracked (Some (EDir ca')) (n :: r)) with (tracked (lookup n ca') r).
  change (tracked (Some (EDir cb')) (n :: r)) with (tracked (lookup n cb') r).
  change (at_path (Some (EDir ca')) (n :: r)) with (at_path (lookup n ca') r).
  change (at_path (Some (EDir cb')) (n :: r)) with (at_path (lookup n cb') r).
  destruct (under_root rsn r); [rewrite (Hr eq_refl); reflexivity|].
  cbn [orb] in H. destruct (under_root rs (n :: r)); [reflexivity|]. cbn [orb]. exact H.
Qed.

(* ================================================================== *)
(* 3. c04_converge                                                     *)
(* ================================================================== *)

Lemma shallow_leaf_eq : forall a b,
  oshallow_eqb a b = true -> is_dir a = false -> phantom_free a = true -> a = b.
Proof.
  intros [x|] [y|] H D P; try discriminate H; [|reflexivity].
  cbn [oshallow_eqb] in H. pose proof (shallow_eqb_leaf x y H) as L.
  destruct x; try discriminate D; try discriminate P; rewrite L; reflexivity.
Qed.

Lemma converge_at_model : forall d m anc a b a' b',
  two_way m = true ->
  depth3 anc a b <= d ->
  wf true anc = true -> wf false a = true -> wf false b = true ->
  phantom_free a = true -> phantom_free b = true ->
  apply a (alpha_ch (reconcile_at m [] anc a b)) = FOk a' ->
  apply b (beta_ch (reconcile_at m [] anc a b)) = FOk b' ->
  forall p, converge_at (roots (reconcile_at m [] anc a b)) a' b' p = true.
Proof.
  induction d as [d IH] using lt_wf_ind.
  intros m anc a b a' b' Hm Hd Wanc Wa Wb Pa Pb Ha Hb p.
  destruct (is_problem a) eqn:E1.
  { rewrite reconcile_unfold, E1 in Ha. cbn in Ha. injection Ha as <-.
    apply conv_untracked_a. apply tracked_problem. exact E1. }
  destruct (is_problem b) eqn:E2.
  { rewrite reconcile_unfold, E1, E2 in Hb. cbn in Hb. injection Hb as <-.
    apply conv_untracked_b. apply tracked_problem. exact E2. }
  destruct ((is_none a || is_untracked a) && (is_none b || is_untracked b)) eqn:E3.
  { rewrite reconcile_unfold, E1, E2, E3 in Ha, Hb.
    assert (Ha' : a' = a) by (destruct (is_none anc); cbn in Ha; congruence).
    assert (Hb' : b' = b) by (destruct (is_none anc); cbn in Hb; congruence).
    subst a' b'.
    destruct (is_untracked a) eqn:Ua; [apply conv_untracked_a, tracked_untracked; exact Ua|].
    destruct (is_untracked b) eqn:Ub; [apply conv_untracked_b, tracked_untracked; exact Ub|].
    rewrite !orb_false_r in E3. apply andb_true_iff in E3. destruct E3 as [Na Nb].
    destruct a; [discriminate Na|]. destruct b; [discriminate Nb|].
    apply conv_same. apply same_sync_refl. }
  destruct (oshallow_eqb a b) eqn:E4.
  - destruct (is_dir a) eqn:Da.
    + destruct a as [[ca| | | | |?]|]; try discriminate Da.
      destruct (shallow_dir_inv ca b E4) as [cb ->].
      destruct (step_side_a m anc ca cb Wa a' Ha) as [ca' [-> [Sa' Hca']]].
      destruct (step_side_b m anc ca cb Wb b' Hb) as [cb' [-> [Sb' Hcb']]].
      destruct p as [|n r].
      * apply conv_same. unfold same_sync_at. cbn [at_path synchronizable].
        rewrite !sync_entry_dir. reflexivity.
      * rewrite (step_roots m anc ca cb).
        eapply conv_child;
          [|apply (IH (d - 1)) with (m := m) (anc := lookup n (anc_contents anc (Some (EDir ca))))
                                    (a := lookup n ca) (b := lookup n cb)].
        -- intro H.
           destruct (in_dec string_dec n (name_union [anc_contents anc (Some (EDir ca)); ca; cb]))
             as [Hin|Hout].
           ++ apply (under_root_child
                       (fun k => roots (reconcile_at m [] (lookup k (anc_contents anc (Some (EDir ca))))
                                                     (lookup k ca) (lookup k cb)))
                       _ n r Hin H).
           ++ rewrite (G_outside m anc ca cb n Hout) in H. discriminate H.
        -- assert (Hd1 : 1 <= d).
           { unfold depth3 in Hd. cbn [depth] in Hd. pose proof (depth_entry_pos (EDir ca)). lia. }
           lia.
        -- exact Hm.
        -- pose proof (depth_lookup_anc_contents anc (Some (EDir ca)) n).
           pose proof (depth_lookup_le (Some (EDir ca)) n).
           pose proof (depth_lookup_le (Some (EDir cb)) n).
           assert (Hd1 : 1 <= d).
           { unfold depth3 in Hd. cbn [depth] in Hd. pose proof (depth_entry_pos (EDir ca)). lia. }
           cbn [contents] in *. unfold depth3 in *. lia.
        -- apply (ac_wf anc ca Wanc n).
        -- apply (wf_lookup false (Some (EDir ca)) n Wa).
        -- apply (wf_lookup false (Some (EDir cb)) n Wb).
        -- apply (phantom_free_lookup (Some (EDir ca)) n Pa).
        -- apply (phantom_free_lookup (Some (EDir cb)) n Pb).
        -- apply Hca'.
        -- apply Hcb'.
    + pose proof (shallow_not_dir a b E4 Da) as Db.
      rewrite reconcile_root_rec in Ha, Hb by assumption.
      rewrite (leaf_contents a Da Pa), (leaf_contents b Db Pb) in Ha, Hb.
      assert (Hc : name_union [anc_contents anc a; []; []] = []).
      { unfold anc_contents. destruct (oshallow_eqb anc a) eqn:Eaa; cbn [negb]; [|reflexivity].
        assert (Hcn : contents anc = []).
        { destruct anc as [[?| | | | |?]|]; try reflexivity.
          - destruct a as [[?| | | | |?]|]; discriminate.
          - discriminate Wanc. }
        rewrite Hcn. reflexivity. }
      rewrite Hc in Ha, Hb. cbn [map plan_concat fold_right] in Ha, Hb.
      rewrite plan_app_empty_r in Ha, Hb.
      assert (Ha' : a' = a) by (destruct (negb (oshallow_eqb anc a)); cbn in Ha; congruence).
      assert (Hb' : b' = b) by (destruct (negb (oshallow_eqb anc a)); cbn in Hb; congruence).
      subst a' b'. rewrite <- (shallow_leaf_eq a b E4 Da Pa).
      apply conv_same. apply same_sync_refl.
  - rewrite (reconcile_dispatch m [] anc a b E1 E2 E3 E4) in *.
    destruct (dispatch_outcome m anc a b E4) as [c Hc0 Hr|o Ho|o Ho _|Hm' _ _ _].
    + rewrite Hc0. apply conv_root. unfold roots. cbn [p_conflict conflicts map under_root existsb].
      rewrite Hr. reflexivity.
    + rewrite Ho in *. cbn in Ha, Hb. injection Ha as <-. injection Hb as <-.
      apply conv_same. apply same_sync_self_left; assumption.
    + rewrite Ho in *. cbn in Ha, Hb. injection Ha as <-. injection Hb as <-.
      apply conv_same. apply same_sync_self_right; assumption.
    + subst m. discriminate Hm.
Qed.

Theorem converge_model : forall m anc a b a' b',
  two_way m = true ->
  wf true anc = true -> wf false a = true -> wf false b = true ->
  phantom_free a = true -> phantom_free b = true ->
  apply a (alpha_ch (reconcile m anc a b)) = FOk a' ->
  apply b (beta_ch (reconcile m anc a b)) = FOk b' ->
  forall p, converge_at (roots (reconcile m anc a b)) a' b' p = true.
Proof.
  intros m anc a b a' b' Hm. rewrite !reconcile_at_root.
  apply (converge_at_model (depth3 anc a b)); [exact Hm|apply le_n].
Qed.

(* ================================================================== *)
(* 4. Apply never fails on the plan of a cycle                         *)
(* ================================================================== *)

Definition applies (m : mode) (anc a b : oentry) (pl : plan) : Prop :=
  (exists a', apply a (alpha_ch pl) = FOk a')
  /\ (exists b', apply b (beta_ch pl) = FOk b')
  /\ (exists anc', apply anc (anc_updates pl) = FOk anc').

Lemma applies_root_only : forall m anc a b pl,
  (forall ch, In ch (anc_changes pl ++ alpha_ch pl ++ beta_ch pl) -> cpath ch = []) ->
  applies m anc a b pl.
Proof.
  intros m anc a b pl H.
  assert (K : forall base L, (forall ch, In ch L -> cpath ch = []) -> exists r, apply base L = FOk r).
  { intros base L. revert base. induction L as [|ch L IH]; intros base HL.
    - exists base. reflexivity.
    - cbn [apply]. unfold apply_one. rewrite (HL ch (or_introl eq_refl)).
      apply IH. intros x Hx. apply HL. right. exact Hx. }
  repeat split; apply K; intros ch Hin.
  - apply H. apply in_or_app. right. apply in_or_app. left. exact Hin.
  - apply H. apply in_or_app. right. apply in_or_app. right. exact Hin.
  - unfold anc_updates, ideal in Hin.
    apply in_app_or in Hin. destruct Hin as [Hin|Hin]; [apply H; apply in_or_app; left; exact Hin|].
    apply in_app_or in Hin. destruct Hin as [Hin|Hin]; apply in_map_iff in Hin;
      destruct Hin as [x [<- Hx]]; cbn [ideal1 mk cpath]; apply H; apply in_or_app; right;
      apply in_or_app; [left|right]; exact Hx.
Qed.

Lemma apply_total_at : forall d m anc a b,
  depth3 anc a b <= d ->
  wf true anc = true -> wf false a = true -> wf false b = true ->
  phantom_free a = true -> phantom_free b = true ->
  applies m anc a b (reconcile_at m [] anc a b).
Proof.
  induction d as [d IH] using lt_wf_ind.
  intros m anc a b Hd Wanc Wa Wb Pa Pb.
  destruct (is_problem a) eqn:E1.
  { rewrite reconcile_unfold, E1. apply applies_root_only. intros ch []. }
  destruct (is_problem b) eqn:E2.
  { rewrite reconcile_unfold, E1, E2. apply applies_root_only. intros ch []. }
  destruct ((is_none a || is_untracked a) && (is_none b || is_untracked b)) eqn:E3.
  { rewrite reconcile_unfold, E1, E2, E3. apply applies_root_only.
    destruct (is_none anc); cbn; intros ch H; [destruct H|].
    destruct H as [<-|[]]. reflexivity. }
  destruct (oshallow_eqb a b) eqn:E4.
  - destruct (is_dir a) eqn:Da.
    + destruct a as [[ca| | | | |?]|]; try discriminate Da.
      destruct (shallow_dir_inv ca b E4) as [cb ->].
      assert (Hchild : forall n,
                applies m (lookup n (anc_contents anc (Some (EDir ca)))) (lookup n ca) (lookup n cb)
                  (reconcile_at m [] (lookup n (anc_contents anc (Some (EDir ca))))
                                (lookup n ca) (lookup n cb))).
      { intro n.
        assert (Hd1 : 1 <= d).
        { unfold depth3 in Hd. cbn [depth] in Hd. pose proof (depth_entry_pos (EDir ca)). lia. }
        apply (IH (d - 1)); try lia.
        - pose proof (depth_lookup_anc_contents anc (Some (EDir ca)) n).
          pose proof (depth_lookup_le (Some (EDir ca)) n).
          pose proof (depth_lookup_le (Some (EDir cb)) n).
          cbn [contents] in *. unfold depth3 in *. lia.
        - apply (ac_wf anc ca Wanc n).
        - apply (wf_lookup false (Some (EDir ca)) n Wa).
        - apply (wf_lookup false (Some (EDir cb)) n Wb).
        - apply (phantom_free_lookup (Some (EDir ca)) n Pa).
        - apply (phantom_free_lookup (Some (EDir cb)) n Pb). }
      split; [|split].
      * apply (step_total_a m anc ca cb Wa). intro n. apply (Hchild n).
      * apply (step_total_b m anc ca cb Wb). intro n. apply (Hchild n).
      * apply (step_total_anc m anc ca cb Wanc). intro n. apply (Hchild n).
    + pose proof (shallow_not_dir a b E4 Da) as Db.
      rewrite reconcile_root_rec by assumption.
      rewrite (leaf_contents a Da Pa), (leaf_contents b Db Pb).
      assert (Hc : name_union [anc_contents anc a; []; []] = []).
      { unfold anc_contents. destruct (oshallow_eqb anc a) eqn:Eaa; cbn [negb]; [|reflexivity].
        assert (Hcn : contents anc = []).
        { destruct anc as [[?| | | | |?]|]; try reflexivity.
          - destruct a as [[?| | | | |?]|]; discriminate.
          - discriminate Wanc. }
        rewrite Hcn. reflexivity. }
      rewrite Hc. cbn [map plan_concat fold_right]. rewrite plan_app_empty_r.
      apply applies_root_only.
      destruct (negb (oshallow_eqb anc a)); cbn; intros ch H; [|destruct H].
      destruct H as [<-|[]]. reflexivity.
  - rewrite (reconcile_dispatch m [] anc a b E1 E2 E3 E4).
    apply applies_root_only.
    destruct (dispatch_outcome m anc a b E4) as [c Hc0 Hr|o Ho|o Ho _|_ Hu _ _].
    + rewrite Hc0. cbn. intros ch [].
    + rewrite Ho. cbn. intros ch [<-|[]]. reflexivity.
    + rewrite Ho. cbn. intros ch [<-|[]]. reflexivity.
    + rewrite Hu. destruct (is_none anc); cbn; intros ch H; [destruct H|].
      destruct H as [<-|[]]. reflexivity.
Qed.

Theorem apply_total_model : forall m anc a b,
  wf true anc = true -> wf false a = true -> wf false b = true ->
  phantom_free a = true -> phantom_free b = true ->
  applies m anc a b (reconcile m anc a b).
Proof.
  intros m anc a b. rewrite reconcile_at_root.
  apply (apply_total_at (depth3 anc a b)). apply le_n.
Qed.

(* ================================================================== *)
(* 5. the checker                                                      *)
(* ================================================================== *)

Definition paths_list : list (name * entry) -> list path :=
  fix go (l : list (name * entry)) : list path :=
    match l with
    | [] => []
    | (n, x) :: t => map (cons n) (paths_entry x) ++ go t
    end.

Lemma paths_entry_dir : forall c, paths_entry (EDir c) = [] :: paths_list c.
Proof. reflexivity. Qed.
Lemma paths_entry_phantom : forall c, paths_entry (EPhantom c) = [] :: paths_list c.
Proof. reflexivity. Qed.

Lemma paths_list_in : forall c n x r,
  In (n, x) c -> In r (paths_entry x) -> In (n :: r) (paths_list c).
Proof.
  induction c as [|[k y] t IH]; intros n x r Hin Hr; [destruct Hin|].
  cbn [paths_list]. apply in_or_app. destruct Hin as [E|Hin].
  - injection E as -> ->. left. apply in_map. exact Hr.
  - right. apply (IH n x r Hin Hr).
Qed.

Lemma paths_nil_in : forall t, In [] (paths t).
Proof.
  intros [e|]; [|left; reflexivity]. cbn [paths]. destruct e; left; reflexivity.
Qed.

Lemma at_path_in_paths : forall p t, at_path t p <> None -> In p (paths t).
Proof.
  induction p as [|n r IH]; intros t H; [apply paths_nil_in|].
  cbn [at_path] in H.
  destruct (lookup n (contents t)) as [x|] eqn:E; [|rewrite at_path_none in H; congruence].
  specialize (IH (Some x) H). cbn [paths] in IH.
  destruct t as [[c| | | | |c]|]; cbn [contents lookup] in E; try discriminate E; cbn [paths].
  - rewrite paths_entry_dir. right. apply (paths_list_in c n x r (lookup_some_in _ _ _ E) IH).
  - rewrite paths_entry_phantom. right. apply (paths_list_in c n x r (lookup_some_in _ _ _ E) IH).
Qed.

Lemma converge_check_sound : forall rs a b,
  converge_check rs a b = true -> forall p, converge_at rs a b p = true.
Proof.
  intros rs a b H p. unfold converge_check in H. rewrite forallb_forall in H.
  destruct (in_dec (list_eq_dec string_dec) p (paths a ++ paths b)) as [Hin|Hout];
    [apply H; exact Hin|].
  apply conv_same. unfold same_sync_at.
  destruct (at_path a p) eqn:Ea.
  { exfalso. apply Hout. apply in_or_app. left. apply at_path_in_paths. congruence. }
  destruct (at_path b p) eqn:Eb.
  { exfalso. apply Hout. apply in_or_app. right. apply at_path_in_paths. congruence. }
  reflexivity.
Qed.

Lemma converge_check_complete : forall rs a b,
  (forall p, converge_at rs a b p = true) -> converge_check rs a b = true.
Proof. intros rs a b H. unfold converge_check. apply forallb_forall. intros p _. apply H. Qed.

Lemma paths_eqb_eq : forall x y, paths_eqb x y = true <-> x = y.
Proof.
  induction x as [|a x IH]; intros [|b y]; cbn [paths_eqb]; try (split; congruence).
  rewrite andb_true_iff, path_eqb_eq, IH. split; [intros [-> ->]; reflexivity|].
  intro H. injection H as -> ->. split; reflexivity.
Qed.

(* the property of C04 as a proposition on a case and the outputs observed *)
Definition c04_holds (i : c04_in) (o : c04_out) : Prop :=
  forall anc' a' b', o_anc o = FOk anc' -> o_a o = FOk a' -> o_b o = FOk b' ->
    anc_changes (o_plan2 o) = [] /\ alpha_ch (o_plan2 o) = [] /\ beta_ch (o_plan2 o) = []
    /\ sort_paths (roots (o_plan2 o)) = sort_paths (roots (o_plan1 o))
    /\ (two_way (i_mode i) = true ->
        forall p, converge_at (roots (o_plan1 o)) a' b' p = true).

Theorem check_c04_sound : forall i o, check_c04 i o = true -> c04_holds i o.
Proof.
  intros i o H anc' a' b' Ec Ea Eb. unfold check_c04 in H. rewrite Ec, Ea, Eb in H.
  apply andb_true_iff in H. destruct H as [H Hconv].
  apply andb_true_iff in H. destruct H as [Hnc Hroots].
  unfold no_changes in Hnc. apply andb_true_iff in Hnc. destruct Hnc as [Hnc H3].
  apply andb_true_iff in Hnc. destruct Hnc as [H1 H2].
  split; [destruct (anc_changes (o_plan2 o)); [reflexivity|discriminate H1]|].
  split; [destruct (alpha_ch (o_plan2 o)); [reflexivity|discriminate H2]|].
  split; [destruct (beta_ch (o_plan2 o)); [reflexivity|discriminate H3]|].
  split; [apply paths_eqb_eq; exact Hroots|].
  intros Hm p. rewrite Hm in Hconv. apply (converge_check_sound _ _ _ Hconv).
Qed.

Theorem check_c04_model : forall i, wf_c04 i = true -> check_c04 i (model_c04 i) = true.
Proof.
  intros [m anc a b] W. unfold wf_c04 in W. cbn [i_mode i_anc i_a i_b] in W.
  repeat (apply andb_true_iff in W; destruct W as [W ?]).
  destruct (apply_total_model m anc a b) as [[a' Ha] [[b' Hb] [anc' Hc]]]; try assumption.
  unfold check_c04, model_c04. cbn [i_mode i_anc i_a i_b o_anc o_a o_b o_plan1 o_plan2].
  rewrite Ha, Hb, Hc.
  destruct (fixpoint_model m anc a b anc' a' b') as [F1 [F2 [F3 F4]]]; try assumption.
  unfold no_changes. rewrite F1, F2, F3, F4. cbn [is_nil andb].
  replace (paths_eqb (sort_paths (roots (reconcile m anc a b)))
                     (sort_paths (roots (reconcile m anc a b)))) with true
    by (symmetry; apply paths_eqb_eq; reflexivity).
  cbn [andb]. destruct (two_way m) eqn:Hm; [|reflexivity].
  apply converge_check_complete. apply converge_model; assumption.
Qed.

(* ================================================================== *)
(* 6. a non-trivial instance (one-way-safe): a propagation (p), a       *)
(*    both-modified-same (s), the untrack rule with an ancestor change  *)
(*    (u) and a conflict (c) in one cycle                               *)
(* ================================================================== *)
Open Scope string_scope.
Definition ex_anc : oentry :=
  Some (EDir [("c", EFile false "d1"); ("p", EFile false "d1"); ("u", EFile false "d1")]).
Definition ex_a : oentry :=
  Some (EDir [("c", EFile false "d2"); ("p", EFile true "d2"); ("s", EFile false "d3")]).
Definition ex_b : oentry :=
  Some (EDir [("c", EFile false "d3"); ("p", EFile false "d1"); ("s", EFile false "d3");
              ("u", EFile false "d4"); ("x", EUntracked)]).
Definition ex_in : c04_in := {| i_mode := OneWaySafe; i_anc := ex_anc; i_a := ex_a; i_b := ex_b |}.
Close Scope string_scope.

Lemma c04_example_ok :
  wf_c04 ex_in = true
  /\ (let pl := reconcile OneWaySafe ex_anc ex_a ex_b in
      List.length (beta_ch pl) = 1 /\ List.length (anc_changes pl) = 2
      /\ List.length (conflicts pl) = 1 /\ alpha_ch pl = [])
  /\ (exists anc' a' b',
        o_anc (model_c04 ex_in) = FOk anc' /\ o_a (model_c04 ex_in) = FOk a'
        /\ o_b (model_c04 ex_in) = FOk b' /\ a' = ex_a /\ b' <> ex_b /\ anc' <> ex_anc).
Proof.
  split; [vm_compute; reflexivity|]. split; [vm_compute; repeat split|].
  eexists. eexists. eexists. vm_compute. repeat split; discriminate.
Qed.
