(* C04, part 2: building blocks of the fixpoint proof.
   - reconciling a tree against its own synchronizable part plans nothing;
   - what a disagreement can produce (a conflict at the path, a beta change to
     the synchronizable part of alpha, an alpha change to the synchronizable
     part of beta, or the one-way-safe untrack rule);
   - list facts about sorted name lists. *)
From Coq Require Import List Bool Arith String Lia.
Import ListNotations.
From Mv Require Import Model.Entry Model.Reconcile Model.C04Cycle
  Proof.EntryFacts Proof.C07 Proof.C04Apply.
Close Scope string_scope.
Open Scope list_scope.

(* ================================================================== *)
(* 1. phantom-free trees                                               *)
(* ================================================================== *)

Definition pf_list (l : list (name * entry)) : bool :=
  forallb (fun ne => phantom_free_entry (snd ne)) l.

Lemma phantom_free_dir : forall c, phantom_free_entry (EDir c) = pf_list c.
Proof.
  intro c. cbn [phantom_free_entry]. induction c as [|[n x] t IH]; [reflexivity|].
  cbn [pf_list forallb snd]. fold (pf_list t). rewrite <- IH. reflexivity.
Qed.

Lemma phantom_free_lookup : forall e n,
  phantom_free e = true -> phantom_free (lookup n (contents e)) = true.
Proof.
  intros [[c| | | | |c]|] n H; cbn [contents lookup phantom_free]; try reflexivity.
  - cbn [phantom_free] in H. rewrite phantom_free_dir in H.
    destruct (lookup n c) as [x|] eqn:E; [|reflexivity]. cbn [phantom_free].
    unfold pf_list in H. rewrite forallb_forall in H.
    apply (H (n, x)). apply lookup_some_in. exact E.
  - discriminate H.
Qed.

(* ================================================================== *)
(* 2. plans                                                            *)
(* ================================================================== *)

Lemma plan_concat_map_empty : forall (A : Type) (g : A -> plan) (l : list A),
  (forall x, In x l -> g x = empty_plan) -> plan_concat (map g l) = empty_plan.
Proof.
  intros A g l H. induction l as [|x l IH]; [reflexivity|].
  cbn [map plan_concat fold_right]. fold (plan_concat (map g l)).
  rewrite (H x (or_introl eq_refl)), IH; [reflexivity|].
  intros y Hy. apply H. right. exact Hy.
Qed.

Lemma reconcile_none : forall m p, reconcile_at m p None None None = empty_plan.
Proof. intros. rewrite reconcile_unfold. reflexivity. Qed.

(* children outside the name union are (None, None, None) *)
Lemma lookup_outside_union : forall (x y z : list (name * entry)) n,
  ~ In n (name_union [x; y; z]) -> lookup n x = None /\ lookup n y = None /\ lookup n z = None.
Proof.
  intros x y z n H. rewrite name_union_in3 in H.
  repeat split; apply lookup_none_notin; tauto.
Qed.

(* ================================================================== *)
(* 3. a tree against its own synchronizable part                       *)
(* ================================================================== *)

Lemma reconcile_sync_left_entry : forall m e p,
  wf_entry false e = true -> phantom_free_entry e = true ->
  reconcile_at m p (sync_entry e) (Some e) (sync_entry e) = empty_plan.
Proof.
  intros m e. induction e as [c IH|x d|t| |msg|c IH] using entry_nested_ind; intros p W PF.
  - rewrite sync_entry_dir.
    rewrite reconcile_unfold_rec by reflexivity.
    unfold anc_contents. cbn [oshallow_eqb shallow_eqb negb contents].
    rewrite plan_app_empty_l. apply plan_concat_map_empty. intros n _.
    assert (Hs : sorted_names (map fst c) = true)
      by (apply (wf_contents_sorted false (Some (EDir c)) W)).
    rewrite lookup_sync_list by exact Hs.
    destruct (lookup n c) as [x|] eqn:E; cbn [synchronizable]; [|apply reconcile_none].
    rewrite Forall_forall in IH. apply (IH (n, x) (lookup_some_in _ _ _ E)).
    + apply (wf_dir_child false c n x W E).
    + pose proof (phantom_free_lookup (Some (EDir c)) n PF) as H.
      cbn [contents] in H. rewrite E in H. exact H.
  - cbn [sync_entry]. rewrite reconcile_unfold_rec by
      (try reflexivity; cbn [oshallow_eqb]; apply shallow_eqb_refl).
    unfold anc_contents. cbn [oshallow_eqb]. rewrite shallow_eqb_refl. reflexivity.
  - cbn [sync_entry]. rewrite reconcile_unfold_rec by
      (try reflexivity; cbn [oshallow_eqb]; apply shallow_eqb_refl).
    unfold anc_contents. cbn [oshallow_eqb]. rewrite shallow_eqb_refl. reflexivity.
  - cbn [sync_entry]. rewrite reconcile_unfold. reflexivity.
  - cbn [sync_entry]. rewrite reconcile_unfold. reflexivity.
  - discriminate PF.
Qed.

Lemma reconcile_sync_left : forall m a p,
  wf false a = true -> phantom_free a = true ->
  reconcile_at m p (synchronizable a) a (synchronizable a) = empty_plan.
Proof.
  intros m [e|] p W PF; [apply reconcile_sync_left_entry; assumption|apply reconcile_none].
Qed.

Lemma reconcile_sync_right_entry : forall m e p,
  wf_entry false e = true -> phantom_free_entry e = true ->
  reconcile_at m p (sync_entry e) (sync_entry e) (Some e) = empty_plan.
Proof.
  intros m e. induction e as [c IH|x d|t| |msg|c IH] using entry_nested_ind; intros p W PF.
  - rewrite sync_entry_dir.
    rewrite reconcile_unfold_rec by reflexivity.
    unfold anc_contents. cbn [oshallow_eqb shallow_eqb negb contents].
    rewrite plan_app_empty_l. apply plan_concat_map_empty. intros n _.
    assert (Hs : sorted_names (map fst c) = true)
      by (apply (wf_contents_sorted false (Some (EDir c)) W)).
    rewrite lookup_sync_list by exact Hs.
    destruct (lookup n c) as [x|] eqn:E; cbn [synchronizable]; [|apply reconcile_none].
    rewrite Forall_forall in IH. apply (IH (n, x) (lookup_some_in _ _ _ E)).
    + apply (wf_dir_child false c n x W E).
    + pose proof (phantom_free_lookup (Some (EDir c)) n PF) as H.
      cbn [contents] in H. rewrite E in H. exact H.
  - cbn [sync_entry]. rewrite reconcile_unfold_rec by
      (try reflexivity; cbn [oshallow_eqb]; apply shallow_eqb_refl).
    unfold anc_contents. cbn [oshallow_eqb]. rewrite shallow_eqb_refl. reflexivity.
  - cbn [sync_entry]. rewrite reconcile_unfold_rec by
      (try reflexivity; cbn [oshallow_eqb]; apply shallow_eqb_refl).
    unfold anc_contents. cbn [oshallow_eqb]. rewrite shallow_eqb_refl. reflexivity.
  - cbn [sync_entry]. rewrite reconcile_unfold. reflexivity.
  - cbn [sync_entry]. rewrite reconcile_unfold. reflexivity.
  - discriminate PF.
Qed.

Lemma reconcile_sync_right : forall m b p,
  wf false b = true -> phantom_free b = true ->
  reconcile_at m p (synchronizable b) (synchronizable b) b = empty_plan.
Proof.
  intros m [e|] p W PF; [apply reconcile_sync_right_entry; assumption|apply reconcile_none].
Qed.

(* ================================================================== *)
(* 4. what a disagreement produces                                     *)
(* ================================================================== *)

Definition dispatch (m : mode) (p : path) (anc a b : oentry) : plan :=
  match m with
  | TwoWaySafe | TwoWayResolved => handle_bidirectional m p anc a b
  | OneWaySafe => handle_one_way_safe p anc a b
  | OneWayReplica => handle_one_way_replica p anc a b
  end.

Lemma deletion_only_shallow : forall p anc x,
  is_nil (non_deletion (diff p anc (Some x))) = true -> oshallow_eqb (Some x) anc = true.
Proof.
  intros p anc x H. rewrite diff_unfold in H.
  destruct (oshallow_eqb (Some x) anc); [reflexivity|]. discriminate H.
Qed.

Lemma synchronizable_some : forall a x,
  synchronizable a = Some x -> exists e, a = Some e /\ shallow_eqb x e = true.
Proof.
  intros [e|] x H; [|discriminate H]. exists e. split; [reflexivity|].
  apply (sync_entry_shallow e x H).
Qed.

(* both sides deleted only, alpha's synchronizable part is still there:
   then beta's is gone (they would otherwise be shallow-equal directories) *)
Lemma both_deletion_only : forall p anc a b x,
  oshallow_eqb a b = false ->
  synchronizable a = Some x ->
  is_nil (non_deletion (diff p anc (synchronizable a))) = true ->
  is_nil (non_deletion (diff p anc (synchronizable b))) = true ->
  synchronizable b = None.
Proof.
  intros p anc a b x Hab Sa Ha Hb.
  destruct (synchronizable b) as [y|] eqn:Sb; [|reflexivity]. exfalso.
  rewrite Sa in Ha. apply deletion_only_shallow in Ha. apply deletion_only_shallow in Hb.
  destruct (synchronizable_some a x Sa) as [ea [-> Hxa]].
  destruct (synchronizable_some b y Sb) as [eb [-> Hyb]].
  destruct anc as [c|]; [|discriminate Ha]. cbn [oshallow_eqb] in *.
  assert (H : shallow_eqb ea eb = true).
  { apply shallow_eqb_trans with x; [rewrite shallow_eqb_sym; exact Hxa|].
    apply shallow_eqb_trans with c; [exact Ha|].
    apply shallow_eqb_trans with y; [rewrite shallow_eqb_sym; exact Hb|exact Hyb]. }
  congruence.
Qed.

Inductive outcome (m : mode) (anc a b : oentry) (pl : plan) : Prop :=
| OutConflict : forall c, pl = p_conflict c -> root c = [] -> outcome m anc a b pl
| OutBeta : forall o, pl = p_beta (mk [] o (synchronizable a)) -> outcome m anc a b pl
| OutAlpha : forall o, pl = p_alpha (mk [] o (synchronizable b)) -> two_way m = true ->
             outcome m anc a b pl
| OutUntrack : m = OneWaySafe ->
               pl = (if is_none anc then empty_plan else p_anc (mk [] None None)) ->
               is_nil (non_deletion (diff [] anc (synchronizable b))) = false ->
               (is_none a || is_untracked a) = true ->
               outcome m anc a b pl.

Lemma bidirectional_outcome : forall m anc a b,
  two_way m = true -> oshallow_eqb a b = false ->
  outcome m anc a b (handle_bidirectional m [] anc a b).
Proof.
  intros m anc a b Hm Hab. unfold handle_bidirectional. cbv zeta.
  destruct (is_nil (diff [] anc (synchronizable b))).
  { destruct (negb (is_nil (diff [] (synchronizable b) b)));
      [eapply OutConflict; reflexivity|eapply OutBeta; reflexivity]. }
  destruct (is_nil (diff [] anc (synchronizable a))).
  { destruct (negb (is_nil (diff [] (synchronizable a) a)));
      [eapply OutConflict; reflexivity|eapply OutAlpha; [reflexivity|exact Hm]]. }
  destruct (is_nil (non_deletion (diff [] anc (synchronizable a)))) eqn:Ea;
  destruct (is_nil (non_deletion (diff [] anc (synchronizable b)))) eqn:Eb; cbn [andb].
  - destruct (synchronizable a) as [x|] eqn:Sa.
    + destruct (negb (is_nil (diff [] (Some x) a))); [eapply OutConflict; reflexivity|].
      rewrite <- Sa in Ea.
      rewrite <- (both_deletion_only [] anc a b x Hab Sa Ea Eb).
      eapply OutAlpha; [reflexivity|exact Hm].
    + destruct (negb (is_nil (diff [] (synchronizable b) b)));
        [eapply OutConflict; reflexivity|eapply OutBeta; rewrite Sa; reflexivity].
  - destruct (negb (is_nil (diff [] (synchronizable a) a)));
      [eapply OutConflict; reflexivity|eapply OutAlpha; [reflexivity|exact Hm]].
  - destruct (negb (is_nil (diff [] (synchronizable b) b)));
      [eapply OutConflict; reflexivity|eapply OutBeta; reflexivity].
  - destruct m; try discriminate Hm.
    + eapply OutConflict; reflexivity.
    + destruct (negb (is_nil (diff [] (synchronizable b) b)));
        [eapply OutConflict; reflexivity|eapply OutBeta; reflexivity].
Qed.

Lemma dispatch_outcome : forall m anc a b,
  oshallow_eqb a b = false -> outcome m anc a b (dispatch m [] anc a b).
Proof.
  intros m anc a b Hab. destruct m; cbn [dispatch].
  - apply bidirectional_outcome; [reflexivity|exact Hab].
  - apply bidirectional_outcome; [reflexivity|exact Hab].
  - unfold handle_one_way_safe. cbv zeta.
    destruct (is_nil (non_deletion (diff [] anc (synchronizable b)))) eqn:Eb.
    { destruct (negb (is_nil (diff [] (synchronizable b) b)));
        [eapply OutConflict; reflexivity|eapply OutBeta; reflexivity]. }
    destruct (is_none a || is_untracked a) eqn:Ea; cbn [andb].
    + destruct (is_none anc || negb (is_dir anc) || is_none b || negb (is_dir b)).
      * apply OutUntrack; [reflexivity|reflexivity|exact Eb|exact Ea].
      * eapply OutConflict; reflexivity.
    + eapply OutConflict; reflexivity.
  - unfold handle_one_way_replica. cbv zeta.
    destruct (negb (is_nil (diff [] (synchronizable b) b)));
      [eapply OutConflict; reflexivity|eapply OutBeta; reflexivity].
Qed.

(* the one-way-safe untrack rule fires again once the ancestor is gone *)
Lemma untrack_again : forall anc a b,
  is_nil (non_deletion (diff [] anc (synchronizable b))) = false ->
  (is_none a || is_untracked a) = true ->
  handle_one_way_safe [] None a b = empty_plan.
Proof.
  intros anc a b Hb Ha. unfold handle_one_way_safe. cbv zeta.
  destruct (synchronizable b) as [y|] eqn:Sb.
  - rewrite diff_shallow_neq by reflexivity. cbn [non_deletion filter cnew is_nil].
    rewrite Ha. reflexivity.
  - exfalso. rewrite diff_unfold in Hb.
    destruct (negb (oshallow_eqb None anc)) eqn:E; [discriminate Hb|].
    destruct anc; [discriminate E|]. discriminate Hb.
Qed.

(* ================================================================== *)
(* 5. sorted name lists                                                *)
(* ================================================================== *)

Lemma filter_sorted : forall (P : name -> bool) l,
  sorted_names l = true -> sorted_names (filter P l) = true.
Proof.
  intros P l. induction l as [|a l IH]; intro H; [reflexivity|].
  apply sorted_names_cons in H. destruct H as [Hgt Hs].
  cbn [filter]. destruct (P a); [|apply IH; exact Hs].
  apply sorted_names_cons. split; [|apply IH; exact Hs].
  intros m Hm. apply filter_In in Hm. apply Hgt. tauto.
Qed.

Lemma flat_map_filter_nonnil : forall (B : Type) (f : name -> list B) l,
  flat_map f l = flat_map f (filter (fun n => match f n with [] => false | _ => true end) l).
Proof.
  intros B f l. induction l as [|a l IH]; [reflexivity|].
  cbn [flat_map filter]. destruct (f a) eqn:E.
  - exact IH.
  - cbn [flat_map]. rewrite E, <- IH. reflexivity.
Qed.

Lemma flat_map_support : forall (B : Type) (f : name -> list B) l1 l2,
  sorted_names l1 = true -> sorted_names l2 = true ->
  (forall n, In n l1 -> ~ In n l2 -> f n = []) ->
  (forall n, In n l2 -> ~ In n l1 -> f n = []) ->
  flat_map f l1 = flat_map f l2.
Proof.
  intros B f l1 l2 H1 H2 H12 H21.
  rewrite (flat_map_filter_nonnil B f l1), (flat_map_filter_nonnil B f l2). f_equal.
  apply sorted_names_ext; [apply filter_sorted; exact H1|apply filter_sorted; exact H2|].
  intro n. rewrite !filter_In. split; intros [Hin Hf]; (split; [|exact Hf]).
  - destruct (in_dec string_dec n l2) as [H|H]; [exact H|].
    rewrite (H12 n Hin H) in Hf. discriminate Hf.
  - destruct (in_dec string_dec n l1) as [H|H]; [exact H|].
    rewrite (H21 n Hin H) in Hf. discriminate Hf.
Qed.

Lemma sub_flat_map_pre_total : forall (F : name -> list change) (l : list name) n,
  NoDup l -> (~ In n l -> F n = []) ->
  sub n (flat_map (fun k => map (pre [k]) (F k)) l) = F n.
Proof.
  intros F l n Hnd H. destruct (in_dec string_dec n l) as [Hin|Hin].
  - apply sub_flat_map_pre_in; assumption.
  - rewrite (H Hin). apply sub_flat_map_pre_notin. exact Hin.
Qed.
