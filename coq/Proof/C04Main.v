(* C04, part 3: the fixpoint theorem and the convergence theorem on the model. *)
From Coq Require Import List Bool Arith String Lia.
Import ListNotations.
From Mv Require Import Model.Entry Model.Reconcile Model.C04Cycle
  Proof.EntryFacts Proof.C07 Proof.C04Apply Proof.C04Fix.
Close Scope string_scope.
Open Scope list_scope.

(* the second plan changes nothing and has the first plan's conflict roots *)
Definition fix_ok (pl pl2 : plan) : Prop :=
  anc_changes pl2 = [] /\ alpha_ch pl2 = [] /\ beta_ch pl2 = [] /\ roots pl2 = roots pl.

Lemma reconcile_dispatch : forall m p anc a b,
  is_problem a = false -> is_problem b = false ->
  (is_none a || is_untracked a) && (is_none b || is_untracked b) = false ->
  oshallow_eqb a b = false ->
  reconcile_at m p anc a b = dispatch m p anc a b.
Proof.
  intros m p anc a b H1 H2 H3 H4. rewrite reconcile_unfold, H1, H2, H3, H4. reflexivity.
Qed.

(* a plan without changes: the next cycle sees the same trees *)
Lemma no_change_case : forall m anc a b anc' a' b' pl,
  reconcile_at m [] anc a b = pl ->
  anc_changes pl = [] -> alpha_ch pl = [] -> beta_ch pl = [] ->
  apply a (alpha_ch pl) = FOk a' -> apply b (beta_ch pl) = FOk b' ->
  apply anc (anc_updates pl) = FOk anc' ->
  fix_ok pl (reconcile_at m [] anc' a' b').
Proof.
  intros m anc a b anc' a' b' pl Hpl H1 H2 H3 Ha Hb Hc.
  unfold anc_updates in Hc. rewrite H1, H2, H3 in Hc. rewrite H2 in Ha. rewrite H3 in Hb.
  cbn in Ha, Hb, Hc. injection Ha as <-. injection Hb as <-. injection Hc as <-.
  rewrite Hpl. repeat split; assumption.
Qed.

Lemma roots_concat_pre : forall (G : name -> plan) l,
  roots (plan_concat (map (fun n => plan_pre [n] (G n)) l))
  = flat_map (fun n => map (cons n) (roots (G n))) l.
Proof.
  intros G l. unfold roots. rewrite proj_conflicts, map_flat_map.
  apply flat_map_ext_in. intros n _. rewrite !map_map. reflexivity.
Qed.

Lemma shallow_dir_inv : forall c b, oshallow_eqb (Some (EDir c)) b = true -> exists c', b = Some (EDir c').
Proof.
  intros c [[c'| | | | |c']|] H; try discriminate H. exists c'. reflexivity.
Qed.

Lemma shallow_dir_inv_l : forall a c, oshallow_eqb a (Some (EDir c)) = true -> exists c', a = Some (EDir c').
Proof.
  intros [[c'| | | | |c']|] c H; try discriminate H. exists c'. reflexivity.
Qed.

(* leaves: shallow-equal non-directories *)
Lemma leaf_contents : forall a, is_dir a = false -> phantom_free a = true -> contents a = [].
Proof. intros [[c| | | | |c]|] H P; try reflexivity; discriminate. Qed.

Lemma shallow_not_dir : forall a b, oshallow_eqb a b = true -> is_dir a = false -> is_dir b = false.
Proof.
  intros [[c| | | | |c]|] [[c'| | | | |c']|] H D; try reflexivity; discriminate.
Qed.

Lemma oslim_leaf : forall a, is_dir a = false -> phantom_free a = true -> oslim a = a.
Proof. intros [[c| | | | |c]|] H P; try reflexivity; discriminate. Qed.

(* ================================================================== *)
(* The recursive step, shared by the theorems                          *)
(* ================================================================== *)

Section Step.
  Variable m : mode.
  Variables anc : oentry.
  Variables ca cb : list (name * entry).
  Let a := Some (EDir ca).
  Let b := Some (EDir cb).
  Hypothesis Wanc : wf true anc = true.
  Hypothesis Wa : wf false a = true.
  Hypothesis Wb : wf false b = true.

  Let ac := anc_contents anc a.
  Let names := name_union [ac; ca; cb].
  Let G (n : name) := reconcile_at m [] (lookup n ac) (lookup n ca) (lookup n cb).
  Let here := if negb (oshallow_eqb anc a) then p_anc (mk [] None (oslim a)) else empty_plan.

  Lemma step_plan :
    reconcile_at m [] anc a b
    = plan_app here (plan_concat (map (fun n => plan_pre [n] (G n)) names)).
  Proof. unfold a, b. rewrite reconcile_root_rec by reflexivity. reflexivity. Qed.

  Lemma G_outside : forall n, ~ In n names -> G n = empty_plan.
  Proof.
    intros n H. unfold G. destruct (lookup_outside_union ac ca cb n H) as [-> [-> ->]].
    apply reconcile_none.
  Qed.

  Lemma ac_sorted : sorted_names (map fst ac) = true.
  Proof.
    unfold ac, anc_contents. destruct (negb (oshallow_eqb anc a)); [reflexivity|].
    apply (wf_contents_sorted true anc Wanc).
  Qed.

  Lemma ac_wf : forall n, wf true (lookup n ac) = true.
  Proof.
    intro n. unfold ac, anc_contents. destruct (negb (oshallow_eqb anc a)); [reflexivity|].
    apply wf_lookup. exact Wanc.
  Qed.

  Lemma step_alpha :
    alpha_ch (reconcile_at m [] anc a b) = flat_map (fun n => map (pre [n]) (alpha_ch (G n))) names.
  Proof.
    rewrite step_plan. cbn [plan_app alpha_ch]. rewrite proj_alpha.
    unfold here. destruct (negb (oshallow_eqb anc a)); reflexivity.
  Qed.

  Lemma step_beta :
    beta_ch (reconcile_at m [] anc a b) = flat_map (fun n => map (pre [n]) (beta_ch (G n))) names.
  Proof.
    rewrite step_plan. cbn [plan_app beta_ch]. rewrite proj_beta.
    unfold here. destruct (negb (oshallow_eqb anc a)); reflexivity.
  Qed.

  Lemma step_roots :
    roots (reconcile_at m [] anc a b) = flat_map (fun n => map (cons n) (roots (G n))) names.
  Proof.
    rewrite step_plan. unfold roots at 1. cbn [plan_app conflicts]. rewrite map_app.
    fold (roots here). fold (roots (plan_concat (map (fun n => plan_pre [n] (G n)) names))).
    rewrite roots_concat_pre. unfold here. destruct (negb (oshallow_eqb anc a)); reflexivity.
  Qed.

  Lemma step_sub_alpha : forall n, sub n (alpha_ch (reconcile_at m [] anc a b)) = alpha_ch (G n).
  Proof.
    intro n. rewrite step_alpha. apply (sub_flat_map_pre_total (fun k => alpha_ch (G k))).
    - apply name_union_NoDup.
    - intro H. rewrite (G_outside n H). reflexivity.
  Qed.

  Lemma step_sub_beta : forall n, sub n (beta_ch (reconcile_at m [] anc a b)) = beta_ch (G n).
  Proof.
    intro n. rewrite step_beta. apply (sub_flat_map_pre_total (fun k => beta_ch (G k))).
    - apply name_union_NoDup.
    - intro H. rewrite (G_outside n H). reflexivity.
  Qed.

  (* the sides after the cycle *)
  Lemma step_side_a : forall a',
    apply a (alpha_ch (reconcile_at m [] anc a b)) = FOk a' ->
    exists ca', a' = Some (EDir ca') /\ sorted_names (map fst ca') = true
                /\ forall n, apply (lookup n ca) (alpha_ch (G n)) = FOk (lookup n ca').
  Proof.
    intros a' H. unfold a in H.
    destruct (apply_split _ ca a' (wf_contents_sorted false a Wa)
                (eq_ind_r nonroot (nonroot_flat_map_pre _ _) step_alpha) H)
      as [ca' [-> [Hs Hc]]].
    exists ca'. split; [reflexivity|]. split; [exact Hs|].
    intro n. rewrite <- step_sub_alpha. apply Hc.
  Qed.

  Lemma step_side_b : forall b',
    apply b (beta_ch (reconcile_at m [] anc a b)) = FOk b' ->
    exists cb', b' = Some (EDir cb') /\ sorted_names (map fst cb') = true
                /\ forall n, apply (lookup n cb) (beta_ch (G n)) = FOk (lookup n cb').
  Proof.
    intros b' H. unfold b in H.
    destruct (apply_split _ cb b' (wf_contents_sorted false b Wb)
                (eq_ind_r nonroot (nonroot_flat_map_pre _ _) step_beta) H)
      as [cb' [-> [Hs Hc]]].
    exists cb'. split; [reflexivity|]. split; [exact Hs|].
    intro n. rewrite <- step_sub_beta. apply Hc.
  Qed.

  (* the ancestor after the cycle *)
  Let rest :=
    flat_map (fun n => map (pre [n]) (anc_changes (G n))) names
    ++ ideal (flat_map (fun n => map (pre [n]) (alpha_ch (G n))) names)
    ++ ideal (flat_map (fun n => map (pre [n]) (beta_ch (G n))) names).

  Lemma rest_nonroot : nonroot rest.
  Proof.
    unfold rest. apply nonroot_app; [apply nonroot_flat_map_pre|].
    apply nonroot_app; apply nonroot_ideal; apply nonroot_flat_map_pre.
  Qed.

  Lemma rest_sub : forall n, sub n rest = anc_updates (G n).
  Proof.
    intro n. unfold rest, anc_updates. rewrite !sub_app, !sub_ideal.
    rewrite (sub_flat_map_pre_total (fun k => anc_changes (G k))),
            (sub_flat_map_pre_total (fun k => alpha_ch (G k))),
            (sub_flat_map_pre_total (fun k => beta_ch (G k)));
      try apply name_union_NoDup; try (intro H; rewrite (G_outside n H); reflexivity).
    reflexivity.
  Qed.

  Lemma step_anc_updates :
    apply anc (anc_updates (reconcile_at m [] anc a b)) = apply (Some (EDir ac)) rest.
  Proof.
    unfold anc_updates. rewrite step_alpha, step_beta, step_plan.
    cbn [plan_app anc_changes]. rewrite proj_anc. fold rest.
    unfold here, ac, anc_contents.
    destruct (oshallow_eqb anc a) eqn:E; cbn [negb anc_changes p_anc empty_plan app].
    - destruct (shallow_dir_inv_l anc ca E) as [cc ->]. reflexivity.
    - cbn [apply apply_one cpath cnew mk]. reflexivity.
  Qed.

  Lemma step_side_anc : forall anc',
    apply anc (anc_updates (reconcile_at m [] anc a b)) = FOk anc' ->
    exists cac', anc' = Some (EDir cac') /\ sorted_names (map fst cac') = true
                 /\ forall n, apply (lookup n ac) (anc_updates (G n)) = FOk (lookup n cac').
  Proof.
    intros anc' H. rewrite step_anc_updates in H.
    destruct (apply_split _ ac anc' ac_sorted rest_nonroot H) as [cac' [-> [Hs Hc]]].
    exists cac'. split; [reflexivity|]. split; [exact Hs|].
    intro n. rewrite <- rest_sub. apply Hc.
  Qed.

  (* the converse direction: Apply succeeds on the whole plan as soon as it
     succeeds on every child's plan *)
  Lemma step_total_a :
    (forall n, exists y, apply (lookup n ca) (alpha_ch (G n)) = FOk y) ->
    exists a', apply a (alpha_ch (reconcile_at m [] anc a b)) = FOk a'.
  Proof.
    intro H. unfold a at 1.
    apply apply_join; [apply (wf_contents_sorted false a Wa)| |].
    - rewrite step_alpha. apply nonroot_flat_map_pre.
    - intro n. rewrite step_sub_alpha. apply H.
  Qed.

  Lemma step_total_b :
    (forall n, exists y, apply (lookup n cb) (beta_ch (G n)) = FOk y) ->
    exists b', apply b (beta_ch (reconcile_at m [] anc a b)) = FOk b'.
  Proof.
    intro H. unfold b at 1.
    apply apply_join; [apply (wf_contents_sorted false b Wb)| |].
    - rewrite step_beta. apply nonroot_flat_map_pre.
    - intro n. rewrite step_sub_beta. apply H.
  Qed.

  Lemma step_total_anc :
    (forall n, exists y, apply (lookup n ac) (anc_updates (G n)) = FOk y) ->
    exists anc', apply anc (anc_updates (reconcile_at m [] anc a b)) = FOk anc'.
  Proof.
    intro H. rewrite step_anc_updates.
    apply apply_join; [apply ac_sorted|apply rest_nonroot|].
    intro n. rewrite rest_sub. apply H.
  Qed.
End Step.

(* ================================================================== *)
(* c04_fixpoint                                                        *)
(* ================================================================== *)

Lemma fixpoint_at : forall d m anc a b anc' a' b',
  depth3 anc a b <= d ->
  wf true anc = true -> wf false a = true -> wf false b = true ->
  phantom_free a = true -> phantom_free b = true ->
  apply a (alpha_ch (reconcile_at m [] anc a b)) = FOk a' ->
  apply b (beta_ch (reconcile_at m [] anc a b)) = FOk b' ->
  apply anc (anc_updates (reconcile_at m [] anc a b)) = FOk anc' ->
  fix_ok (reconcile_at m [] anc a b) (reconcile_at m [] anc' a' b').
Proof.
  induction d as [d IH] using lt_wf_ind.
  intros m anc a b anc' a' b' Hd Wanc Wa Wb Pa Pb Ha Hb Hc.
  destruct (is_problem a) eqn:E1.
  { eapply no_change_case; try eassumption; try reflexivity;
      rewrite reconcile_unfold, E1; reflexivity. }
  destruct (is_problem b) eqn:E2.
  { eapply no_change_case; try eassumption; try reflexivity;
      rewrite reconcile_unfold, E1, E2; reflexivity. }
  destruct ((is_none a || is_untracked a) && (is_none b || is_untracked b)) eqn:E3.
  { assert (Hpl : reconcile_at m [] anc a b
                  = if is_none anc then empty_plan else p_anc (mk [] None None))
      by (rewrite reconcile_unfold, E1, E2, E3; reflexivity).
    destruct (is_none anc) eqn:En.
    - eapply no_change_case; try eassumption; try reflexivity; rewrite Hpl; reflexivity.
    - rewrite Hpl in *. cbn in Ha, Hb, Hc. injection Ha as <-. injection Hb as <-.
      unfold anc_updates in Hc. cbn in Hc. injection Hc as <-.
      rewrite reconcile_unfold, E1, E2, E3. cbn [is_none]. repeat split. }
  destruct (oshallow_eqb a b) eqn:E4.
  - (* the sides agree at this path *)
    destruct (is_dir a) eqn:Da.
    + (* directories: recursion *)
      destruct a as [[ca| | | | |?]|]; try discriminate Da.
      destruct (shallow_dir_inv ca b E4) as [cb ->].
      destruct (step_side_a m anc ca cb Wa a' Ha) as [ca' [-> [Sa' Hca']]].
      destruct (step_side_b m anc ca cb Wb b' Hb) as [cb' [-> [Sb' Hcb']]].
      destruct (step_side_anc m anc ca cb Wanc anc' Hc) as [cac' [-> [Sc' Hcc']]].
      assert (Hchild : forall n,
                fix_ok (reconcile_at m [] (lookup n (anc_contents anc (Some (EDir ca))))
                                     (lookup n ca) (lookup n cb))
                       (reconcile_at m [] (lookup n cac') (lookup n ca') (lookup n cb'))).
      { intro n.
        assert (Hd1 : 1 <= d).
        { unfold depth3 in Hd. cbn [depth] in Hd. pose proof (depth_entry_pos (EDir ca)). lia. }
        apply (IH (d - 1)); try lia.
        - pose proof (depth_lookup_anc_contents anc (Some (EDir ca)) n).
          pose proof (depth_lookup_le (Some (EDir ca)) n).
          pose proof (depth_lookup_le (Some (EDir cb)) n).
          cbn [contents] in *. unfold depth3 in *. lia.
        - apply (ac_wf anc ca Wanc n).
        - apply (wf_lookup false (Some (EDir ca)) n Wa).
        - apply (wf_lookup false (Some (EDir cb)) n Wb).
        - apply (phantom_free_lookup (Some (EDir ca)) n Pa).
        - apply (phantom_free_lookup (Some (EDir cb)) n Pb).
        - apply Hca'.
        - apply Hcb'.
        - apply Hcc'. }
      (* the second plan, by the same recursion *)
      rewrite (reconcile_root_rec m (Some (EDir cac')) (Some (EDir ca')) (Some (EDir cb')))
        by reflexivity.
      unfold anc_contents at 1 2. cbn [oshallow_eqb shallow_eqb negb contents].
      rewrite plan_app_empty_l.
      unfold fix_ok. rewrite proj_anc, proj_alpha, proj_beta, roots_concat_pre.
      split; [|split; [|split]].
      * apply flat_map_nil_in. intros n _. destruct (Hchild n) as [-> _]. reflexivity.
      * apply flat_map_nil_in. intros n _. destruct (Hchild n) as [_ [-> _]]. reflexivity.
      * apply flat_map_nil_in. intros n _. destruct (Hchild n) as [_ [_ [-> _]]]. reflexivity.
      * rewrite (step_roots m anc ca cb).
        transitivity
          (flat_map (fun n => map (cons n)
                       (roots (reconcile_at m [] (lookup n (anc_contents anc (Some (EDir ca))))
                                            (lookup n ca) (lookup n cb))))
                    (name_union [cac'; ca'; cb'])).
        { apply flat_map_ext_in. intros n _. destruct (Hchild n) as [_ [_ [_ ->]]]. reflexivity. }
        apply flat_map_support; try apply name_union_sorted.
        -- intros n _ Hn.
           destruct (lookup_outside_union _ ca cb n Hn) as [-> [-> ->]].
           rewrite reconcile_none. reflexivity.
        -- intros n _ Hn. destruct (Hchild n) as [_ [_ [_ <-]]].
           destruct (lookup_outside_union cac' ca' cb' n Hn) as [-> [-> ->]].
           rewrite reconcile_none. reflexivity.
    + (* equal leaves *)
      pose proof (shallow_not_dir a b E4 Da) as Db.
      assert (Hpl : reconcile_at m [] anc a b
                    = if negb (oshallow_eqb anc a) then p_anc (mk [] None a) else empty_plan).
      { rewrite reconcile_root_rec by assumption.
        rewrite (leaf_contents a Da Pa), (leaf_contents b Db Pb).
        unfold anc_contents. rewrite (oslim_leaf a Da Pa).
        destruct (oshallow_eqb anc a) eqn:Eaa; cbn [negb].
        - assert (Dn : is_dir anc = false).
          { destruct anc as [[?| | | | |?]|]; try reflexivity.
            destruct a as [[?| | | | |?]|]; discriminate. }
          assert (Hcn : contents anc = []).
          { destruct anc as [[?| | | | |?]|]; try reflexivity; try discriminate Dn.
            discriminate Wanc. }
          rewrite Hcn. reflexivity.
        - reflexivity. }
      destruct (negb (oshallow_eqb anc a)) eqn:Eaa.
      * rewrite Hpl in *. cbn in Ha, Hb. injection Ha as <-. injection Hb as <-.
        unfold anc_updates in Hc. cbn in Hc. injection Hc as <-.
        rewrite reconcile_root_rec by assumption.
        rewrite (leaf_contents a Da Pa), (leaf_contents b Db Pb).
        unfold anc_contents. rewrite oshallow_eqb_refl. cbn [negb].
        rewrite (leaf_contents a Da Pa). repeat split.
      * eapply no_change_case; try eassumption; try reflexivity; rewrite Hpl; reflexivity.
  - (* disagreement *)
    assert (Hpl : reconcile_at m [] anc a b = dispatch m [] anc a b)
      by (apply reconcile_dispatch; assumption).
    destruct (dispatch_outcome m anc a b E4) as [c Hc0 Hr|o Ho|o Ho Hm|Hm Hu Hnd Hau].
    + eapply no_change_case; try eassumption; try reflexivity; rewrite Hpl, Hc0; reflexivity.
    + rewrite Hpl, Ho in *. cbn in Ha, Hb. injection Ha as <-. injection Hb as <-.
      unfold anc_updates in Hc. cbn in Hc. injection Hc as <-.
      rewrite reconcile_sync_left by assumption. repeat split.
    + rewrite Hpl, Ho in *. cbn in Ha, Hb. injection Ha as <-. injection Hb as <-.
      unfold anc_updates in Hc. cbn in Hc. injection Hc as <-.
      rewrite reconcile_sync_right by assumption. repeat split.
    + subst m. destruct (is_none anc) eqn:En.
      * eapply no_change_case; try eassumption; try reflexivity; rewrite Hpl, Hu; reflexivity.
      * rewrite Hpl, Hu in *. cbn in Ha, Hb. injection Ha as <-. injection Hb as <-.
        unfold anc_updates in Hc. cbn in Hc. injection Hc as <-.
        rewrite reconcile_dispatch by assumption. cbn [dispatch].
        rewrite (untrack_again anc a b Hnd Hau). repeat split.
Qed.

Theorem fixpoint_model : forall m anc a b anc' a' b',
  wf true anc = true -> wf false a = true -> wf false b = true ->
  phantom_free a = true -> phantom_free b = true ->
  apply a (alpha_ch (reconcile m anc a b)) = FOk a' ->
  apply b (beta_ch (reconcile m anc a b)) = FOk b' ->
  apply anc (anc_updates (reconcile m anc a b)) = FOk anc' ->
  fix_ok (reconcile m anc a b) (reconcile m anc' a' b').
Proof.
  intros m anc a b anc' a' b'. rewrite !reconcile_at_root.
  apply (fixpoint_at (depth3 anc a b)). apply le_n.
Qed.
