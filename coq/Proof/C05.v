(* Proofs for C05: the saved ancestor stays valid and faithful under any
   transition outcome (Model/Outcomes.v). *)
From Coq Require Import List Bool Arith String Lia.
Import ListNotations.
From Mv Require Import Model.Entry Model.Reconcile Model.Outcomes Proof.EntryFacts Proof.C07.

(* ================================================================== *)
(* Part 1. Any plan satisfying [plan_ok], any outcomes                  *)
(* ================================================================== *)

(* ---------- sub-trees of synchronizable trees are synchronizable ---------- *)

Definition subtree_list (x : entry) (l : list (name * entry)) : bool :=
  forallb (fun ne => match lookup (fst ne) (contents (Some x)) with
                     | Some f => subtree_e (snd ne) f
                     | None => false
                     end) l.

Lemma subtree_e_dir : forall c x,
  subtree_e (EDir c) x = shallow_eqb (EDir c) x && subtree_list x c.
Proof.
  intros c x. cbn [subtree_e]. f_equal.
  induction c as [|[n e] t IH]; cbn [subtree_list forallb fst snd]; [reflexivity|].
  rewrite IH. reflexivity.
Qed.

Lemma subtree_wf_true : forall v x,
  wf_entry false v = true -> wf_entry true x = true -> subtree_e v x = true ->
  wf_entry true v = true.
Proof.
  induction v as [c IH|b d|t| |m|c IH] using entry_nested_ind; intros x Wv Wx S.
  - rewrite subtree_e_dir in S. apply andb_true_iff in S. destruct S as [Sh Sl].
    destruct x as [c'| | | | |c']; try discriminate Sh.
    destruct (wf_dir_inv _ _ Wv) as [Hl Hs]. rewrite wf_entry_dir, Hs, andb_true_r.
    apply wf_list_forall. intros n e Hin.
    destruct (proj1 (wf_list_forall _ _) Hl n e Hin) as [Hn He]. split; [exact Hn|].
    unfold subtree_list in Sl. rewrite forallb_forall in Sl. specialize (Sl (n, e) Hin).
    cbn [fst snd contents] in Sl. destruct (lookup n c') as [f|] eqn:E; [|discriminate Sl].
    rewrite Forall_forall in IH. apply (IH (n, e) Hin f He); [|exact Sl].
    apply (wf_dir_child true c' n f Wx E).
  - exact Wv.
  - exact Wv.
  - cbn [subtree_e] in S. destruct x; try discriminate S; discriminate Wx.
  - cbn [subtree_e] in S. destruct x; try discriminate S; discriminate Wx.
  - cbn [subtree_e] in S. apply andb_true_iff in S. destruct S as [Sh _].
    destruct x; try discriminate Sh. rewrite wf_entry_phantom in Wx. discriminate Wx.
Qed.

Lemma subtree_wf_true_o : forall v x,
  wf false v = true -> wf true x = true -> subtree v x = true -> wf true v = true.
Proof.
  intros [v|] [x|] Wv Wx S; cbn [subtree wf] in *; try reflexivity; try discriminate S.
  eapply subtree_wf_true; eassumption.
Qed.

Lemma outcome_wf : forall t v,
  change_valid true t = true -> outcome_ok t v = true -> wf true v = true.
Proof.
  intros t v Ht Ho. unfold change_valid in Ht. apply andb_true_iff in Ht. destruct Ht as [Wo Wn].
  unfold outcome_ok in Ho. apply andb_true_iff in Ho. destruct Ho as [Wv S].
  apply orb_true_iff in S. destruct S as [S|S].
  - exact (subtree_wf_true_o v (cold t) Wv Wo S).
  - exact (subtree_wf_true_o v (cnew t) Wv Wn S).
Qed.

(* ---------- prefixes ---------- *)

Lemma is_prefix_nil_r : forall p, is_prefix p [] = true -> p = [].
Proof. intros [|n p] H; [reflexivity|discriminate H]. Qed.

(* ---------- apply_at below directories of a synchronizable tree ---------- *)

Lemma parent_ok_none : forall n rest, parent_ok None (n :: rest) = false.
Proof. reflexivity. Qed.

Lemma is_dir_inv : forall e, is_dir (Some e) = true -> exists c, e = EDir c.
Proof. intros [c| | | | |c] H; try discriminate H. exists c. reflexivity. Qed.

Lemma apply_at_spec : forall p e v,
  p <> [] -> wf_entry true e = true -> parent_ok (Some e) p = true -> wf true v = true ->
  exists e',
    apply_at e p v = A1Ok e' /\ wf_entry true e' = true /\ is_dir (Some e') = true
    /\ at_path (Some e') p = v
    /\ (forall q, is_prefix p q = false -> is_prefix q p = false ->
                  at_path (Some e') q = at_path (Some e) q)
    /\ (forall q, is_prefix p q = false ->
                  oshallow_eqb (at_path (Some e') q) (at_path (Some e) q) = true)
    /\ (forall p', is_prefix p p' = false -> is_prefix p' p = false ->
                   parent_ok (Some e) p' = true -> parent_ok (Some e') p' = true).
Proof.
  induction p as [|n rest IH]; intros e v Hne We Hp Wv; [congruence|]. clear Hne.
  cbn [parent_ok] in Hp. apply andb_true_iff in Hp. destruct Hp as [Hd Hp].
  destruct (is_dir_inv e Hd) as [c ->].
  pose proof (wf_contents_sorted true (Some (EDir c)) We) as Hs. cbn [contents] in Hs.
  destruct rest as [|k rest'].
  - (* the change lands directly in this directory *)
    exists (EDir (set_child n v c)).
    split; [reflexivity|]. split; [apply wf_dir_set_child; assumption|]. split; [reflexivity|].
    split; [cbn [at_path contents]; apply lookup_set_child_same; exact Hs|].
    split; [|split].
    + intros [|m q'] H1 H2; [discriminate H2|].
      cbn [is_prefix] in H1. rewrite andb_true_r in H1. apply String.eqb_neq in H1.
      cbn [at_path contents]. rewrite lookup_set_child_other by congruence. reflexivity.
    + intros [|m q'] H1; [reflexivity|].
      cbn [is_prefix] in H1. rewrite andb_true_r in H1. apply String.eqb_neq in H1.
      cbn [at_path contents]. rewrite lookup_set_child_other by congruence.
      apply oshallow_eqb_refl.
    + intros [|m r'] H1 H2 H3; [reflexivity|].
      cbn [is_prefix] in H1. rewrite andb_true_r in H1. apply String.eqb_neq in H1.
      cbn [parent_ok contents] in *. rewrite lookup_set_child_other by congruence. exact H3.
  - (* the change lands below the child named n *)
    cbn [contents] in Hp. destruct (lookup n c) as [child|] eqn:E; [|discriminate Hp].
    assert (Wc : wf_entry true child = true) by (apply (wf_dir_child true c n child We E)).
    destruct (IH child v ltac:(discriminate) Wc Hp Wv) as [child' [A [Wc' [Dc' [Same [Other [Shal Par]]]]]]].
    exists (EDir (set_child n (Some child') c)).
    assert (Hn : name_valid n = true) by (apply (wf_child_name true (Some (EDir c)) n child We E)).
    assert (L : lookup n (set_child n (Some child') c) = Some child')
      by (apply lookup_set_child_same; exact Hs).
    split; [rewrite apply_at_cons2; cbn [contents with_contents]; rewrite E, A; reflexivity|].
    split; [apply wf_dir_set_child; assumption|]. split; [reflexivity|].
    split; [cbn [at_path contents]; rewrite L; exact Same|].
    split; [|split].
    + intros [|m q'] H1 H2; [discriminate H2|].
      cbn [is_prefix] in H1, H2. cbn [at_path contents].
      destruct (String.eqb n m) eqn:Enm.
      * apply String.eqb_eq in Enm. subst m. rewrite String.eqb_refl in H2.
        cbn [andb] in H1, H2. rewrite L, E. apply Other; assumption.
      * apply String.eqb_neq in Enm. rewrite lookup_set_child_other by congruence. reflexivity.
    + intros [|m q'] H1; [reflexivity|].
      cbn [is_prefix] in H1. cbn [at_path contents].
      destruct (String.eqb n m) eqn:Enm.
      * apply String.eqb_eq in Enm. subst m. cbn [andb] in H1. rewrite L, E. apply Shal; assumption.
      * apply String.eqb_neq in Enm. rewrite lookup_set_child_other by congruence.
        apply oshallow_eqb_refl.
    + intros [|m r'] H1 H2 H3; [reflexivity|].
      cbn [is_prefix] in H1, H2. cbn [parent_ok contents] in *.
      destruct (String.eqb n m) eqn:Enm.
      * apply String.eqb_eq in Enm. subst m. rewrite String.eqb_refl in H2. cbn [andb] in H1, H2.
        destruct r' as [|k' r'']; [discriminate H2|].
        rewrite L. rewrite E in H3. apply Par; assumption.
      * apply String.eqb_neq in Enm. rewrite lookup_set_child_other by congruence. exact H3.
Qed.

(* ---------- antichains ---------- *)

Lemma antichain_app_l : forall l1 l2, antichain (l1 ++ l2) = true -> antichain l1 = true.
Proof.
  induction l1 as [|p l1 IH]; intros l2 H; [reflexivity|].
  cbn [app antichain] in *. apply andb_true_iff in H. destruct H as [H1 H2].
  rewrite forallb_app in H1. apply andb_true_iff in H1. destruct H1 as [H1 _].
  rewrite H1, (IH l2 H2). reflexivity.
Qed.

Lemma antichain_app_r : forall l1 l2, antichain (l1 ++ l2) = true -> antichain l2 = true.
Proof.
  induction l1 as [|p l1 IH]; intros l2 H; [exact H|].
  cbn [app antichain] in H. apply andb_true_iff in H. destruct H as [_ H2]. apply IH. exact H2.
Qed.

Lemma antichain_head : forall p l q,
  antichain (p :: l) = true -> In q l -> is_prefix p q = false /\ is_prefix q p = false.
Proof.
  intros p l q H Hin. cbn [antichain] in H. apply andb_true_iff in H. destruct H as [H _].
  rewrite forallb_forall in H. specialize (H q Hin). apply andb_true_iff in H.
  destruct H as [H1 H2]. apply negb_true_iff in H1. apply negb_true_iff in H2. auto.
Qed.

(* ---------- applying result changes at an antichain of roots ---------- *)

Lemma apply_results : forall R a0,
  wf true a0 = true -> antichain (map cpath R) = true ->
  (forall r, In r R -> parent_ok a0 (cpath r) = true /\ wf true (cnew r) = true) ->
  exists a',
    apply a0 R = FOk a' /\ wf true a' = true
    /\ (forall r, In r R -> at_path a' (cpath r) = cnew r)
    /\ (forall q, (forall r, In r R -> is_prefix (cpath r) q = false /\ is_prefix q (cpath r) = false) ->
                  at_path a' q = at_path a0 q)
    /\ (forall q, (forall r, In r R -> is_prefix (cpath r) q = false) ->
                  oshallow_eqb (at_path a' q) (at_path a0 q) = true).
Proof.
  induction R as [|r R IH]; intros a0 W0 Hac Hall.
  - exists a0. split; [reflexivity|]. split; [exact W0|]. split; [intros r []|].
    split; [reflexivity|]. intros q _. apply oshallow_eqb_refl.
  - destruct (Hall r (or_introl eq_refl)) as [Hp Wv].
    cbn [map] in Hac. cbn [apply]. unfold apply_one.
    destruct (cpath r) as [|n rest] eqn:Ep.
    + (* root replacement: nothing else can follow *)
      assert (R = []) as ->.
      { destruct R as [|r' R]; [reflexivity|]. cbn [map antichain forallb is_prefix negb andb] in Hac.
        discriminate Hac. }
      exists (cnew r). split; [reflexivity|]. split; [exact Wv|]. split.
      * intros r' [<-|[]]. rewrite Ep. reflexivity.
      * split; intros q H.
        -- destruct (H r (or_introl eq_refl)) as [H1 _]. rewrite Ep in H1. discriminate H1.
        -- pose proof (H r (or_introl eq_refl)) as H1. rewrite Ep in H1. discriminate H1.
    + destruct a0 as [e|]; [|discriminate Hp].
      destruct (apply_at_spec (n :: rest) e (cnew r) ltac:(discriminate) W0 Hp Wv)
        as [e' [A [We' [_ [Same [Other [Shal Par]]]]]]].
      rewrite A.
      assert (Hac' : antichain (map cpath R) = true).
      { cbn [antichain] in Hac. apply andb_true_iff in Hac. apply Hac. }
      destruct (IH (Some e') We' Hac') as [a' [Ap [Wa' [Ex [Deep Sh]]]]].
      { intros r' Hr'. destruct (Hall r' (or_intror Hr')) as [Hp' Wv']. split; [|exact Wv'].
        destruct (antichain_head _ _ (cpath r') Hac (in_map cpath _ _ Hr')) as [N1 N2].
        apply Par; assumption. }
      exists a'. split; [exact Ap|]. split; [exact Wa'|]. split; [|split].
      * intros r' [<-|Hr']; [|apply Ex; exact Hr'].
        rewrite Ep, Deep; [exact Same|].
        intros r' Hr'. destruct (antichain_head _ _ (cpath r') Hac (in_map cpath _ _ Hr')) as [N1 N2].
        split; assumption.
      * intros q H. rewrite Deep by (intros r' Hr'; apply H; right; exact Hr').
        destruct (H r (or_introl eq_refl)) as [N1 N2]. rewrite Ep in N1, N2. apply Other; assumption.
      * intros q H. eapply oshallow_eqb_trans.
        -- apply Sh. intros r' Hr'. apply H. right. exact Hr'.
        -- apply Shal. rewrite <- Ep. apply H. left. reflexivity.
Qed.

(* ---------- results drawn from the outcome set ---------- *)

Lemma results_ok_spec : forall ts rs,
  results_ok ts rs = true ->
  map cpath rs = map cpath ts
  /\ (forall r, In r rs -> exists t, In t ts /\ cpath r = cpath t /\ outcome_ok t (cnew r) = true).
Proof.
  induction ts as [|t ts IH]; intros [|r rs] H; cbn [results_ok] in H; try discriminate H.
  - split; [reflexivity|intros r []].
  - apply andb_true_iff in H. destruct H as [H H3]. apply andb_true_iff in H. destruct H as [H1 H2].
    apply path_eqb_eq in H1. destruct (IH rs H3) as [M A]. split.
    + cbn [map]. rewrite H1, M. reflexivity.
    + intros r' [<-|Hr'].
      * exists t. split; [left; reflexivity|]. split; assumption.
      * destruct (A r' Hr') as [t' [T1 T2]]. exists t'. split; [right; exact T1|exact T2].
Qed.

Lemma side_ok_spec : forall ts rs,
  side_ok ts rs = true ->
  (rs = [] \/ map cpath rs = map cpath ts)
  /\ (forall r, In r rs -> exists t, In t ts /\ cpath r = cpath t /\ outcome_ok t (cnew r) = true).
Proof.
  intros ts [|r rs] H.
  - split; [left; reflexivity|intros r []].
  - cbn [side_ok] in H. destruct (results_ok_spec ts (r :: rs) H) as [M A]. split; [right; exact M|exact A].
Qed.

Lemma antichain_sides : forall A B pa pb,
  antichain (A ++ B) = true -> (pa = [] \/ pa = A) -> (pb = [] \/ pb = B) ->
  antichain (pa ++ pb) = true.
Proof.
  intros A B pa pb H [->| ->] [->| ->]; cbn [app]; rewrite ?app_nil_r.
  - reflexivity.
  - eapply antichain_app_r. exact H.
  - eapply antichain_app_l. exact H.
  - exact H.
Qed.

(* the conclusion of C05 for one cycle *)
Definition c05_conclusion (anc : oentry) (pl : plan) (ra rb : list change) : Prop :=
  exists a0 anc',
    apply anc (anc_changes pl) = FOk a0
    /\ update anc pl ra rb = FOk anc'                                    (* total   *)
    /\ wf true anc' = true                                                (* valid   *)
    /\ (forall r, In r (ra ++ rb) -> at_path anc' (cpath r) = cnew r)     (* exact   *)
    /\ (forall q, (forall r, In r (ra ++ rb) -> is_prefix (cpath r) q = false) ->
                  oshallow_eqb (at_path anc' q) (at_path a0 q) = true).   (* frame   *)

Theorem update_plan_ok : forall anc pl ra rb,
  plan_ok anc pl = true ->
  side_ok (alpha_ch pl) ra = true -> side_ok (beta_ch pl) rb = true ->
  c05_conclusion anc pl ra rb.
Proof.
  intros anc pl ra rb Hpl Ha Hb. unfold plan_ok in Hpl.
  destruct (apply anc (anc_changes pl)) as [a0| | |] eqn:A0; try discriminate Hpl.
  apply andb_true_iff in Hpl. destruct Hpl as [Hpl Hac]. apply andb_true_iff in Hpl.
  destruct Hpl as [W0 Hts]. rewrite forallb_forall in Hts.
  destruct (side_ok_spec _ _ Ha) as [Ma Oa]. destruct (side_ok_spec _ _ Hb) as [Mb Ob].
  assert (Hall : forall r, In r (ra ++ rb) -> parent_ok a0 (cpath r) = true /\ wf true (cnew r) = true).
  { intros r Hr. apply in_app_or in Hr.
    assert (exists t, In t (transitions pl) /\ cpath r = cpath t /\ outcome_ok t (cnew r) = true) as [t [Ht [Hp Ho]]].
    { destruct Hr as [Hr|Hr]; [destruct (Oa r Hr) as [t [T1 T2]]|destruct (Ob r Hr) as [t [T1 T2]]];
        exists t; (split; [unfold transitions; apply in_or_app; tauto|exact T2]). }
    specialize (Hts t Ht). apply andb_true_iff in Hts. destruct Hts as [P V].
    rewrite Hp. split; [exact P|]. eapply outcome_wf; eassumption. }
  assert (Hanti : antichain (map cpath (ra ++ rb)) = true).
  { rewrite map_app. unfold transitions in Hac. rewrite map_app in Hac.
    apply (antichain_sides _ _ _ _ Hac).
    - destruct Ma as [->|M]; [left; reflexivity|right; exact M].
    - destruct Mb as [->|M]; [left; reflexivity|right; exact M]. }
  destruct (apply_results (ra ++ rb) a0 W0 Hanti Hall) as [a' [Ap [Wa' [Ex [_ Sh]]]]].
  exists a0, a'. split; [exact A0|]. split.
  - unfold update. rewrite apply_app, A0. exact Ap.
  - split; [exact Wa'|]. split; [exact Ex|exact Sh].
Qed.

(* ---------- the checker ---------- *)

Definition c05_holds (i : c05_in) (o : c05_out) : Prop :=
  exists anc',
    c_applied o = FOk anc' /\ c_valid o = true /\ wf true anc' = true
    /\ (forall r, In r (c_ra i ++ c_rb i) -> at_path anc' (cpath r) = cnew r)
    /\ (exists a0, apply (c_anc i) (anc_changes (c_plan i)) = FOk a0
                   /\ frame_ok a0 anc' (c_ra i ++ c_rb i) = true).

Theorem check_C05_sound : forall i o, check_C05 i o = true -> c05_holds i o.
Proof.
  intros i o H. unfold check_C05 in H.
  destruct (c_applied o) as [anc'| | |] eqn:E; try discriminate H.
  apply andb_true_iff in H. destruct H as [H F]. apply andb_true_iff in H. destruct H as [H X].
  apply andb_true_iff in H. destruct H as [V W].
  exists anc'. split; [exact E|]. split; [exact V|]. split; [exact W|]. split.
  - intros r Hr. rewrite forallb_forall in X. apply oentry_eqb_eq. apply X. exact Hr.
  - destruct (apply (c_anc i) (anc_changes (c_plan i))) as [a0| | |] eqn:A0; try discriminate F.
    exists a0. split; [reflexivity|exact F].
Qed.

Lemma under_root_false : forall rs q,
  under_root rs q = false -> forall r, In r rs -> is_prefix (cpath r) q = false.
Proof.
  intros rs q H r Hr. unfold under_root in H.
  destruct (is_prefix (cpath r) q) eqn:E; [|reflexivity].
  assert (existsb (fun r => is_prefix (cpath r) q) rs = true) by (apply existsb_exists; exists r; auto).
  congruence.
Qed.

Theorem check_C05_model : forall i,
  plan_ok (c_anc i) (c_plan i) = true -> results_in_outcome_set i = true ->
  check_C05 i (model_C05 i) = true.
Proof.
  intros [anc pl ra rb] Hpl Hr. unfold results_in_outcome_set in Hr. cbn [c_anc c_plan c_ra c_rb] in *.
  apply andb_true_iff in Hr. destruct Hr as [Ha Hb].
  destruct (update_plan_ok anc pl ra rb Hpl Ha Hb) as [a0 [anc' [A0 [U [W [Ex Fr]]]]]].
  unfold check_C05, model_C05. cbn [c_applied c_valid c_anc c_plan c_ra c_rb]. rewrite U, A0, W.
  cbn [andb]. apply andb_true_iff. split.
  - apply forallb_forall. intros r Hin. apply oentry_eqb_eq. apply Ex. exact Hin.
  - unfold frame_ok. apply forallb_forall. intros q _.
    destruct (under_root (ra ++ rb) q) eqn:E; [reflexivity|]. cbn [orb].
    apply Fr. apply under_root_false. exact E.
Qed.

(* ================================================================== *)
(* Part 2. The plans of [reconcile] satisfy [plan_ok]                   *)
(* ================================================================== *)

(* ---------- reconcile commutes with path prefixes ---------- *)

Definition conflict_pre (q : path) (c : conflict) : conflict :=
  {| root := (q ++ root c)%list;
     alpha_changes := map (pre q) (alpha_changes c);
     beta_changes := map (pre q) (beta_changes c) |}.

Definition plan_pre (q : path) (pl : plan) : plan :=
  {| anc_changes := map (pre q) (anc_changes pl);
     alpha_ch := map (pre q) (alpha_ch pl);
     beta_ch := map (pre q) (beta_ch pl);
     conflicts := map (conflict_pre q) (conflicts pl) |}.

Lemma plan_pre_app : forall q x y, plan_pre q (plan_app x y) = plan_app (plan_pre q x) (plan_pre q y).
Proof. intros q x y. unfold plan_pre, plan_app. cbn. rewrite !map_app. reflexivity. Qed.

Lemma plan_pre_empty : forall q, plan_pre q empty_plan = empty_plan.
Proof. reflexivity. Qed.

Lemma is_nil_map : forall (f : change -> change) l, is_nil (map f l) = is_nil l.
Proof. intros f [|x l]; reflexivity. Qed.

Lemma non_deletion_pre : forall q l, non_deletion (map (pre q) l) = map (pre q) (non_deletion l).
Proof.
  intros q l. unfold non_deletion. induction l as [|c l IH]; [reflexivity|].
  cbn [map filter pre cnew]. destruct (cnew c); cbn [map]; rewrite IH; reflexivity.
Qed.

Ltac split_ifs :=
  repeat match goal with
         | |- context [if ?c then _ else _] => destruct c
         | |- context [match ?c with Some _ => _ | None => _ end] => destruct c
         end.

Lemma handle_bidirectional_pre : forall m q p anc a b,
  handle_bidirectional m (q ++ p)%list anc a b = plan_pre q (handle_bidirectional m p anc a b).
Proof.
  intros m q p anc a b. unfold handle_bidirectional.
  rewrite !diff_prefix, !non_deletion_pre, !is_nil_map.
  destruct (is_nil (diff p anc (synchronizable b))).
  { destruct (negb (is_nil (diff p (synchronizable b) b))); reflexivity. }
  destruct (is_nil (diff p anc (synchronizable a))).
  { destruct (negb (is_nil (diff p (synchronizable a) a))); reflexivity. }
  destruct (is_nil (non_deletion (diff p anc (synchronizable a)))
            && is_nil (non_deletion (diff p anc (synchronizable b)))).
  { destruct (synchronizable a).
    - destruct (negb (is_nil (diff p (Some e) a))); reflexivity.
    - destruct (negb (is_nil (diff p (synchronizable b) b))); reflexivity. }
  destruct (is_nil (non_deletion (diff p anc (synchronizable b)))).
  { destruct (negb (is_nil (diff p (synchronizable b) b))); reflexivity. }
  destruct (is_nil (non_deletion (diff p anc (synchronizable a)))).
  { destruct (negb (is_nil (diff p (synchronizable a) a))); reflexivity. }
  destruct m; try reflexivity;
    destruct (negb (is_nil (diff p (synchronizable b) b))); reflexivity.
Qed.

Lemma handle_one_way_safe_pre : forall q p anc a b,
  handle_one_way_safe (q ++ p)%list anc a b = plan_pre q (handle_one_way_safe p anc a b).
Proof.
  intros q p anc a b. unfold handle_one_way_safe.
  rewrite !diff_prefix, !non_deletion_pre, !is_nil_map.
  destruct (is_nil (non_deletion (diff p anc (synchronizable b)))).
  { destruct (negb (is_nil (diff p (synchronizable b) b))); reflexivity. }
  destruct ((is_none a || is_untracked a)
            && (is_none anc || negb (is_dir anc) || is_none b || negb (is_dir b))).
  { destruct (is_none anc); reflexivity. }
  reflexivity.
Qed.

Lemma handle_one_way_replica_pre : forall q p anc a b,
  handle_one_way_replica (q ++ p)%list anc a b = plan_pre q (handle_one_way_replica p anc a b).
Proof.
  intros q p anc a b. unfold handle_one_way_replica.
  rewrite !diff_prefix, !is_nil_map.
  destruct (negb (is_nil (diff p (synchronizable b) b))); reflexivity.
Qed.

Lemma plan_pre_concat : forall (A : Type) q (g : A -> plan) (l : list A),
  plan_pre q (plan_concat (map g l)) = plan_concat (map (fun n => plan_pre q (g n)) l).
Proof.
  intros A q g l. induction l as [|x l IH]; [reflexivity|].
  cbn [map plan_concat fold_right]. rewrite plan_pre_app. f_equal. exact IH.
Qed.

Lemma reconcile_f_pre : forall f m q p anc a b,
  reconcile_f f m (q ++ p)%list anc a b = plan_pre q (reconcile_f f m p anc a b).
Proof.
  induction f as [|f IH]; intros m q p anc a b; cbn [reconcile_f].
  - destruct (is_problem a); [reflexivity|]. destruct (is_problem b); [reflexivity|].
    destruct ((is_none a || is_untracked a) && (is_none b || is_untracked b)).
    { destruct (is_none anc); reflexivity. }
    destruct (oshallow_eqb a b); [reflexivity|].
    destruct m; first [apply handle_bidirectional_pre|apply handle_one_way_safe_pre|apply handle_one_way_replica_pre].
  - destruct (is_problem a); [reflexivity|]. destruct (is_problem b); [reflexivity|].
    destruct ((is_none a || is_untracked a) && (is_none b || is_untracked b)).
    { destruct (is_none anc); reflexivity. }
    destruct (oshallow_eqb a b).
    + rewrite !fold_plan_app, plan_pre_app, plan_pre_concat. f_equal.
      * destruct (negb (oshallow_eqb anc a)); reflexivity.
      * f_equal. apply map_ext. intro n. rewrite <- app_assoc. apply IH.
    + destruct m; first [apply handle_bidirectional_pre|apply handle_one_way_safe_pre|apply handle_one_way_replica_pre].
Qed.

Lemma reconcile_at_pre : forall m q p anc a b,
  reconcile_at m (q ++ p)%list anc a b = plan_pre q (reconcile_at m p anc a b).
Proof. intros. unfold reconcile_at. apply reconcile_f_pre. Qed.

Lemma reconcile_at_name : forall m n anc a b,
  reconcile_at m [n] anc a b = plan_pre [n] (reconcile_at m [] anc a b).
Proof. intros. apply (reconcile_at_pre m [n] []). Qed.

(* ---------- applying grouped changes below a directory ---------- *)

Lemma apply_names : forall ph (A : name -> list change) (y : name -> oentry) (l : list name) c0,
  sorted_names (map fst c0) = true -> NoDup l ->
  (forall n, In n l -> apply (lookup n c0) (A n) = FOk (y n)) ->
  exists c1,
    apply (Some (mkd ph c0)) (flat_map (fun n => map (pre [n]) (A n)) l) = FOk (Some (mkd ph c1))
    /\ sorted_names (map fst c1) = true
    /\ (forall k, In k l -> lookup k c1 = y k)
    /\ (forall k, ~ In k l -> lookup k c1 = lookup k c0).
Proof.
  intros ph A y l. induction l as [|n l IH]; intros c0 Hs Hnd Hsub.
  - exists c0. cbn [flat_map apply]. split; [reflexivity|]. split; [exact Hs|].
    split; [intros k []|reflexivity].
  - inversion Hnd as [|? ? Hnotin Hnd']; subst.
    cbn [flat_map]. rewrite apply_app.
    rewrite (apply_pre ph n _ c0 _ Hs (Hsub n (or_introl eq_refl))).
    set (c0' := set_child n (y n) c0).
    assert (Hs' : sorted_names (map fst c0') = true) by (apply set_child_sorted; exact Hs).
    destruct (IH c0' Hs' Hnd') as [c1 [E [S1 [In1 Out1]]]].
    + intros k Hk. unfold c0'. rewrite lookup_set_child_other; [apply Hsub; right; exact Hk|].
      intros ->. exact (Hnotin Hk).
    + exists c1. split; [exact E|]. split; [exact S1|]. split.
      * intros k [<-|Hk]; [|apply In1; exact Hk].
        rewrite (Out1 n Hnotin). unfold c0'. apply lookup_set_child_same. exact Hs.
      * intros k Hk. assert (k <> n) by (intros ->; apply Hk; left; reflexivity).
        rewrite Out1 by (intro K; apply Hk; right; exact K).
        unfold c0'. apply lookup_set_child_other. assumption.
Qed.

(* ---------- antichains, compositionally ---------- *)

Definition unrel (p q : path) : bool := negb (is_prefix p q) && negb (is_prefix q p).

Lemma unrel_sym : forall p q, unrel p q = unrel q p.
Proof. intros. unfold unrel. apply andb_comm. Qed.

Lemma antichain_cons_iff : forall p l,
  antichain (p :: l) = true <-> (forall q, In q l -> unrel p q = true) /\ antichain l = true.
Proof.
  intros p l. cbn [antichain]. rewrite andb_true_iff, forallb_forall. reflexivity.
Qed.

Lemma antichain_app_iff : forall l1 l2,
  antichain (l1 ++ l2) = true <->
  antichain l1 = true /\ antichain l2 = true
  /\ (forall p q, In p l1 -> In q l2 -> unrel p q = true).
Proof.
  induction l1 as [|a l1 IH]; intros l2.
  - cbn [app]. split; [intro H; repeat split; [exact H|intros p q []]|tauto].
  - cbn [app]. rewrite !antichain_cons_iff, IH. split.
    + intros [H1 [H2 [H3 H4]]]. split; [split; [|exact H2]|split; [exact H3|]].
      * intros q Hq. apply H1. apply in_or_app. left. exact Hq.
      * intros p q [<-|Hp] Hq; [apply H1; apply in_or_app; right; exact Hq|apply H4; assumption].
    + intros [[H1 H2] [H3 H4]]. split; [|split; [exact H2|split; [exact H3|]]].
      * intros q Hq. apply in_app_or in Hq. destruct Hq as [Hq|Hq]; [apply H1; exact Hq|].
        apply H4; [left; reflexivity|exact Hq].
      * intros p q Hp Hq. apply H4; [right; exact Hp|exact Hq].
Qed.

Lemma antichain_flat_map : forall (f : name -> list path) (U : list name),
  NoDup U ->
  (forall n, In n U -> antichain (f n) = true) ->
  (forall n n' p q, In n U -> In n' U -> n <> n' -> In p (f n) -> In q (f n') -> unrel p q = true) ->
  antichain (flat_map f U) = true.
Proof.
  intros f U. induction U as [|n U IH]; intros Hnd H1 H2; [reflexivity|].
  inversion Hnd as [|? ? Hnotin Hnd']; subst. cbn [flat_map]. apply antichain_app_iff.
  split; [apply H1; left; reflexivity|]. split.
  - apply IH; [exact Hnd'| |].
    + intros k Hk. apply H1. right. exact Hk.
    + intros k k' p q Hk Hk'. apply H2; right; assumption.
  - intros p q Hp Hq. apply in_flat_map in Hq. destruct Hq as [k [Hk Hq]].
    apply (H2 n k p q); [left; reflexivity|right; exact Hk| |exact Hp|exact Hq].
    intros ->. exact (Hnotin Hk).
Qed.

Lemma unrel_cons_same : forall n p q, unrel (n :: p) (n :: q) = unrel p q.
Proof. intros. unfold unrel. cbn [is_prefix]. rewrite String.eqb_refl. reflexivity. Qed.

Lemma unrel_cons_diff : forall n n' p q, n <> n' -> unrel (n :: p) (n' :: q) = true.
Proof.
  intros n n' p q H. unfold unrel. cbn [is_prefix].
  rewrite (proj2 (String.eqb_neq n n') H).
  rewrite (proj2 (String.eqb_neq n' n)) by congruence. reflexivity.
Qed.

Lemma antichain_map_cons : forall n l, antichain l = true -> antichain (map (cons n) l) = true.
Proof.
  intros n l. induction l as [|p l IH]; intro H; [reflexivity|].
  cbn [map]. apply antichain_cons_iff in H. destruct H as [H1 H2].
  apply antichain_cons_iff. split; [|apply IH; exact H2].
  intros q Hq. apply in_map_iff in Hq. destruct Hq as [q' [<- Hq']].
  rewrite unrel_cons_same. apply H1. exact Hq'.
Qed.

(* ---------- an empty diff means equality ---------- *)

Lemma flat_map_eq_nil : forall (A B : Type) (f : A -> list B) (l : list A),
  flat_map f l = [] -> forall x, In x l -> f x = [].
Proof.
  intros A B f l. induction l as [|a l IH]; intros H x Hin; [destruct Hin|].
  cbn [flat_map] in H. apply app_eq_nil in H. destruct H as [H1 H2].
  destruct Hin as [<-|Hin]; [exact H1|apply IH; assumption].
Qed.

Lemma diff_none_nil : forall p y, diff p None y = [] -> y = None.
Proof.
  intros p [e|] H; [|reflexivity]. rewrite diff_shallow_neq in H by reflexivity. discriminate H.
Qed.

Lemma diff_nil_contents : forall p c c',
  sorted_names (map fst c) = true -> sorted_names (map fst c') = true ->
  (forall n x, lookup n c = Some x ->
     forall y q, wf false y = true -> diff q (Some x) y = [] -> Some x = y) ->
  (forall n, wf false (lookup n c') = true) ->
  flat_map (fun n => diff (p ++ [n])%list (lookup n c) (lookup n c')) (name_union [c; c']) = [] ->
  c = c'.
Proof.
  intros p c c' Hs Hs' IH Wc' H. apply contents_ext; [exact Hs|exact Hs'|].
  intro n. destruct (in_dec string_dec n (name_union [c; c'])) as [Hin|Hout].
  - pose proof (flat_map_eq_nil _ _ _ _ H n Hin) as Hn. cbn beta in Hn.
    destruct (lookup n c) as [x|] eqn:E.
    + apply (IH n x E _ _ (Wc' n) Hn).
    + symmetry. eapply diff_none_nil. exact Hn.
  - rewrite name_union_in2 in Hout.
    assert (N1 : lookup n c = None) by (apply lookup_none_notin; tauto).
    assert (N2 : lookup n c' = None) by (apply lookup_none_notin; tauto). congruence.
Qed.

Lemma diff_nil_eq_entry : forall x y p,
  wf_entry false x = true -> wf false y = true -> diff p (Some x) y = [] -> Some x = y.
Proof.
  induction x as [c IH|b d|t| |m|c IH] using entry_nested_ind; intros y p Wx Wy H;
    rewrite diff_unfold in H; destruct (oshallow_eqb y _) eqn:Sh; cbn [negb] in H;
    try discriminate H.
  - destruct y as [[c'| | | | |c']|]; try discriminate Sh. cbn [contents] in H.
    do 2 f_equal. apply (diff_nil_contents p c c').
    + apply (wf_contents_sorted false (Some (EDir c)) Wx).
    + apply (wf_contents_sorted false (Some (EDir c')) Wy).
    + intros n x E y q Wy' Hd. rewrite Forall_forall in IH.
      apply (IH (n, x) (lookup_some_in _ _ _ E) y q); [|exact Wy'|exact Hd].
      apply (wf_dir_child false c n x Wx E).
    + intro n. apply (wf_lookup false (Some (EDir c')) n Wy).
    + exact H.
  - destruct y as [e'|]; [|discriminate Sh]. cbn [oshallow_eqb] in Sh.
    rewrite shallow_eqb_sym in Sh. pose proof (shallow_eqb_leaf _ _ Sh) as L. cbn in L. congruence.
  - destruct y as [e'|]; [|discriminate Sh]. cbn [oshallow_eqb] in Sh.
    rewrite shallow_eqb_sym in Sh. pose proof (shallow_eqb_leaf _ _ Sh) as L. cbn in L. congruence.
  - destruct y as [e'|]; [|discriminate Sh]. cbn [oshallow_eqb] in Sh.
    rewrite shallow_eqb_sym in Sh. pose proof (shallow_eqb_leaf _ _ Sh) as L. cbn in L. congruence.
  - destruct y as [e'|]; [|discriminate Sh]. cbn [oshallow_eqb] in Sh.
    rewrite shallow_eqb_sym in Sh. pose proof (shallow_eqb_leaf _ _ Sh) as L. cbn in L. congruence.
  - destruct y as [[c'| | | | |c']|]; try discriminate Sh. cbn [contents] in H.
    do 2 f_equal. apply (diff_nil_contents p c c').
    + apply (wf_contents_sorted false (Some (EPhantom c)) Wx).
    + apply (wf_contents_sorted false (Some (EPhantom c')) Wy).
    + intros n x E y q Wy' Hd. rewrite Forall_forall in IH.
      apply (IH (n, x) (lookup_some_in _ _ _ E) y q); [|exact Wy'|exact Hd].
      apply (wf_child false (Some (EPhantom c)) n x Wx E).
    + intro n. apply (wf_lookup false (Some (EPhantom c')) n Wy).
    + exact H.
Qed.

Theorem diff_nil_eq : forall s p x y,
  wf s x = true -> wf s y = true -> diff p x y = [] -> x = y.
Proof.
  intros s p x y Wx Wy H. apply wf_any_false in Wx. apply wf_any_false in Wy.
  destruct x as [x|]; [eapply diff_nil_eq_entry; eassumption|].
  symmetry. eapply diff_none_nil. exact H.
Qed.

Lemma is_nil_true : forall l : list change, is_nil l = true -> l = [].
Proof. intros [|c l] H; [reflexivity|discriminate H]. Qed.

(* if the synchronizable part of a tree does not differ from the tree, the
   tree is synchronizable *)
Lemma sync_diff_nil_wf : forall s p e,
  wf s e = true -> is_nil (diff p (synchronizable e) e) = true -> wf true e = true.
Proof.
  intros s p e W H. apply is_nil_true in H.
  pose proof (synchronizable_wf s e W) as Ws.
  assert (E : synchronizable e = e).
  { apply (diff_nil_eq false p); [apply wf_o_true_false; exact Ws|eapply wf_any_false; exact W|exact H]. }
  rewrite <- E. exact Ws.
Qed.

(* ---------- what a disagreement handler can emit at the root ---------- *)

Definition leaf_ok (pl : plan) : Prop :=
  (anc_changes pl = [] \/ anc_changes pl = [mk [] None None])
  /\ (transitions pl = []
      \/ (anc_changes pl = []
          /\ exists t, transitions pl = [t] /\ cpath t = [] /\ change_valid true t = true)).

Lemma leaf_empty : leaf_ok empty_plan.
Proof. split; left; reflexivity. Qed.

Lemma leaf_conflict : forall c, leaf_ok (p_conflict c).
Proof. intro c. split; left; reflexivity. Qed.

Lemma leaf_anc_del : leaf_ok (p_anc (mk [] None None)).
Proof. split; [right|left]; reflexivity. Qed.

Lemma leaf_alpha : forall x y,
  wf true x = true -> wf true y = true -> leaf_ok (p_alpha (mk [] x y)).
Proof.
  intros x y Wx Wy. split; [left; reflexivity|right]. split; [reflexivity|].
  exists (mk [] x y). split; [reflexivity|]. split; [reflexivity|].
  unfold change_valid. cbn [cold cnew mk]. rewrite Wx, Wy. reflexivity.
Qed.

Lemma leaf_beta : forall x y,
  wf true x = true -> wf true y = true -> leaf_ok (p_beta (mk [] x y)).
Proof.
  intros x y Wx Wy. split; [left; reflexivity|right]. split; [reflexivity|].
  exists (mk [] x y). split; [reflexivity|]. split; [reflexivity|].
  unfold change_valid. cbn [cold cnew mk]. rewrite Wx, Wy. reflexivity.
Qed.

Lemma handle_bidirectional_leaf : forall m anc a b,
  wf true anc = true -> wf false a = true -> wf false b = true ->
  leaf_ok (handle_bidirectional m [] anc a b).
Proof.
  intros m anc a b Wanc Wa Wb. unfold handle_bidirectional.
  pose proof (synchronizable_wf false a Wa) as Wsa.
  pose proof (synchronizable_wf false b Wb) as Wsb.
  assert (Wn : wf true None = true) by reflexivity.
  destruct (is_nil (diff [] anc (synchronizable b))).
  { destruct (negb (is_nil (diff [] (synchronizable b) b))); [apply leaf_conflict|apply leaf_beta; assumption]. }
  destruct (is_nil (diff [] anc (synchronizable a))).
  { destruct (negb (is_nil (diff [] (synchronizable a) a))); [apply leaf_conflict|apply leaf_alpha; assumption]. }
  destruct (is_nil (non_deletion (diff [] anc (synchronizable a)))
            && is_nil (non_deletion (diff [] anc (synchronizable b)))).
  { destruct (synchronizable a) as [e|].
    - destruct (negb (is_nil (diff [] (Some e) a))); [apply leaf_conflict|apply leaf_alpha; assumption].
    - destruct (negb (is_nil (diff [] (synchronizable b) b))); [apply leaf_conflict|apply leaf_beta; assumption]. }
  destruct (is_nil (non_deletion (diff [] anc (synchronizable b)))).
  { destruct (negb (is_nil (diff [] (synchronizable b) b))); [apply leaf_conflict|apply leaf_beta; assumption]. }
  destruct (is_nil (non_deletion (diff [] anc (synchronizable a)))).
  { destruct (negb (is_nil (diff [] (synchronizable a) a))); [apply leaf_conflict|apply leaf_alpha; assumption]. }
  destruct m; try apply leaf_conflict;
    (destruct (negb (is_nil (diff [] (synchronizable b) b))); [apply leaf_conflict|apply leaf_beta; assumption]).
Qed.

Lemma handle_one_way_safe_leaf : forall anc a b,
  wf true anc = true -> wf false a = true -> wf false b = true ->
  leaf_ok (handle_one_way_safe [] anc a b).
Proof.
  intros anc a b Wanc Wa Wb. unfold handle_one_way_safe.
  pose proof (synchronizable_wf false a Wa) as Wsa.
  destruct (is_nil (non_deletion (diff [] anc (synchronizable b)))).
  { destruct (is_nil (diff [] (synchronizable b) b)) eqn:N; cbn [negb]; [|apply leaf_conflict].
    apply leaf_beta; [|exact Wsa]. eapply sync_diff_nil_wf; eassumption. }
  destruct ((is_none a || is_untracked a)
            && (is_none anc || negb (is_dir anc) || is_none b || negb (is_dir b))).
  { destruct (is_none anc); [apply leaf_empty|apply leaf_anc_del]. }
  apply leaf_conflict.
Qed.

Lemma handle_one_way_replica_leaf : forall anc a b,
  wf true anc = true -> wf false a = true -> wf false b = true ->
  leaf_ok (handle_one_way_replica [] anc a b).
Proof.
  intros anc a b Wanc Wa Wb. unfold handle_one_way_replica.
  pose proof (synchronizable_wf false a Wa) as Wsa.
  destruct (is_nil (diff [] (synchronizable b) b)) eqn:N; cbn [negb]; [|apply leaf_conflict].
  apply leaf_beta; [|exact Wsa]. eapply sync_diff_nil_wf; eassumption.
Qed.

(* the invariant established for every node of the reconciliation *)
Definition node_ok (a : oentry) (pl : plan) : Prop :=
  exists a0,
    apply a (anc_changes pl) = FOk a0 /\ wf true a0 = true
    /\ (forall t, In t (transitions pl) -> parent_ok a0 (cpath t) = true /\ change_valid true t = true)
    /\ antichain (map cpath (transitions pl)) = true.

Lemma leaf_node_ok : forall a pl, wf true a = true -> leaf_ok pl -> node_ok a pl.
Proof.
  intros a pl Wa [[A|A] T].
  - destruct T as [T|[_ [t [T [P V]]]]].
    + exists a. rewrite A, T. split; [reflexivity|]. split; [exact Wa|]. split; [intros t []|reflexivity].
    + exists a. rewrite A, T. split; [reflexivity|]. split; [exact Wa|]. split.
      * intros t' [<-|[]]. rewrite P. split; [reflexivity|exact V].
      * cbn [map]. rewrite P. reflexivity.
  - destruct T as [T|[A' _]]; [|rewrite A in A'; discriminate A'].
    exists None. rewrite A, T. split; [reflexivity|]. split; [reflexivity|].
    split; [intros t []|reflexivity].
Qed.

(* ---------- phantom-free sides ---------- *)

Lemma phantom_free_e_dir : forall c,
  phantom_free_e (EDir c) = forallb (fun ne => phantom_free_e (snd ne)) c.
Proof.
  intro c. cbn [phantom_free_e].
  induction c as [|[n x] t IH]; cbn [forallb snd]; [reflexivity|]. rewrite IH. reflexivity.
Qed.

Lemma phantom_free_lookup : forall e n,
  phantom_free e = true -> phantom_free (lookup n (contents e)) = true.
Proof.
  intros [[c| | | | |c]|] n H; try reflexivity.
  - cbn [contents]. destruct (lookup n c) as [x|] eqn:E; [|reflexivity].
    cbn [phantom_free] in *. rewrite phantom_free_e_dir, forallb_forall in H.
    apply (H (n, x)). apply lookup_some_in. exact E.
  - discriminate H.
Qed.

Lemma side_wf_lookup : forall e n, side_wf e = true -> side_wf (lookup n (contents e)) = true.
Proof.
  intros e n H. unfold side_wf in *. apply andb_true_iff in H. destruct H as [W P].
  rewrite (wf_lookup false e n W), (phantom_free_lookup e n P). reflexivity.
Qed.

Lemma wf_key_valid : forall s e k,
  wf s e = true -> In k (map fst (contents e)) -> name_valid k = true.
Proof.
  intros s e k W Hin. apply lookup_in_keys in Hin.
  destruct (lookup k (contents e)) as [x|] eqn:E; [|congruence].
  apply (wf_child_name s e k x W E).
Qed.

(* ---------- antichain of the children's transition roots ---------- *)

Lemma antichain_children : forall (U : list name) (PA PB : name -> list path),
  NoDup U ->
  (forall n, In n U -> antichain (PA n ++ PB n) = true) ->
  antichain (flat_map (fun n => map (cons n) (PA n)) U ++ flat_map (fun n => map (cons n) (PB n)) U) = true.
Proof.
  intros U PA PB Hnd H. apply antichain_app_iff.
  assert (Hd : forall (P Q : name -> list path) n n' p q,
             n <> n' -> In p (map (cons n) (P n)) -> In q (map (cons n') (Q n')) -> unrel p q = true).
  { intros P Q n n' p q Hne Hp Hq. apply in_map_iff in Hp. destruct Hp as [p' [<- _]].
    apply in_map_iff in Hq. destruct Hq as [q' [<- _]]. apply unrel_cons_diff. exact Hne. }
  split; [|split].
  - apply antichain_flat_map; [exact Hnd| |].
    + intros n Hn. apply antichain_map_cons. apply (antichain_app_l _ (PB n)). apply H. exact Hn.
    + intros n n' p q _ _ Hne. apply (Hd PA PA). exact Hne.
  - apply antichain_flat_map; [exact Hnd| |].
    + intros n Hn. apply antichain_map_cons. apply (antichain_app_r (PA n)). apply H. exact Hn.
    + intros n n' p q _ _ Hne. apply (Hd PB PB). exact Hne.
  - intros p q Hp Hq. apply in_flat_map in Hp. destruct Hp as [n [Hn Hp]].
    apply in_flat_map in Hq. destruct Hq as [n' [Hn' Hq]].
    destruct (string_dec n n') as [<-|Hne]; [|apply (Hd PA PB n n'); assumption].
    apply in_map_iff in Hp. destruct Hp as [p' [<- Hp']].
    apply in_map_iff in Hq. destruct Hq as [q' [<- Hq']].
    rewrite unrel_cons_same. specialize (H n Hn). apply antichain_app_iff in H.
    destruct H as [_ [_ H]]. apply H; assumption.
Qed.

(* ---------- the recursive step ---------- *)

Definition anc_after (a : oentry) (pl : plan) : oentry :=
  match apply a (anc_changes pl) with FOk v => v | _ => None end.

Lemma node_ok_anc_after : forall a pl,
  node_ok a pl ->
  apply a (anc_changes pl) = FOk (anc_after a pl) /\ wf true (anc_after a pl) = true
  /\ (forall t, In t (transitions pl) ->
        parent_ok (anc_after a pl) (cpath t) = true /\ change_valid true t = true)
  /\ antichain (map cpath (transitions pl)) = true.
Proof.
  intros a pl [a0 [A [W [T C]]]]. unfold anc_after. rewrite A. auto.
Qed.

Lemma transitions_pre : forall q pl,
  transitions (plan_pre q pl) = map (pre q) (transitions pl).
Proof. intros q pl. unfold transitions, plan_pre. cbn [alpha_ch beta_ch]. rewrite map_app. reflexivity. Qed.

Lemma dir_step : forall (a : oentry) (ac : list (name * entry)) (here : plan) (U : list name)
                        (g0 : name -> plan),
  apply a (anc_changes here) = FOk (Some (EDir ac)) ->
  wf_entry true (EDir ac) = true ->
  alpha_ch here = [] -> beta_ch here = [] ->
  NoDup U ->
  (forall k, In k (map fst ac) -> In k U) ->
  (forall k, In k U -> name_valid k = true) ->
  (forall n, In n U -> node_ok (lookup n ac) (g0 n)) ->
  node_ok a (plan_app here (plan_concat (map (fun n => plan_pre [n] (g0 n)) U))).
Proof.
  intros a ac here U g0 Ahere Wac Hal Hbe Hnd Hkeys Hvalid IH.
  pose proof (wf_contents_sorted true (Some (EDir ac)) Wac) as Hs. cbn [contents] in Hs.
  set (y := fun n => anc_after (lookup n ac) (g0 n)).
  destruct (apply_names false (fun n => anc_changes (g0 n)) y U ac Hs Hnd) as [c1 [Ap [S1 [In1 Out1]]]].
  { intros n Hn. apply (node_ok_anc_after _ _ (IH n Hn)). }
  exists (Some (EDir c1)).
  set (pl := plan_app here (plan_concat (map (fun n => plan_pre [n] (g0 n)) U))).
  assert (EA : anc_changes pl
               = (anc_changes here ++ flat_map (fun n => map (pre [n]) (anc_changes (g0 n))) U)%list).
  { unfold pl. cbn [plan_app anc_changes]. rewrite plan_concat_anc. reflexivity. }
  assert (ET : forall t, In t (transitions pl) ->
                 exists n t0, In n U /\ In t0 (transitions (g0 n)) /\ t = pre [n] t0).
  { intros t Ht. unfold transitions, pl in Ht. cbn [plan_app alpha_ch beta_ch] in Ht.
    rewrite Hal, Hbe, plan_concat_alpha, plan_concat_beta in Ht. cbn [app] in Ht.
    apply in_app_or in Ht. destruct Ht as [Ht|Ht]; apply in_flat_map in Ht;
      destruct Ht as [n [Hn Ht]]; cbn [plan_pre alpha_ch beta_ch] in Ht;
      apply in_map_iff in Ht; destruct Ht as [t0 [<- Ht0]]; exists n, t0;
      (split; [exact Hn|split; [unfold transitions; apply in_or_app; tauto|reflexivity]]). }
  split; [|split; [|split]].
  - rewrite EA, apply_app, Ahere. exact Ap.
  - cbn [wf]. rewrite wf_entry_dir, S1, andb_true_r. apply wf_list_forall. intros k x Hin.
    pose proof (in_lookup_sorted _ _ _ S1 Hin) as Hk.
    destruct (in_dec string_dec k U) as [HkU|HkU].
    + split; [apply Hvalid; exact HkU|]. rewrite (In1 k HkU) in Hk.
      destruct (node_ok_anc_after _ _ (IH k HkU)) as [_ [W _]]. unfold y in Hk. rewrite Hk in W. exact W.
    + rewrite (Out1 k HkU) in Hk. exfalso. apply HkU. apply Hkeys.
      apply (lookup_some_in_keys _ _ _ Hk).
  - intros t Ht. destruct (ET t Ht) as [n [t0 [Hn [Ht0 ->]]]].
    destruct (node_ok_anc_after _ _ (IH n Hn)) as [_ [_ [T _]]].
    destruct (T t0 Ht0) as [P V]. split; [|exact V].
    cbn [pre cpath app parent_ok is_dir contents andb]. rewrite (In1 n Hn). fold (y n).
    destruct (cpath t0); [apply Hvalid; exact Hn|exact P].
  - unfold transitions, pl. cbn [plan_app alpha_ch beta_ch].
    rewrite Hal, Hbe, plan_concat_alpha, plan_concat_beta. cbn [app].
    rewrite map_app, !map_flat_map.
    rewrite (flat_map_ext_in _ _ (fun n => map cpath (alpha_ch (plan_pre [n] (g0 n))))
               (fun n => map (cons n) (map cpath (alpha_ch (g0 n)))) U)
      by (intros n _; cbn [plan_pre alpha_ch]; rewrite !map_map; reflexivity).
    rewrite (flat_map_ext_in _ _ (fun n => map cpath (beta_ch (plan_pre [n] (g0 n))))
               (fun n => map (cons n) (map cpath (beta_ch (g0 n)))) U)
      by (intros n _; cbn [plan_pre beta_ch]; rewrite !map_map; reflexivity).
    apply antichain_children; [exact Hnd|].
    intros n Hn. destruct (node_ok_anc_after _ _ (IH n Hn)) as [_ [_ [_ C]]].
    unfold transitions in C. rewrite map_app in C. exact C.
Qed.

(* ---------- every node of the reconciliation ---------- *)

Lemma side_wf_inv : forall e, side_wf e = true -> wf false e = true /\ phantom_free e = true.
Proof. intros e H. unfold side_wf in H. apply andb_true_iff in H. exact H. Qed.

Lemma depth3_zero_none : forall a l b, depth3 a l b <= 0 -> l = None /\ b = None.
Proof.
  intros a l b H. assert (H0 : depth3 a l b = 0) by lia.
  destruct (shallow_eq_none_depth0 _ _ _ H0) as [_ [-> ->]]. auto.
Qed.

Lemma reconcile_node_ok : forall N m a l b,
  depth3 a l b <= N ->
  wf true a = true -> side_wf l = true -> side_wf b = true ->
  node_ok a (reconcile_at m [] a l b).
Proof.
  induction N as [|N IH]; intros m a l b HN Wa Wl Wb.
  - (* no depth left: both sides are absent *)
    destruct (depth3_zero_none _ _ _ HN) as [-> ->]. rewrite reconcile_unfold. cbn.
    destruct (is_none a); apply leaf_node_ok; try exact Wa; [apply leaf_empty|apply leaf_anc_del].
  - destruct (side_wf_inv _ Wl) as [Wl0 Pl]. destruct (side_wf_inv _ Wb) as [Wb0 Pb].
    destruct (is_problem l) eqn:P1.
    { rewrite reconcile_unfold, P1. apply leaf_node_ok; [exact Wa|apply leaf_empty]. }
    destruct (is_problem b) eqn:P2.
    { rewrite reconcile_unfold, P1, P2. apply leaf_node_ok; [exact Wa|apply leaf_empty]. }
    destruct ((is_none l || is_untracked l) && (is_none b || is_untracked b)) eqn:G.
    { rewrite reconcile_unfold, P1, P2, G.
      destruct (is_none a); apply leaf_node_ok; try exact Wa; [apply leaf_empty|apply leaf_anc_del]. }
    destruct (oshallow_eqb l b) eqn:Sh.
    2:{ rewrite reconcile_unfold, P1, P2, G, Sh. apply leaf_node_ok; [exact Wa|].
        destruct m; first [apply handle_bidirectional_leaf|apply handle_one_way_safe_leaf
                          |apply handle_one_way_replica_leaf]; assumption. }
    rewrite (reconcile_unfold_rec m [] a l b P1 P2 G Sh). cbn [app].
    (* children *)
    assert (Hchild : forall n,
              node_ok (lookup n (anc_contents a l))
                      (reconcile_at m [] (lookup n (anc_contents a l))
                                    (lookup n (contents l)) (lookup n (contents b)))).
    { intro n. apply IH.
      - pose proof (depth_lookup_anc_contents a l n). pose proof (depth_lookup_le l n).
        pose proof (depth_lookup_le b n). unfold depth3 in *. 
        assert (1 <= Nat.max (depth l) (depth b)).
        { destruct l as [e|]; [pose proof (depth_entry_pos e); cbn [depth]; lia|].
          destruct b as [e|]; [pose proof (depth_entry_pos e); cbn [depth]; lia|].
          discriminate G. }
        lia.
      - unfold anc_contents. destruct (negb (oshallow_eqb a l)); [reflexivity|].
        apply (wf_lookup true a n Wa).
      - apply side_wf_lookup. exact Wl.
      - apply side_wf_lookup. exact Wb. }
    rewrite (map_ext _ (fun n => plan_pre [n]
               (reconcile_at m [] (lookup n (anc_contents a l)) (lookup n (contents l))
                             (lookup n (contents b)))))
      by (intro n; apply reconcile_at_name).
    destruct l as [[lc|lx ld|lt| |lm|lc]|]; destruct b as [[bc|bx bd|bt| |bm|bc]|];
      try discriminate Sh; try discriminate P1; try discriminate G; try discriminate Pl.
    + (* both directories *)
      set (ac := anc_contents a (Some (EDir lc))).
      assert (Hac : apply a (anc_changes (if negb (oshallow_eqb a (Some (EDir lc)))
                                          then p_anc (mk [] None (oslim (Some (EDir lc))))
                                          else empty_plan)) = FOk (Some (EDir ac))
                    /\ wf_entry true (EDir ac) = true).
      { unfold ac, anc_contents. destruct (oshallow_eqb a (Some (EDir lc))) eqn:Sa; cbn [negb].
        - destruct a as [[c| | | | |c]|]; try discriminate Sa. split; [reflexivity|exact Wa].
        - split; reflexivity. }
      destruct Hac as [Hac Wac].
      apply (dir_step a ac _ (name_union [ac; lc; bc])
                      (fun n => reconcile_at m [] (lookup n ac) (lookup n lc) (lookup n bc)));
        try assumption.
      * destruct (negb (oshallow_eqb a (Some (EDir lc)))); reflexivity.
      * destruct (negb (oshallow_eqb a (Some (EDir lc)))); reflexivity.
      * apply name_union_NoDup.
      * intros k Hk. apply name_union_in3. left. exact Hk.
      * intros k Hk. apply name_union_in3 in Hk. destruct Hk as [Hk|[Hk|Hk]].
        -- apply (wf_key_valid true (Some (EDir ac)) k Wac Hk).
        -- apply (wf_key_valid false (Some (EDir lc)) k Wl0 Hk).
        -- apply (wf_key_valid false (Some (EDir bc)) k Wb0 Hk).
      * intros n _. apply Hchild.
    + (* equal files *)
      assert (E : anc_contents a (Some (EFile lx ld)) = []).
      { unfold anc_contents. destruct (oshallow_eqb a (Some (EFile lx ld))) eqn:Sa; [|reflexivity].
        destruct a as [[c| | | | |c]|]; try discriminate Sa; reflexivity. }
      rewrite E. cbn [contents name_union fold_left map plan_concat fold_right].
      rewrite plan_app_empty_r.
      destruct (negb (oshallow_eqb a (Some (EFile lx ld)))).
      * exists (Some (EFile lx ld)). split; [reflexivity|]. split; [exact Wl0|].
        split; [intros t []|reflexivity].
      * apply leaf_node_ok; [exact Wa|apply leaf_empty].
    + (* equal symbolic links *)
      assert (E : anc_contents a (Some (ELink lt)) = []).
      { unfold anc_contents. destruct (oshallow_eqb a (Some (ELink lt))) eqn:Sa; [|reflexivity].
        destruct a as [[c| | | | |c]|]; try discriminate Sa; reflexivity. }
      rewrite E. cbn [contents name_union fold_left map plan_concat fold_right].
      rewrite plan_app_empty_r.
      destruct (negb (oshallow_eqb a (Some (ELink lt)))).
      * exists (Some (ELink lt)). split; [reflexivity|]. split; [exact Wl0|].
        split; [intros t []|reflexivity].
      * apply leaf_node_ok; [exact Wa|apply leaf_empty].
Qed.

Theorem reconcile_plan_ok : forall m anc alpha beta,
  inputs_ok anc alpha beta = true -> plan_ok anc (reconcile m anc alpha beta) = true.
Proof.
  intros m anc alpha beta H. unfold inputs_ok in H. apply andb_true_iff in H.
  destruct H as [H Wb]. apply andb_true_iff in H. destruct H as [Wa Wl].
  rewrite reconcile_at_root.
  destruct (reconcile_node_ok (depth3 anc alpha beta) m anc alpha beta (le_n _) Wa Wl Wb)
    as [a0 [A [W [T C]]]].
  unfold plan_ok. rewrite A, W, C. cbn [andb]. rewrite andb_true_r.
  apply forallb_forall. intros t Ht. destruct (T t Ht) as [P V]. rewrite P, V. reflexivity.
Qed.

(* ---------- C05 at full strength ---------- *)

Theorem update_reconcile : forall m anc alpha beta ra rb,
  inputs_ok anc alpha beta = true ->
  side_ok (alpha_ch (reconcile m anc alpha beta)) ra = true ->
  side_ok (beta_ch (reconcile m anc alpha beta)) rb = true ->
  c05_conclusion anc (reconcile m anc alpha beta) ra rb.
Proof.
  intros m anc alpha beta ra rb Hin Ha Hb.
  apply update_plan_ok; [apply reconcile_plan_ok; exact Hin|exact Ha|exact Hb].
Qed.

Section C05Cycle.
  Variables (m : mode) (anc alpha beta : oentry) (ra rb : list change).
  Let pl := reconcile m anc alpha beta.
  Hypothesis Hin : inputs_ok anc alpha beta = true.
  Hypothesis Ha : side_ok (alpha_ch pl) ra = true.
  Hypothesis Hb : side_ok (beta_ch pl) rb = true.

  Lemma cycle_total : exists anc', update anc pl ra rb = FOk anc'.
  Proof.
    destruct (update_reconcile m anc alpha beta ra rb Hin Ha Hb) as [a0 [anc' [_ [U _]]]].
    exists anc'. exact U.
  Qed.

  Lemma cycle_valid : forall anc', update anc pl ra rb = FOk anc' -> wf true anc' = true.
  Proof.
    intros anc' E.
    destruct (update_reconcile m anc alpha beta ra rb Hin Ha Hb) as [a0 [x [_ [U [W _]]]]].
    fold pl in U. rewrite U in E. injection E as <-. exact W.
  Qed.

  Lemma cycle_exact : forall anc', update anc pl ra rb = FOk anc' ->
    forall r, In r (ra ++ rb) -> at_path anc' (cpath r) = cnew r.
  Proof.
    intros anc' E.
    destruct (update_reconcile m anc alpha beta ra rb Hin Ha Hb) as [a0 [x [_ [U [_ [X _]]]]]].
    fold pl in U. rewrite U in E. injection E as <-. exact X.
  Qed.

  Lemma cycle_frame : forall anc', update anc pl ra rb = FOk anc' ->
    exists a0, apply anc (anc_changes pl) = FOk a0
      /\ forall q, (forall r, In r (ra ++ rb) -> is_prefix (cpath r) q = false) ->
                   oshallow_eqb (at_path anc' q) (at_path a0 q) = true.
  Proof.
    intros anc' E.
    destruct (update_reconcile m anc alpha beta ra rb Hin Ha Hb) as [a0 [x [A [U [_ [_ F]]]]]].
    fold pl in U. rewrite U in E. injection E as <-. exists a0. split; [exact A|exact F].
  Qed.
End C05Cycle.

Theorem check_C05_model_reconcile : forall m anc alpha beta ra rb,
  inputs_ok anc alpha beta = true ->
  let i := {| c_anc := anc; c_plan := reconcile m anc alpha beta; c_ra := ra; c_rb := rb |} in
  results_in_outcome_set i = true ->
  check_C05 i (model_C05 i) = true.
Proof.
  intros m anc alpha beta ra rb Hin i Hr. apply check_C05_model; [|exact Hr].
  apply reconcile_plan_ok. exact Hin.
Qed.

(* ---------- non-vacuity ---------- *)
Definition ex5_anc : oentry :=
  Some (EDir [("a", EFile false "d1"); ("k", EDir [("x", EFile false "d1"); ("y", ELink "t")])]).
Definition ex5_alpha : oentry :=
  Some (EDir [("a", EFile false "d2"); ("k", EDir [("x", EFile false "d1"); ("y", ELink "t")]);
              ("n", EDir [("s", EDir [("f", EFile true "d3")]); ("u", EUntracked)])]).
Definition ex5_beta : oentry :=
  Some (EDir [("a", EFile false "d1"); ("n", EDir [("s", EDir [("f", EFile true "d3")])])]).
Definition ex5_ra : list change := [mk ["k"] None (Some (EDir [("y", ELink "t")]))].
Definition ex5_rb : list change := [mk ["a"] None (Some (EFile false "d1"))].

Lemma c05_example :
  inputs_ok ex5_anc ex5_alpha ex5_beta = true
  /\ let pl := reconcile TwoWaySafe ex5_anc ex5_alpha ex5_beta in
     List.length (anc_changes pl) = 3 /\ List.length (alpha_ch pl) = 1 /\ List.length (beta_ch pl) = 1
     /\ side_ok (alpha_ch pl) ex5_ra = true /\ side_ok (beta_ch pl) ex5_rb = true
     /\ update ex5_anc pl ex5_ra ex5_rb =
        FOk (Some (EDir [("a", EFile false "d1"); ("k", EDir [("y", ELink "t")]);
                         ("n", EDir [("s", EDir [("f", EFile true "d3")])])])).
Proof. vm_compute. repeat split; reflexivity. Qed.
