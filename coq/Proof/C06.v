(* C06 - proofs: the checker decides the statements of Model/CheckC06.v, and
   the plan of the reconcile model satisfies them. *)
From Coq Require Import List Bool Arith String Lia Permutation.
Import ListNotations.
From Mv Require Import Model.Entry Model.Reconcile Model.CheckC06 Proof.EntryFacts Proof.ReconcileShape.

(* ================================================================== *)
(* 1. The checker decides the statements                               *)
(* ================================================================== *)

Lemma antichainb_spec : forall l, antichainb l = true <-> antichain l.
Proof.
  unfold antichain. induction l as [|x t IH].
  - split; [intros _; split; [constructor|intros p q []]|reflexivity].
  - cbn [antichainb]. rewrite andb_true_iff, forallb_forall, IH. split.
    + intros [Hx [Hnd Hin]]. split.
      * constructor; [|exact Hnd]. intros Hxt. specialize (Hx x Hxt).
        apply andb_true_iff in Hx as [Hx _]. apply negb_true_iff in Hx.
        apply is_prefix_false in Hx. apply Hx, prefix_refl.
      * intros p q [<-|Hp] [<-|Hq] Hpq.
        -- reflexivity.
        -- specialize (Hx q Hq). apply andb_true_iff in Hx as [Hx _]. apply negb_true_iff in Hx.
           apply is_prefix_false in Hx. contradiction.
        -- specialize (Hx p Hp). apply andb_true_iff in Hx as [_ Hx]. apply negb_true_iff in Hx.
           apply is_prefix_false in Hx. contradiction.
        -- apply Hin; assumption.
    + intros [Hnd Hin]. inversion Hnd as [|x' t' Hxt Hnd']; subst. split; [|split].
      * intros y Hy. apply andb_true_iff. split; apply negb_true_iff, is_prefix_false; intros Hp.
        -- assert (x = y) by (apply Hin; [left; reflexivity|right; exact Hy|exact Hp]). subst y. contradiction.
        -- assert (y = x) by (apply Hin; [right; exact Hy|left; reflexivity|exact Hp]). subst y. contradiction.
      * exact Hnd'.
      * intros p q Hp Hq. apply Hin; right; assumption.
Qed.

Lemma length_eqb0 : forall (A : Type) (l : list A), negb (Nat.eqb (List.length l) 0) = true <-> l <> [].
Proof. intros A l. destruct l; cbn; split; intros H; try reflexivity; try discriminate; congruence. Qed.

Lemma conflict_wfb_spec : forall a b c, conflict_wfb a b c = true <-> conflict_wf a b c.
Proof.
  intros a b c. unfold conflict_wfb, conflict_wf, conflict_valid.
  rewrite !andb_true_iff, !length_eqb0, !forallb_forall, first_disagreementb_spec.
  split.
  - intros [[[[[H1 H2] H3] H4] H5] H6]. split; [exact H1|]. split; [exact H3|]. split; [|exact H6].
    intros ch Hc. split.
    + apply in_app_iff in Hc as [Hc|Hc]; [apply H2|apply H4]; exact Hc.
    + apply is_prefix_spec, H5, Hc.
  - intros [H1 [H2 [H3 H4]]].
    split; [|exact H4]. split; [|intros ch Hc; apply is_prefix_spec, H3, Hc].
    split; [|intros ch Hc; apply H3, in_app_iff; right; exact Hc].
    split; [|exact H2].
    split; [exact H1|intros ch Hc; apply H3, in_app_iff; left; exact Hc].
Qed.

Lemma anc_disjointb_spec : forall pl, anc_disjointb pl = true <-> c06_anc_disjoint_prop pl.
Proof.
  intros pl. unfold anc_disjointb, c06_anc_disjoint_prop. rewrite forallb_forall. split.
  - intros H ch r Hc Hr Hs. specialize (H ch Hc). rewrite forallb_forall in H. specialize (H r Hr).
    apply negb_true_iff in H. apply strict_prefixb_spec in Hs. congruence.
  - intros H ch Hc. apply forallb_forall. intros r Hr. apply negb_true_iff.
    destruct (strict_prefixb r (cpath ch)) eqn:E; [|reflexivity].
    apply strict_prefixb_spec in E. exfalso. exact (H ch r Hc Hr E).
Qed.

Lemma check_c06_plan_spec : forall a b pl, check_c06_plan a b pl = true <-> c06_prop a b pl.
Proof.
  intros a b pl. unfold check_c06_plan, c06_prop, c06_antichain_prop, c06_conflict_wf_prop.
  rewrite !andb_true_iff, antichainb_spec, anc_disjointb_spec, forallb_forall.
  split.
  - intros [[H1 H2] H3]. split; [exact H1|]. split; [|exact H3].
    intros c Hc. apply conflict_wfb_spec, H2, Hc.
  - intros [H1 [H2 H3]]. split; [|exact H3]. split; [exact H1|].
    intros c Hc. apply conflict_wfb_spec, H2, Hc.
Qed.

(* ================================================================== *)
(* 2. Antichain and ancestor changes (all inputs, no hypotheses)       *)
(* ================================================================== *)

Lemma reconcile_antichain : forall m anc a b, antichain (roots (reconcile m anc a b)).
Proof.
  intros m anc a b. unfold reconcile. split; [apply roots_nodup_f|].
  intros r1 r2 H1 H2 Hp.
  apply root_source in H1 as [s1 [-> [_ [Hd1 _]]]].
  apply root_source in H2 as [s2 [-> [Hr2 _]]].
  cbn [app] in *. destruct (prefix_cases _ _ Hp) as [E|Hs]; [exact E|].
  exfalso. exact (descends_disagrees _ _ (reachb_prefix_descends _ _ _ _ Hr2 Hs) Hd1).
Qed.

Lemma reconcile_anc_disjoint : forall m anc a b, c06_anc_disjoint_prop (reconcile m anc a b).
Proof.
  intros m anc a b ch r Hc Hr Hs. unfold reconcile in Hc, Hr.
  apply shape_anc in Hc as [s [E [Hrs _]]].
  apply root_source in Hr as [s' [-> [_ [Hd _]]]].
  rewrite E in Hs. cbn [app] in Hs.
  exact (descends_disagrees _ _ (reachb_prefix_descends _ _ _ _ Hrs Hs) Hd).
Qed.

(* stronger than the statement asks: not even AT a scheduled path *)
Lemma reconcile_anc_not_at_root : forall m anc a b ch r,
  In ch (anc_changes (reconcile m anc a b)) -> In r (roots (reconcile m anc a b)) -> cpath ch <> r.
Proof.
  intros m anc a b ch r Hc Hr E. unfold reconcile in Hc, Hr.
  apply shape_anc in Hc as [s [Es [_ [_ [_ Hh]]]]].
  apply root_source in Hr as [s' [-> [_ [Hd Hin]]]].
  rewrite Es in E. cbn [app] in E. subst s'. specialize (Hh Hd).
  assert (Hne : anc_changes (handler m ([] ++ s)%list (anc_seen anc a s) (at_path a s) (at_path b s)) <> [])
    by (intros E0; rewrite E0 in Hh; destruct Hh).
  rewrite (leaf_anc_no_roots _ _ (handler_leaf _ _ _ _ _) Hne) in Hin. destruct Hin.
Qed.

(* ================================================================== *)
(* 3. The changes produced by diff are valid and rooted                *)
(* ================================================================== *)

Definition okl (s : bool) (p : path) (l : list change) : Prop :=
  forall ch, In ch l -> change_valid s ch = true /\ prefix p (cpath ch).

Lemma diff_f_ok : forall fuel s p x y,
  wf s x = true -> wf s y = true -> okl s p (diff_f fuel p x y).
Proof.
  induction fuel as [|fuel IH]; intros s p x y Hx Hy ch; cbn [diff_f];
    (destruct (negb (oshallow_eqb y x));
     [intros [<-|[]]; unfold change_valid; cbn [cold cnew cpath]; rewrite Hx, Hy; split; [reflexivity|apply prefix_refl]|]).
  - intros [].
  - intros H. apply in_flat_map in H as [n [_ H]].
    destruct (IH s _ _ _ (wf_lookup s x n Hx) (wf_lookup s y n Hy) ch H) as [H1 H2]. split; [exact H1|]. exact (prefix_trans _ _ _ (prefix_app p [n]) H2).
Qed.

Lemma diff_ok : forall s p x y, wf s x = true -> wf s y = true -> okl s p (diff p x y).
Proof. intros. unfold diff. apply diff_f_ok; assumption. Qed.

Lemma non_deletion_ok : forall s p l, okl s p l -> okl s p (non_deletion l).
Proof. intros s p l H ch Hc. apply H. unfold non_deletion in Hc. apply filter_In in Hc. apply Hc. Qed.

Lemma single_ok : forall s p x y, wf s x = true -> wf s y = true -> okl s p [mk p x y].
Proof.
  intros s p x y Hx Hy ch [<-|[]]. unfold change_valid. cbn [mk cold cnew cpath]. rewrite Hx, Hy.
  split; [reflexivity|apply prefix_refl].
Qed.

Lemma wf_sync_false : forall s e, wf s e = true -> wf false (synchronizable e) = true.
Proof. intros s e H. apply wf_o_true_false. apply (synchronizable_wf s). exact H. Qed.

(* ================================================================== *)
(* 4. Conflicts produced by the handlers                               *)
(* ================================================================== *)

Definition is_phantom (e : oentry) : bool :=
  match e with Some (EPhantom _) => true | _ => false end.

Lemma is_nil_false : forall (l : list change), is_nil l = false -> l <> [].
Proof. intros l H E. subst l. discriminate. Qed.

Lemma negb_is_nil_true : forall (l : list change), negb (is_nil l) = true -> l <> [].
Proof. intros l H. apply is_nil_false. apply negb_true_iff. exact H. Qed.

Lemma andb_nil_l : forall (x y : list change),
  is_nil x && is_nil y = false -> is_nil y = true -> x <> [].
Proof. intros x y H1 H2 E. subst x. rewrite H2 in H1. discriminate. Qed.

Lemma andb_true_nil : forall (x : list change), is_nil x && true = false -> x <> [].
Proof. intros x H E. subst x. discriminate. Qed.

Lemma diff_nil_shallow : forall p x y, is_nil (diff p x y) = true -> oshallow_eqb y x = true.
Proof.
  intros p x y H. rewrite diff_unfold in H. destruct (oshallow_eqb y x); [reflexivity|].
  cbn in H. discriminate.
Qed.

Lemma sync_shallow : forall x,
  kind_sync (kind_of x) = true -> exists x', sync_entry x = Some x' /\ shallow_eqb x' x = true.
Proof.
  intros x H. destruct x; try discriminate.
  - rewrite sync_entry_dir. eexists. split; reflexivity.
  - eexists. split; [reflexivity|apply shallow_eqb_refl].
  - eexists. split; [reflexivity|apply shallow_eqb_refl].
Qed.

(* at a disagreement between reified sides, the synchronizable parts are not
   shallow-equal either *)
Lemma disagrees_sync : forall a b,
  disagrees a b = true -> is_phantom a = false -> is_phantom b = false ->
  oshallow_eqb (synchronizable a) (synchronizable b) = false.
Proof.
  intros a b H Pa Pb. apply disagrees_guards in H as [E1 [E2 [E3 E4]]].
  destruct a as [x|], b as [y|]; cbn [synchronizable].
  - destruct (kind_sync (kind_of x)) eqn:Kx, (kind_sync (kind_of y)) eqn:Ky.
    + destruct (sync_shallow x Kx) as [x' [-> Hx]]. destruct (sync_shallow y Ky) as [y' [-> Hy]].
      cbn [oshallow_eqb] in *. destruct (shallow_eqb x' y') eqn:E; [|reflexivity].
      rewrite <- E4. symmetry. apply (shallow_eqb_trans x x' y); [rewrite shallow_eqb_sym; exact Hx|].
      apply (shallow_eqb_trans x' y' y); assumption.
    + destruct (sync_shallow x Kx) as [x' [-> Hx]]. destruct y; try discriminate; reflexivity.
    + destruct (sync_shallow y Ky) as [y' [-> Hy]]. destruct x; try discriminate; reflexivity.
    + destruct x; try discriminate; destruct y; try discriminate.
  - destruct (kind_sync (kind_of x)) eqn:Kx.
    + destruct (sync_shallow x Kx) as [x' [-> Hx]]. reflexivity.
    + destruct x; discriminate.
  - destruct (kind_sync (kind_of y)) eqn:Ky.
    + destruct (sync_shallow y Ky) as [y' [-> Hy]]. reflexivity.
    + destruct y; discriminate.
  - discriminate.
Qed.

Lemma diffs_nil_contra : forall p anc a b,
  disagrees a b = true -> is_phantom a = false -> is_phantom b = false ->
  is_nil (diff p anc (synchronizable b)) = true -> diff p anc (synchronizable a) <> [].
Proof.
  intros p anc a b H Pa Pb Hb E.
  assert (Ha : is_nil (diff p anc (synchronizable a)) = true) by (rewrite E; reflexivity).
  apply diff_nil_shallow in Ha, Hb.
  pose proof (disagrees_sync a b H Pa Pb) as Hs.
  rewrite (oshallow_eqb_trans (synchronizable a) anc (synchronizable b)) in Hs; [discriminate|exact Ha|].
  rewrite oshallow_eqb_sym. exact Hb.
Qed.

Definition conflict_ok (p : path) (c : conflict) : Prop :=
  root c = p /\ alpha_changes c <> [] /\ beta_changes c <> []
  /\ okl false p (alpha_changes c ++ beta_changes c)%list.

Lemma mkc_ok : forall p xs ys,
  xs <> [] -> ys <> [] -> okl false p xs -> okl false p ys -> conflict_ok p (mkc p xs ys).
Proof.
  intros p xs ys H1 H2 H3 H4. unfold conflict_ok. cbn [mkc root alpha_changes beta_changes].
  repeat split; try assumption; apply in_app_iff in H as [H|H]; [apply H3|apply H4|apply H3|apply H4]; exact H.
Qed.

Ltac split_ifs_eqn :=
  repeat match goal with
         | |- context [if ?c then _ else _] => destruct c eqn:?
         | |- context [match ?c with None => _ | Some _ => _ end] => destruct c eqn:?
         end.

Lemma handler_conflict_ok : forall m p anc a b c,
  wf false anc = true -> wf false a = true -> wf false b = true ->
  disagrees a b = true -> is_phantom a = false -> is_phantom b = false ->
  In c (conflicts (handler m p anc a b)) -> conflict_ok p c.
Proof.
  intros m p anc a b c Wn Wa Wb Hd Pa Pb.
  pose proof (wf_sync_false _ _ Wa) as Wsa. pose proof (wf_sync_false _ _ Wb) as Wsb.
  pose proof (diff_ok false p anc (synchronizable a) Wn Wsa) as Oa.
  pose proof (diff_ok false p anc (synchronizable b) Wn Wsb) as Ob.
  pose proof (diff_ok false p (synchronizable a) a Wsa Wa) as Oau.
  pose proof (diff_ok false p (synchronizable b) b Wsb Wb) as Obu.
  pose proof (non_deletion_ok _ _ _ Oa) as Oan. pose proof (non_deletion_ok _ _ _ Ob) as Obn.
  pose proof (single_ok false p anc a Wn Wa) as Os.
  pose proof (diffs_nil_contra p anc a b Hd Pa Pb) as Hcontra.
  destruct m; unfold handler, handle_bidirectional, handle_one_way_safe, handle_one_way_replica;
    cbv zeta; split_ifs_eqn; cbn [conflicts p_conflict p_alpha p_beta p_anc empty_plan In];
    intros Hc; try contradiction; destruct Hc as [<-|[]];
    apply mkc_ok; try assumption;
    try (apply negb_is_nil_true; assumption);
    try (apply is_nil_false; assumption);
    try (apply Hcontra; first [assumption|reflexivity]);
    try (eapply andb_nil_l; eassumption);
    try (apply andb_true_nil; assumption);
    try discriminate.
Qed.

(* ================================================================== *)
(* 5. Phantom-free inputs                                              *)
(* ================================================================== *)

Fixpoint phantom_free_list (l : list (name * entry)) : bool :=
  match l with
  | [] => true
  | (_, x) :: t => phantom_free_entry x && phantom_free_list t
  end.

Lemma phantom_free_dir : forall c, phantom_free_entry (EDir c) = phantom_free_list c.
Proof. intros c. cbn [phantom_free_entry]. induction c as [|[n x] t IH]; [reflexivity|]. cbn [phantom_free_list]. rewrite <- IH. reflexivity. Qed.

Lemma phantom_free_lookup : forall e n, phantom_free e = true -> phantom_free (lookup n (contents e)) = true.
Proof.
  intros e n H. destruct e as [[c|x d|t| |msg|c]|]; try reflexivity; [|discriminate].
  cbn [phantom_free] in H. rewrite phantom_free_dir in H. cbn [contents].
  induction c as [|[k x] t IH]; [reflexivity|].
  cbn [phantom_free_list] in H. apply andb_true_iff in H as [H1 H2].
  cbn [lookup]. destruct (String.eqb n k); [exact H1|apply IH; exact H2].
Qed.

Lemma phantom_free_at : forall p e, phantom_free e = true -> phantom_free (at_path e p) = true.
Proof.
  induction p as [|n p IH]; intros e H; [exact H|]. cbn [at_path]. apply IH, phantom_free_lookup, H.
Qed.

Lemma phantom_free_not_phantom : forall e, phantom_free e = true -> is_phantom e = false.
Proof. intros [[]|] H; try reflexivity. discriminate. Qed.

(* ================================================================== *)
(* 6. Conflicts of the model's plan are well formed                    *)
(* ================================================================== *)

Lemma reconcile_conflict_wf : forall m anc a b,
  wf true anc = true -> wf false a = true -> wf false b = true ->
  phantom_free a = true -> phantom_free b = true ->
  c06_conflict_wf_prop a b (reconcile m anc a b).
Proof.
  intros m anc a b Wn Wa Wb Pa Pb c Hc. unfold reconcile in Hc.
  apply (shape_sel _ conflicts conflicts_app eq_refl (fun _ => eq_refl)) in Hc as [s [Hr [Hd Hc]]].
  cbn [app] in Hc.
  apply handler_conflict_ok in Hc.
  - destruct Hc as [E [H1 [H2 H3]]]. unfold conflict_wf. rewrite E.
    repeat split; try assumption; try (apply H3; assumption).
    + apply first_disagreementb_spec. apply reachb_first_disagreementb; assumption.
    + apply first_disagreementb_spec. apply reachb_first_disagreementb; assumption.
  - apply wf_o_true_false. apply anc_seen_wf. exact Wn.
  - apply at_path_wf. exact Wa.
  - apply at_path_wf. exact Wb.
  - exact Hd.
  - apply phantom_free_not_phantom, phantom_free_at, Pa.
  - apply phantom_free_not_phantom, phantom_free_at, Pb.
Qed.

(* the contract on phantom directories cannot be dropped: core.Reconcile on
   an un-reified phantom directory yields a conflict without alpha changes *)
Lemma conflict_wf_needs_reified :
  exists m anc a b,
    wf true anc = true /\ wf false a = true /\ wf false b = true /\
    ~ c06_conflict_wf_prop a b (reconcile m anc a b).
Proof.
  exists TwoWaySafe, None, None, (Some (EPhantom [])).
  repeat split; try reflexivity. intros H.
  specialize (H (mkc [] [] [mk [] None (Some (EPhantom []))])).
  destruct H as [H _]; [left; reflexivity|]. apply H. reflexivity.
Qed.

(* ================================================================== *)
(* 7. The model's plan passes the checker                              *)
(* ================================================================== *)

Lemma reconcile_c06 : forall m anc a b,
  wf true anc = true -> wf false a = true -> wf false b = true ->
  phantom_free a = true -> phantom_free b = true ->
  c06_prop a b (reconcile m anc a b).
Proof.
  intros m anc a b Wn Wa Wb Pa Pb. split; [apply reconcile_antichain|]. split.
  - apply reconcile_conflict_wf; assumption.
  - apply reconcile_anc_disjoint.
Qed.

Lemma reconcile_check_c06 : forall m anc a b,
  wf true anc = true -> wf false a = true -> wf false b = true ->
  phantom_free a = true -> phantom_free b = true ->
  check_c06 (m, anc, a, b, reconcile m anc a b) = true.
Proof.
  intros m anc a b Wn Wa Wb Pa Pb. cbn [check_c06]. apply check_c06_plan_spec.
  apply reconcile_c06; assumption.
Qed.

Lemma check_c06_sound : forall m anc a b pl,
  check_c06 (m, anc, a, b, pl) = true -> c06_prop a b pl.
Proof. intros m anc a b pl H. cbn [check_c06] in H. apply check_c06_plan_spec. exact H. Qed.

(* non-vacuity: one triple with a propagation, a conflict and an ancestor
   change at once *)
Open Scope string_scope.
Definition ex_anc : oentry :=
  Some (EDir [("a", EFile false "d1"); ("b", EFile false "d1")]).
Definition ex_alpha : oentry :=
  Some (EDir [("a", EFile false "d2"); ("b", EFile false "d2"); ("c", EFile false "d3")]).
Definition ex_beta : oentry :=
  Some (EDir [("a", EFile false "d1"); ("b", EFile false "d3"); ("c", EFile false "d3")]).

Lemma c06_example_plan :
  reconcile TwoWaySafe ex_anc ex_alpha ex_beta =
  {| anc_changes := [mk ["c"] None (Some (EFile false "d3"))];
     alpha_ch := [];
     beta_ch := [mk ["a"] (Some (EFile false "d1")) (Some (EFile false "d2"))];
     conflicts := [mkc ["b"] [mk ["b"] (Some (EFile false "d1")) (Some (EFile false "d2"))]
                             [mk ["b"] (Some (EFile false "d1")) (Some (EFile false "d3"))]] |}.
Proof. vm_compute. reflexivity. Qed.

Lemma c06_example_hyps :
  wf true ex_anc = true /\ wf false ex_alpha = true /\ wf false ex_beta = true
  /\ phantom_free ex_alpha = true /\ phantom_free ex_beta = true.
Proof. repeat split; vm_compute; reflexivity. Qed.

(* ================================================================== *)
(* 8. The reported (slim) form of a conflict                           *)
(* ================================================================== *)

Lemma wf_oslim : forall s e, wf s e = true -> wf s (oslim e) = true.
Proof.
  intros s [e|] H; [|reflexivity]. cbn [oslim option_map wf] in *.
  destruct e as [c|x d|t| |msg|c]; cbn [slim]; try exact H.
  - reflexivity.
  - rewrite wf_entry_phantom in H. apply andb_true_iff in H as [H _]. apply andb_true_iff in H as [H _].
    destruct s; [discriminate H|reflexivity].
Qed.

Lemma slim_change_valid : forall s ch, change_valid s ch = true -> change_valid s (slim_change ch) = true.
Proof.
  intros s ch H. unfold change_valid in *. cbn [slim_change cold cnew].
  apply andb_true_iff in H as [H1 H2]. rewrite (wf_oslim _ _ H1), (wf_oslim _ _ H2). reflexivity.
Qed.

Lemma slim_paths : forall l, map cpath (map slim_change l) = map cpath l.
Proof. intros l. rewrite map_map. apply map_ext. intros ch. reflexivity. Qed.

Lemma map_not_nil : forall (A B : Type) (f : A -> B) (l : list A), l <> [] -> map f l <> [].
Proof. intros A B f [|x l] H; [congruence|discriminate]. Qed.

Lemma slim_conflict_wf : forall a b c, conflict_wf a b c -> conflict_wf a b (slim_conflict c).
Proof.
  intros a b c [H1 [H2 [H3 H4]]]. unfold conflict_wf. cbn [slim_conflict root alpha_changes beta_changes].
  split; [apply map_not_nil; exact H1|]. split; [apply map_not_nil; exact H2|]. split; [|exact H4].
  intros ch Hc. rewrite <- map_app in Hc. apply in_map_iff in Hc as [ch0 [<- Hc]].
  destruct (H3 ch0 Hc) as [Hv Hp]. split; [apply slim_change_valid; exact Hv|exact Hp].
Qed.

Lemma slim_reported_ok : forall a b c, conflict_wf a b c -> reported_ok a b c (slim_conflict c).
Proof.
  intros a b c H. unfold reported_ok. cbn [slim_conflict root alpha_changes beta_changes].
  rewrite !slim_paths. split; [reflexivity|]. split; [reflexivity|]. split; [reflexivity|].
  exact (slim_conflict_wf a b c H).
Qed.

Lemma paths_eqb_eq : forall x y, paths_eqb x y = true <-> x = y.
Proof.
  induction x as [|p x IH]; intros [|q y]; cbn [paths_eqb]; split; intros H;
    try reflexivity; try discriminate.
  - apply andb_true_iff in H as [H1 H2]. apply path_eqb_eq in H1. apply IH in H2. congruence.
  - injection H as -> ->. apply andb_true_iff. split; [apply path_eqb_eq; reflexivity|apply IH; reflexivity].
Qed.

Lemma reported_okb_spec : forall a b c s, reported_okb a b c s = true <-> reported_ok a b c s.
Proof.
  intros a b c s. unfold reported_okb, reported_ok.
  rewrite !andb_true_iff, path_eqb_eq, !paths_eqb_eq, conflict_wfb_spec. tauto.
Qed.

Lemma all_reported_okb_spec : forall a b cs ss,
  all_reported_okb a b cs ss = true <-> Forall2 (reported_ok a b) cs ss.
Proof.
  intros a b. induction cs as [|c cs IH]; intros [|s ss]; cbn [all_reported_okb]; split; intros H;
    try constructor; try discriminate; try (inversion H; fail).
  - apply andb_true_iff in H as [H _]. apply reported_okb_spec. exact H.
  - apply andb_true_iff in H as [_ H]. apply IH. exact H.
  - inversion H; subst. apply andb_true_iff. split; [apply reported_okb_spec; assumption|apply IH; assumption].
Qed.

Lemma check_c06_reported_sound : forall m anc a b pl ss,
  check_c06_reported ((m, anc, a, b, pl), ss) = true ->
  c06_prop a b pl /\ c06_reported_prop a b pl ss.
Proof.
  intros m anc a b pl ss H. cbn [check_c06_reported] in H. apply andb_true_iff in H as [H1 H2].
  split; [apply check_c06_plan_spec; exact H1|apply all_reported_okb_spec; exact H2].
Qed.

Lemma reconcile_reported : forall m anc a b,
  wf true anc = true -> wf false a = true -> wf false b = true ->
  phantom_free a = true -> phantom_free b = true ->
  c06_reported_prop a b (reconcile m anc a b) (map slim_conflict (conflicts (reconcile m anc a b))).
Proof.
  intros m anc a b Wn Wa Wb Pa Pb. unfold c06_reported_prop.
  pose proof (reconcile_conflict_wf m anc a b Wn Wa Wb Pa Pb) as H. unfold c06_conflict_wf_prop in H.
  induction (conflicts (reconcile m anc a b)) as [|c cs IH]; cbn [map]; constructor.
  - apply slim_reported_ok. apply H. left. reflexivity.
  - apply IH. intros c' Hc. apply H. right. exact Hc.
Qed.

Lemma reconcile_check_c06_reported : forall m anc a b,
  wf true anc = true -> wf false a = true -> wf false b = true ->
  phantom_free a = true -> phantom_free b = true ->
  check_c06_reported ((m, anc, a, b, reconcile m anc a b),
                      map slim_conflict (conflicts (reconcile m anc a b))) = true.
Proof.
  intros m anc a b Wn Wa Wb Pa Pb. cbn [check_c06_reported]. apply andb_true_iff. split.
  - apply check_c06_plan_spec. apply reconcile_c06; assumption.
  - apply all_reported_okb_spec. apply reconcile_reported; assumption.
Qed.

(* the seeded situation: one-way-replica, alpha and ancestor absent at a path
   where beta holds a directory with untracked content; the raw conflict's
   alpha side is the synthetic nil-to-nil change, which the reported form must
   keep *)
Definition ex_s_alpha : oentry := Some (EDir [("main", EFile false "d1")]).
Definition ex_s_beta : oentry :=
  Some (EDir [("data", EDir [("control.sock", EUntracked)]); ("main", EFile false "d1")]).

Lemma c06_reported_example :
  map slim_conflict (conflicts (reconcile OneWayReplica None ex_s_alpha ex_s_beta)) =
  [mkc ["data"] [mk ["data"] None None] [mk ["data"; "control.sock"] None (Some EUntracked)]].
Proof. vm_compute. reflexivity. Qed.
