(* Proofs for C07: diff / apply / copy / filter / count are mutually
   consistent (Model/Entry.v, Model/DiffApply.v). *)
From Coq Require Import List Bool Arith String Lia.
Import ListNotations.
From Mv Require Import Model.Entry Model.DiffApply Proof.EntryFacts.

(* ================================================================== *)
(* Small list facts                                                    *)
(* ================================================================== *)

Lemma flat_map_nil_in : forall (A B : Type) (f : A -> list B) (l : list A),
  (forall x, In x l -> f x = []) -> flat_map f l = [].
Proof.
  intros A B f l H. induction l as [|x l IH]; [reflexivity|].
  cbn [flat_map]. rewrite (H x (or_introl eq_refl)), IH; [reflexivity|].
  intros y Hy. apply H. right. exact Hy.
Qed.

Lemma map_flat_map : forall (A B C : Type) (g : B -> C) (f : A -> list B) (l : list A),
  map g (flat_map f l) = flat_map (fun x => map g (f x)) l.
Proof.
  intros A B C g f l. induction l as [|x l IH]; [reflexivity|].
  cbn [flat_map]. rewrite map_app, IH. reflexivity.
Qed.

(* ================================================================== *)
(* diff of a tree against itself                                       *)
(* ================================================================== *)

Lemma diff_self_entry : forall e p, diff p (Some e) (Some e) = [].
Proof.
  induction e as [c IH|x d|t| |m|c IH] using entry_nested_ind; intro p;
    rewrite diff_unfold, oshallow_eqb_refl; cbn [negb contents];
    try reflexivity.
  - apply flat_map_nil_in. intros n _. destruct (lookup n c) as [x|] eqn:E; [|reflexivity].
    rewrite Forall_forall in IH. apply (IH (n, x) (lookup_some_in _ _ _ E)).
  - apply flat_map_nil_in. intros n _. destruct (lookup n c) as [x|] eqn:E; [|reflexivity].
    rewrite Forall_forall in IH. apply (IH (n, x) (lookup_some_in _ _ _ E)).
Qed.

Theorem diff_self : forall p a, diff p a a = [].
Proof. intros p [e|]; [apply diff_self_entry|reflexivity]. Qed.

(* ================================================================== *)
(* diff commutes with path prefixes                                    *)
(* ================================================================== *)

Definition pre (q : path) (ch : change) : change :=
  {| cpath := (q ++ cpath ch)%list; cold := cold ch; cnew := cnew ch |}.

Lemma diff_f_prefix : forall f q p a b,
  diff_f f (q ++ p)%list a b = map (pre q) (diff_f f p a b).
Proof.
  induction f as [|f IH]; intros q p a b; cbn [diff_f].
  - destruct (negb (oshallow_eqb b a)); reflexivity.
  - destruct (negb (oshallow_eqb b a)); [reflexivity|].
    rewrite map_flat_map. apply flat_map_ext_in. intros n _.
    rewrite <- app_assoc. apply IH.
Qed.

Lemma diff_prefix : forall q p a b, diff (q ++ p)%list a b = map (pre q) (diff p a b).
Proof. intros. unfold diff. apply diff_f_prefix. Qed.

Lemma diff_at_name : forall n a b, diff [n] a b = map (pre [n]) (diff [] a b).
Proof. intros n a b. apply (diff_prefix [n] [] a b). Qed.

(* ================================================================== *)
(* apply: sequencing and application below a directory                 *)
(* ================================================================== *)

Lemma apply_app : forall l1 l2 base,
  apply base (l1 ++ l2) = match apply base l1 with FOk b' => apply b' l2 | r => r end.
Proof.
  induction l1 as [|ch l1 IH]; intros l2 base; cbn [app apply]; [reflexivity|].
  destruct (apply_one base ch); try reflexivity. apply IH.
Qed.

(* a directory or a phantom directory with the given contents *)
Definition mkd (ph : bool) (c : list (name * entry)) : entry :=
  if ph then EPhantom c else EDir c.

Lemma set_child_twice : forall n y y1 c,
  sorted_names (map fst c) = true ->
  set_child n y (set_child n y1 c) = set_child n y c.
Proof.
  intros n y y1 c Hs.
  assert (H1 : sorted_names (map fst (set_child n y1 c)) = true) by (apply set_child_sorted; exact Hs).
  apply contents_ext; [apply set_child_sorted; exact H1|apply set_child_sorted; exact Hs|].
  intro k. rewrite !lookup_set_child by assumption.
  destruct (String.eqb k n); reflexivity.
Qed.

Lemma apply_at_cons2 : forall e n k q v,
  apply_at e (n :: k :: q) v =
  match lookup n (contents (Some e)) with
  | None => A1ErrParent
  | Some child =>
    match apply_at child (k :: q) v with
    | A1Ok child' =>
      match with_contents e (set_child n (Some child') (contents (Some e))) with
      | Some e' => A1Ok e'
      | None => A1Malformed
      end
    | r => r
    end
  end.
Proof. reflexivity. Qed.

Lemma apply_at_single : forall e n v,
  apply_at e [n] v =
  match e with
  | EDir c => A1Ok (EDir (set_child n v c))
  | EPhantom c => A1Ok (EPhantom (set_child n v c))
  | _ => match v with None => A1Ok e | Some _ => A1Malformed end
  end.
Proof. reflexivity. Qed.

Lemma apply_one_pre : forall ph c n ch y,
  apply_one (lookup n c) ch = FOk y ->
  apply_one (Some (mkd ph c)) (pre [n] ch) = FOk (Some (mkd ph (set_child n y c))).
Proof.
  intros ph c n [q o v] y H. unfold apply_one in *. cbn [cpath cnew pre app] in *.
  destruct q as [|k q'].
  - injection H as <-. destruct ph; reflexivity.
  - destruct (lookup n c) as [e|] eqn:E; [|discriminate H].
    destruct (apply_at e (k :: q') v) as [e'| | |] eqn:A; try discriminate H.
    injection H as <-.
    rewrite apply_at_cons2. destruct ph; cbn [mkd contents with_contents]; rewrite E, A; reflexivity.
Qed.

Lemma apply_pre : forall ph n chs c y,
  sorted_names (map fst c) = true ->
  apply (lookup n c) chs = FOk y ->
  apply (Some (mkd ph c)) (map (pre [n]) chs) = FOk (Some (mkd ph (set_child n y c))).
Proof.
  intros ph n chs. induction chs as [|ch chs IH]; intros c y Hs H; cbn [map apply] in *.
  - injection H as <-. rewrite set_child_lookup_id by exact Hs. reflexivity.
  - destruct (apply_one (lookup n c) ch) as [y1| | |] eqn:A; try discriminate H.
    rewrite (apply_one_pre ph c n ch y1 A).
    assert (Hs1 : sorted_names (map fst (set_child n y1 c)) = true) by (apply set_child_sorted; exact Hs).
    rewrite (IH (set_child n y1 c) y Hs1).
    + rewrite set_child_twice by exact Hs. reflexivity.
    + rewrite lookup_set_child_same by exact Hs. exact H.
Qed.

(* ================================================================== *)
(* apply a (diff a b) = b                                              *)
(* ================================================================== *)

Lemma diff_apply_none : forall b, apply None (diff [] None b) = FOk b.
Proof.
  intros [e|]; [|reflexivity]. rewrite diff_shallow_neq by reflexivity. reflexivity.
Qed.

Lemma diff_apply_names : forall ph c c' (l : list name) c0,
  sorted_names (map fst c0) = true -> NoDup l ->
  (forall n, In n l -> lookup n c0 = lookup n c) ->
  (forall n, In n l ->
     apply (lookup n c) (diff [] (lookup n c) (lookup n c')) = FOk (lookup n c')) ->
  exists c1,
    apply (Some (mkd ph c0)) (flat_map (fun n => diff [n] (lookup n c) (lookup n c')) l)
      = FOk (Some (mkd ph c1))
    /\ sorted_names (map fst c1) = true
    /\ (forall k, In k l -> lookup k c1 = lookup k c')
    /\ (forall k, ~ In k l -> lookup k c1 = lookup k c0).
Proof.
  intros ph c c' l. induction l as [|n l IH]; intros c0 Hs Hnd Hsame Hsub.
  - exists c0. cbn [flat_map apply]. split; [reflexivity|]. split; [exact Hs|].
    split; [intros k []|reflexivity].
  - inversion Hnd as [|? ? Hnotin Hnd']; subst.
    cbn [flat_map]. rewrite apply_app, diff_at_name.
    assert (A : apply (lookup n c0) (diff [] (lookup n c) (lookup n c')) = FOk (lookup n c')).
    { rewrite (Hsame n (or_introl eq_refl)). apply Hsub. left. reflexivity. }
    rewrite (apply_pre ph n _ c0 _ Hs A).
    set (c0' := set_child n (lookup n c') c0).
    assert (Hs' : sorted_names (map fst c0') = true) by (apply set_child_sorted; exact Hs).
    destruct (IH c0' Hs' Hnd') as [c1 [E [S1 [In1 Out1]]]].
    + intros m Hm. unfold c0'. rewrite lookup_set_child_other; [apply Hsame; right; exact Hm|].
      intros ->. exact (Hnotin Hm).
    + intros m Hm. apply Hsub. right. exact Hm.
    + exists c1. split; [exact E|]. split; [exact S1|]. split.
      * intros k [<-|Hk]; [|apply In1; exact Hk].
        rewrite (Out1 n Hnotin). unfold c0'. apply lookup_set_child_same. exact Hs.
      * intros k Hk. assert (k <> n) by (intros ->; apply Hk; left; reflexivity).
        rewrite Out1 by (intro K; apply Hk; right; exact K).
        unfold c0'. apply lookup_set_child_other. assumption.
Qed.

Lemma diff_apply_dirs : forall ph c c',
  sorted_names (map fst c) = true -> sorted_names (map fst c') = true ->
  (forall n, apply (lookup n c) (diff [] (lookup n c) (lookup n c')) = FOk (lookup n c')) ->
  apply (Some (mkd ph c))
        (flat_map (fun n => diff [n] (lookup n c) (lookup n c')) (name_union [c; c']))
  = FOk (Some (mkd ph c')).
Proof.
  intros ph c c' Hs Hs' Hsub.
  destruct (diff_apply_names ph c c' (name_union [c; c']) c Hs (name_union_NoDup _))
    as [c1 [E [S1 [In1 Out1]]]].
  - reflexivity.
  - intros n _. apply Hsub.
  - rewrite E. do 3 f_equal. apply contents_ext; [exact S1|exact Hs'|].
    intro k. destruct (in_dec string_dec k (name_union [c; c'])) as [Hin|Hout].
    + apply In1. exact Hin.
    + rewrite (Out1 k Hout). rewrite name_union_in2 in Hout.
      assert (N1 : lookup k c = None) by (apply lookup_none_notin; tauto).
      assert (N2 : lookup k c' = None) by (apply lookup_none_notin; tauto).
      congruence.
Qed.

Lemma diff_apply_entry : forall e b,
  wf_entry false e = true -> wf false b = true ->
  apply (Some e) (diff [] (Some e) b) = FOk b.
Proof.
  induction e as [c IH|x d|t| |m|c IH] using entry_nested_ind; intros b We Wb;
    rewrite diff_unfold; destruct (oshallow_eqb b _) eqn:Sh; cbn [negb]; try reflexivity.
  - (* directories *)
    destruct b as [[c'| | | | |c']|]; try discriminate Sh. cbn [contents].
    apply (diff_apply_dirs false c c').
    + apply (wf_contents_sorted false (Some (EDir c)) We).
    + apply (wf_contents_sorted false (Some (EDir c')) Wb).
    + intro n. destruct (lookup n c) as [x|] eqn:E; [|apply diff_apply_none].
      rewrite Forall_forall in IH. apply (IH (n, x) (lookup_some_in _ _ _ E)).
      * apply (wf_dir_child false c n x We E).
      * apply (wf_lookup false (Some (EDir c')) n Wb).
  - destruct b as [e'|]; [|discriminate Sh]. cbn [oshallow_eqb] in Sh.
    rewrite shallow_eqb_sym in Sh. pose proof (shallow_eqb_leaf _ _ Sh) as L. cbn in L. subst e'. reflexivity.
  - destruct b as [e'|]; [|discriminate Sh]. cbn [oshallow_eqb] in Sh.
    rewrite shallow_eqb_sym in Sh. pose proof (shallow_eqb_leaf _ _ Sh) as L. cbn in L. subst e'. reflexivity.
  - destruct b as [e'|]; [|discriminate Sh]. cbn [oshallow_eqb] in Sh.
    rewrite shallow_eqb_sym in Sh. pose proof (shallow_eqb_leaf _ _ Sh) as L. cbn in L. subst e'. reflexivity.
  - destruct b as [e'|]; [|discriminate Sh]. cbn [oshallow_eqb] in Sh.
    rewrite shallow_eqb_sym in Sh. pose proof (shallow_eqb_leaf _ _ Sh) as L. cbn in L. subst e'. reflexivity.
  - (* phantom directories *)
    destruct b as [[c'| | | | |c']|]; try discriminate Sh. cbn [contents].
    apply (diff_apply_dirs true c c').
    + apply (wf_contents_sorted false (Some (EPhantom c)) We).
    + apply (wf_contents_sorted false (Some (EPhantom c')) Wb).
    + intro n. destruct (lookup n c) as [x|] eqn:E; [|apply diff_apply_none].
      rewrite Forall_forall in IH. apply (IH (n, x) (lookup_some_in _ _ _ E)).
      * apply (wf_child false (Some (EPhantom c)) n x We E).
      * apply (wf_lookup false (Some (EPhantom c')) n Wb).
Qed.

Theorem diff_apply : forall s a b,
  wf s a = true -> wf s b = true -> apply a (diff [] a b) = FOk b.
Proof.
  intros s a b Wa Wb. apply wf_any_false in Wa. apply wf_any_false in Wb.
  destruct a as [e|]; [apply diff_apply_entry; assumption|apply diff_apply_none].
Qed.

(* ================================================================== *)
(* the synchronizable filter and Count against the list of entries     *)
(* ================================================================== *)

Definition walk_list (ok : bool) (p : path) : list (name * entry) -> list (path * entry * bool) :=
  fix go (l : list (name * entry)) : list (path * entry * bool) :=
    match l with
    | [] => []
    | (n, x) :: t => (walk ok (p ++ [n]) x ++ go t)%list
    end.

Lemma walk_dir : forall ok p c,
  walk ok p (EDir c) = (p, EDir [], ok && true) :: walk_list (ok && true) p c.
Proof. reflexivity. Qed.

Lemma walk_phantom : forall ok p c,
  walk ok p (EPhantom c) = (p, EPhantom [], ok && false) :: walk_list (ok && false) p c.
Proof. reflexivity. Qed.

Lemma walk_list_cons : forall ok p n x t,
  walk_list ok p ((n, x) :: t) = (walk ok (p ++ [n]) x ++ walk_list ok p t)%list.
Proof. reflexivity. Qed.

Lemma walk_false : forall e p, filter snd (walk false p e) = [].
Proof.
  induction e as [c IH|x d|t| |m|c IH] using entry_nested_ind; intro p; try reflexivity.
  - rewrite walk_dir. cbn [andb filter snd].
    induction c as [|[n x] c IHc]; [reflexivity|].
    rewrite walk_list_cons, filter_app. inversion IH as [|? ? Hx Ht]; subst. cbn [snd] in Hx.
    rewrite (Hx (p ++ [n])%list), (IHc Ht). reflexivity.
  - rewrite walk_phantom. cbn [andb filter snd].
    induction c as [|[n x] c IHc]; [reflexivity|].
    rewrite walk_list_cons, filter_app. inversion IH as [|? ? Hx Ht]; subst. cbn [snd] in Hx.
    rewrite (Hx (p ++ [n])%list), (IHc Ht). reflexivity.
Qed.

Lemma walk_list_false : forall c p, filter snd (walk_list false p c) = [].
Proof.
  induction c as [|[n x] c IH]; intro p; [reflexivity|].
  rewrite walk_list_cons, filter_app, walk_false, IH. reflexivity.
Qed.

(* the entries of the filtered tree are exactly the entries of the tree that
   are not at or below an unsynchronizable entry *)
Lemma walk_sync : forall e p,
  map fst (filter snd (walk true p e)) =
  match sync_entry e with
  | Some e' => map fst (walk true p e')
  | None => []
  end.
Proof.
  induction e as [c IH|x d|t| |m|c IH] using entry_nested_ind; intro p; try reflexivity.
  - rewrite sync_entry_dir, !walk_dir. cbn [andb filter snd map fst]. f_equal.
    induction c as [|[n x] c IHc]; [reflexivity|].
    inversion IH as [|? ? Hx Ht]; subst. cbn [snd] in Hx.
    rewrite walk_list_cons, filter_app, map_app, (Hx (p ++ [n])%list), (IHc Ht).
    cbn [sync_list]. destruct (sync_entry x) as [x'|]; [|reflexivity].
    rewrite walk_list_cons, map_app. reflexivity.
  - rewrite walk_phantom. cbn [andb filter snd sync_entry]. rewrite walk_list_false. reflexivity.
Qed.

Theorem sync_entries_spec : forall t, all_entries (synchronizable t) = sync_entries t.
Proof.
  intros [e|]; [|reflexivity]. unfold all_entries, sync_entries. cbn [entries synchronizable].
  rewrite walk_sync. destruct (sync_entry e); reflexivity.
Qed.

Lemma count_walk : forall e p,
  count_entry e = List.length (map fst (filter snd (walk true p e))).
Proof.
  induction e as [c IH|x d|t| |m|c IH] using entry_nested_ind; intro p; try reflexivity.
  - rewrite count_entry_dir, walk_dir. cbn [andb filter snd map List.length]. f_equal.
    induction c as [|[n x] c IHc]; [reflexivity|].
    inversion IH as [|? ? Hx Ht]; subst. cbn [snd] in Hx.
    rewrite walk_list_cons, filter_app, map_app, app_length.
    cbn [count_list]. rewrite <- (Hx (p ++ [n])%list), <- (IHc Ht). reflexivity.
  - rewrite walk_phantom. cbn [andb filter snd]. rewrite walk_list_false. reflexivity.
Qed.

Theorem count_spec : forall t, count t = List.length (sync_entries t).
Proof.
  intros [e|]; [|reflexivity]. unfold sync_entries. cbn [entries count]. apply count_walk.
Qed.

Theorem count_sync : forall t, count t = List.length (all_entries (synchronizable t)).
Proof. intro t. rewrite sync_entries_spec. apply count_spec. Qed.

Theorem count_both : forall t : oentry,
  count t = List.length (sync_entries t)
  /\ count t = List.length (all_entries (synchronizable t)).
Proof. intro t. split; [apply count_spec|apply count_sync]. Qed.

Theorem sync_valid : forall (s : bool) (t : oentry),
  wf s t = true ->
  wf true (synchronizable t) = true
  /\ synchronizable (synchronizable t) = synchronizable t.
Proof. intros s t W. split; [eapply synchronizable_wf|eapply synchronizable_idem]; exact W. Qed.

(* ---------- meaning of the flag: at_path view ---------- *)

(* the entry found at path q in the filtered tree *)
Fixpoint sync_at (t : oentry) (q : path) : oentry :=
  match q with
  | [] => synchronizable t
  | n :: r => match t with
              | Some (EDir c) => sync_at (lookup n c) r
              | _ => None
              end
  end.

Lemma at_path_none : forall q, at_path None q = None.
Proof. induction q as [|n q IH]; [reflexivity|]. cbn [at_path contents lookup]. exact IH. Qed.

Lemma at_path_sync : forall s q t,
  wf s t = true -> at_path (synchronizable t) q = sync_at t q.
Proof.
  intros s. induction q as [|n q IH]; intros t W; [reflexivity|].
  cbn [at_path sync_at]. rewrite contents_synchronizable.
  destruct t as [[c| | | | |c]|]; cbn [lookup]; try apply at_path_none.
  rewrite lookup_sync_list by (apply (wf_contents_sorted s (Some (EDir c)) W)).
  apply IH. apply (wf_lookup s (Some (EDir c)) n W).
Qed.

(* every entry on the way from the root to q (q included) exists and is a
   directory, a file or a symbolic link *)
Fixpoint path_sync (t : oentry) (q : path) : bool :=
  match t with
  | None => false
  | Some e =>
    kind_sync (kind_of e) &&
    match q with
    | [] => true
    | n :: r => path_sync (lookup n (contents t)) r
    end
  end.

Lemma sync_entry_some : forall e, (exists x, sync_entry e = Some x) <-> kind_sync (kind_of e) = true.
Proof.
  intros [c|x d|t| |m|c]; cbn; split; try (intros [x0 H]; discriminate H); try discriminate;
    intros _; eexists; reflexivity.
Qed.

Lemma sync_entry_shallow : forall e x, sync_entry e = Some x -> shallow_eqb x e = true.
Proof.
  intros [c|x d|t| |m|c] y H; cbn in H; try discriminate H; injection H as <-;
    try apply shallow_eqb_refl. reflexivity.
Qed.

(* the filter keeps an entry iff it and all its ancestors are synchronizable
   kinds, and what it keeps is shallow-equal to the original *)
Theorem sync_at_path_spec : forall s q t,
  wf s t = true ->
  (at_path (synchronizable t) q <> None <-> path_sync t q = true)
  /\ (at_path (synchronizable t) q <> None ->
      oshallow_eqb (at_path (synchronizable t) q) (at_path t q) = true).
Proof.
  intros s q t W. rewrite (at_path_sync s q t W). clear W. revert t.
  induction q as [|n q IH]; intro t; cbn [sync_at path_sync at_path].
  - destruct t as [e|]; cbn [synchronizable]; [|split; [split; [congruence|discriminate]|congruence]].
    rewrite andb_true_r. split.
    + rewrite <- sync_entry_some. split.
      * intro H. destruct (sync_entry e) as [x|]; [exists x; reflexivity|congruence].
      * intros [x ->]. discriminate.
    + intro H. destruct (sync_entry e) as [x|] eqn:E; [|congruence].
      apply (sync_entry_shallow e x E).
  - destruct t as [[c| | | | |c]|]; cbn [kind_of kind_sync andb contents];
      try (split; [split; [congruence|discriminate]|congruence]).
    + apply IH.
    + destruct q; cbn [lookup path_sync]; (split; [split; [congruence|intro K; discriminate K]|congruence]).
    + destruct q; cbn [lookup path_sync]; (split; [split; [congruence|intro K; discriminate K]|congruence]).
Qed.

(* ================================================================== *)
(* copies                                                              *)
(* ================================================================== *)

Theorem copy_value : forall b e,
  match b with
  | CopySlim => oshallow_eqb (copy b e) e = true /\ contents (copy b e) = []
  | _ => copy b e = e
  end.
Proof.
  intros [| | |] e; try reflexivity. cbn [copy].
  destruct e as [[c| | | | |c]|]; cbn; rewrite ?String.eqb_refl, ?Bool.eqb_reflx; auto.
Qed.

Lemma copy_ok_model : forall b e, copy_ok b e (copy b e) = true.
Proof.
  intros b e. pose proof (copy_value b e) as H.
  destruct b; cbn [copy_ok]; try (rewrite H; apply oentry_eqb_refl).
  destruct H as [H1 H2]. rewrite H1, H2. reflexivity.
Qed.

(* ================================================================== *)
(* the checker                                                         *)
(* ================================================================== *)

Lemma pes_eqb_eq : forall x y, pes_eqb x y = true <-> x = y.
Proof.
  induction x as [|[p e] x IH]; intros [|[q f] y]; cbn [pes_eqb]; try (split; [discriminate|discriminate]).
  - split; reflexivity.
  - unfold pe_eqb. cbn [fst snd]. rewrite !andb_true_iff, path_eqb_eq, entry_eqb_eq, IH.
    split; [intros [[-> ->] ->]; reflexivity|intros [= -> -> ->]; auto].
Qed.

Lemma apply_full_eqb_eq : forall x y, apply_full_eqb x y = true <-> x = y.
Proof.
  intros [a| | |] [b| | |]; cbn [apply_full_eqb]; try (split; [discriminate|discriminate]);
    try (split; reflexivity).
  rewrite oentry_eqb_eq. split; congruence.
Qed.

(* what a copy must satisfy, as a proposition *)
Definition copy_holds (b : copy_behavior) (e c : oentry) : Prop :=
  match b with
  | CopySlim => oshallow_eqb c e = true /\ contents c = []
  | _ => c = e
  end.

Lemma copy_ok_holds : forall b e c, copy_ok b e c = true -> copy_holds b e c.
Proof.
  intros [| | |] e c H; cbn [copy_ok copy_holds] in *; try (apply oentry_eqb_eq; exact H).
  apply andb_true_iff in H. destruct H as [H1 H2]. split; [exact H1|].
  destruct (contents c); [reflexivity|discriminate].
Qed.

(* the property C07 as a proposition about one input and the outputs observed *)
Definition c07_holds (i : c07_in) (o : c07_out) : Prop :=
  o_applied o = FOk (i_b i)
  /\ o_diff_self o = []
  /\ all_entries (o_sync o) = sync_entries (i_a i)
  /\ o_count o = List.length (sync_entries (i_a i))
  /\ Forall2 (fun b cc => copy_holds b (i_a i) (fst cc) /\ copy_holds b (i_a i) (snd cc))
             all_behaviors (o_copies o)
  /\ o_applied2 o = FOk (i_b i)
  /\ o_a_after o = i_a i
  /\ o_b_after o = i_b i.

Lemma copies_ok_holds : forall bs e cs,
  copies_ok bs e cs = true ->
  Forall2 (fun b cc => copy_holds b e (fst cc) /\ copy_holds b e (snd cc)) bs cs.
Proof.
  induction bs as [|b bs IH]; intros e [|[c1 c2] cs] H; cbn [copies_ok] in H; try discriminate H.
  - constructor.
  - apply andb_true_iff in H. destruct H as [H H3]. apply andb_true_iff in H. destruct H as [H1 H2].
    constructor; [split; apply copy_ok_holds; assumption|apply IH; exact H3].
Qed.

Theorem check_C07_sound : forall i o, check_C07 i o = true -> c07_holds i o.
Proof.
  intros i o H. unfold check_C07 in H.
  repeat (apply andb_true_iff in H; let K := fresh "K" in destruct H as [H K]).
  unfold c07_holds. split; [apply apply_full_eqb_eq; exact H|].
  split; [destruct (o_diff_self o); [reflexivity|discriminate]|].
  split; [apply pes_eqb_eq; assumption|].
  split; [apply Nat.eqb_eq; assumption|].
  split; [apply copies_ok_holds; assumption|].
  split; [apply apply_full_eqb_eq; assumption|].
  split; apply oentry_eqb_eq; assumption.
Qed.

Theorem check_C07_model : forall i, wf_C07 i = true -> check_C07 i (model_C07 i) = true.
Proof.
  intros [a b p] W. unfold wf_C07 in W. cbn [i_a i_b] in W. apply andb_true_iff in W.
  destruct W as [Wa Wb]. unfold check_C07, model_C07.
  cbn [o_applied o_diff_self o_sync o_count o_copies o_applied2 o_a_after o_b_after i_a i_b].
  change (apply None ({| cpath := []; cold := None; cnew := a |} :: diff [] a b))
    with (apply a (diff [] a b)).
  rewrite (diff_apply false a b Wa Wb), diff_self, sync_entries_spec, count_spec.
  cbn [apply_full_eqb]. rewrite !oentry_eqb_refl, Nat.eqb_refl.
  rewrite (proj2 (pes_eqb_eq _ _) eq_refl). cbn [andb all_behaviors map copies_ok].
  rewrite !copy_ok_model. reflexivity.
Qed.

(* non-vacuity: a pair of well-formed trees with unsynchronizable content on
   which every conjunct is exercised *)
Definition ex_a : oentry :=
  Some (EDir [("a", EFile false "d1"); ("b", EDir [("c", EUntracked); ("d", ELink "t")]);
              ("p", EPhantom [("x", EFile true "d2")])]).
Definition ex_b : oentry :=
  Some (EDir [("a", EFile true "d1"); ("b", EDir [("d", ELink "u"); ("e", EProblem "bad")])]).

Lemma c07_example :
  wf false ex_a = true /\ wf false ex_b = true
  /\ List.length (diff [] ex_a ex_b) = 5
  /\ apply ex_a (diff [] ex_a ex_b) = FOk ex_b
  /\ count ex_a = 4
  /\ synchronizable ex_a = Some (EDir [("a", EFile false "d1"); ("b", EDir [("d", ELink "t")])]).
Proof. vm_compute. repeat split; reflexivity. Qed.
