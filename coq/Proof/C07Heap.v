(* Proofs about Model/Heap.v: Entry.Copy on heap cells and the isolation of
   copies from later mutation of the original (aliasing clause of C07). *)
From Coq Require Import List Bool Arith String Lia.
Import ListNotations.
From Mv Require Import Model.Entry Model.DiffApply Model.Heap Proof.EntryFacts.
Local Open Scope list_scope.

(* ================================================================== *)
(* heap access                                                         *)
(* ================================================================== *)

Lemma hget_some_lt : forall h l c, hget h l = Some c -> l < List.length h.
Proof. intros h l c H. apply nth_error_Some. unfold hget in H. congruence. Qed.

Lemma hget_app_l : forall h ext l c, hget h l = Some c -> hget (h ++ ext) l = Some c.
Proof.
  intros h ext l c H. unfold hget in *. rewrite nth_error_app1; [exact H|].
  apply nth_error_Some. congruence.
Qed.

Lemma hget_app_len : forall h c, hget (h ++ [c]) (List.length h) = Some c.
Proof. intros h c. unfold hget. rewrite nth_error_app2, Nat.sub_diag by lia. reflexivity. Qed.

Lemma hset_length : forall h l c, List.length (hset h l c) = List.length h.
Proof.
  induction h as [|x h IH]; intros [|l] c; cbn [hset List.length]; try reflexivity.
  rewrite IH. reflexivity.
Qed.

Lemma hget_hset_other : forall h l c x, x <> l -> hget (hset h l c) x = hget h x.
Proof.
  unfold hget. induction h as [|y h IH]; intros [|l] c [|x] H; cbn [hset nth_error];
    try reflexivity; try congruence.
  apply IH. congruence.
Qed.

Lemma hget_hset_same : forall h l c, l < List.length h -> hget (hset h l c) l = Some c.
Proof.
  unfold hget. induction h as [|y h IH]; intros [|l] c H; cbn [hset nth_error List.length] in *;
    try lia; [reflexivity|]. apply IH. lia.
Qed.

(* ================================================================== *)
(* names for the local fixpoints                                       *)
(* ================================================================== *)

Definition children_repr (P : loc -> Prop) (h : heap) :=
  fix go (cs : list (name * loc)) (es : list (name * entry)) {struct es} : Prop :=
    match cs, es with
    | [], [] => True
    | (n, l') :: cs', (m, e') :: es' => n = m /\ reprP P h l' e' /\ go cs' es'
    | _, _ => False
    end.

Lemma reprP_dir : forall P h l es,
  reprP P h l (EDir es) = (P l /\ exists cs, hget h l = Some (CDir cs) /\ children_repr P h cs es).
Proof. reflexivity. Qed.

Lemma reprP_phantom : forall P h l es,
  reprP P h l (EPhantom es) = (P l /\ exists cs, hget h l = Some (CPhantom cs) /\ children_repr P h cs es).
Proof. reflexivity. Qed.

Definition abs_list (f : nat) (h : heap) :=
  fix go (cs : list (name * loc)) : option (list (name * entry)) :=
    match cs with
    | [] => Some []
    | (n, l') :: t =>
      match abs_f f h l', go t with
      | Some e, Some r => Some ((n, e) :: r)
      | _, _ => None
      end
    end.

Definition copy_deep_list (f : nat) :=
  fix go (h : heap) (cs : list (name * loc)) : option (heap * list (name * loc)) :=
    match cs with
    | [] => Some (h, [])
    | (n, l') :: t =>
      match copy_deep_f f h l' with
      | Some (h1, c') =>
        match go h1 t with
        | Some (h2, r) => Some (h2, (n, c') :: r)
        | None => None
        end
      | None => None
      end
    end.

Definition copy_dpl_list (f : nat) :=
  fix go (h : heap) (cs : list (name * loc)) : option (heap * list (name * loc)) :=
    match cs with
    | [] => Some (h, [])
    | (n, l') :: t =>
      match hget h l' with
      | None => None
      | Some c =>
        if is_leaf_cell c then
          match go h t with
          | Some (h2, r) => Some (h2, (n, l') :: r)
          | None => None
          end
        else
          match copy_dpl_f f h l' with
          | Some (h1, c') =>
            match go h1 t with
            | Some (h2, r) => Some (h2, (n, c') :: r)
            | None => None
            end
          | None => None
          end
      end
    end.

Lemma copy_deep_f_S : forall f h l,
  copy_deep_f (S f) h l =
  match hget h l with
  | None => None
  | Some (CDir cs) =>
    match copy_deep_list f h cs with Some (h1, cs') => Some (alloc h1 (CDir cs')) | None => None end
  | Some (CPhantom cs) =>
    match copy_deep_list f h cs with Some (h1, cs') => Some (alloc h1 (CPhantom cs')) | None => None end
  | Some c => Some (alloc h c)
  end.
Proof. reflexivity. Qed.

Lemma copy_dpl_f_S : forall f h l,
  copy_dpl_f (S f) h l =
  match hget h l with
  | None => None
  | Some (CDir cs) =>
    match copy_dpl_list f h cs with Some (h1, cs') => Some (alloc h1 (CDir cs')) | None => None end
  | Some (CPhantom cs) =>
    match copy_dpl_list f h cs with Some (h1, cs') => Some (alloc h1 (CPhantom cs')) | None => None end
  | Some c => Some (alloc h c)
  end.
Proof. reflexivity. Qed.

Lemma abs_f_S : forall f h l,
  abs_f (S f) h l =
  match hget h l with
  | None => None
  | Some (CDir cs) => option_map EDir (abs_list f h cs)
  | Some (CPhantom cs) => option_map EPhantom (abs_list f h cs)
  | Some (CFile x d) => Some (EFile x d)
  | Some (CLink t) => Some (ELink t)
  | Some CUntracked => Some EUntracked
  | Some (CProblem m) => Some (EProblem m)
  end.
Proof. reflexivity. Qed.

(* ================================================================== *)
(* transfer: monotonicity in P, frame and heap extension in one lemma  *)
(* ================================================================== *)

Lemma reprP_transfer : forall (P Q : loc -> Prop) h h' e l,
  (forall x v, P x -> hget h x = Some v -> Q x /\ hget h' x = Some v) ->
  reprP P h l e -> reprP Q h' l e.
Proof.
  intros P Q h h' e. induction e as [es IH|b d|t| |m|es IH] using entry_nested_ind;
    intros l T R.
  - rewrite reprP_dir in *. destruct R as [Pl [cs [G C]]]. destruct (T l _ Pl G) as [Ql G'].
    split; [exact Ql|]. exists cs. split; [exact G'|]. clear G G' Pl Ql.
    revert cs C. induction es as [|[m e'] es IHes]; intros [|[n l'] cs] C; cbn in C |- *; try tauto.
    inversion IH as [|? ? He Ht]; subst. cbn [snd] in He. destruct C as [E [R C]].
    split; [exact E|]. split; [apply He; assumption|apply IHes; assumption].
  - destruct R as [Pl G]. destruct (T l _ Pl G). split; assumption.
  - destruct R as [Pl G]. destruct (T l _ Pl G). split; assumption.
  - destruct R as [Pl G]. destruct (T l _ Pl G). split; assumption.
  - destruct R as [Pl G]. destruct (T l _ Pl G). split; assumption.
  - rewrite reprP_phantom in *. destruct R as [Pl [cs [G C]]]. destruct (T l _ Pl G) as [Ql G'].
    split; [exact Ql|]. exists cs. split; [exact G'|]. clear G G' Pl Ql.
    revert cs C. induction es as [|[m e'] es IHes]; intros [|[n l'] cs] C; cbn in C |- *; try tauto.
    inversion IH as [|? ? He Ht]; subst. cbn [snd] in He. destruct C as [E [R C]].
    split; [exact E|]. split; [apply He; assumption|apply IHes; assumption].
Qed.

Lemma children_repr_transfer : forall (P Q : loc -> Prop) h h' es cs,
  (forall x v, P x -> hget h x = Some v -> Q x /\ hget h' x = Some v) ->
  children_repr P h cs es -> children_repr Q h' cs es.
Proof.
  intros P Q h h' es. induction es as [|[m e'] es IH]; intros [|[n l'] cs] T C; cbn in C |- *; try tauto.
  destruct C as [E [R C]]. split; [exact E|]. split; [eapply reprP_transfer; eassumption|].
  apply IH; assumption.
Qed.

Lemma repr_bounded : forall h l e, repr h l e -> reprP (fun x => x < List.length h) h l e.
Proof.
  intros h l e R. eapply reprP_transfer; [|exact R]. intros x v _ G.
  split; [eapply hget_some_lt; exact G|exact G].
Qed.

Lemma reprP_repr : forall P h l e, reprP P h l e -> repr h l e.
Proof. intros P h l e R. eapply reprP_transfer; [|exact R]. intros x v _ G. auto. Qed.

Lemma repr_ext : forall h ext l e, repr h l e -> repr (h ++ ext) l e.
Proof.
  intros h ext l e R. eapply reprP_transfer; [|exact R]. intros x v _ G.
  split; [exact I|apply hget_app_l; exact G].
Qed.

(* ================================================================== *)
(* the relational and the computed abstraction agree                   *)
(* ================================================================== *)

Lemma repr_abs_f : forall P h e l f,
  reprP P h l e -> depth_entry e <= f -> abs_f f h l = Some e.
Proof.
  intros P h e. induction e as [es IH|b d|t| |m|es IH] using entry_nested_ind; intros l f R D;
    (destruct f as [|f];
     [match type of D with depth_entry ?x <= 0 => pose proof (depth_entry_pos x); lia end|]);
    rewrite abs_f_S.
  - rewrite reprP_dir in R. destruct R as [_ [cs [G C]]]. rewrite G.
    rewrite depth_entry_dir in D. assert (D' : depth_list es <= f) by lia. clear D G.
    assert (A : abs_list f h cs = Some es).
    { revert cs C D'. induction es as [|[m e'] es IHes]; intros [|[n l'] cs] C D'; cbn in C; try tauto;
        try reflexivity.
      inversion IH as [|? ? He Ht]; subst. cbn [snd] in He. destruct C as [-> [R C]].
      cbn [depth_list] in D'. cbn [abs_list]. rewrite (He l' f R) by lia.
      fold (abs_list f h). rewrite (IHes Ht cs C) by lia. reflexivity. }
    rewrite A. reflexivity.
  - destruct R as [_ G]. rewrite G. reflexivity.
  - destruct R as [_ G]. rewrite G. reflexivity.
  - destruct R as [_ G]. rewrite G. reflexivity.
  - destruct R as [_ G]. rewrite G. reflexivity.
  - rewrite reprP_phantom in R. destruct R as [_ [cs [G C]]]. rewrite G.
    rewrite depth_entry_phantom in D. assert (D' : depth_list es <= f) by lia. clear D G.
    assert (A : abs_list f h cs = Some es).
    { revert cs C D'. induction es as [|[m e'] es IHes]; intros [|[n l'] cs] C D'; cbn in C; try tauto;
        try reflexivity.
      inversion IH as [|? ? He Ht]; subst. cbn [snd] in He. destruct C as [-> [R C]].
      cbn [depth_list] in D'. cbn [abs_list]. rewrite (He l' f R) by lia.
      fold (abs_list f h). rewrite (IHes Ht cs C) by lia. reflexivity. }
    rewrite A. reflexivity.
Qed.

(* ================================================================== *)
(* Deep copy: a fresh replica                                          *)
(* ================================================================== *)

Definition fresh_in (h : heap) (ext : list cell) (x : loc) : Prop :=
  List.length h <= x < List.length (h ++ ext).

Definition deep_spec (f : nat) (e : entry) : Prop :=
  forall h l, repr h l e -> depth_entry e <= f ->
    exists ext c, copy_deep_f f h l = Some (h ++ ext, c)
                  /\ reprP (fresh_in h ext) (h ++ ext) c e.

Lemma fresh_in_widen_l : forall h e1 e2 x, fresh_in h e1 x -> fresh_in h (e1 ++ e2) x.
Proof. unfold fresh_in. intros h e1 e2 x. rewrite !app_length. lia. Qed.

Lemma fresh_in_widen_r : forall h e1 e2 x, fresh_in (h ++ e1) e2 x -> fresh_in h (e1 ++ e2) x.
Proof. unfold fresh_in. intros h e1 e2 x. rewrite !app_length. lia. Qed.

Lemma copy_deep_list_ok : forall f es,
  Forall (fun ne => deep_spec f (snd ne)) es ->
  forall cs hc, children_repr (fun _ => True) hc cs es -> depth_list es <= f ->
    exists ext cs', copy_deep_list f hc cs = Some (hc ++ ext, cs')
                    /\ children_repr (fresh_in hc ext) (hc ++ ext) cs' es.
Proof.
  intros f es. induction es as [|[m e'] es IHes]; intros IH [|[n l'] cs] hc C D; cbn in C; try tauto.
  - exists [], []. rewrite app_nil_r. split; [reflexivity|exact I].
  - inversion IH as [|? ? He Ht]; subst. cbn [snd] in He. destruct C as [-> [R C]].
    cbn [depth_list] in D.
    destruct (He hc l' R ltac:(lia)) as [e1 [c' [E1 R1]]].
    assert (C1 : children_repr (fun _ => True) (hc ++ e1) cs es).
    { eapply children_repr_transfer; [|exact C]. intros x v _ G. split; [exact I|apply hget_app_l; exact G]. }
    destruct (IHes Ht cs (hc ++ e1) C1 ltac:(lia)) as [e2 [r [E2 R2]]].
    exists (e1 ++ e2), ((m, c') :: r). cbn [copy_deep_list]. rewrite E1.
    fold (copy_deep_list f). rewrite E2, <- app_assoc. split; [reflexivity|].
    cbn. split; [reflexivity|]. rewrite app_assoc. split.
    + eapply reprP_transfer; [|exact R1]. intros x v Px G.
      split; [apply fresh_in_widen_l; exact Px|apply hget_app_l; exact G].
    + eapply children_repr_transfer; [|exact R2]. intros x v Px G.
      split; [apply fresh_in_widen_r; exact Px|exact G].
Qed.

Lemma alloc_repr_leaf : forall h c,
  fresh_in h [c] (List.length h) /\ hget (h ++ [c]) (List.length h) = Some c.
Proof.
  intros h c. split; [|apply hget_app_len]. unfold fresh_in. rewrite app_length. cbn. lia.
Qed.

Lemma copy_deep_ok : forall e f, deep_spec f e.
Proof.
  induction e as [es IH|b d|t| |m|es IH] using entry_nested_ind; intros f h l R D;
    (destruct f as [|f];
     [match type of D with depth_entry ?x <= 0 => pose proof (depth_entry_pos x); lia end|]);
    rewrite copy_deep_f_S.
  - unfold repr in R. rewrite reprP_dir in R. destruct R as [_ [cs [G C]]]. rewrite G.
    rewrite depth_entry_dir in D.
    assert (IH' : Forall (fun ne => deep_spec f (snd ne)) es).
    { rewrite Forall_forall in *. intros ne Hne. apply IH. exact Hne. }
    destruct (copy_deep_list_ok f es IH' cs h C ltac:(lia)) as [ext [cs' [E R']]].
    rewrite E. unfold alloc. exists (ext ++ [CDir cs']), (List.length (h ++ ext)).
    rewrite app_assoc. split; [reflexivity|]. rewrite reprP_dir.
    destruct (alloc_repr_leaf (h ++ ext) (CDir cs')) as [F G'].
    split; [apply fresh_in_widen_r; exact F|]. exists cs'. split; [exact G'|].
    eapply children_repr_transfer; [|exact R']. intros x v Px Gx.
    split; [apply fresh_in_widen_l; exact Px|apply hget_app_l; exact Gx].
  - destruct R as [_ G]. rewrite G. exists [CFile b d], (List.length h).
    split; [reflexivity|]. apply alloc_repr_leaf.
  - destruct R as [_ G]. rewrite G. exists [CLink t], (List.length h).
    split; [reflexivity|]. apply alloc_repr_leaf.
  - destruct R as [_ G]. rewrite G. exists [CUntracked], (List.length h).
    split; [reflexivity|]. apply alloc_repr_leaf.
  - destruct R as [_ G]. rewrite G. exists [CProblem m], (List.length h).
    split; [reflexivity|]. apply alloc_repr_leaf.
  - unfold repr in R. rewrite reprP_phantom in R. destruct R as [_ [cs [G C]]]. rewrite G.
    rewrite depth_entry_phantom in D.
    assert (IH' : Forall (fun ne => deep_spec f (snd ne)) es).
    { rewrite Forall_forall in *. intros ne Hne. apply IH. exact Hne. }
    destruct (copy_deep_list_ok f es IH' cs h C ltac:(lia)) as [ext [cs' [E R']]].
    rewrite E. unfold alloc. exists (ext ++ [CPhantom cs']), (List.length (h ++ ext)).
    rewrite app_assoc. split; [reflexivity|]. rewrite reprP_phantom.
    destruct (alloc_repr_leaf (h ++ ext) (CPhantom cs')) as [F G'].
    split; [apply fresh_in_widen_r; exact F|]. exists cs'. split; [exact G'|].
    eapply children_repr_transfer; [|exact R']. intros x v Px Gx.
    split; [apply fresh_in_widen_l; exact Px|apply hget_app_l; exact Gx].
Qed.

(* ================================================================== *)
(* DeepPreservingLeaves: fresh directory cells, shared leaf cells      *)
(* ================================================================== *)

Definition entry_is_leaf (e : entry) : bool :=
  match e with EDir _ | EPhantom _ => false | _ => true end.

Lemma repr_cell : forall P h l e,
  reprP P h l e -> exists c, hget h l = Some c /\ is_leaf_cell c = entry_is_leaf e.
Proof.
  intros P h l [es|b d|t| |m|es] R.
  - rewrite reprP_dir in R. destruct R as [_ [cs [G _]]]. eexists; split; [exact G|reflexivity].
  - destruct R as [_ G]. eexists; split; [exact G|reflexivity].
  - destruct R as [_ G]. eexists; split; [exact G|reflexivity].
  - destruct R as [_ G]. eexists; split; [exact G|reflexivity].
  - destruct R as [_ G]. eexists; split; [exact G|reflexivity].
  - rewrite reprP_phantom in R. destruct R as [_ [cs [G _]]]. eexists; split; [exact G|reflexivity].
Qed.

Lemma repr_leaf_only : forall P h l e,
  entry_is_leaf e = true -> reprP P h l e -> reprP (fun x => x = l) h l e.
Proof.
  intros P h l [es|b d|t| |m|es] L R; try discriminate L; destruct R as [_ G]; split;
    try reflexivity; exact G.
Qed.

(* locations a DeepPreservingLeaves copy may read: its own fresh cells and
   leaf cells of the heap it was made in *)
Definition dpl_in (h : heap) (ext : list cell) (x : loc) : Prop :=
  fresh_in h ext x \/ exists v, hget h x = Some v /\ is_leaf_cell v = true.

Definition dpl_spec (f : nat) (e : entry) : Prop :=
  forall h l, repr h l e -> depth_entry e <= f ->
    exists ext c, copy_dpl_f f h l = Some (h ++ ext, c)
                  /\ fresh_in h ext c
                  /\ reprP (dpl_in h ext) (h ++ ext) c e.

Lemma dpl_in_widen_l : forall h e1 e2 x, dpl_in h e1 x -> dpl_in h (e1 ++ e2) x.
Proof. intros h e1 e2 x [F|L]; [left; apply fresh_in_widen_l; exact F|right; exact L]. Qed.

Lemma dpl_in_widen_r : forall h e1 e2 x, dpl_in (h ++ e1) e2 x -> dpl_in h (e1 ++ e2) x.
Proof.
  intros h e1 e2 x [F|[v [G L]]]; [left; apply fresh_in_widen_r; exact F|].
  destruct (Nat.lt_ge_cases x (List.length h)) as [Hlt|Hge].
  - right. exists v. split; [|exact L]. unfold hget in *. rewrite nth_error_app1 in G by exact Hlt. exact G.
  - left. unfold fresh_in. pose proof (hget_some_lt _ _ _ G) as K. rewrite !app_length in *. lia.
Qed.

Lemma copy_dpl_list_ok : forall f es,
  Forall (fun ne => dpl_spec f (snd ne)) es ->
  forall cs hc, children_repr (fun _ => True) hc cs es -> depth_list es <= f ->
    exists ext cs', copy_dpl_list f hc cs = Some (hc ++ ext, cs')
                    /\ children_repr (dpl_in hc ext) (hc ++ ext) cs' es.
Proof.
  intros f es. induction es as [|[m e'] es IHes]; intros IH [|[n l'] cs] hc C D; cbn in C; try tauto.
  - exists [], []. rewrite app_nil_r. split; [reflexivity|exact I].
  - inversion IH as [|? ? He Ht]; subst. cbn [snd] in He. destruct C as [-> [R C]].
    cbn [depth_list] in D. destruct (repr_cell _ _ _ _ R) as [c0 [G0 L0]].
    cbn [copy_dpl_list]. rewrite G0, L0. fold (copy_dpl_list f).
    destruct (entry_is_leaf e') eqn:Leaf.
    + (* a leaf child is shared by pointer *)
      destruct (IHes Ht cs hc C ltac:(lia)) as [e2 [r [E2 R2]]].
      exists e2, ((m, l') :: r). rewrite E2. split; [reflexivity|].
      cbn. split; [reflexivity|]. split; [|exact R2].
      eapply reprP_transfer; [|exact (repr_leaf_only _ _ _ _ Leaf R)].
      intros x v -> G. split; [|apply hget_app_l; exact G].
      right. exists v. split; [exact G|]. rewrite G0 in G. injection G as <-. congruence.
    + (* a directory child is copied *)
      destruct (He hc l' R ltac:(lia)) as [e1 [c' [E1 [_ R1]]]].
      assert (C1 : children_repr (fun _ => True) (hc ++ e1) cs es).
      { eapply children_repr_transfer; [|exact C]. intros x v _ G. split; [exact I|apply hget_app_l; exact G]. }
      destruct (IHes Ht cs (hc ++ e1) C1 ltac:(lia)) as [e2 [r [E2 R2]]].
      exists (e1 ++ e2), ((m, c') :: r). rewrite E1, E2, <- app_assoc. split; [reflexivity|].
      cbn. split; [reflexivity|]. rewrite app_assoc. split.
      * eapply reprP_transfer; [|exact R1]. intros x v Px G.
        split; [apply dpl_in_widen_l; exact Px|apply hget_app_l; exact G].
      * eapply children_repr_transfer; [|exact R2]. intros x v Px G.
        split; [apply dpl_in_widen_r; exact Px|exact G].
Qed.

Lemma alloc_repr_dpl : forall h c,
  dpl_in h [c] (List.length h) /\ hget (h ++ [c]) (List.length h) = Some c.
Proof. intros h c. destruct (alloc_repr_leaf h c) as [F G]. split; [left; exact F|exact G]. Qed.

Lemma copy_dpl_ok : forall e f, dpl_spec f e.
Proof.
  induction e as [es IH|b d|t| |m|es IH] using entry_nested_ind; intros f h l R D;
    (destruct f as [|f];
     [match type of D with depth_entry ?x <= 0 => pose proof (depth_entry_pos x); lia end|]);
    rewrite copy_dpl_f_S.
  - unfold repr in R. rewrite reprP_dir in R. destruct R as [_ [cs [G C]]]. rewrite G.
    rewrite depth_entry_dir in D.
    assert (IH' : Forall (fun ne => dpl_spec f (snd ne)) es).
    { rewrite Forall_forall in *. intros ne Hne. apply IH. exact Hne. }
    destruct (copy_dpl_list_ok f es IH' cs h C ltac:(lia)) as [ext [cs' [E R']]].
    rewrite E. unfold alloc. exists (ext ++ [CDir cs']), (List.length (h ++ ext)).
    rewrite app_assoc. split; [reflexivity|].
    split; [apply fresh_in_widen_r; apply alloc_repr_leaf|]. rewrite reprP_dir.
    destruct (alloc_repr_dpl (h ++ ext) (CDir cs')) as [F G'].
    split; [apply dpl_in_widen_r; exact F|]. exists cs'. split; [exact G'|].
    eapply children_repr_transfer; [|exact R']. intros x v Px Gx.
    split; [apply dpl_in_widen_l; exact Px|apply hget_app_l; exact Gx].
  - destruct R as [_ G]. rewrite G. exists [CFile b d], (List.length h).
    split; [reflexivity|]. split; [apply alloc_repr_leaf|apply alloc_repr_dpl].
  - destruct R as [_ G]. rewrite G. exists [CLink t], (List.length h).
    split; [reflexivity|]. split; [apply alloc_repr_leaf|apply alloc_repr_dpl].
  - destruct R as [_ G]. rewrite G. exists [CUntracked], (List.length h).
    split; [reflexivity|]. split; [apply alloc_repr_leaf|apply alloc_repr_dpl].
  - destruct R as [_ G]. rewrite G. exists [CProblem m], (List.length h).
    split; [reflexivity|]. split; [apply alloc_repr_leaf|apply alloc_repr_dpl].
  - unfold repr in R. rewrite reprP_phantom in R. destruct R as [_ [cs [G C]]]. rewrite G.
    rewrite depth_entry_phantom in D.
    assert (IH' : Forall (fun ne => dpl_spec f (snd ne)) es).
    { rewrite Forall_forall in *. intros ne Hne. apply IH. exact Hne. }
    destruct (copy_dpl_list_ok f es IH' cs h C ltac:(lia)) as [ext [cs' [E R']]].
    rewrite E. unfold alloc. exists (ext ++ [CPhantom cs']), (List.length (h ++ ext)).
    rewrite app_assoc. split; [reflexivity|].
    split; [apply fresh_in_widen_r; apply alloc_repr_leaf|]. rewrite reprP_phantom.
    destruct (alloc_repr_dpl (h ++ ext) (CPhantom cs')) as [F G'].
    split; [apply dpl_in_widen_r; exact F|]. exists cs'. split; [exact G'|].
    eapply children_repr_transfer; [|exact R']. intros x v Px Gx.
    split; [apply dpl_in_widen_l; exact Px|apply hget_app_l; exact Gx].
Qed.

(* ================================================================== *)
(* Mutations: what a step leaves alone                                 *)
(* ================================================================== *)

Lemma step_other : forall m h x v,
  x <> target m -> hget h x = Some v -> hget (step m h) x = Some v.
Proof.
  intros [l n c|l n|l tr|l c] h x v Hne G; cbn [target] in Hne; cbn [step].
  - destruct (hget h l) as [[cs| | | | |cs]|]; try exact G; cbn [alloc];
      rewrite hget_hset_other by exact Hne; apply hget_app_l; exact G.
  - destruct (hget h l) as [[cs| | | | |cs]|]; try exact G;
      rewrite hget_hset_other by exact Hne; exact G.
  - destruct (hget h l) as [[cs| | | | |cs]|]; try exact G.
    rewrite hget_hset_other by exact Hne. exact G.
  - destruct (hget h l); [|exact G]. rewrite hget_hset_other by exact Hne. exact G.
Qed.

(* the mutators of the code base do nothing to a leaf cell *)
Lemma step_listed_leaf : forall m h v,
  listed m = true -> hget h (target m) = Some v -> is_leaf_cell v = true -> step m h = h.
Proof.
  intros [l n c|l n|l tr|l c] h v L G Leaf; try discriminate L; cbn [target] in G; cbn [step];
    rewrite G; destruct v; try discriminate Leaf; reflexivity.
Qed.

Definition harmless (P : loc -> Prop) (h1 : heap) (m : mutation) : Prop :=
  ~ P (target m)
  \/ (listed m = true /\ exists v, hget h1 (target m) = Some v /\ is_leaf_cell v = true).

Lemma run_frame : forall (P : loc -> Prop) h1 ms hcur,
  (forall x v, P x -> hget h1 x = Some v -> hget hcur x = Some v) ->
  Forall (harmless P h1) ms ->
  forall x v, P x -> hget h1 x = Some v -> hget (run ms hcur) x = Some v.
Proof.
  intros P h1 ms. induction ms as [|m ms IH]; intros hcur Inv Hall x v Px G; [apply Inv; assumption|].
  inversion Hall as [|? ? Hm Hms]; subst. cbn [run fold_left]. fold (run ms (step m hcur)).
  apply IH; try assumption. clear x v Px G. intros x v Px G.
  destruct (Nat.eq_dec x (target m)) as [->|Hne].
  - destruct Hm as [Hn|[L [v0 [G0 Leaf]]]]; [contradiction|].
    rewrite (step_listed_leaf m hcur v0 L (Inv _ _ Px G0) Leaf). apply Inv; assumption.
  - apply step_other; [exact Hne|apply Inv; assumption].
Qed.

Theorem isolation : forall (P : loc -> Prop) h1 c e ms,
  reprP P h1 c e -> Forall (harmless P h1) ms -> reprP P (run ms h1) c e.
Proof.
  intros P h1 c e ms R Hall. eapply reprP_transfer; [|exact R].
  intros x v Px G. split; [exact Px|].
  apply (run_frame P h1 ms h1); auto.
Qed.

(* ================================================================== *)
(* The four copy behaviours: value, sharing, isolation                 *)
(* ================================================================== *)

Definition value_copy (b : copy_behavior) (e : entry) : entry :=
  match b with CopySlim => slim e | _ => e end.

Lemma value_copy_spec : forall b e, copy b (Some e) = Some (value_copy b e).
Proof. intros [| | |] e; reflexivity. Qed.

Lemma repr_same_cell : forall h h' l c e,
  repr h l e ->
  (forall v, hget h l = Some v -> hget h' c = Some v) ->
  (forall x v, hget h x = Some v -> hget h' x = Some v) ->
  repr h' c e.
Proof.
  intros h h' l c [es|b d|t| |m|es] R Hc Hext; unfold repr in *.
  - rewrite reprP_dir in *. destruct R as [_ [cs [G C]]]. split; [exact I|]. exists cs.
    split; [apply Hc; exact G|]. eapply children_repr_transfer; [|exact C]. intros x v _ Gx. auto.
  - destruct R as [_ G]. split; [exact I|apply Hc; exact G].
  - destruct R as [_ G]. split; [exact I|apply Hc; exact G].
  - destruct R as [_ G]. split; [exact I|apply Hc; exact G].
  - destruct R as [_ G]. split; [exact I|apply Hc; exact G].
  - rewrite reprP_phantom in *. destruct R as [_ [cs [G C]]]. split; [exact I|]. exists cs.
    split; [apply Hc; exact G|]. eapply children_repr_transfer; [|exact C]. intros x v _ Gx. auto.
Qed.

Lemma slim_repr : forall h l e v,
  repr h l e -> hget h l = Some v ->
  reprP (fun x => x = List.length h) (h ++ [slim_cell v]) (List.length h) (slim e).
Proof.
  intros h l [es|b d|t| |m|es] v R G; unfold repr in R.
  - rewrite reprP_dir in R. destruct R as [_ [cs [G' _]]]. rewrite G in G'. injection G' as ->.
    cbn [slim slim_cell]. rewrite reprP_dir. split; [reflexivity|]. exists [].
    split; [apply hget_app_len|exact I].
  - destruct R as [_ G']. rewrite G in G'. injection G' as ->. split; [reflexivity|apply hget_app_len].
  - destruct R as [_ G']. rewrite G in G'. injection G' as ->. split; [reflexivity|apply hget_app_len].
  - destruct R as [_ G']. rewrite G in G'. injection G' as ->. split; [reflexivity|apply hget_app_len].
  - destruct R as [_ G']. rewrite G in G'. injection G' as ->. split; [reflexivity|apply hget_app_len].
  - rewrite reprP_phantom in R. destruct R as [_ [cs [G' _]]]. rewrite G in G'. injection G' as ->.
    cbn [slim slim_cell]. rewrite reprP_phantom. split; [reflexivity|]. exists [].
    split; [apply hget_app_len|exact I].
Qed.

(* every behaviour returns a cell that represents the value-level copy, in a
   heap that only grew (so the original is still represented) *)
Theorem copy_value_heap : forall b h l e f,
  repr h l e -> depth_entry e <= f ->
  exists ext c, copy_heap b f h l = Some (h ++ ext, c)
                /\ repr (h ++ ext) c (value_copy b e)
                /\ repr (h ++ ext) l e
                /\ List.length h <= c.
Proof.
  intros b h l e f R D. destruct b; cbn [copy_heap value_copy].
  - destruct (copy_deep_ok e f h l R D) as [ext [c [E Rc]]]. exists ext, c.
    split; [exact E|]. split; [eapply reprP_repr; exact Rc|]. split; [apply repr_ext; exact R|].
    destruct e; [rewrite reprP_dir in Rc| | | | |rewrite reprP_phantom in Rc]; destruct Rc as [F _]; apply F.
  - destruct (copy_dpl_ok e f h l R D) as [ext [c [E [F Rc]]]]. exists ext, c.
    split; [exact E|]. split; [eapply reprP_repr; exact Rc|]. split; [apply repr_ext; exact R|].
    apply F.
  - destruct (repr_cell _ _ _ _ R) as [v [G _]]. unfold copy_shallow. rewrite G.
    exists [v], (List.length h). split; [reflexivity|].
    split; [|split; [apply repr_ext; exact R|lia]].
    apply (repr_same_cell h (h ++ [v]) l (List.length h) e R).
    + intros v' G'. rewrite G in G'. injection G' as <-. apply hget_app_len.
    + intros x v' G'. apply hget_app_l. exact G'.
  - destruct (repr_cell _ _ _ _ R) as [v [G _]]. unfold copy_slim. rewrite G.
    exists [slim_cell v], (List.length h). split; [reflexivity|].
    split; [|split; [apply repr_ext; exact R|lia]].
    eapply reprP_repr. eapply slim_repr; eassumption.
Qed.

(* ---------- Deep: isolated from every mutation of pre-existing cells ---------- *)

Theorem copy_isolated_deep : forall h l e f h1 c ms,
  repr h l e -> depth_entry e <= f ->
  copy_deep_f f h l = Some (h1, c) ->
  Forall (fun m => target m < List.length h \/ List.length h1 <= target m) ms ->
  repr (run ms h1) c e
  /\ forall g, depth_entry e <= g -> abs_f g (run ms h1) c = Some e.
Proof.
  intros h l e f h1 c ms R D E Hms.
  destruct (copy_deep_ok e f h l R D) as [ext [c' [E' Rc]]]. rewrite E in E'.
  injection E' as -> ->.
  assert (Ri : reprP (fresh_in h ext) (run ms (h ++ ext)) c' e).
  { apply isolation; [exact Rc|]. rewrite Forall_forall in *. intros m Hm. left.
    unfold fresh_in. specialize (Hms m Hm). lia. }
  split; [eapply reprP_repr; exact Ri|]. intros g Dg. eapply repr_abs_f; eassumption.
Qed.

(* ---------- DeepPreservingLeaves: isolated from the mutators of the code base ---------- *)

Theorem copy_isolated_dpl : forall h l e f h1 c ms,
  repr h l e -> depth_entry e <= f ->
  copy_dpl_f f h l = Some (h1, c) ->
  Forall (fun m => listed m = true /\ (target m < List.length h \/ List.length h1 <= target m)) ms ->
  repr (run ms h1) c e
  /\ forall g, depth_entry e <= g -> abs_f g (run ms h1) c = Some e.
Proof.
  intros h l e f h1 c ms R D E Hms.
  destruct (copy_dpl_ok e f h l R D) as [ext [c' [E' [_ Rc]]]]. rewrite E in E'.
  injection E' as -> ->.
  assert (Ri : reprP (dpl_in h ext) (run ms (h ++ ext)) c' e).
  { apply isolation; [exact Rc|]. rewrite Forall_forall in *. intros m Hm.
    destruct (Hms m Hm) as [L Ht]. unfold harmless.
    destruct (hget h (target m)) as [v|] eqn:G.
    - destruct (is_leaf_cell v) eqn:Leaf.
      + right. split; [exact L|]. exists v. split; [apply hget_app_l; exact G|exact Leaf].
      + left. intros [F|[v' [G' Leaf']]]; [unfold fresh_in in F; lia|]. congruence.
    - left. intros [F|[v' [G' _]]]; [unfold fresh_in in F; lia|]. congruence. }
  split; [eapply reprP_repr; exact Ri|]. intros g Dg. eapply repr_abs_f; eassumption.
Qed.

(* ---------- Shallow: a new cell, the same child pointers ---------- *)

Theorem shallow_shares : forall h l v h1 c,
  hget h l = Some v -> copy_shallow h l = Some (h1, c) ->
  c = List.length h /\ hget h1 c = Some v
  /\ forall ms, Forall (fun m => target m <> c) ms -> hget (run ms h1) c = Some v.
Proof.
  intros h l v h1 c G E. unfold copy_shallow in E. rewrite G in E. cbn [alloc] in E.
  injection E as <- <-. split; [reflexivity|]. split; [apply hget_app_len|].
  intros ms Hms.
  apply (run_frame (fun x => x = List.length h) (h ++ [v]) ms (h ++ [v])); auto.
  - rewrite Forall_forall in *. intros m Hm. left. apply Hms. exact Hm.
  - apply hget_app_len.
Qed.

(* what Shallow does not promise: a mutation below the original shows *)
Lemma shallow_not_isolated_example :
  let a := EDir [("a", EFile false "d1"); ("b", EDir [("c", ELink "t")])] in
  let ms := [MDel 2 "c"] in
  predict CopyShallow a ms = Some (EDir [("a", EFile false "d1"); ("b", EDir [])])
  /\ predict CopyDeep a ms = Some a
  /\ predict CopyDeepPreservingLeaves a ms = Some a.
Proof. vm_compute. repeat split; reflexivity. Qed.

(* ---------- Slim: a new cell without contents, isolated from everything else ---------- *)

Theorem slim_isolated : forall h l e h1 c ms,
  repr h l e -> copy_slim h l = Some (h1, c) ->
  Forall (fun m => target m <> c) ms ->
  repr (run ms h1) c (slim e)
  /\ forall g, 1 <= g -> abs_f g (run ms h1) c = Some (slim e).
Proof.
  intros h l e h1 c ms R E Hms. destruct (repr_cell _ _ _ _ R) as [v [G _]].
  unfold copy_slim in E. rewrite G in E. cbn [alloc] in E. injection E as <- <-.
  assert (Ri : reprP (fun x => x = List.length h) (run ms (h ++ [slim_cell v])) (List.length h) (slim e)).
  { apply isolation; [eapply slim_repr; eassumption|].
    rewrite Forall_forall in *. intros m Hm. left. apply Hms. exact Hm. }
  split; [eapply reprP_repr; exact Ri|]. intros g Dg. eapply repr_abs_f; [exact Ri|].
  destruct e; cbn; lia.
Qed.

(* ---------- Apply: no write-through after its DeepPreservingLeaves copy ---------- *)

Lemma children_repr_in : forall P h es cs n l',
  children_repr P h cs es -> In (n, l') cs -> exists e', reprP P h l' e'.
Proof.
  intros P h es. induction es as [|[m e'] es IH]; intros [|[k x] cs] n l' C Hin; cbn in C; try tauto.
  - destruct Hin.
  - destruct C as [_ [R C]]. destruct Hin as [[= -> ->]|Hin]; [exists e'; exact R|].
    eapply IH; eassumption.
Qed.

Lemma reprP_reach : forall P h l x,
  reach h l x -> forall e, reprP P h l e -> P x.
Proof.
  intros P h l x Hr. induction Hr as [l|l c0 n l' l'' G Hin Hr IH]; intros e R.
  - destruct e; [rewrite reprP_dir in R| | | | |rewrite reprP_phantom in R]; apply R.
  - assert (exists e', reprP P h l' e') as [e' R'].
    { destruct e as [es|b d|t| |m|es];
        [rewrite reprP_dir in R|destruct R as [_ G']|destruct R as [_ G']|destruct R as [_ G']
         |destruct R as [_ G']|rewrite reprP_phantom in R];
        try (rewrite G in G'; injection G' as ->; destruct Hin).
      - destruct R as [_ [cs [G' C]]]. rewrite G in G'. injection G' as ->.
        eapply children_repr_in; eassumption.
      - destruct R as [_ [cs [G' C]]]. rewrite G in G'. injection G' as ->.
        eapply children_repr_in; eassumption. }
    eapply IH. exact R'.
Qed.

Theorem apply_no_writethrough : forall h l e f h1 c,
  repr h l e -> depth_entry e <= f ->
  copy_dpl_f f h l = Some (h1, c) ->
  (* every directory cell reachable from the working copy is new *)
  (forall x v, reach h1 c x -> hget h1 x = Some v -> is_leaf_cell v = false -> List.length h <= x)
  (* hence the mutators of the code base, applied to cells of the working copy
     (or to cells allocated later), never change the base *)
  /\ (forall ms,
        Forall (fun m => listed m = true /\ (reach h1 c (target m) \/ List.length h <= target m)) ms ->
        repr (run ms h1) l e
        /\ forall g, depth_entry e <= g -> abs_f g (run ms h1) l = Some e).
Proof.
  intros h l e f h1 c R D E.
  destruct (copy_dpl_ok e f h l R D) as [ext [c' [E' [_ Rc]]]]. rewrite E in E'.
  injection E' as -> ->.
  assert (Fresh : forall x v, reach (h ++ ext) c' x -> hget (h ++ ext) x = Some v ->
                              is_leaf_cell v = false -> List.length h <= x).
  { intros x v Hr G Leaf. destruct (reprP_reach _ _ _ _ Hr e Rc) as [F|[v' [G' Leaf']]].
    - apply F.
    - rewrite (hget_app_l _ ext _ _ G') in G. congruence. }
  split; [exact Fresh|]. intros ms Hms.
  assert (Rb : reprP (fun x => x < List.length h) (h ++ ext) l e).
  { eapply reprP_transfer; [|exact (repr_bounded _ _ _ R)]. intros x v Px G.
    split; [exact Px|apply hget_app_l; exact G]. }
  assert (Ri : reprP (fun x => x < List.length h) (run ms (h ++ ext)) l e).
  { apply isolation; [exact Rb|]. rewrite Forall_forall in *. intros m Hm.
    destruct (Hms m Hm) as [L [Hr|Hge]]; [|left; lia].
    destruct (hget (h ++ ext) (target m)) as [v|] eqn:G.
    - destruct (is_leaf_cell v) eqn:Leaf.
      + right. split; [exact L|]. exists v. split; [exact G|exact Leaf].
      + left. pose proof (Fresh _ _ Hr G Leaf). lia.
    - left. intro Hlt. assert (K : target m < List.length (h ++ ext)) by (rewrite app_length; lia).
      apply nth_error_Some in K. unfold hget in G. congruence. }
  split; [eapply reprP_repr; exact Ri|]. intros g Dg. eapply repr_abs_f; eassumption.
Qed.

(* ---------- every tree can be built in the heap ---------- *)

Definition alloc_list :=
  fix go (h : heap) (es : list (name * entry)) : heap * list (name * loc) :=
    match es with
    | [] => (h, [])
    | (n, x) :: t =>
      let '(h1, l) := alloc_tree h x in
      let '(h2, r) := go h1 t in
      (h2, (n, l) :: r)
    end.

Lemma alloc_list_ok : forall es,
  Forall (fun ne => forall h, exists ext l, alloc_tree h (snd ne) = (h ++ ext, l)
                                            /\ repr (h ++ ext) l (snd ne)) es ->
  forall h, exists ext cs, alloc_list h es = (h ++ ext, cs)
                           /\ children_repr (fun _ => True) (h ++ ext) cs es.
Proof.
  induction es as [|[n e] es IHes]; intros IH h.
  - exists [], []. rewrite app_nil_r. split; [reflexivity|exact I].
  - inversion IH as [|? ? He Ht]; subst. cbn [snd] in He.
    destruct (He h) as [e1 [l [E1 R1]]]. destruct (IHes Ht (h ++ e1)) as [e2 [cs [E2 R2]]].
    exists (e1 ++ e2), ((n, l) :: cs). cbn [alloc_list]. rewrite E1. fold alloc_list. rewrite E2.
    rewrite <- app_assoc. split; [reflexivity|]. cbn. split; [reflexivity|]. rewrite app_assoc.
    split; [apply repr_ext; exact R1|exact R2].
Qed.

Theorem alloc_tree_ok : forall e h,
  exists ext l, alloc_tree h e = (h ++ ext, l) /\ repr (h ++ ext) l e.
Proof.
  induction e as [es IH|b d|t| |m|es IH] using entry_nested_ind; intro h.
  - destruct (alloc_list_ok es IH h) as [ext [cs [E R]]].
    exists (ext ++ [CDir cs]), (List.length (h ++ ext)).
    change (alloc_tree h (EDir es)) with (let '(h1, cs) := alloc_list h es in alloc h1 (CDir cs)).
    rewrite E. unfold alloc. rewrite app_assoc. split; [reflexivity|].
    unfold repr. rewrite reprP_dir. split; [exact I|]. exists cs. split; [apply hget_app_len|].
    eapply children_repr_transfer; [|exact R]. intros x v _ G. split; [exact I|apply hget_app_l; exact G].
  - exists [CFile b d], (List.length h). split; [reflexivity|]. split; [exact I|apply hget_app_len].
  - exists [CLink t], (List.length h). split; [reflexivity|]. split; [exact I|apply hget_app_len].
  - exists [CUntracked], (List.length h). split; [reflexivity|]. split; [exact I|apply hget_app_len].
  - exists [CProblem m], (List.length h). split; [reflexivity|]. split; [exact I|apply hget_app_len].
  - destruct (alloc_list_ok es IH h) as [ext [cs [E R]]].
    exists (ext ++ [CPhantom cs]), (List.length (h ++ ext)).
    change (alloc_tree h (EPhantom es)) with (let '(h1, cs) := alloc_list h es in alloc h1 (CPhantom cs)).
    rewrite E. unfold alloc. rewrite app_assoc. split; [reflexivity|].
    unfold repr. rewrite reprP_phantom. split; [exact I|]. exists cs. split; [apply hget_app_len|].
    eapply children_repr_transfer; [|exact R]. intros x v _ G. split; [exact I|apply hget_app_l; exact G].
Qed.

(* non-vacuity / illustration: one original, one mutation sequence, all four
   behaviours *)
Lemma heap_example :
  let a := EDir [("a", EFile false "d1"); ("b", EDir [("c", ELink "t")]); ("p", EPhantom [])] in
  let ms := [MDel 2 "c"; MScribble 0 (CProblem "mutated"); MSetLeaf 4 "z" (CFile true "m");
             MReify 3 false] in
  predict CopyDeep a ms = Some a
  /\ predict CopyDeepPreservingLeaves a ms
     = Some (EDir [("a", EProblem "mutated"); ("b", EDir [("c", ELink "t")]); ("p", EPhantom [])])
  /\ predict CopyShallow a ms
     = Some (EDir [("a", EProblem "mutated"); ("b", EDir []); ("p", EUntracked)])
  /\ predict CopySlim a ms = Some (EDir []).
Proof. vm_compute. repeat split; reflexivity. Qed.
