(* C15: the pieces put together (walk equivalence + reification). *)
From Coq Require Import List Bool Arith String Ascii Lia.
Import ListNotations.
From Mv Require Import Model.Entry Model.IgnoreScan Model.IgnoreDocker.
From Mv Require Import Proof.EntryFacts Proof.IgnoreScan Proof.ScanWf Proof.IgnoreDocker Proof.Phantom.
Open Scope list_scope.

Section Main.
Variable P : Type.
Variable excl : P -> bool.
Variable ptext : P -> string.
Variable m : P -> rpath -> bool.

(* One endpoint, any ancestor: scan with the Docker-style ignorer, then
   reify. Outside the known class the synchronized files and links are exactly
   Docker's, no phantom directory is left, and the result is the declarative
   reification of the raw snapshot. *)
Theorem equiv_partial pats root anc :
  wf_fnode root = true ->
  (forall v f, In (v, f) (fnodes [] root) -> known_C15 excl m pats v = false) ->
  let snap := snapshot (dock_ignorer excl ptext m pats) root in
  let r := reify anc (Some snap) None in
  r_oof r = false
  /\ r_a r = Some (reify_spec anc snap)
  /\ leaves (reify_spec anc snap) = docker_leaves excl ptext m pats root
  /\ phantom_free (reify_spec anc snap) = true
  /\ r_ca r = dir_count (reify_spec anc snap).
Proof.
  intros Hw Hfree snap r.
  assert (Hr : r = one_sided anc snap).
  { unfold r. apply reify_one_sided_top. apply snapshot_wf. exact Hw. }
  rewrite Hr. cbn [one_sided r_oof r_a r_ca]. repeat split.
  - rewrite leaves_leaves_at, reify_keeps_leaves, <- leaves_leaves_at.
    apply leaves_equal. exact Hfree.
  - apply reify_phantom_free.
Qed.

(* An excluded directory that the walk enters is a phantom directory in the
   raw snapshot; an included one is a directory. *)
Theorem phantom_iff_excluded pats root :
  (forall v f, In (v, f) (fnodes [] root) -> known_C15 excl m pats v = false) ->
  forall q e, In (q, e) (entries [] (snapshot (dock_ignorer excl ptext m pats) root)) ->
    match e with
    | EPhantom _ => docker_excluded excl m pats q = true
    | EDir _ => docker_excluded excl m pats q = false
    | _ => True
    end.
Proof.
  intros Hfree q e Hin. unfold snapshot, scan in Hin.
  apply (dir_kinds_agree P excl ptext m pats root [] false); [symmetry; apply docker_excluded_root|exact Hfree|exact Hin].
Qed.
End Main.

(* ... and such a phantom directory is synchronized only if it holds tracked
   content or the ancestor has a directory there *)
Theorem excluded_directory_rule anc c :
  (Live anc (EPhantom c) -> reify_spec anc (EPhantom c) = EDir (reify_list anc c))
  /\ (~ Live anc (EPhantom c) -> reify_spec anc (EPhantom c) = EUntracked)
  /\ (Live anc (EPhantom c) <->
      is_edir anc = true \/ exists n x, In (n, x) c /\ Live (lookup n (contents anc)) x).
Proof.
  rewrite reify_spec_phantom. repeat split.
  - intros H. apply live_iff in H. rewrite H. reflexivity.
  - intros H. destruct (live anc (EPhantom c)) eqn:E; [|reflexivity].
    exfalso. apply H. apply live_iff. exact E.
  - intros H. inversion H as [| | | |a0 c0 Hd|a0 c0 n x Hin Hl]; subst; [left; exact Hd|right; eauto].
  - intros [H|(n & x & Hin & Hl)]; [apply Live_was_dir; exact H|eapply Live_child; eassumption].
Qed.

(* ---------- the two witnesses of DESIGN section 9 ---------- *)
Definition w1_pats : list dpat :=
  [ {| dexcl := true;  dtext := "a/b"; dhits := [rp_of "a/b"] |};
    {| dexcl := false; dtext := "a";   dhits := [rp_of "a"] |} ]%string.
Definition w1_tree : fnode :=
  FDir [("a", FDir [("b", FDir [("f", FFile "d")])])]%string.

Definition w2_pats : list dpat :=
  [ {| dexcl := false; dtext := "a/b"; dhits := [rp_of "a/b"] |};
    {| dexcl := true;  dtext := "a";   dhits := [rp_of "a"] |} ]%string.
Definition w2_tree : fnode :=
  FDir [("a", FDir [("b", FFile "d")])]%string.

Definition mutagen_leaves (pats : list dpat) (tree : fnode) : list (rpath * entry) :=
  match r_a (reify None (Some (snapshot (dock_ignorer dexcl dtext dmatch pats) tree)) None) with
  | Some e => leaves e
  | None => []
  end.

Lemma refuted_witnesses :
  (* ["!a/b"; "a"], file a/b/f: Docker excludes it, Mutagen synchronizes it *)
  (known_C15 dexcl dmatch w1_pats (rp_of "a/b/f") = true
   /\ docker_leaves dexcl dtext dmatch w1_pats w1_tree = []
   /\ mutagen_leaves w1_pats w1_tree = [(rp_of "a/b/f", EFile false "d")])
  (* ["a/b"; "!a"], file a/b: Docker includes it, Mutagen ignores it *)
  /\ (known_C15 dexcl dmatch w2_pats (rp_of "a/b") = true
      /\ docker_leaves dexcl dtext dmatch w2_pats w2_tree = [(rp_of "a/b", EFile false "d")]
      /\ mutagen_leaves w2_pats w2_tree = []).
Proof. vm_compute. repeat split. Qed.

(* non-vacuity: a class-free list with re-inclusion below an excluded
   directory, where the phantom machinery is exercised *)
Definition ex_pats : list dpat :=
  [ {| dexcl := false; dtext := "a";     dhits := [rp_of "a"] |};
    {| dexcl := true;  dtext := "a/b/f"; dhits := [rp_of "a/b/f"] |} ]%string.
Definition ex_tree : fnode :=
  FDir [("a", FDir [("b", FDir [("f", FFile "d"); ("g", FFile "e")]); ("c", FDir [("h", FFile "k")])]);
        ("z", FFile "y")]%string.

Lemma example_class_free :
  wf_fnode ex_tree = true
  /\ forallb (fun vf => negb (known_C15 dexcl dmatch ex_pats (fst vf))) (fnodes [] ex_tree) = true
  /\ docker_leaves dexcl dtext dmatch ex_pats ex_tree
     = [(rp_of "a/b/f", EFile false "d"); (rp_of "z", EFile false "y")]
  /\ snapshot (dock_ignorer dexcl dtext dmatch ex_pats) ex_tree
     = EDir [("a", EPhantom [("b", EPhantom [("f", EFile false "d"); ("g", EUntracked)]);
                             ("c", EUntracked)]);
             ("z", EFile false "y")]%string
  /\ mutagen_leaves ex_pats ex_tree
     = [(rp_of "a/b/f", EFile false "d"); (rp_of "z", EFile false "y")].
Proof. vm_compute. repeat split. Qed.
