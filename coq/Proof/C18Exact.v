(* C18, part 4: the class known_C18 is exact on the model: inside the class
   the plan really installs a different bit on P (so known_C18 is neither a
   blanket excuse nor wider than the failure). *)
From Coq Require Import List Bool Arith String Lia.
Import ListNotations.
From Mv Require Import Model.Entry Model.Reconcile Model.C04Cycle Model.Exec
  Proof.EntryFacts Proof.C07 Proof.C04Apply Proof.C04Fix Proof.C04Main Proof.C04Conv
  Proof.C18Exec Proof.C18Leaf Proof.C18Main.
Close Scope string_scope.
Open Scope list_scope.

(* at a leaf in the class the plan for (ancestor, N1, P) replaces P by N1 *)
Lemma leaf_flip : forall m anc xp dp xn dn,
  let P := Some (EFile xp dp) in
  let N1 := Some (EFile (rule_bit anc P xn dn) dn) in
  flips_at m true anc P (Some (EFile xn dn)) = true ->
  In (mk [] P N1) (beta_ch (reconcile_at m [] anc N1 P))
  /\ rule_bit anc P xn dn <> xp.
Proof.
  intros m anc xp dp xn dn. cbv zeta.
  rewrite leaf_reconcile, leaf_dispatch.
  unfold flips_at, rule_bit, leaf_conflict;
    destruct anc as [[c|xa da|tg| |msg|c]|];
    cbn [file_with same_file_digest exec_of oshallow_eqb shallow_eqb andb negb];
    str_cases;
    destruct m; destruct xp; destruct xn;
    try (destruct xa); cbn; intro H; try discriminate H; split; auto; discriminate.
Qed.

(* the changes of the plan at a (file, file) path occur, prefixed, in the
   plan of the whole trees *)
Section Global.
  Variable proj : plan -> list change.
  Hypothesis proj_step : forall m anc ca cb,
    proj (reconcile_at m [] anc (Some (EDir ca)) (Some (EDir cb)))
    = flat_map (fun n => map (pre [n])
                           (proj (reconcile_at m [] (lookup n (anc_contents anc (Some (EDir ca))))
                                               (lookup n ca) (lookup n cb))))
               (name_union [anc_contents anc (Some (EDir ca)); ca; cb]).

  Lemma changes_global : forall q m anc a b ch0,
    wf true anc = true -> wf false a = true -> wf false b = true ->
    phantom_free a = true -> phantom_free b = true ->
    is_file (at_path a q) = true -> is_file (at_path b q) = true ->
    In ch0 (proj (reconcile_at m [] (at_path anc q) (at_path a q) (at_path b q))) ->
    In (pre q ch0) (proj (reconcile_at m [] anc a b)).
  Proof.
    induction q as [|n rest IH]; intros m anc a b ch0 Wc Wa Wb Pa Pb Fa Fb Hin.
    - destruct ch0 as [p o v]. exact Hin.
    - destruct (file_below_dir a n rest Fa Pa) as [ca ->].
      destruct (file_below_dir b n rest Fb Pb) as [cb ->].
      rewrite proj_step, (anc_contents_dir anc ca Wc). apply in_flat_map. exists n. split.
      + apply name_union_in3. right. left. apply lookup_in_keys.
        cbn [at_path contents] in Fa. destruct (lookup n ca); [discriminate|].
        rewrite at_path_none in Fa. discriminate Fa.
      + replace (pre (n :: rest) ch0) with (pre [n] (pre rest ch0))
          by (destruct ch0; reflexivity).
        apply in_map. cbn [at_path contents] in *.
        apply IH; try assumption.
        * apply wf_lookup. exact Wc.
        * apply (wf_lookup false (Some (EDir ca)) n Wa).
        * apply (wf_lookup false (Some (EDir cb)) n Wb).
        * apply (phantom_free_lookup (Some (EDir ca)) n Pa).
        * apply (phantom_free_lookup (Some (EDir cb)) n Pb).
  Qed.
End Global.

Lemma beta_changes_global : forall q m anc a b ch0,
  wf true anc = true -> wf false a = true -> wf false b = true ->
  phantom_free a = true -> phantom_free b = true ->
  is_file (at_path a q) = true -> is_file (at_path b q) = true ->
  In ch0 (beta_ch (reconcile_at m [] (at_path anc q) (at_path a q) (at_path b q))) ->
  In (pre q ch0) (beta_ch (reconcile_at m [] anc a b)).
Proof. apply (changes_global beta_ch). intros. apply step_beta. Qed.

Lemma flips_inv : forall m na a p n,
  flips_at m na a p n = true ->
  na = true /\ exists xp dp xn dn, p = Some (EFile xp dp) /\ n = Some (EFile xn dn).
Proof.
  intros m na a [[ |xp dp| | | | ]|] [[ |xn dn| | | | ]|] H; try discriminate H.
  unfold flips_at in H. destruct na; [|discriminate H].
  split; [reflexivity|]. exists xp, dp, xn, dn. split; reflexivity.
Qed.

Theorem class_exact_model : forall i,
  wf_c18_core i -> known_C18 i = true ->
  ~ bit_stable (x_n_alpha i) (x_p i) (x_n i) (snd (c18_plan i)).
Proof.
  intros [m na anc p n] [Wc [Wp [Wn [Pp Pn]]]] K B. cbn [x_mode x_n_alpha x_anc x_p x_n] in *.
  unfold known_C18 in K. cbn [x_mode x_n_alpha x_anc x_p x_n] in K.
  apply existsb_exists in K. destruct K as [q [_ F]].
  destruct (flips_inv _ _ _ _ _ F) as [-> [xp [dp [xn [dn [Ep En]]]]]].
  rewrite Ep, En in F.
  destruct (leaf_flip m (at_path anc q) xp dp xn dn F) as [Hin Hne].
  pose proof (sources_at q anc p n xn dn Pn En) as E1. rewrite Ep in E1.
  pose proof (propagate_wf anc p n Wn) as W1.
  pose proof (propagate_pf anc p n Pn) as P1.
  set (x1 := rule_bit (at_path anc q) (Some (EFile xp dp)) xn dn) in *.
  assert (Hg : In (pre q (mk [] (Some (EFile xp dp)) (Some (EFile x1 dn))))
                  (beta_ch (reconcile_at m [] anc (propagate_exec anc p n) p))).
  { apply beta_changes_global; try assumption.
    - rewrite E1. reflexivity.
    - rewrite Ep. reflexivity.
    - rewrite E1, Ep. exact Hin. }
  unfold c18_plan in B. cbn [x_mode x_n_alpha x_anc x_p x_n sides snd p_changes] in B.
  rewrite reconcile_at_root in B.
  apply Hne.
  apply (B _ [] xp dp xn dn x1 dn Hg); cbn [pre cpath cnew mk at_path]; rewrite ?app_nil_r; assumption || reflexivity.
Qed.
