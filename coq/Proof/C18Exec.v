(* C18, part 1: facts about the model of PropagateExecutability
   (Model/Exec.v): what it does at a path (c18_sources), that it only changes
   bits (well-formedness, phantom-freeness, the checker's relation). *)
From Coq Require Import List Bool Arith String Lia.
Import ListNotations.
From Mv Require Import Model.Entry Model.Reconcile Model.C04Cycle Model.Exec
  Proof.EntryFacts Proof.C07 Proof.C04Fix.
Close Scope string_scope.
Open Scope list_scope.

(* ---------- top-level name for the local fix ---------- *)
Definition prop_list (anc src : oentry) : list (name * entry) -> list (name * entry) :=
  fix go (l : list (name * entry)) : list (name * entry) :=
    match l with
    | [] => []
    | (n, x) :: r =>
      (n, prop_exec_entry (lookup n (contents anc)) (lookup n (contents src)) x) :: go r
    end.

Lemma prop_exec_dir : forall anc src c,
  prop_exec_entry anc src (EDir c) =
  match anc, src with
  | None, None => EDir c
  | _, _ => match contents src, contents anc with
            | [], [] => EDir c
            | _, _ => EDir (prop_list anc src c)
            end
  end.
Proof. intros [a|] [s|] c; reflexivity. Qed.

Lemma prop_exec_file : forall anc src x d,
  prop_exec_entry anc src (EFile x d) = EFile (rule_bit anc src x d) d.
Proof.
  intros [a|] [s|] x d; reflexivity.
Qed.

Lemma prop_list_keys : forall anc src c, map fst (prop_list anc src c) = map fst c.
Proof.
  intros anc src c. induction c as [|[n x] t IH]; [reflexivity|].
  cbn [prop_list map fst]. fold (prop_list anc src t). rewrite IH. reflexivity.
Qed.

Lemma prop_list_lookup : forall anc src c n,
  lookup n (prop_list anc src c)
  = option_map (prop_exec_entry (lookup n (contents anc)) (lookup n (contents src))) (lookup n c).
Proof.
  intros anc src c n. induction c as [|[k x] t IH]; [reflexivity|].
  cbn [prop_list lookup]. fold (prop_list anc src t).
  destruct (String.eqb n k) eqn:E; [|exact IH].
  apply str_eqb_eq in E. subst k. reflexivity.
Qed.

(* with neither an ancestor nor a source nothing changes *)
Lemma prop_exec_none : forall t, prop_exec_entry None None t = t.
Proof. intros []; reflexivity. Qed.

Lemma prop_list_none : forall c, prop_list None None c = c.
Proof.
  induction c as [|[n x] t IH]; [reflexivity|].
  cbn [prop_list contents lookup]. fold (prop_list None None t).
  rewrite IH, prop_exec_none. reflexivity.
Qed.

(* the directory case without the two early returns *)
Lemma prop_list_nil : forall anc src c,
  contents src = [] -> contents anc = [] -> prop_list anc src c = c.
Proof.
  intros anc src c Hs Ha. induction c as [|[n x] t IH]; [reflexivity|].
  cbn [prop_list]. fold (prop_list anc src t). rewrite IH, Hs, Ha. cbn [lookup].
  rewrite prop_exec_none. reflexivity.
Qed.

Lemma prop_exec_dir_uniform : forall anc src c,
  prop_exec_entry anc src (EDir c) = EDir (prop_list anc src c).
Proof.
  intros anc src c. rewrite prop_exec_dir.
  destruct (contents src) eqn:Es; [destruct (contents anc) eqn:Ea|].
  - rewrite (prop_list_nil anc src c Es Ea). destruct anc, src; reflexivity.
  - destruct anc, src; try reflexivity. discriminate Ea.
  - destruct anc, src; try reflexivity. discriminate Es.
Qed.

(* ================================================================== *)
(* c18_sources                                                         *)
(* ================================================================== *)

Lemma rule_bit_none : forall x d, rule_bit None None x d = x.
Proof. reflexivity. Qed.

Lemma sources_at : forall p anc src n xn dn,
  phantom_free n = true ->
  at_path n p = Some (EFile xn dn) ->
  at_path (propagate_exec anc src n) p
  = Some (EFile (rule_bit (at_path anc p) (at_path src p) xn dn) dn).
Proof.
  induction p as [|k r IH]; intros anc src n xn dn PF H.
  - cbn [at_path] in *. subst n. cbn [propagate_exec option_map]. rewrite prop_exec_file. reflexivity.
  - cbn [at_path] in H.
    destruct n as [[c| | | | |c]|]; cbn [contents lookup] in H;
      try (rewrite at_path_none in H; discriminate H); try discriminate PF.
    cbn [propagate_exec option_map]. rewrite prop_exec_dir_uniform.
    cbn [at_path contents]. rewrite prop_list_lookup.
    destruct (lookup k c) as [x|] eqn:E; [|rewrite at_path_none in H; discriminate H].
    cbn [option_map].
    apply (IH (lookup k (contents anc)) (lookup k (contents src)) (Some x) xn dn).
    + pose proof (phantom_free_lookup (Some (EDir c)) k PF) as Q.
      cbn [contents] in Q. rewrite E in Q. exact Q.
    + exact H.
Qed.

(* ================================================================== *)
(* propagation only changes bits                                       *)
(* ================================================================== *)

Lemma prop_exec_wf : forall t anc src,
  wf_entry false t = true -> wf_entry false (prop_exec_entry anc src t) = true.
Proof.
  induction t as [c IH|x d|tg| |msg|c IH] using entry_nested_ind; intros anc src W;
    try (destruct anc, src; exact W).
  - rewrite prop_exec_dir_uniform. rewrite wf_entry_dir in *.
    apply andb_true_iff in W. destruct W as [Wl Ws].
    rewrite prop_list_keys, Ws, andb_true_r.
    revert IH Wl. clear. induction c as [|[n x] t IHc]; intros IH Wl; [reflexivity|].
    cbn [prop_list]. fold (prop_list anc src t). unfold wf_list in *. cbn [forallb fst snd] in *.
    apply andb_true_iff in Wl. destruct Wl as [Wh Wt].
    apply andb_true_iff in Wh. destruct Wh as [Wn Wx].
    inversion IH as [|? ? Hx Ht]; subst. cbn [snd] in Hx.
    rewrite Wn, (Hx _ _ Wx). cbn [andb]. apply IHc; assumption.
Qed.

Lemma propagate_wf : forall anc src n,
  wf false n = true -> wf false (propagate_exec anc src n) = true.
Proof. intros anc src [t|] W; [apply prop_exec_wf; exact W|reflexivity]. Qed.

Lemma prop_exec_pf : forall t anc src,
  phantom_free_entry t = true -> phantom_free_entry (prop_exec_entry anc src t) = true.
Proof.
  induction t as [c IH|x d|tg| |msg|c IH] using entry_nested_ind; intros anc src W;
    try (destruct anc, src; exact W).
  - rewrite prop_exec_dir_uniform. rewrite phantom_free_dir in *.
    revert IH W. clear. induction c as [|[n x] t IHc]; intros IH W; [reflexivity|].
    cbn [prop_list]. fold (prop_list anc src t). unfold pf_list in *. cbn [forallb snd] in *.
    apply andb_true_iff in W. destruct W as [Wx Wt].
    inversion IH as [|? ? Hx Ht]; subst. cbn [snd] in Hx.
    rewrite (Hx _ _ Wx). cbn [andb]. apply IHc; assumption.
Qed.

Lemma propagate_pf : forall anc src n,
  phantom_free n = true -> phantom_free (propagate_exec anc src n) = true.
Proof. intros anc src [t|] W; [apply prop_exec_pf; exact W|reflexivity]. Qed.

(* ================================================================== *)
(* the checker's relation                                              *)
(* ================================================================== *)

Definition sbb_list (anc p : oentry) : list (name * entry) -> list (name * entry) -> bool :=
  fix go (l l1 : list (name * entry)) : bool :=
    match l, l1 with
    | [], [] => true
    | (k, x) :: t, (k1, x1) :: t1 =>
      String.eqb k k1
      && same_but_bits (lookup k (contents anc)) (lookup k (contents p)) x x1
      && go t t1
    | _, _ => false
    end.

Lemma same_but_bits_dir : forall anc p c c1,
  same_but_bits anc p (EDir c) (EDir c1) = sbb_list anc p c c1.
Proof. reflexivity. Qed.

Lemma rule_bit_justified : forall anc p xn dn,
  bit_justified anc p xn dn (rule_bit anc p xn dn) = true.
Proof.
  intros anc p xn dn. unfold bit_justified, rule_bit.
  destruct (file_with p dn); [rewrite eqb_reflx; cbn; rewrite !orb_true_r; reflexivity|].
  destruct (file_with anc dn); [rewrite eqb_reflx; cbn; rewrite !orb_true_r; reflexivity|].
  destruct (same_file_digest p anc); [rewrite eqb_reflx; cbn; rewrite !orb_true_r; reflexivity|].
  rewrite eqb_reflx. reflexivity.
Qed.

(* the model's propagation satisfies the relation *)
Lemma prop_exec_same_but_bits : forall t anc p,
  same_but_bits anc p t (prop_exec_entry anc p t) = true.
Proof.
  induction t as [c IH|x d|tg| |msg|c IH] using entry_nested_ind; intros anc p;
    try (destruct anc, p; cbn [prop_exec_entry same_but_bits]; apply entry_eqb_refl).
  - rewrite prop_exec_dir_uniform, same_but_bits_dir.
    revert IH. clear. induction c as [|[n x] t IHc]; intro IH; [reflexivity|].
    cbn [prop_list sbb_list]. fold (prop_list anc p t). fold (sbb_list anc p).
    inversion IH as [|? ? Hx Ht]; subst. cbn [snd] in Hx.
    rewrite str_eqb_refl, Hx. cbn [andb]. apply IHc. exact Ht.
  - rewrite prop_exec_file. cbn [same_but_bits]. rewrite str_eqb_refl. apply rule_bit_justified.
Qed.

(* what the relation means at a path *)
Definition sources_ok (anc p n n1 : oentry) : Prop :=
  forall q xn dn, at_path n q = Some (EFile xn dn) ->
    exists x1, at_path n1 q = Some (EFile x1 dn)
               /\ bit_justified (at_path anc q) (at_path p q) xn dn x1 = true.

Lemma sbb_list_lookup : forall anc p c c1 k x,
  sbb_list anc p c c1 = true -> lookup k c = Some x ->
  exists x1, lookup k c1 = Some x1
             /\ same_but_bits (lookup k (contents anc)) (lookup k (contents p)) x x1 = true.
Proof.
  intros anc p. induction c as [|[n y] t IH]; intros c1 k x H L; [discriminate L|].
  destruct c1 as [|[n1 y1] t1]; [discriminate H|].
  cbn [sbb_list] in H. fold (sbb_list anc p) in H.
  apply andb_true_iff in H. destruct H as [H Ht].
  apply andb_true_iff in H. destruct H as [Hn Hy].
  apply str_eqb_eq in Hn. subst n1. cbn [lookup] in *.
  destruct (String.eqb k n) eqn:E.
  - apply str_eqb_eq in E. subst k. injection L as <-. exists y1. split; [reflexivity|exact Hy].
  - apply (IH t1 k x Ht L).
Qed.

Lemma same_but_bits_sound : forall q anc p t t1 xn dn,
  same_but_bits anc p t t1 = true ->
  at_path (Some t) q = Some (EFile xn dn) ->
  exists x1, at_path (Some t1) q = Some (EFile x1 dn)
             /\ bit_justified (at_path anc q) (at_path p q) xn dn x1 = true.
Proof.
  induction q as [|k r IH]; intros anc p t t1 xn dn H A.
  - cbn [at_path] in *. injection A as ->.
    destruct t1; cbn [same_but_bits] in H; try discriminate H.
    apply andb_true_iff in H. destruct H as [Hd Hj]. apply str_eqb_eq in Hd. subst.
    eexists. split; [reflexivity|exact Hj].
  - cbn [at_path] in A.
    destruct t as [c|x d|tg| |msg|c]; cbn [contents lookup] in A;
      try (rewrite at_path_none in A; discriminate A).
    + destruct t1 as [c1| | | | |?]; cbn [same_but_bits] in H; try discriminate H.
      fold (sbb_list anc p) in H.
      destruct (lookup k c) as [x|] eqn:E; [|rewrite at_path_none in A; discriminate A].
      destruct (sbb_list_lookup anc p c c1 k x H E) as [x1 [E1 Hx]].
      cbn [at_path contents]. rewrite E1.
      apply (IH (lookup k (contents anc)) (lookup k (contents p)) x x1 xn dn Hx A).
    + (* a phantom directory is compared by equality *)
      cbn [same_but_bits] in H. apply entry_eqb_eq in H. subst t1.
      exists xn. split; [cbn [at_path contents]; exact A|].
      unfold bit_justified. rewrite eqb_reflx. reflexivity.
Qed.

Lemma osame_but_bits_sound : forall anc p n n1,
  osame_but_bits anc p n n1 = true -> sources_ok anc p n n1.
Proof.
  intros anc p [t|] [t1|] H q xn dn A; try discriminate H.
  - apply (same_but_bits_sound q anc p t t1 xn dn H A).
  - rewrite at_path_none in A. discriminate A.
Qed.

Lemma propagate_same_but_bits : forall anc p n,
  osame_but_bits anc p n (propagate_exec anc p n) = true.
Proof. intros anc p [t|]; [apply prop_exec_same_but_bits|reflexivity]. Qed.
