(* C18, part 2: reconcile at a path where both sides hold a file.
   - closed form of the plan for (ancestor, file, file);
   - the changes of a plan that concern such a path are exactly the changes
     of the plan for the three entries at that path (localization);
   - the bit carried by a change for P at such a path. *)
From Coq Require Import List Bool Arith String Lia.
Import ListNotations.
From Mv Require Import Model.Entry Model.Reconcile Model.C04Cycle Model.Exec
  Proof.EntryFacts Proof.C07 Proof.C04Apply Proof.C04Fix Proof.C04Main Proof.C18Exec.
Close Scope string_scope.
Open Scope list_scope.

(* ================================================================== *)
(* 1. closed form at a (file, file) leaf                               *)
(* ================================================================== *)

Lemma diff_file : forall anc x d,
  diff [] anc (Some (EFile x d))
  = if oshallow_eqb (Some (EFile x d)) anc then [] else [mk [] anc (Some (EFile x d))].
Proof.
  intros anc x d. rewrite diff_unfold.
  destruct (oshallow_eqb (Some (EFile x d)) anc) eqn:E; cbn [negb]; [|reflexivity].
  destruct anc as [[?|? ?|?| |?|?]|]; try discriminate E. reflexivity.
Qed.

Definition leaf_conflict (anc fa fb : oentry) : plan :=
  p_conflict (mkc [] [mk [] anc fa] [mk [] anc fb]).

Lemma leaf_dispatch : forall m anc xa da xb db,
  let fa := Some (EFile xa da) in
  let fb := Some (EFile xb db) in
  let ea := oshallow_eqb fa anc in
  let eb := oshallow_eqb fb anc in
  dispatch m [] anc fa fb =
  match m with
  | TwoWaySafe =>
    if eb then p_beta (mk [] anc fa) else if ea then p_alpha (mk [] anc fb)
    else leaf_conflict anc fa fb
  | TwoWayResolved =>
    if eb then p_beta (mk [] anc fa) else if ea then p_alpha (mk [] anc fb)
    else p_beta (mk [] fb fa)
  | OneWaySafe => if eb then p_beta (mk [] fb fa) else leaf_conflict anc fa fb
  | OneWayReplica => p_beta (mk [] fb fa)
  end.
Proof.
  intros m anc xa da xb db. cbv zeta.
  unfold dispatch, handle_bidirectional, handle_one_way_safe, handle_one_way_replica.
  cbv zeta. cbn [synchronizable sync_entry]. rewrite !diff_self, !diff_file.
  destruct (oshallow_eqb (Some (EFile xa da)) anc), (oshallow_eqb (Some (EFile xb db)) anc);
    destruct m; reflexivity.
Qed.

Lemma leaf_reconcile : forall m anc xa da xb db,
  let fa := Some (EFile xa da) in
  let fb := Some (EFile xb db) in
  reconcile_at m [] anc fa fb =
  if oshallow_eqb fa fb
  then (if negb (oshallow_eqb anc fa) then p_anc (mk [] None fa) else empty_plan)
  else dispatch m [] anc fa fb.
Proof.
  intros m anc xa da xb db. cbv zeta.
  destruct (oshallow_eqb (Some (EFile xa da)) (Some (EFile xb db))) eqn:E.
  - rewrite reconcile_root_rec by (try reflexivity; exact E).
    cbn [contents oslim option_map slim]. unfold anc_contents.
    destruct (oshallow_eqb anc (Some (EFile xa da))) eqn:Ea; cbn [negb].
    + destruct anc as [[?|? ?|?| |?|?]|]; try discriminate Ea. reflexivity.
    + reflexivity.
  - apply reconcile_dispatch; try reflexivity. exact E.
Qed.

(* ================================================================== *)
(* 2. the bit carried by a change for P at a leaf                      *)
(* ================================================================== *)

Ltac str_split s t :=
  let E := fresh "E" in
  let E' := fresh "E" in
  destruct (string_dec s t) as [E|E];
  [ subst; rewrite ?str_eqb_refl in *
  | assert (E' : String.eqb t s = false) by (apply str_eqb_neq; congruence);
    apply str_eqb_neq in E; rewrite ?E, ?E' in *; clear E E' ].

Ltac str_cases :=
  repeat match goal with
         | |- context [String.eqb ?s ?t] => str_split s t
         end.

Ltac finish_leaf :=
  cbn; intros;
  repeat match goal with
         | H : _ \/ _ |- _ => destruct H
         | H : False |- _ => destruct H
         end;
  try discriminate; subst; cbn; auto.

Lemma leaf_bit : forall m na anc xp dp xn dn ch,
  let P := Some (EFile xp dp) in
  let N1 := Some (EFile (rule_bit anc P xn dn) dn) in
  flips_at m na anc P (Some (EFile xn dn)) = false ->
  In ch (p_changes na (reconcile_at m [] anc (fst (sides na P N1)) (snd (sides na P N1)))) ->
  cpath ch = [] /\ cnew ch = Some (EFile xp dn).
Proof.
  intros m na anc xp dp xn dn ch. cbv zeta.
  destruct na; cbn [sides fst snd p_changes]; rewrite leaf_reconcile, leaf_dispatch;
    unfold flips_at, rule_bit, leaf_conflict;
    destruct anc as [[c|xa da|tg| |msg|c]|];
    cbn [file_with same_file_digest exec_of oshallow_eqb shallow_eqb andb negb];
    str_cases;
    destruct m; destruct xp; destruct xn;
    try (destruct xa); finish_leaf.
Qed.

(* Apply of root replacements that all install the same entry *)
Lemma apply_root_same : forall v L base,
  (forall ch, In ch L -> cpath ch = [] /\ cnew ch = v) ->
  apply base L = FOk (match L with [] => base | _ => v end).
Proof.
  intros v L. induction L as [|ch L IH]; intros base H; [reflexivity|].
  cbn [apply]. unfold apply_one.
  destruct (H ch (or_introl eq_refl)) as [Hp Hn]. rewrite Hp, Hn.
  rewrite IH by (intros x Hx; apply H; right; exact Hx).
  destruct L; reflexivity.
Qed.

(* ================================================================== *)
(* 3. localization                                                     *)
(* ================================================================== *)

Lemma file_below_dir : forall a n rest,
  is_file (at_path a (n :: rest)) = true -> phantom_free a = true ->
  exists ca, a = Some (EDir ca).
Proof.
  intros a n rest H P. cbn [at_path] in H.
  destruct a as [[ca| | | | |?]|]; cbn [contents lookup] in H;
    try (rewrite at_path_none in H; discriminate H); try discriminate P.
  exists ca. reflexivity.
Qed.

Lemma anc_contents_dir : forall anc ca,
  wf true anc = true -> anc_contents anc (Some (EDir ca)) = contents anc.
Proof.
  intros anc ca W. unfold anc_contents.
  destruct anc as [[?|? ?|?| |?|?]|]; try reflexivity; discriminate W.
Qed.

Section Local.
  Variable proj : plan -> list change.
  Hypothesis proj_step : forall m anc ca cb,
    proj (reconcile_at m [] anc (Some (EDir ca)) (Some (EDir cb)))
    = flat_map (fun n => map (pre [n])
                           (proj (reconcile_at m [] (lookup n (anc_contents anc (Some (EDir ca))))
                                               (lookup n ca) (lookup n cb))))
               (name_union [anc_contents anc (Some (EDir ca)); ca; cb]).

  Lemma changes_local : forall p m anc a b ch r,
    wf true anc = true -> wf false a = true -> wf false b = true ->
    phantom_free a = true -> phantom_free b = true ->
    is_file (at_path a p) = true -> is_file (at_path b p) = true ->
    In ch (proj (reconcile_at m [] anc a b)) -> cpath ch ++ r = p ->
    exists ch0,
      In ch0 (proj (reconcile_at m [] (at_path anc p) (at_path a p) (at_path b p)))
      /\ cnew ch0 = cnew ch /\ cpath ch0 ++ r = [].
  Proof.
    induction p as [|n rest IH]; intros m anc a b ch r Wc Wa Wb Pa Pb Fa Fb Hin Hp.
    - exists ch. cbn [at_path]. repeat split; assumption.
    - destruct (file_below_dir a n rest Fa Pa) as [ca ->].
      destruct (file_below_dir b n rest Fb Pb) as [cb ->].
      rewrite proj_step in Hin. apply in_flat_map in Hin. destruct Hin as [k [_ Hin]].
      apply in_map_iff in Hin. destruct Hin as [c1 [<- Hc1]].
      cbn [pre cpath app] in Hp. injection Hp as -> Hp.
      rewrite (anc_contents_dir anc ca Wc) in Hc1.
      destruct (IH m (lookup n (contents anc)) (lookup n ca) (lookup n cb) c1 r) as [ch0 [H0 [H1 H2]]];
        try assumption.
      + apply wf_lookup. exact Wc.
      + apply (wf_lookup false (Some (EDir ca)) n Wa).
      + apply (wf_lookup false (Some (EDir cb)) n Wb).
      + apply (phantom_free_lookup (Some (EDir ca)) n Pa).
      + apply (phantom_free_lookup (Some (EDir cb)) n Pb).
      + exists ch0. cbn [at_path contents]. repeat split; assumption.
  Qed.
End Local.

Lemma alpha_changes_local : forall p m anc a b ch r,
  wf true anc = true -> wf false a = true -> wf false b = true ->
  phantom_free a = true -> phantom_free b = true ->
  is_file (at_path a p) = true -> is_file (at_path b p) = true ->
  In ch (alpha_ch (reconcile_at m [] anc a b)) -> cpath ch ++ r = p ->
  exists ch0,
    In ch0 (alpha_ch (reconcile_at m [] (at_path anc p) (at_path a p) (at_path b p)))
    /\ cnew ch0 = cnew ch /\ cpath ch0 ++ r = [].
Proof. apply (changes_local alpha_ch). intros. apply step_alpha. Qed.

Lemma beta_changes_local : forall p m anc a b ch r,
  wf true anc = true -> wf false a = true -> wf false b = true ->
  phantom_free a = true -> phantom_free b = true ->
  is_file (at_path a p) = true -> is_file (at_path b p) = true ->
  In ch (beta_ch (reconcile_at m [] anc a b)) -> cpath ch ++ r = p ->
  exists ch0,
    In ch0 (beta_ch (reconcile_at m [] (at_path anc p) (at_path a p) (at_path b p)))
    /\ cnew ch0 = cnew ch /\ cpath ch0 ++ r = [].
Proof. apply (changes_local beta_ch). intros. apply step_beta. Qed.

(* the applied sides at such a path *)
Lemma applied_alpha_local : forall p m anc a b a',
  wf true anc = true -> wf false a = true -> wf false b = true ->
  phantom_free a = true -> phantom_free b = true ->
  is_file (at_path a p) = true -> is_file (at_path b p) = true ->
  apply a (alpha_ch (reconcile_at m [] anc a b)) = FOk a' ->
  apply (at_path a p)
        (alpha_ch (reconcile_at m [] (at_path anc p) (at_path a p) (at_path b p)))
  = FOk (at_path a' p).
Proof.
  induction p as [|n rest IH]; intros m anc a b a' Wc Wa Wb Pa Pb Fa Fb H.
  - exact H.
  - destruct (file_below_dir a n rest Fa Pa) as [ca ->].
    destruct (file_below_dir b n rest Fb Pb) as [cb ->].
    destruct (step_side_a m anc ca cb Wa a' H) as [ca' [-> [_ Hc]]].
    specialize (Hc n). rewrite (anc_contents_dir anc ca Wc) in Hc.
    cbn [at_path contents].
    apply (IH m (lookup n (contents anc)) (lookup n ca) (lookup n cb) (lookup n ca')); try assumption.
    + apply wf_lookup. exact Wc.
    + apply (wf_lookup false (Some (EDir ca)) n Wa).
    + apply (wf_lookup false (Some (EDir cb)) n Wb).
    + apply (phantom_free_lookup (Some (EDir ca)) n Pa).
    + apply (phantom_free_lookup (Some (EDir cb)) n Pb).
Qed.

Lemma applied_beta_local : forall p m anc a b b',
  wf true anc = true -> wf false a = true -> wf false b = true ->
  phantom_free a = true -> phantom_free b = true ->
  is_file (at_path a p) = true -> is_file (at_path b p) = true ->
  apply b (beta_ch (reconcile_at m [] anc a b)) = FOk b' ->
  apply (at_path b p)
        (beta_ch (reconcile_at m [] (at_path anc p) (at_path a p) (at_path b p)))
  = FOk (at_path b' p).
Proof.
  induction p as [|n rest IH]; intros m anc a b b' Wc Wa Wb Pa Pb Fa Fb H.
  - exact H.
  - destruct (file_below_dir a n rest Fa Pa) as [ca ->].
    destruct (file_below_dir b n rest Fb Pb) as [cb ->].
    destruct (step_side_b m anc ca cb Wb b' H) as [cb' [-> [_ Hc]]].
    specialize (Hc n). rewrite (anc_contents_dir anc ca Wc) in Hc.
    cbn [at_path contents].
    apply (IH m (lookup n (contents anc)) (lookup n ca) (lookup n cb) (lookup n cb')); try assumption.
    + apply wf_lookup. exact Wc.
    + apply (wf_lookup false (Some (EDir ca)) n Wa).
    + apply (wf_lookup false (Some (EDir cb)) n Wb).
    + apply (phantom_free_lookup (Some (EDir ca)) n Pa).
    + apply (phantom_free_lookup (Some (EDir cb)) n Pb).
Qed.
