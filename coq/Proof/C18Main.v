(* C18, part 3: the theorems on the model. *)
From Coq Require Import List Bool Arith String Lia.
Import ListNotations.
From Mv Require Import Model.Entry Model.Reconcile Model.C04Cycle Model.Exec
  Proof.EntryFacts Proof.C07 Proof.C04Apply Proof.C04Fix Proof.C04Main Proof.C04Conv
  Proof.C18Exec Proof.C18Leaf.
Close Scope string_scope.
Open Scope list_scope.

(* every change the plan applies to P keeps P's bit wherever the file exists
   on both sides *)
Definition bit_stable (na : bool) (p n : oentry) (pl : plan) : Prop :=
  forall ch r xp dp xn dn x' d',
    In ch (p_changes na pl) ->
    at_path p (cpath ch ++ r) = Some (EFile xp dp) ->
    at_path n (cpath ch ++ r) = Some (EFile xn dn) ->
    at_path (cnew ch) r = Some (EFile x' d') ->
    x' = xp.

Lemma app_nil_inv_r : forall (A : Type) (l r : list A), l = [] -> l ++ r = [] -> r = [].
Proof. intros A l r -> H. exact H. Qed.

(* the statement at one path, with the class condition at that path *)
Lemma bit_stable_at : forall m na anc p n ch r xp dp xn dn x' d',
  wf true anc = true -> wf false p = true -> wf false n = true ->
  phantom_free p = true -> phantom_free n = true ->
  let n1 := propagate_exec anc p n in
  let q := cpath ch ++ r in
  flips_at m na (at_path anc q) (at_path p q) (at_path n q) = false ->
  In ch (p_changes na (reconcile m anc (fst (sides na p n1)) (snd (sides na p n1)))) ->
  at_path p q = Some (EFile xp dp) ->
  at_path n q = Some (EFile xn dn) ->
  at_path (cnew ch) r = Some (EFile x' d') ->
  x' = xp.
Proof.
  intros m na anc p n ch r xp dp xn dn x' d' Wc Wp Wn Pp Pn n1 q Hf Hin Ep En Ec.
  pose proof (sources_at q anc p n xn dn Pn En) as E1. fold n1 in E1. rewrite Ep in E1.
  pose proof (propagate_wf anc p n Wn) as W1. fold n1 in W1.
  pose proof (propagate_pf anc p n Pn) as P1. fold n1 in P1.
  rewrite Ep, En in Hf. rewrite reconcile_at_root in Hin.
  destruct na; cbn [sides fst snd p_changes] in Hin.
  - destruct (beta_changes_local q m anc n1 p ch r Wc W1 Wp P1 Pp) as [ch0 [H0 [H1 H2]]];
      try assumption; try reflexivity.
    { rewrite E1. reflexivity. } { rewrite Ep. reflexivity. }
    rewrite E1, Ep in H0.
    destruct (leaf_bit m true (at_path anc q) xp dp xn dn ch0 Hf H0) as [L1 L2].
    pose proof (app_nil_inv_r _ _ _ L1 H2) as ->. cbn [at_path] in Ec.
    rewrite <- H1, L2 in Ec. congruence.
  - destruct (alpha_changes_local q m anc p n1 ch r Wc Wp W1 Pp P1) as [ch0 [H0 [H1 H2]]];
      try assumption; try reflexivity.
    { rewrite Ep. reflexivity. } { rewrite E1. reflexivity. }
    rewrite E1, Ep in H0.
    destruct (leaf_bit m false (at_path anc q) xp dp xn dn ch0 Hf H0) as [L1 L2].
    pose proof (app_nil_inv_r _ _ _ L1 H2) as ->. cbn [at_path] in Ec.
    rewrite <- H1, L2 in Ec. congruence.
Qed.

Lemma known_false_at : forall i q,
  known_C18 i = false -> at_path (x_p i) q <> None ->
  flips_at (x_mode i) (x_n_alpha i) (at_path (x_anc i) q) (at_path (x_p i) q) (at_path (x_n i) q) = false.
Proof.
  intros i q K H. unfold known_C18 in K.
  destruct (flips_at _ _ _ _ _) eqn:F; [|reflexivity].
  assert (X : existsb (fun p => flips_at (x_mode i) (x_n_alpha i) (at_path (x_anc i) p)
                                  (at_path (x_p i) p) (at_path (x_n i) p)) (paths (x_p i)) = true).
  { apply existsb_exists. exists q. split; [apply at_path_in_paths; exact H|exact F]. }
  congruence.
Qed.

Definition wf_c18_core (i : c18_in) : Prop :=
  wf true (x_anc i) = true /\ wf false (x_p i) = true /\ wf false (x_n i) = true
  /\ phantom_free (x_p i) = true /\ phantom_free (x_n i) = true.

Lemma wf_c18_core_of : forall i, wf_c18 i = true -> wf_c18_core i.
Proof.
  intros i W. unfold wf_c18 in W.
  repeat (apply andb_true_iff in W; destruct W as [W ?]). repeat split; assumption.
Qed.

Theorem bit_stable_model : forall i,
  wf_c18_core i -> known_C18 i = false ->
  bit_stable (x_n_alpha i) (x_p i) (x_n i) (snd (c18_plan i)).
Proof.
  intros [m na anc p n] [Wc [Wp [Wn [Pp Pn]]]] K. cbn [x_mode x_n_alpha x_anc x_p x_n] in *.
  intros ch r xp dp xn dn x' d' Hin Ep En Ec.
  unfold c18_plan in Hin. cbn [x_mode x_n_alpha x_anc x_p x_n] in Hin.
  assert (Hin' : In ch (p_changes na (reconcile m anc
                         (fst (sides na p (propagate_exec anc p n)))
                         (snd (sides na p (propagate_exec anc p n)))))).
  { destruct na; exact Hin. }
  eapply (bit_stable_at m na anc p n ch r xp dp xn dn x' d'); try eassumption.
  apply (known_false_at {| x_mode := m; x_n_alpha := na; x_anc := anc; x_p := p; x_n := n |}
                        (cpath ch ++ r) K).
  cbn [x_p]. rewrite Ep. discriminate.
Qed.

(* ================================================================== *)
(* c18_sources                                                         *)
(* ================================================================== *)

Theorem sources_model : forall anc p n q xn dn,
  phantom_free n = true ->
  at_path n q = Some (EFile xn dn) ->
  at_path (propagate_exec anc p n) q
  = Some (EFile (rule_bit (at_path anc q) (at_path p q) xn dn) dn).
Proof. intros. apply sources_at; assumption. Qed.

(* ================================================================== *)
(* one cycle and histories                                             *)
(* ================================================================== *)

Lemma cycle_bit : forall m na anc p n anc' p' q xp dp xn dn,
  wf true anc = true -> wf false p = true -> wf false n = true ->
  phantom_free p = true -> phantom_free n = true ->
  c18_cycle m na anc p n = Some (anc', p') ->
  flips_at m na (at_path anc q) (at_path p q) (at_path n q) = false ->
  at_path p q = Some (EFile xp dp) ->
  at_path n q = Some (EFile xn dn) ->
  wf true anc' = true /\ exists d', at_path p' q = Some (EFile xp d').
Proof.
  intros m na anc p n anc' p' q xp dp xn dn Wc Wp Wn Pp Pn Hc Hf Ep En.
  pose proof (sources_at q anc p n xn dn Pn En) as E1. rewrite Ep in E1.
  pose proof (propagate_wf anc p n Wn) as W1.
  pose proof (propagate_pf anc p n Pn) as P1.
  rewrite Ep, En in Hf.
  unfold c18_cycle in Hc.
  destruct na; cbn [sides] in Hc; rewrite reconcile_at_root in Hc.
  - destruct (apply (propagate_exec anc p n) _) as [a'| | |] eqn:Aa; try discriminate Hc.
    destruct (apply p _) as [b'| | |] eqn:Ab; try discriminate Hc.
    destruct (apply anc _) as [c'| | |] eqn:Ac; try discriminate Hc.
    destruct (wf true c') eqn:Wc'; [|discriminate Hc]. injection Hc as <- <-.
    split; [exact Wc'|].
    pose proof (applied_beta_local q m anc (propagate_exec anc p n) p b' Wc W1 Wp P1 Pp) as L.
    rewrite E1, Ep in L. specialize (L eq_refl eq_refl Ab).
    rewrite (apply_root_same (Some (EFile xp dn)) _ (Some (EFile xp dp))) in L
      by (intros ch Hch; apply (leaf_bit m true (at_path anc q) xp dp xn dn ch Hf Hch)).
    injection L as L.
    destruct (beta_ch _) in L; rewrite <- L; eexists; reflexivity.
  - destruct (apply p _) as [a'| | |] eqn:Aa; try discriminate Hc.
    destruct (apply (propagate_exec anc p n) _) as [b'| | |] eqn:Ab; try discriminate Hc.
    destruct (apply anc _) as [c'| | |] eqn:Ac; try discriminate Hc.
    destruct (wf true c') eqn:Wc'; [|discriminate Hc]. injection Hc as <- <-.
    split; [exact Wc'|].
    pose proof (applied_alpha_local q m anc p (propagate_exec anc p n) a' Wc Wp W1 Pp P1) as L.
    rewrite E1, Ep in L. specialize (L eq_refl eq_refl Aa).
    rewrite (apply_root_same (Some (EFile xp dn)) _ (Some (EFile xp dp))) in L
      by (intros ch Hch; apply (leaf_bit m false (at_path anc q) xp dp xn dn ch Hf Hch)).
    injection L as L.
    destruct (alpha_ch _) in L; rewrite <- L; eexists; reflexivity.
Qed.

Lemma cycle_wf : forall m na anc p n anc' p',
  c18_cycle m na anc p n = Some (anc', p') -> wf true anc' = true.
Proof.
  intros m na anc p n anc' p' Hc. unfold c18_cycle in Hc.
  destruct (sides na p (propagate_exec anc p n)) as [a b].
  destruct (apply a _) as [a'| | |]; try discriminate Hc.
  destruct (apply b _) as [b'| | |]; try discriminate Hc.
  destruct (apply anc _) as [c'| | |]; try discriminate Hc.
  destruct (wf true c') eqn:W; [|discriminate Hc]. injection Hc as <- _. exact W.
Qed.

Definition step_ok (s : oentry * oentry) : Prop :=
  wf false (fst s) = true /\ wf false (snd s) = true
  /\ phantom_free (fst s) = true /\ phantom_free (snd s) = true.

Lemma flips_two_way_safe : forall na a p n, flips_at TwoWaySafe na a p n = false.
Proof.
  intros na a [[ | xp dp| | | | ]|] [[ | xn dn| | | | ]|]; try reflexivity.
  unfold flips_at. rewrite andb_false_r. reflexivity.
Qed.

Theorem history_model : forall na steps anc,
  wf true anc = true -> Forall step_ok steps ->
  forall p n p', In (p, n, p') (c18_run TwoWaySafe na anc steps) ->
  forall q xp dp xn dn,
    at_path p q = Some (EFile xp dp) -> at_path n q = Some (EFile xn dn) ->
    exists d', at_path p' q = Some (EFile xp d').
Proof.
  intros na steps. induction steps as [|[p0 n0] rest IH]; intros anc Wc Hs p n p' Hin q xp dp xn dn Ep En;
    [destruct Hin|].
  cbn [c18_run] in Hin. inversion Hs as [|? ? [Wp [Wn [Pp Pn]]] Hrest]; subst. cbn [fst snd] in *.
  destruct (c18_cycle TwoWaySafe na anc p0 n0) as [[anc' p0']|] eqn:Hc; [|destruct Hin].
  destruct Hin as [E|Hin].
  - injection E as -> -> ->.
    destruct (cycle_bit TwoWaySafe na anc p n anc' p' q xp dp xn dn Wc Wp Wn Pp Pn Hc
                (flips_two_way_safe _ _ _ _) Ep En) as [_ H].
    exact H.
  - apply (IH anc' (cycle_wf _ _ _ _ _ _ _ Hc) Hrest p n p' Hin q xp dp xn dn Ep En).
Qed.

(* ================================================================== *)
(* the checker                                                         *)
(* ================================================================== *)

Definition c18_holds (i : c18_in) (o : c18_out) : Prop :=
  sources_ok (x_anc i) (x_p i) (x_n i) (y_n1 o)
  /\ bit_stable (x_n_alpha i) (x_p i) (x_n i) (y_plan o).

Lemma change_keeps_bits_sound : forall p n ch,
  change_keeps_bits p n ch = true ->
  forall r xp dp xn dn x' d',
    at_path p (cpath ch ++ r) = Some (EFile xp dp) ->
    at_path n (cpath ch ++ r) = Some (EFile xn dn) ->
    at_path (cnew ch) r = Some (EFile x' d') -> x' = xp.
Proof.
  intros p n ch H r xp dp xn dn x' d' Ep En Ec.
  unfold change_keeps_bits in H. rewrite forallb_forall in H.
  assert (Hin : In r (paths (cnew ch))) by (apply at_path_in_paths; rewrite Ec; discriminate).
  specialize (H r Hin). cbv beta zeta in H. rewrite Ec, Ep, En in H.
  apply eqb_prop in H. exact H.
Qed.

Theorem check_c18_sound : forall i o, check_c18 i o = true -> c18_holds i o.
Proof.
  intros i o H. unfold check_c18 in H. apply andb_true_iff in H. destruct H as [H1 H2].
  split; [apply osame_but_bits_sound; exact H1|].
  intros ch r xp dp xn dn x' d' Hin. rewrite forallb_forall in H2.
  apply (change_keeps_bits_sound _ _ ch (H2 ch Hin)).
Qed.

Theorem check_c18_model : forall i,
  wf_c18 i = true -> known_C18 i = false -> check_c18 i (model_c18 i) = true.
Proof.
  intros i W K. pose proof (bit_stable_model i (wf_c18_core_of i W) K) as B.
  unfold check_c18, model_c18. destruct (c18_plan i) as [n1 pl] eqn:E.
  cbn [y_n1 y_plan snd] in *.
  assert (En1 : n1 = propagate_exec (x_anc i) (x_p i) (x_n i)).
  { unfold c18_plan in E. destruct (sides _ _ _). injection E as <- _. reflexivity. }
  rewrite En1, propagate_same_but_bits. cbn [andb].
  apply forallb_forall. intros ch Hin. unfold change_keeps_bits. apply forallb_forall.
  intros r _. cbv beta zeta.
  destruct (at_path (cnew ch) r) as [[ |x' d'| | | | ]|] eqn:Ec; try reflexivity.
  destruct (at_path (x_p i) (cpath ch ++ r)) as [[ |xp dp| | | | ]|] eqn:Ep; try reflexivity.
  destruct (at_path (x_n i) (cpath ch ++ r)) as [[ |xn dn| | | | ]|] eqn:En; try reflexivity.
  rewrite (B ch r xp dp xn dn x' d' Hin Ep En Ec). apply eqb_reflx.
Qed.

(* ================================================================== *)
(* the excluded class is real                                          *)
(* ================================================================== *)
Open Scope string_scope.

(* both sides changed the content, N = alpha wins (two-way-resolved) *)
Definition c18_witness : c18_in :=
  {| x_mode := TwoWayResolved; x_n_alpha := true;
     x_anc := Some (EFile true "d1"); x_p := Some (EFile true "d3"); x_n := Some (EFile false "d2") |}.

(* P edited the content and set the bit, N unchanged, P is the replica *)
Definition c18_witness_replica : c18_in :=
  {| x_mode := OneWayReplica; x_n_alpha := true;
     x_anc := Some (EFile false "d1"); x_p := Some (EFile true "d2"); x_n := Some (EFile false "d1") |}.
Close Scope string_scope.

Definition refutes (i : c18_in) : Prop :=
  wf_c18 i = true /\ known_C18 i = true
  /\ check_c18 i (model_c18 i) = false
  /\ ~ bit_stable (x_n_alpha i) (x_p i) (x_n i) (snd (c18_plan i)).

Lemma refutes_witness : refutes c18_witness.
Proof.
  repeat split; try (vm_compute; reflexivity).
  intro B. unfold bit_stable in B.
  specialize (B (mk [] (x_p c18_witness) (x_n c18_witness)) [] true "d3"%string false "d2"%string
                false "d2"%string).
  assert (H : false = true); [|discriminate H].
  apply B; vm_compute; auto.
Qed.

Lemma refutes_witness_replica : refutes c18_witness_replica.
Proof.
  repeat split; try (vm_compute; reflexivity).
  intro B. unfold bit_stable in B.
  specialize (B (mk [] (x_p c18_witness_replica) (x_anc c18_witness_replica)) []
                true "d2"%string false "d1"%string false "d1"%string).
  assert (H : false = true); [|discriminate H].
  apply B; vm_compute; auto.
Qed.

Theorem refuted_model : exists i, refutes i.
Proof. exists c18_witness. exact refutes_witness. Qed.

(* non-vacuity of the partial theorem: outside the class, with a real
   propagation (rule 3: N edited an executable file) and a change for P *)
Open Scope string_scope.
Definition c18_ex : c18_in :=
  {| x_mode := TwoWaySafe; x_n_alpha := true;
     x_anc := Some (EDir [("s", EFile true "d1"); ("t", EFile false "d1")]);
     x_p := Some (EDir [("s", EFile true "d1"); ("t", EFile true "d1")]);
     x_n := Some (EDir [("s", EFile false "d2"); ("t", EFile false "d1")]) |}.
Close Scope string_scope.

Lemma c18_example_ok :
  wf_c18 c18_ex = true /\ known_C18 c18_ex = false
  /\ List.length (p_changes true (snd (c18_plan c18_ex))) = 1
  /\ fst (c18_plan c18_ex)
     = Some (EDir [("s"%string, EFile true "d2"%string); ("t"%string, EFile true "d1"%string)]).
Proof. vm_compute. repeat split. Qed.
