(* Proofs about the coalescer model (Model/Coalescer.v); closes Props/C31.v. *)
From Coq Require Import List Arith NArith Bool Lia.
From Coq Require Import ZifyBool ZifyNat ZifyN.
Import ListNotations.
From Mv Require Import Model.Coalescer.

Section Coalescer.
Variable w : N.
Variable listen : bool.

(* ------------------------------------------------------------------ *)
(* invariant of the automaton                                          *)
(* ------------------------------------------------------------------ *)
Record CInv (s : cstate) : Prop := mkCInv {
  ci_buf : buf s <= 1;
  ci_burst : attempts s + b2n (owed s) = bursts s;
  ci_put : put s <= attempts s /\ taken s + buf s = put s;
  ci_time : owed s = true -> cdone s = false ->
            exists t, last s = Some t /\
              ((timer s = Some (t + w)%N /\ tc s = false /\ (now s <= t + w)%N) \/
               (timer s = None /\ tc s = true /\ now s = (t + w)%N));
  ci_del : owed s = false -> forall t, last s = Some t ->
           (t + w <= now s)%N /\ (buf s = 1 \/ cons_since s = true);
  ci_armed : cdone s = false -> (tc s = true \/ timer s <> None) -> owed s = true;
  ci_last : forall t, last s = Some t -> (t <= now s)%N;
  ci_done : cdone s = true -> timer s = None /\ cancelled s = true
}.

Lemma cinv_init : CInv cinit.
Proof.
  constructor; simpl; auto; try discriminate; try lia.
  - intros _ [H|H]; [discriminate|congruence].
Qed.

Ltac cstep_cases H :=
  match type of H with cstep _ _ ?s ?a = Some ?s' =>
    destruct a; simpl in H;
    repeat match type of H with
           | (if ?b then _ else _) = _ => destruct b eqn:?
           | match ?x with _ => _ end = _ => destruct x eqn:?
           end; try discriminate; inversion H; subst s'; clear H
  end.

Lemma cstep_inv s a s' : CInv s -> cstep w listen s a = Some s' -> CInv s'.
Proof.
  intros I H. destruct I as [I1 I2 [I3a I3b] I4 I5 I6 I7 I8].
  cstep_cases H.
  - (* strobe after done *) constructor; simpl; auto.
  - (* strobe *) constructor; simpl; auto; try discriminate; try lia.
    + destruct (owed s); simpl in *; lia.
    + intros _ _. exists (now s). split; auto. left. repeat split; auto. lia.
    + intros t E. inversion E; subst. lia.
  - (* fire *) apply andb_true_iff in Heqb. destruct Heqb as [Hd Hdue].
    apply negb_true_iff in Hd. unfold timer_due in Hdue.
    destruct (timer s) as [d|] eqn:Et; [|discriminate]. apply N.leb_le in Hdue.
    assert (Ho : owed s = true) by (apply I6; auto; right; discriminate).
    constructor; simpl; auto; try discriminate; try lia.
    + intros _ _. destruct (I4 Ho Hd) as (t & El & [(E1 & E2 & E3)|(E1 & _)]); [|discriminate].
      exists t. split; auto. right. inversion E1; subst. repeat split; auto. lia.
  - (* handle *) apply andb_true_iff in Heqb. destruct Heqb as [Hd Htc].
    apply negb_true_iff in Hd.
    assert (Ho : owed s = true) by (apply I6; auto).
    rewrite Ho in I2. simpl in I2.
    destruct (I4 Ho Hd) as (t & El & [(_ & E2 & _)|(E1 & _ & E3)]); [congruence|].
    constructor; simpl; auto; try discriminate; try lia.
    + destruct (buf s); simpl; lia.
    + destruct (buf s); simpl; lia.
    + intros _ t' E. rewrite El in E. inversion E; subst. split; [lia|].
      left. destruct (buf s) as [|[|b]]; simpl; lia.
    + intros _ [E|E]; [discriminate|congruence].
  - (* take *) constructor; simpl; auto; try lia.
    intros Ho t E. destruct (I5 Ho t E). split; auto.
  - (* poll *) constructor; simpl; auto.
  - (* cancel *) constructor; simpl; auto.
    intros E. destruct (I8 E). split; auto.
  - (* exit *) constructor; simpl; auto; try discriminate.
  - (* term ret *) constructor; simpl; auto.
  - (* tick *) unfold urgent in Heqb. apply orb_false_iff in Heqb. destruct Heqb as [Hu1 Hu2].
    constructor; simpl; auto.
    + intros Ho Hd. destruct (I4 Ho Hd) as (t & El & [(E1 & E2 & E3)|(E1 & E2 & E3)]).
      * exists t. split; auto. left. repeat split; auto.
        rewrite Hd in Hu1. simpl in Hu1. apply orb_false_iff in Hu1. destruct Hu1 as [_ Hdue].
        unfold timer_due in Hdue. rewrite E1 in Hdue. apply N.leb_gt in Hdue. lia.
      * rewrite Hd, E2 in Hu1. discriminate.
    + intros Ho t E. destruct (I5 Ho t E). split; auto. lia.
    + intros t E. specialize (I7 t E). lia.
  - (* end *) constructor; simpl; auto.
Qed.

Lemma crun_inv acts : forall s s', CInv s -> crun w listen s acts = Some s' -> CInv s'.
Proof.
  induction acts as [|a r IH]; intros s s' I H; simpl in H.
  - inversion H; subst; auto.
  - destruct (cstep w listen s a) eqn:E; [|discriminate]. eapply IH; [|exact H].
    eapply cstep_inv; eauto.
Qed.

Definition creachable (s : cstate) : Prop := exists acts, crun w listen cinit acts = Some s.

Lemma creachable_inv s : creachable s -> CInv s.
Proof. intros [acts H]. eapply crun_inv; [apply cinv_init|exact H]. Qed.

(* C31: the single slot *)
Theorem coalescer_at_most_one s : creachable s -> buf s <= 1.
Proof. intros R. apply (ci_buf _ (creachable_inv _ R)). Qed.

(* C31: delivery *)
Theorem coalescer_delivered s t :
  creachable s -> cancelled s = false -> last s = Some t -> (t + w < now s)%N ->
  owed s = false /\ (buf s = 1 \/ cons_since s = true).
Proof.
  intros R Hc Hl Ht. pose proof (creachable_inv _ R) as I.
  assert (Hd : cdone s = false).
  { destruct (cdone s) eqn:E; auto. destruct (ci_done _ I E). congruence. }
  destruct (owed s) eqn:Ho.
  - destruct (ci_time _ I Ho Hd) as (t' & El & [(_ & _ & E)|(_ & _ & E)]);
      rewrite Hl in El; inversion El; subst; lia.
  - split; auto. apply (ci_del _ I Ho t Hl).
Qed.

(* C31: bursts *)
Theorem coalescer_burst s :
  creachable s ->
  attempts s + b2n (owed s) = bursts s /\ put s <= attempts s /\ taken s + buf s = put s /\
  (forall t, last s = Some t -> owed s = false -> (t + w <= now s)%N) /\
  (forall t, last s = Some t -> owed s = true -> cdone s = false -> (now s <= t + w)%N).
Proof.
  intros R. pose proof (creachable_inv _ R) as I. destruct (ci_put _ I) as [P1 P2].
  split; [apply I|]. split; [exact P1|]. split; [exact P2|]. split.
  - intros t Hl Ho. apply (ci_del _ I Ho t Hl).
  - intros t Hl Ho Hd. destruct (ci_time _ I Ho Hd) as (t' & El & [(_ & _ & E)|(_ & _ & E)]);
      rewrite Hl in El; inversion El; subst; lia.
Qed.

(* a strobe less than w after the previous one joins its burst; one more than w
   after it starts a new burst *)
Theorem coalescer_burst_gap s s' t :
  creachable s -> cancelled s = false -> last s = Some t ->
  cstep w listen s AStrobe = Some s' ->
  ((now s < t + w)%N -> bursts s' = bursts s) /\ ((t + w < now s)%N -> bursts s' = S (bursts s)).
Proof.
  intros R Hc Hl H. pose proof (creachable_inv _ R) as I.
  assert (Hd : cdone s = false).
  { destruct (cdone s) eqn:E; auto. destruct (ci_done _ I E). congruence. }
  simpl in H. rewrite Hd in H. inversion H; subst s'; clear H. simpl. split; intros Hg.
  - destruct (owed s) eqn:Ho; simpl; [lia|]. destruct (ci_del _ I Ho t Hl). lia.
  - destruct (coalescer_delivered s t R Hc Hl Hg) as [Ho _]. rewrite Ho. simpl. lia.
Qed.

(* C31: after termination *)
Lemma cdone_step s a s' :
  cdone s = true -> cstep w listen s a = Some s' ->
  cdone s' = true /\ put s' = put s /\ buf s' <= buf s /\ attempts s' = attempts s.
Proof.
  intros Hd H. cstep_cases H; simpl; auto; try (rewrite Hd in *; simpl in *; discriminate).
Qed.

Theorem coalescer_after_terminate s :
  cdone s = true ->
  (exists s', cstep w listen s AStrobe = Some s' /\ buf s' = buf s /\ timer s' = timer s /\
              put s' = put s /\ clog s' = ES (now s) (now s) :: clog s) /\
  (forall acts s', crun w listen s acts = Some s' ->
     cdone s' = true /\ put s' = put s /\ buf s' <= buf s).
Proof.
  intros Hd. split.
  - simpl. rewrite Hd. eexists. split; [reflexivity|]. simpl. auto.
  - intros acts. revert s Hd. induction acts as [|a r IH]; intros s Hd s' H; simpl in H.
    + inversion H; subst. auto.
    + destruct (cstep w listen s a) as [s1|] eqn:E; [|discriminate].
      destruct (cdone_step _ _ _ Hd E) as (D1 & P1 & B1 & _).
      destruct (IH _ D1 _ H) as (D2 & P2 & B2). split; auto. split; [congruence|lia].
Qed.


(* ------------------------------------------------------------------ *)
(* the monitor accepts every history of the automaton                  *)
(* ------------------------------------------------------------------ *)
Variable sl : N.

Record CSim (s : cstate) (m : cmon) : Prop := mkCSim {
  cs_poss : bursts s <= poss m;
  cs_sigs : sigs m = taken s;
  cs_lastc : forall c0, lastc m = Some c0 ->
     (exists t, last s = Some t /\ (c0 <= t)%N) /\
     ((c0 + w <= now s)%N \/ taken s + buf s + 1 <= poss m) /\
     (forall d, timer s = Some d -> (c0 + w <= d)%N) /\
     (tc s = true -> cdone s = false -> (c0 + w <= now s)%N);
  cs_oblig : forall f D, oblig m = Some (f, D) ->
     D = (f + w + sl)%N /\ (f <= now s)%N /\
     ((1 <= buf s /\ (f + w <= now s)%N) \/ (cancelled s = false /\ owed s = true /\ last s = Some f)) /\
     (listen = true -> (now s <= f + w)%N);
  cs_tcall : isSome (tcall m) = cancelled s;
  cs_tret : forall tr, tret m = Some tr ->
     cdone s = true /\ (listen = true -> 1 <= buf s -> now s = tr)
}.

Lemma csim_init : CSim cinit cm0.
Proof. constructor; simpl; auto; try discriminate. Qed.

Definition es_inc (m : cmon) (r : N) : nat :=
  match lastc m with
  | Some c0 => if N.leb (c0 + w) (r + sl) then 1 else 0
  | None => 1
  end.

Lemma es_result m c r :
  (forall f D, oblig m = Some (f, D) -> listen && N.ltb D c = false) ->
  cmon_event w sl listen m (ES c r) =
  COk (if isSome (tcall m)
       then mkCM (S (poss m)) (sigs m) (lastc m) (oblig m) (tcall m) (tret m)
       else mkCM (poss m + es_inc m r) (sigs m) (Some c) (Some (c, r + w + sl)%N) (tcall m) (tret m)).
Proof.
  intros H. unfold cmon_event, es_inc. destruct (oblig m) as [[f D]|] eqn:Eo.
  - rewrite (H f D eq_refl). destruct (isSome (tcall m)); reflexivity.
  - destruct (isSome (tcall m)); reflexivity.
Qed.

Lemma csim_step s a s' m :
  CInv s -> CSim s m -> cstep w listen s a = Some s' ->
  (clog s' = clog s /\ CSim s' m) \/
  (exists e m', clog s' = e :: clog s /\ cmon_event w sl listen m e = COk m' /\ CSim s' m').
Proof.
  intros I SM H. pose proof I as [I1 I2 [I3a I3b] I4 I5 I6 I7 I8].
  pose proof SM as [S1 S2 S3 S4 S5 S6].
  assert (Hob : forall f D, oblig m = Some (f, D) -> listen && N.ltb D (now s) = false).
  { intros f D E. destruct (S4 f D E) as (HD & _ & _ & Hl). destruct listen; simpl; auto.
    apply N.ltb_ge. specialize (Hl eq_refl). lia. }
  cstep_cases H.
  - (* strobe after done *)
    destruct (I8 eq_refl) as [_ Hc]. right. eexists. eexists. split; [reflexivity|].
    split; [apply es_result; exact Hob|]. rewrite S5, Hc. simpl.
    constructor; simpl; auto; try lia.
    + intros c0 E. destruct (S3 c0 E) as (A & B & C & D). repeat split; auto. lia.
    + intros f D E. destruct (S4 f D E) as (A & B & [C|(C & _)] & D'); [|congruence].
      split; [exact A|]. split; [exact B|]. split; [left; exact C|exact D'].
  - (* strobe received by the loop *)
    right. eexists. eexists. split; [reflexivity|]. split; [apply es_result; exact Hob|].
    destruct (cancelled s) eqn:Hc; rewrite S5; simpl.
    + (* Terminate already called *)
      constructor; simpl; auto.
      * destruct (owed s); simpl; lia.
      * intros c0 E. destruct (S3 c0 E) as ((t & El & Ht) & B & C & D). split; [|split; [|split]].
        -- exists (now s). split; auto. specialize (I7 t El). lia.
        -- lia.
        -- intros d Ed. inversion Ed; subst. specialize (I7 t El). lia.
        -- discriminate.
      * intros f D E. destruct (S4 f D E) as (A & B & [C|(C & _)] & D'); [|congruence].
        split; [exact A|]. split; [exact B|]. split; [left; exact C|exact D'].
    + (* normal *)
      assert (Hinc : bursts s + b2n (negb (owed s)) <= poss m + es_inc m (now s)).
      { destruct (owed s) eqn:Ho; simpl; [lia|]. unfold es_inc.
        destruct (lastc m) as [c0|] eqn:El; [|lia].
        destruct (S3 c0 eq_refl) as ((t & Elt & Ht) & _). destruct (I5 eq_refl t Elt) as [Hw _].
        destruct (N.leb_spec (c0 + w) (now s + sl)); lia. }
      constructor; simpl; auto.
      * intros c0 E. inversion E; subst c0. split; [|split; [|split]].
        -- exists (now s). split; auto. lia.
        -- right. destruct (owed s); simpl in *; lia.
        -- intros d Ed. inversion Ed; subst. lia.
        -- discriminate.
      * intros f D E. inversion E; subst. split; auto. split; [lia|]. split; [right; auto|]. intros; lia.
  - (* fire *)
    left. split; [reflexivity|]. apply andb_true_iff in Heqb. destruct Heqb as [Hd Hdue].
    unfold timer_due in Hdue. destruct (timer s) as [d|] eqn:Et; [|discriminate]. apply N.leb_le in Hdue.
    constructor; simpl; auto.
    intros c0 E. destruct (S3 c0 E) as (A & B & C & D). repeat split; auto; try discriminate.
    intros _ _. specialize (C d eq_refl). lia.
  - (* handle *)
    left. split; [reflexivity|]. apply andb_true_iff in Heqb. destruct Heqb as [Hd Htc].
    apply negb_true_iff in Hd.
    constructor; simpl; auto.
    + intros c0 E. destruct (S3 c0 E) as (A & B & C & D).
      split; [exact A|]. split; [left; apply D; auto|]. split; [exact C|]. discriminate.
    + intros f D E. destruct (S4 f D E) as (A & B & C & D').
      split; [exact A|]. split; [exact B|]. split; [|exact D'].
      left. split; [destruct (buf s); simpl; lia|].
      destruct C as [[_ C]|(C1 & C2 & C3)]; [exact C|].
      destruct (I4 C2 Hd) as (t & El & [(_ & E2 & _)|(_ & _ & E3)]); [congruence|].
      rewrite C3 in El. inversion El; subst. lia.
    + intros tr E. destruct (S6 tr E) as [A _]. congruence.
  - (* take *)
    assert (Hal : Nat.ltb (match lastc m with
                           | Some c0 => if N.ltb (now s + sl) (c0 + w) then poss m - 1 else poss m
                           | None => poss m
                           end) (Datatypes.S (sigs m)) = false).
    { apply Nat.ltb_ge. rewrite S2. destruct (lastc m) as [c0|] eqn:El; [|lia].
      destruct (N.ltb_spec (now s + sl) (c0 + w)); [|lia].
      destruct (S3 c0 eq_refl) as (_ & [B|B] & _); lia. }
    assert (Htr : listen && match tret m with Some tr => N.ltb (tr + sl) (now s) | None => false end = false).
    { destruct listen; auto. destruct (tret m) as [tr|] eqn:Et; auto. simpl.
      destruct (S6 tr eq_refl) as [_ B]. rewrite (B eq_refl) by lia. apply N.ltb_ge. lia. }
    assert (Hl3 : forall c0, lastc m = Some c0 ->
       (exists t, last s = Some t /\ (c0 <= t)%N) /\
       ((c0 + w <= now s)%N \/ Datatypes.S (taken s) + n + 1 <= poss m) /\
       (forall d, timer s = Some d -> (c0 + w <= d)%N) /\
       (tc s = true -> cdone s = false -> (c0 + w <= now s)%N)).
    { intros c0 E. destruct (S3 c0 E) as (A & B & C & D).
      split; [exact A|]. split; [destruct B; [left; auto|right; lia]|]. split; [exact C|exact D]. }
    assert (Hl6 : forall tr, tret m = Some tr ->
                  cdone s = true /\ (listen = true -> 1 <= n -> now s = tr)).
    { intros tr E. destruct (S6 tr E) as [A B]. split; auto. }
    right. exists (EG (now s)).
    destruct (oblig m) as [[f D]|] eqn:Eo.
    + destruct (N.ltb (now s + sl) (f + w)) eqn:Ek.
      * (* an older signal: the strobe's own signal is still owed *)
        eexists. split; [reflexivity|]. split.
        { unfold cmon_event. rewrite Hal, Htr, Eo, Ek. reflexivity. }
        apply N.ltb_lt in Ek. constructor; simpl; auto.
        intros f' D' E. inversion E; subst f' D'. destruct (S4 f D eq_refl) as (A & B & C & D2).
        split; [exact A|]. split; [exact B|]. split; [|exact D2].
        destruct C as [[_ C]|C]; [lia|right; exact C].
      * eexists. split; [reflexivity|]. split.
        { unfold cmon_event. rewrite Hal, Htr, Eo, Ek, (Hob f D eq_refl). reflexivity. }
        constructor; simpl; auto. discriminate.
    + eexists. split; [reflexivity|]. split.
      { unfold cmon_event. rewrite Hal, Htr, Eo. reflexivity. }
      constructor; simpl; auto. discriminate.
  - (* poll *)
    right. eexists. eexists. split; [reflexivity|]. split.
    + unfold cmon_event. destruct (oblig m) as [[f D]|] eqn:Eo; [|reflexivity].
      destruct (S4 f D eq_refl) as (A & B & [C|(C1 & C2 & C3)] & _); [lia|].
      assert (Hd : cdone s = false).
      { destruct (cdone s) eqn:E; auto. destruct (I8 eq_refl). congruence. }
      destruct (I4 C2 Hd) as (t & El & [(_ & _ & E)|(_ & _ & E)]); rewrite C3 in El; inversion El; subst;
        (destruct (N.ltb_spec (t + w + sl) (now s)); [lia|reflexivity]).
    + constructor; simpl; auto.
  - (* cancel *)
    assert (Hd : cdone s = false).
    { destruct (cdone s) eqn:E; auto. destruct (I8 eq_refl). discriminate. }
    right. eexists.
    destruct (oblig m) as [[f D]|] eqn:Eo.
    + destruct (S4 f D eq_refl) as (A & B & C & D2).
      destruct (N.ltb D (now s)) eqn:El.
      * pose proof El as El2. apply N.ltb_lt in El2.
        destruct listen eqn:Hl; [exfalso; specialize (D2 eq_refl); lia|].
        eexists. split; [reflexivity|]. split; [unfold cmon_event; rewrite Eo, El; reflexivity|].
        constructor; simpl; auto.
        -- intros f' D' E. inversion E; subst f' D'.
           split; [exact A|]. split; [exact B|]. split; [|intros; congruence].
           destruct C as [C|(C1 & C2 & C3)]; [left; exact C|exfalso].
           destruct (I4 C2 Hd) as (t & El' & [(_ & _ & E')|(_ & _ & E')]);
             rewrite C3 in El'; inversion El'; subst; lia.
        -- intros tr E. destruct (S6 tr E) as [X _]. split; [exact X|intros; congruence].
      * eexists. split; [reflexivity|]. split; [unfold cmon_event; rewrite Eo, El; reflexivity|].
        constructor; simpl; auto. discriminate.
    + eexists. split; [reflexivity|]. split; [unfold cmon_event; rewrite Eo; reflexivity|].
      constructor; simpl; auto. discriminate.
  - (* exit *)
    left. split; [reflexivity|]. apply andb_true_iff in Heqb. destruct Heqb as [Hc Hd].
    constructor; simpl; auto.
    + intros c0 E. destruct (S3 c0 E) as (A & B & C & D).
      split; [exact A|]. split; [exact B|]. split; [intros d Ed; discriminate|intros; discriminate].
    + intros f D E. destruct (S4 f D E) as (A & B & [C|(C & _)] & D'); [|congruence].
      split; [exact A|]. split; [exact B|]. split; [left; exact C|exact D'].
    + rewrite S5. exact Hc.
    + intros tr E. destruct (S6 tr E) as [A B]. split; auto.
  - (* terminate returns *)
    right. eexists. eexists. split; [reflexivity|]. split; [reflexivity|].
    apply andb_true_iff in Heqb. destruct Heqb as [Hc Hd].
    constructor; simpl; auto.
    intros tr E. inversion E; subst. auto.
  - (* tick *)
    left. split; [reflexivity|]. unfold urgent in Heqb. apply orb_false_iff in Heqb.
    destruct Heqb as [Hu1 Hu2].
    constructor; simpl; auto.
    + intros c0 E. destruct (S3 c0 E) as (A & B & C & D). split; auto. split; [|split; auto].
      * destruct B; [left; lia|right; auto].
      * intros Ht Hd. rewrite Hd, Ht in Hu1. discriminate.
    + intros f D E. destruct (S4 f D E) as (A & B & C & D'). split; [exact A|]. split; [lia|]. split;
        [destruct C as [[C1 C2]|C]; [left; split; [exact C1|lia]|right; exact C]|].
      intros L. rewrite L in Hu2. simpl in Hu2. apply Nat.ltb_ge in Hu2.
      destruct C as [[C _]|(C1 & C2 & C3)]; [lia|].
      assert (Hd : cdone s = false).
      { destruct (cdone s) eqn:E'; auto. destruct (I8 eq_refl). congruence. }
      rewrite Hd in Hu1. simpl in Hu1. apply orb_false_iff in Hu1. destruct Hu1 as [Htc Hdue].
      destruct (I4 C2 Hd) as (t & El & [(E1 & _ & E3)|(_ & E2 & _)]); [|congruence].
      rewrite C3 in El. inversion El; subst t. unfold timer_due in Hdue. rewrite E1 in Hdue.
      apply N.leb_gt in Hdue. lia.
    + intros tr E. destruct (S6 tr E) as [A B]. split; auto. intros L Hb.
      rewrite L in Hu2. simpl in Hu2. apply Nat.ltb_ge in Hu2. lia.
  - (* end *)
    right. eexists. eexists. split; [reflexivity|]. split.
    + unfold cmon_event. destruct (oblig m) as [[f D]|] eqn:Eo; [|reflexivity].
      rewrite (Hob f D eq_refl). reflexivity.
    + constructor; simpl; auto.
Qed.

Lemma cmon_run_snoc l e :
  cmon_run w sl listen (l ++ [e]) = cmon_step w sl listen (cmon_run w sl listen l) e.
Proof. unfold cmon_run. rewrite fold_left_app. reflexivity. Qed.

Lemma csim_run acts : forall s m s',
  CInv s -> CSim s m -> cmon_run w sl listen (chistory s) = COk m ->
  crun w listen s acts = Some s' ->
  exists m', cmon_run w sl listen (chistory s') = COk m' /\ CSim s' m'.
Proof.
  induction acts as [|a r IH]; intros s m s' I SM Hm H; simpl in H.
  - inversion H; subst. eauto.
  - destruct (cstep w listen s a) as [s1|] eqn:E; [|discriminate].
    pose proof (cstep_inv _ _ _ I E) as I1.
    destruct (csim_step _ _ _ _ I SM E) as [[El S1]|(e & m1 & El & He & S1)].
    + eapply IH; eauto. unfold chistory. rewrite El. exact Hm.
    + eapply IH; eauto. unfold chistory. rewrite El. simpl. rewrite cmon_run_snoc.
      unfold chistory in Hm. rewrite Hm. exact He.
Qed.

Theorem coalescer_histories_accepted acts s :
  crun w listen cinit acts = Some s -> check_C31 w sl listen (chistory s) = true.
Proof.
  intros H. unfold check_C31.
  destruct (csim_run acts cinit cm0 s cinv_init csim_init eq_refl H) as (m' & Hm & _).
  rewrite Hm. reflexivity.
Qed.


(* ------------------------------------------------------------------ *)
(* soundness of the monitor: what an accepted history satisfies        *)
(* ------------------------------------------------------------------ *)
Definition cmon_from (m : cmon) (evs : list cevent) : cres :=
  fold_left (cmon_step w sl listen) evs (COk m).

Lemma cfold_err l k : fold_left (cmon_step w sl listen) l (CErr k) = CErr k.
Proof. induction l; simpl; auto. Qed.

Lemma cmon_from_app m A B m' :
  cmon_from m (A ++ B) = COk m' -> exists m1, cmon_from m A = COk m1 /\ cmon_from m1 B = COk m'.
Proof.
  unfold cmon_from. rewrite fold_left_app. intros H.
  destruct (fold_left (cmon_step w sl listen) A (COk m)) as [m1|k] eqn:E.
  - exists m1. auto.
  - rewrite cfold_err in H. discriminate.
Qed.

Lemma cmon_from_cons m e B m' :
  cmon_from m (e :: B) = COk m' ->
  exists m1, cmon_event w sl listen m e = COk m1 /\ cmon_from m1 B = COk m'.
Proof.
  unfold cmon_from. simpl. intros H. destruct (cmon_event w sl listen m e) as [m1|k] eqn:E.
  - exists m1. auto.
  - rewrite cfold_err in H. discriminate.
Qed.

Definition is_tc (e : cevent) : bool := match e with ETc _ => true | _ => false end.
Definition quiet_for (f : N) (e : cevent) : bool :=
  match e with ES _ _ | ETc _ => false | EG g => N.ltb (g + sl) (f + w) | _ => true end.
Definition count_sig (evs : list cevent) : nat :=
  length (filter (fun e => match e with EG _ => true | _ => false end) evs).

(* the largest number of bursts the strobes of a history can form: consecutive
   strobes certainly less than a window apart belong to one burst *)
Fixpoint bursts_upper (lc : option N) (tcd : bool) (evs : list cevent) : nat :=
  match evs with
  | [] => 0
  | ES c r :: t =>
      if tcd then S (bursts_upper lc tcd t)
      else match lc with
           | Some c0 => if N.leb (c0 + w) (r + sl) then 1 else 0
           | None => 1
           end + bursts_upper (Some c) tcd t
  | ETc _ :: t => bursts_upper lc true t
  | _ :: t => bursts_upper lc tcd t
  end.

Ltac cmon_cases H :=
  unfold cmon_event in H;
  repeat match type of H with
         | (if ?b then _ else _) = _ => destruct b eqn:?
         | match ?x with _ => _ end = _ => destruct x eqn:?
         end; try discriminate; inversion H; clear H.

Lemma cmon_event_counts m e m' :
  cmon_event w sl listen m e = COk m' ->
  sigs m <= poss m ->
  sigs m' <= poss m' /\
  sigs m' = sigs m + count_sig [e] /\
  (forall t, poss m + bursts_upper (lastc m) (isSome (tcall m)) (e :: t) =
             poss m' + bursts_upper (lastc m') (isSome (tcall m')) t).
Proof.
  intros H Hle. destruct e; cmon_cases H; subst; cbn [sigs poss lastc tcall isSome bursts_upper];
    unfold count_sig; cbn [filter length];
    repeat match goal with H : isSome _ = _ |- _ => rewrite H end.
  all: try (split; [|split]; intros; lia).
  all: apply Nat.ltb_ge in Heqb; (split; [|split; [lia|intros; reflexivity]]);
       destruct (lastc m); try destruct (N.ltb _ _); lia.
Qed.

Lemma cmon_from_counts evs : forall m m',
  cmon_from m evs = COk m' -> sigs m <= poss m ->
  sigs m' <= poss m' /\
  sigs m' = sigs m + count_sig evs /\
  poss m' = poss m + bursts_upper (lastc m) (isSome (tcall m)) evs.
Proof.
  induction evs as [|e t IH]; intros m m' H Hle.
  - unfold cmon_from in H. simpl in H. inversion H; subst. unfold count_sig. simpl. lia.
  - apply cmon_from_cons in H. destruct H as (m1 & He & H).
    destruct (cmon_event_counts _ _ _ He Hle) as (A & B & C).
    destruct (IH _ _ H A) as (A' & B' & C'). split; auto. split.
    + rewrite B', B. unfold count_sig. simpl. destruct e; simpl; lia.
    + specialize (C t). lia.
Qed.

(* never more signals than bursts, at any point of the history *)
Theorem csound_at_most evs mf :
  cmon_from cm0 evs = COk mf ->
  forall P Q, evs = P ++ Q -> count_sig P <= bursts_upper None false P.
Proof.
  intros H P Q E. subst evs. apply cmon_from_app in H. destruct H as (m1 & H1 & _).
  destruct (cmon_from_counts _ _ _ H1) as (A & B & C); [simpl; lia|].
  simpl in B, C. lia.
Qed.

Lemma cmon_event_keep m e m' f D :
  cmon_event w sl listen m e = COk m' -> oblig m = Some (f, D) -> quiet_for f e = true ->
  oblig m' = Some (f, D).
Proof.
  intros H Ho Hq. destruct e; simpl in Hq; try discriminate; unfold cmon_event in H; rewrite Ho in H.
  - (* EG *) rewrite Hq in H.
    repeat match type of H with
           | (if ?b then _ else _) = _ => destruct b eqn:?
           end; try discriminate; inversion H; subst; simpl; auto.
  - destruct (N.ltb D t); [discriminate|]. inversion H; subst; auto.
  - inversion H; subst; auto.
  - destruct (listen && N.ltb D t); [discriminate|]. inversion H; subst; auto.
Qed.

Lemma cmon_from_keep B : forall m m' f D,
  cmon_from m B = COk m' -> oblig m = Some (f, D) -> forallb (quiet_for f) B = true ->
  oblig m' = Some (f, D).
Proof.
  induction B as [|e t IH]; intros m m' f D H Ho Hq.
  - unfold cmon_from in H. simpl in H. inversion H; subst; auto.
  - simpl in Hq. apply andb_true_iff in Hq. destruct Hq as [Hq1 Hq2].
    apply cmon_from_cons in H. destruct H as (m1 & He & H).
    eapply IH; eauto. eapply cmon_event_keep; eauto.
Qed.

Lemma cmon_from_notc A : forall m m',
  cmon_from m A = COk m' -> forallb (fun e => negb (is_tc e)) A = true -> tcall m = None ->
  tcall m' = None.
Proof.
  induction A as [|e t IH]; intros m m' H Hq Ht.
  - unfold cmon_from in H. simpl in H. inversion H; subst; auto.
  - simpl in Hq. apply andb_true_iff in Hq. destruct Hq as [Hq1 Hq2].
    apply cmon_from_cons in H. destruct H as (m1 & He & H).
    eapply IH; eauto. destruct e; try discriminate; cmon_cases He; subst; simpl; auto.
Qed.

(* what the event after a strobe must look like *)
Definition within (f D : N) (x : cevent) : Prop :=
  match x with
  | ES c' _ | ETc c' | EEnd c' => listen = true -> (c' <= D)%N
  | EG g => (f + w <= g + sl)%N -> listen = true -> (g <= D)%N
  | EP t => (t <= D)%N
  | ETr _ => True
  end.

Lemma cmon_event_within m x m' f D :
  cmon_event w sl listen m x = COk m' -> oblig m = Some (f, D) -> within f D x.
Proof.
  intros H Ho. destruct x; unfold cmon_event in H; rewrite Ho in H; simpl; auto.
  - intros L. rewrite L in H. simpl in H. destruct (N.ltb_spec D c); [discriminate|lia].
  - intros Hf L. rewrite L in H. simpl in H.
    repeat match type of H with
           | (if ?b then _ else _) = _ => destruct b eqn:?
           end; try discriminate.
    + apply N.ltb_lt in Heqb1. lia.
    + apply N.ltb_ge in Heqb2. lia.
  - destruct (N.ltb_spec D t); [discriminate|lia].
  - intros L. rewrite L in H. destruct (N.ltb_spec D c); [discriminate|lia].
  - intros L. rewrite L in H. simpl in H. destruct (N.ltb_spec D t); [discriminate|lia].
Qed.

(* Every strobe (before any Terminate) is followed by a delivered signal once
   strobes have stopped for the window: with a listening consumer the next
   strobe, Terminate, end of observation or signal comes no later than
   (return of the strobe) + window + slack -- so if the others come later, a
   signal came in time; and a look at the channel later than that never finds
   it empty unless a signal was taken in between. *)
Theorem csound_delivered A c r B x D' mf :
  cmon_from cm0 (A ++ ES c r :: B ++ x :: D') = COk mf ->
  forallb (fun e => negb (is_tc e)) A = true ->
  forallb (quiet_for c) B = true ->
  within c (r + w + sl)%N x.
Proof.
  intros H HA HB.
  apply cmon_from_app in H. destruct H as (mA & H1 & H).
  apply cmon_from_cons in H. destruct H as (m1 & Hs & H).
  apply cmon_from_app in H. destruct H as (m2 & H2 & H).
  apply cmon_from_cons in H. destruct H as (m3 & Hx & _).
  pose proof (cmon_from_notc _ _ _ H1 HA eq_refl) as Ht.
  assert (Ho : oblig m1 = Some (c, (r + w + sl)%N)).
  { cmon_cases Hs; subst; simpl; auto; rewrite Ht in *; discriminate. }
  pose proof (cmon_from_keep _ _ _ _ _ H2 Ho HB) as Ho2.
  eapply cmon_event_within; eauto.
Qed.

Theorem check_C31_sound evs :
  check_C31 w sl listen evs = true ->
  (forall P Q, evs = P ++ Q -> count_sig P <= bursts_upper None false P) /\
  (forall A c r B x D', evs = A ++ ES c r :: B ++ x :: D' ->
     forallb (fun e => negb (is_tc e)) A = true -> forallb (quiet_for c) B = true ->
     within c (r + w + sl)%N x).
Proof.
  unfold check_C31, cmon_run. intros H.
  destruct (fold_left (cmon_step w sl listen) evs (COk cm0)) as [mf|] eqn:E; [|discriminate].
  split.
  - intros P Q EQ. eapply csound_at_most; eauto.
  - intros A c r B x D' EQ HA HB. rewrite EQ in E. eapply csound_delivered; eauto.
Qed.

End Coalescer.

(* ------------------------------------------------------------------ *)
(* non-vacuity                                                         *)
(* ------------------------------------------------------------------ *)
Definition coalescer_example : list caction :=
  [ AStrobe; ATick; AStrobe; ATick; ATick; ATick; AFire; AHandle; ATake;   (* burst of two, one signal at 4 *)
    ATick; ATick; ATick; ATick; AStrobe; ATick; ATick; ATick; AFire; AHandle; ATake;
    ACancel; AExit; ATermRet; AStrobe; ATick; ATick; ATick; ATick; AEnd ].

Lemma coalescer_example_run :
  exists s, crun 3 true cinit coalescer_example = Some s /\
    chistory s = [ES 0 0; ES 1 1; EG 4; ES 8 8; EG 11; ETc 11; ETr 11; ES 11 11; EEnd 15] /\
    bursts s = 2 /\ attempts s = 2 /\ taken s = 2 /\ buf s = 0 /\
    check_C31 3 0 true (chistory s) = true.
Proof. eexists. vm_compute. repeat split; reflexivity. Qed.

Lemma coalescer_example_rejects :
  (* the burst is never followed by a signal *)
  check_C31_code 30 15 true [ES 0 1; ES 10 11; ES 200 201; EEnd 400] = 2 /\
  (* a signal for each strobe of one burst *)
  check_C31_code 30 15 true [ES 0 1; EG 2; ES 5 6; EG 7; EEnd 400] = 2 /\
  (* the channel is found empty long after the window *)
  check_C31_code 30 15 false [ES 0 1; EP 100; EEnd 400] = 2 /\
  (* the signal arrives far too late for a listening consumer *)
  check_C31_code 30 15 true [ES 0 1; EG 300; EEnd 400] = 2 /\
  (* and accepted: jitter within the slack *)
  check_C31_code 30 15 true [ES 0 1; ES 20 21; EG 60; ES 100 101; EG 140; EEnd 400] = 0.
Proof. vm_compute. repeat split; reflexivity. Qed.

(* A strobe arms the timer whether or not a signal is still sitting in the
   channel: together with [coalescer_delivered] this covers the slow consumer
   (a strobe arriving while an older signal is buffered still gets its signal
   once the older one has been taken before the window ends). *)
Lemma coalescer_strobe_arms w listen s :
  cdone s = false ->
  exists s', cstep w listen s AStrobe = Some s' /\ timer s' = Some (now s + w)%N /\ owed s' = true /\
             last s' = Some (now s) /\ buf s' = buf s.
Proof. intros Hd. simpl. rewrite Hd. eexists. split; [reflexivity|]. simpl. auto. Qed.

Definition coalescer_slow_consumer : list caction :=
  [ AStrobe; ATick; ATick; ATick; AFire; AHandle;          (* first signal buffered at 3, not taken *)
    ATick; ATick; ATick; ATick;
    AStrobe;                                               (* at 7, while the old signal is buffered *)
    ATick; ATake;                                          (* the consumer takes the old signal at 8 *)
    ATick; ATick; AFire; AHandle;                          (* at 10 the strobe's own signal is placed *)
    ATick; ATick; ATake; AEnd ].

Lemma coalescer_slow_consumer_run :
  exists s, crun 3 false cinit coalescer_slow_consumer = Some s /\
    chistory s = [ES 0 0; ES 7 7; EG 8; EG 12; EEnd 12] /\
    put s = 2 /\ taken s = 2 /\ check_C31 3 0 false (chistory s) = true.
Proof. eexists. vm_compute. repeat split; reflexivity. Qed.

Lemma coalescer_slow_consumer_rejects :
  (* the strobe at 100 arrives while the first signal is buffered; the consumer
     takes the old signal at 110; nothing is there long after the window *)
  check_C31_code 30 5 false [ES 0 1; ES 100 101; EG 110; EP 200; EEnd 300] = 2 /\
  (* the same with a listener that was late for the first signal only *)
  check_C31_code 30 5 true [ES 0 1; ES 100 101; EG 110; EEnd 300] = 2 /\
  (* legitimate: the old signal is taken only after the strobe's window, the
     strobe's own signal was dropped into the full slot *)
  check_C31_code 30 5 false [ES 0 1; ES 100 101; EG 150; EP 200; EEnd 300] = 0 /\
  (* legitimate: drained in time, and a second signal is found *)
  check_C31_code 30 5 false [ES 0 1; ES 100 101; EG 110; EG 200; EEnd 300] = 0.
Proof. vm_compute. repeat split; reflexivity. Qed.

(* A strobe at time 0, as the very first action, is delivered like any other
   ([coalescer_delivered] and [coalescer_strobe_arms] quantify over every
   reachable state, the initial one included). *)
Lemma coalescer_strobe_at_zero :
  (exists s, crun 3 true cinit [AStrobe; ATick; ATick; ATick; AFire; AHandle; ATake; ATick; AEnd] = Some s /\
     chistory s = [ES 0 0; EG 3; EEnd 4] /\ last s = Some 0%N /\ owed s = false /\ taken s = 1 /\
     check_C31 3 0 true (chistory s) = true) /\
  (* a strobe that returned and is never followed by a signal is rejected,
     whenever it was issued *)
  check_C31_code 5000 15000 true [ES 0 3; EEnd 300000] = 2 /\
  check_C31_code 5000 15000 false [ES 0 3; EP 300000; EEnd 300001] = 2 /\
  check_C31_code 1500 15000 false [ES 10 12; EG 1600; ES 1600 1601; EP 400000; EEnd 400001] = 2.
Proof. split; [eexists; vm_compute; repeat split; reflexivity|vm_compute; repeat split; reflexivity]. Qed.
