(* Lemmas about Model/Config.v (C37). *)
From Coq Require Import List String Bool NArith Ascii Lia.
Import ListNotations.
From Mv Require Import Model.Config.
Local Open Scope string_scope.
Local Open Scope list_scope.
Local Open Scope N_scope.

(* ---------------------------------------------------------------- merge *)

Definition overrideN (lo hi : N) : N := if N.eqb hi 0 then lo else hi.
Definition overrideS (lo hi : string) : string := if String.eqb hi "" then lo else hi.

Lemma pickN_override : forall lo hi, pickN lo hi = overrideN lo hi.
Proof. intros; unfold pickN, overrideN; destruct (N.eqb hi 0); reflexivity. Qed.

Lemma pickS_override : forall lo hi, pickS lo hi = overrideS lo hi.
Proof. intros; unfold pickS, overrideS; destruct (String.eqb hi ""); reflexivity. Qed.

(* field by field: merge lo hi takes hi unless hi is default / zero / empty *)
Definition override_spec (lo hi m : config) : Prop :=
  c_sync_mode m = overrideN (c_sync_mode lo) (c_sync_mode hi)
  /\ c_hashing m = overrideN (c_hashing lo) (c_hashing hi)
  /\ c_max_entry_count m = overrideN (c_max_entry_count lo) (c_max_entry_count hi)
  /\ c_max_staging_file_size m = overrideN (c_max_staging_file_size lo) (c_max_staging_file_size hi)
  /\ c_probe_mode m = overrideN (c_probe_mode lo) (c_probe_mode hi)
  /\ c_scan_mode m = overrideN (c_scan_mode lo) (c_scan_mode hi)
  /\ c_stage_mode m = overrideN (c_stage_mode lo) (c_stage_mode hi)
  /\ c_symlink_mode m = overrideN (c_symlink_mode lo) (c_symlink_mode hi)
  /\ c_watch_mode m = overrideN (c_watch_mode lo) (c_watch_mode hi)
  /\ c_watch_polling_interval m = overrideN (c_watch_polling_interval lo) (c_watch_polling_interval hi)
  /\ c_ignore_syntax m = overrideN (c_ignore_syntax lo) (c_ignore_syntax hi)
  /\ c_ignore_vcs_mode m = overrideN (c_ignore_vcs_mode lo) (c_ignore_vcs_mode hi)
  /\ c_permissions_mode m = overrideN (c_permissions_mode lo) (c_permissions_mode hi)
  /\ c_default_file_mode m = overrideN (c_default_file_mode lo) (c_default_file_mode hi)
  /\ c_default_directory_mode m = overrideN (c_default_directory_mode lo) (c_default_directory_mode hi)
  /\ c_default_owner m = overrideS (c_default_owner lo) (c_default_owner hi)
  /\ c_default_group m = overrideS (c_default_group lo) (c_default_group hi)
  /\ c_compression m = overrideN (c_compression lo) (c_compression hi).

Lemma merge_override : forall lo hi, override_spec lo hi (merge lo hi).
Proof.
  intros lo hi. unfold override_spec, merge; cbn.
  rewrite !pickN_override, !pickS_override. repeat split; reflexivity.
Qed.

Lemma merge_ignores_concat :
  forall lo hi,
    c_default_ignores (merge lo hi) = c_default_ignores lo ++ c_default_ignores hi
    /\ c_ignores (merge lo hi) = c_ignores lo ++ c_ignores hi.
Proof. intros; split; reflexivity. Qed.

Lemma merge_empty_r : forall c, merge c empty_config = c.
Proof.
  intros c. destruct c; unfold merge, empty_config; cbn. rewrite !app_nil_r. reflexivity.
Qed.

(* ---------------------------------------------------------------- enum tables *)

Definition opt_N_eqb (a b : option N) : bool :=
  match a, b with
  | Some x, Some y => N.eqb x y
  | None, None => true
  | _, _ => false
  end.

Definition row_roundtrips (e : enum) (r : N * string * N) : bool :=
  let '(v, _, _) := r in
  match marshal e v with
  | Some t => opt_N_eqb (unmarshal e t) (Some v)
  | None => false
  end.

Definition enum_roundtrips (e : enum) : bool := forallb (row_roundtrips e) (rows e).

Lemma all_enums_roundtrip : forallb enum_roundtrips all_enums = true.
Proof. vm_compute. reflexivity. Qed.

Lemma row_of_In :
  forall v r t s, row_of v r = Some (t, s) -> In (v, t, s) r.
Proof.
  intros v r; induction r as [|[[w u] q] rest IH]; intros t s H; cbn in H; [discriminate|].
  destruct (N.eqb w v) eqn:E.
  - apply N.eqb_eq in E; subst. inversion H; subst. left; reflexivity.
  - right; apply IH; exact H.
Qed.

Lemma known_value_roundtrip :
  forall e, In e all_enums -> forall v t s, row_of v (rows e) = Some (t, s) ->
    exists t', marshal e v = Some t' /\ unmarshal e t' = Some v.
Proof.
  intros e He v t s Hr.
  pose proof all_enums_roundtrip as H. rewrite forallb_forall in H. specialize (H e He).
  unfold enum_roundtrips in H. rewrite forallb_forall in H.
  specialize (H (v, t, s) (row_of_In _ _ _ _ Hr)). cbn in H.
  destruct (marshal e v) as [t'|]; [|discriminate]. exists t'. split; [reflexivity|].
  destruct (unmarshal e t') as [w|]; cbn in H; [|discriminate].
  apply N.eqb_eq in H. subst; reflexivity.
Qed.

Lemma supported_roundtrip :
  forall e, In e all_enums -> forall v, supported e v = true ->
    exists t, marshal e v = Some t /\ unmarshal e t = Some v.
Proof.
  intros e He v Hs. unfold supported, support_status in Hs.
  destruct (row_of v (rows e)) as [[t s]|] eqn:R; [|discriminate].
  eapply known_value_roundtrip; eauto.
Qed.

(* the text of a supported value is never the placeholder of unknown values or
   the empty text of the default *)
Definition row_text_proper (r : N * string * N) : bool :=
  let '(v, t, _) := r in negb (String.eqb t "") && negb (String.eqb t "unknown") && negb (N.eqb v 0).

Lemma all_rows_proper :
  forallb (fun e => forallb row_text_proper (rows e)) all_enums = true.
Proof. vm_compute. reflexivity. Qed.

(* ---------------------------------------------------------------- validity *)

Ltac step H :=
  match type of H with
  | (if ?c then _ else _) = _ => let E := fresh "E" in destruct c eqn:E; [first [discriminate H | (apply negb_true_iff, N.eqb_neq in E; congruence)]|]
  end.

Lemma status_default_or_supported :
  forall e, In e all_enums -> forall v,
    N.eqb (support_status e v) 0 = false -> N.eqb (support_status e v) 1 = false ->
    supported e v = true.
Proof.
  intros e He v H0 H1. unfold supported.
  assert (Hall : forallb (fun e => forallb (fun '(_, _, s) => N.eqb s 0 || N.eqb s 2) (rows e)) all_enums = true)
    by (vm_compute; reflexivity).
  rewrite forallb_forall in Hall. specialize (Hall e He). rewrite forallb_forall in Hall.
  unfold support_status in *. destruct (row_of v (rows e)) as [[t s]|] eqn:R.
  - specialize (Hall _ (row_of_In _ _ _ _ R)). cbn in Hall. rewrite H0 in Hall. exact Hall.
  - discriminate.
Qed.

Record valid_facts (m : config) : Prop := {
  vf_sync : default_or_supported synchronization_mode (c_sync_mode m) = true;
  vf_hash : default_or_supported hashing_algorithm (c_hashing m) = true;
  vf_probe : default_or_supported probe_mode (c_probe_mode m) = true;
  vf_scan : default_or_supported scan_mode (c_scan_mode m) = true;
  vf_stage : default_or_supported stage_mode (c_stage_mode m) = true;
  vf_symlink : default_or_supported symbolic_link_mode (c_symlink_mode m) = true;
  vf_watch : default_or_supported watch_mode (c_watch_mode m) = true;
  vf_syntax : default_or_supported ignore_syntax (c_ignore_syntax m) = true;
  vf_vcs : default_or_supported ignore_vcs_mode (c_ignore_vcs_mode m) = true;
  vf_perm : default_or_supported permissions_mode (c_permissions_mode m) = true;
  vf_file : c_default_file_mode m = 0 \/
            ensure_file_mode_valid (effective_permissions_mode m) (c_default_file_mode m) = ok;
  vf_dir : c_default_directory_mode m = 0 \/
           ensure_dir_mode_valid (effective_permissions_mode m) (c_default_directory_mode m) = ok;
  vf_owner : c_default_owner m = "" \/ ownership_syntax_ok (c_default_owner m) = true;
  vf_group : c_default_group m = "" \/ ownership_syntax_ok (c_default_group m) = true;
  vf_compression : default_or_supported compression_algorithm (c_compression m) = true
}.

Lemma In_hash : In hashing_algorithm all_enums. Proof. cbn; tauto. Qed.
Lemma In_compression : In compression_algorithm all_enums. Proof. cbn; tauto. Qed.

Lemma valid_session_facts :
  forall m, ensure_valid false m = ok -> valid_facts m.
Proof.
  intros m H. unfold ensure_valid, ok in H. cbn [andb negb] in H.
  step H. step H. step H. step H. step H. step H. step H. step H. step H. step H. step H.
  cbv zeta in H. step H. step H. step H. step H. step H. step H.
  apply negb_false_iff in E, E2, E3, E4, E5, E6, E7, E8, E9.
  apply negb_false_iff in E10, E11.
  unfold validation_permissions_mode in E10, E11.
  change (if is_default (c_permissions_mode m) then default_version_permissions_mode else c_permissions_mode m)
    with (effective_permissions_mode m) in E10, E11.
  constructor; auto.
  - unfold default_or_supported. destruct (is_default (c_hashing m)) eqn:D; [reflexivity|]. cbn [negb andb orb] in *.
    apply status_default_or_supported; auto using In_hash.
  - destruct (N.eqb (c_default_file_mode m) 0) eqn:Z; [left; apply N.eqb_eq; exact Z|right; apply N.eqb_eq; exact E10].
  - destruct (N.eqb (c_default_directory_mode m) 0) eqn:Z; [left; apply N.eqb_eq; exact Z|right; apply N.eqb_eq; exact E11].
  - destruct (String.eqb (c_default_owner m) "") eqn:Z; [left; apply String.eqb_eq; exact Z|right].
    cbn [negb andb] in E12. apply negb_false_iff in E12. exact E12.
  - destruct (String.eqb (c_default_group m) "") eqn:Z; [left; apply String.eqb_eq; exact Z|right].
    cbn [negb andb] in E13. apply negb_false_iff in E13. exact E13.
  - unfold default_or_supported. destruct (is_default (c_compression m)) eqn:D; [reflexivity|]. cbn [negb andb orb] in *.
    apply status_default_or_supported; auto using In_compression.
Qed.

(* ---------------------------------------------------------------- endpoints *)

Lemma valid_local_handles :
  forall m, ensure_valid false m = ok -> local_handles m = true.
Proof.
  intros m H. destruct (valid_session_facts m H). unfold local_handles.
  rewrite vf_hash0, vf_watch0, vf_syntax0, vf_stage0. reflexivity.
Qed.

Lemma valid_endpoint_accepts :
  forall m, ensure_valid false m = ok -> endpoint_accepts m = true.
Proof.
  intros m H. unfold endpoint_accepts, remote_request_check.
  rewrite H, (valid_local_handles m H). reflexivity.
Qed.

Lemma valid_portable_no_exec :
  forall m, ensure_valid false m = ok -> portable_no_exec m = true.
Proof.
  intros m H. destruct (valid_session_facts m H) as [_ _ _ _ _ _ _ _ _ _ Hf _ _ _ _].
  unfold portable_no_exec, effective_file_mode.
  destruct Hf as [Z|Hf].
  - rewrite Z. cbn. rewrite andb_false_r. reflexivity.
  - destruct (N.eqb (c_default_file_mode m) 0) eqn:Z.
    + cbn. rewrite andb_false_r. reflexivity.
    + unfold ensure_file_mode_valid in Hf. rewrite Z in Hf.
      destruct (negb (N.land (c_default_file_mode m) mode_permissions_mask =? c_default_file_mode m)); [discriminate|].
      destruct (N.eqb (effective_permissions_mode m) perm_portable && any_exec_bit (c_default_file_mode m)); [discriminate|reflexivity].
Qed.

Lemma creation_fixed_merged_valid :
  forall c a b, creation_accepts true c a b = true ->
    ensure_valid false c = ok /\ ensure_valid true a = ok /\ ensure_valid true b = ok
    /\ ensure_valid false (merge c a) = ok /\ ensure_valid false (merge c b) = ok.
Proof.
  intros c a b H. unfold creation_accepts, creation_check in H. apply N.eqb_eq in H.
  cbn [andb] in H.
  destruct (N.eqb (ensure_valid false c) ok) eqn:E1; cbn [negb] in H.
  2:{ unfold tagged in H. rewrite E1 in H. unfold ok in H. lia. }
  destruct (N.eqb (ensure_valid true a) ok) eqn:E2; cbn [negb] in H.
  2:{ unfold tagged in H. rewrite E2 in H. unfold ok in H. lia. }
  destruct (N.eqb (ensure_valid true b) ok) eqn:E3; cbn [negb] in H.
  2:{ unfold tagged in H. rewrite E3 in H. unfold ok in H. lia. }
  destruct (N.eqb (ensure_valid false (merge c a)) ok) eqn:E4; cbn [negb] in H.
  2:{ unfold tagged in H. rewrite E4 in H. unfold ok in H. lia. }
  destruct (N.eqb (ensure_valid false (merge c b)) ok) eqn:E5; cbn [negb] in H.
  2:{ unfold tagged in H. rewrite E5 in H. unfold ok in H. lia. }
  apply N.eqb_eq in E1, E2, E3, E4, E5. auto.
Qed.

Lemma accepted_implies_endpoint_ok :
  forall c a b, creation_accepts true c a b = true ->
    endpoint_accepts (merge c a) = true /\ endpoint_accepts (merge c b) = true.
Proof.
  intros c a b H. destruct (creation_fixed_merged_valid c a b H) as (_ & _ & _ & Ha & Hb).
  split; apply valid_endpoint_accepts; assumption.
Qed.

Lemma accepted_portable_no_exec_bits :
  forall c a b, creation_accepts true c a b = true ->
    portable_no_exec (merge c a) = true /\ portable_no_exec (merge c b) = true.
Proof.
  intros c a b H. destruct (creation_fixed_merged_valid c a b H) as (_ & _ & _ & Ha & Hb).
  split; apply valid_portable_no_exec; assumption.
Qed.

(* a combination accepted at creation puts no ignores into the endpoint-specific
   parts, so each endpoint sees exactly the session's lists, in order *)
Lemma accepted_ignores :
  forall fixed c a b, creation_accepts fixed c a b = true ->
    c_ignores (merge c a) = c_ignores c /\ c_ignores (merge c b) = c_ignores c
    /\ c_default_ignores (merge c a) = c_default_ignores c
    /\ c_default_ignores (merge c b) = c_default_ignores c.
Proof.
  intros fixed c a b H. unfold creation_accepts, creation_check in H. apply N.eqb_eq in H.
  destruct (N.eqb (ensure_valid false c) ok) eqn:E1; cbn [negb] in H.
  2:{ unfold tagged in H. rewrite E1 in H. unfold ok in H. lia. }
  destruct (N.eqb (ensure_valid true a) ok) eqn:E2; cbn [negb] in H.
  2:{ unfold tagged in H. rewrite E2 in H. unfold ok in H. lia. }
  destruct (N.eqb (ensure_valid true b) ok) eqn:E3; cbn [negb] in H.
  2:{ unfold tagged in H. rewrite E3 in H. unfold ok in H. lia. }
  clear H. apply N.eqb_eq in E2, E3.
  assert (Hs : forall x, ensure_valid true x = ok -> c_ignores x = [] /\ c_default_ignores x = []).
  { intros x Hx. unfold ensure_valid, ok in Hx. cbn [andb negb] in Hx.
    step Hx. step Hx. step Hx. step Hx. step Hx. step Hx. step Hx. step Hx. step Hx. step Hx.
    destruct (c_ignores x), (c_default_ignores x); try discriminate. auto. }
  destruct (Hs a E2) as [Ia Da]. destruct (Hs b E3) as [Ib Db].
  cbn. rewrite Ia, Da, Ib, Db, !app_nil_r. auto.
Qed.

(* ---------------------------------------------------------------- the code as it is *)

(* ConfigurationAlpha{DefaultFileMode: 0755} under (default = portable)
   permissions *)
Definition witness_alpha : config :=
  {| c_sync_mode := 0; c_hashing := 0; c_max_entry_count := 0; c_max_staging_file_size := 0;
     c_probe_mode := 0; c_scan_mode := 0; c_stage_mode := 0; c_symlink_mode := 0;
     c_watch_mode := 0; c_watch_polling_interval := 0; c_ignore_syntax := 0;
     c_default_ignores := []; c_ignores := []; c_ignore_vcs_mode := 0;
     c_permissions_mode := 0; c_default_file_mode := 493; c_default_directory_mode := 0;
     c_default_owner := ""; c_default_group := ""; c_compression := 0 |}.

Lemma refuted_unfixed :
  exists c a b,
    creation_accepts false c a b = true
    /\ endpoint_accepts (merge c a) = false
    /\ portable_no_exec (merge c a) = false.
Proof. exists empty_config, witness_alpha, empty_config. vm_compute. auto. Qed.

Lemma refuted_unfixed_explicit_portable :
  exists c a b,
    c_permissions_mode c = perm_portable
    /\ creation_accepts false c a b = true
    /\ remote_request_check (merge c b) = 23
    /\ local_handles (merge c b) = true
    /\ portable_no_exec (merge c b) = false.
Proof.
  exists (merge empty_config {| c_sync_mode := 0; c_hashing := 0; c_max_entry_count := 0; c_max_staging_file_size := 0;
     c_probe_mode := 0; c_scan_mode := 0; c_stage_mode := 0; c_symlink_mode := 0;
     c_watch_mode := 0; c_watch_polling_interval := 0; c_ignore_syntax := 0;
     c_default_ignores := []; c_ignores := []; c_ignore_vcs_mode := 0;
     c_permissions_mode := 1; c_default_file_mode := 0; c_default_directory_mode := 0;
     c_default_owner := ""; c_default_group := ""; c_compression := 0 |}), empty_config, witness_alpha.
  vm_compute. auto.
Qed.

Lemma fixed_rejects_witness :
  creation_check true empty_config witness_alpha empty_config = 423.
Proof. vm_compute. reflexivity. Qed.

(* the repair only ever rejects more, and agrees on everything the endpoints
   accept anyway *)
Lemma fixed_implies_unfixed :
  forall c a b, creation_accepts true c a b = true -> creation_accepts false c a b = true.
Proof.
  intros c a b H. destruct (creation_fixed_merged_valid c a b H) as (Hc & Ha & Hb & _).
  unfold creation_accepts, creation_check. rewrite Hc, Ha, Hb. reflexivity.
Qed.

Lemma unfixed_plus_endpoints_implies_fixed :
  forall c a b, creation_accepts false c a b = true ->
    endpoint_accepts (merge c a) = true -> endpoint_accepts (merge c b) = true ->
    creation_accepts true c a b = true.
Proof.
  intros c a b H Ha Hb. unfold creation_accepts, creation_check in *.
  unfold endpoint_accepts, remote_request_check in Ha, Hb.
  apply andb_true_iff in Ha, Hb. destruct Ha as [Ha _], Hb as [Hb _].
  cbn [andb] in *. rewrite Ha, Hb. cbn [negb].
  destruct (negb (ensure_valid false c =? ok)); [exact H|].
  destruct (negb (ensure_valid true a =? ok)); [exact H|].
  destruct (negb (ensure_valid true b =? ok)); [exact H|]. reflexivity.
Qed.

(* ---------------------------------------------------------------- checker *)

Lemma config_eqb_eq : forall x y, config_eqb x y = true -> x = y.
Proof.
  intros x y H. unfold config_eqb in H.
  repeat (apply andb_true_iff in H; let H2 := fresh "F" in destruct H as [H H2]).
  destruct (list_eq_dec string_dec (c_default_ignores x) (c_default_ignores y)); [|discriminate].
  destruct (list_eq_dec string_dec (c_ignores x) (c_ignores y)); [|discriminate].
  repeat match goal with
         | h : N.eqb _ _ = true |- _ => apply N.eqb_eq in h
         | h : String.eqb _ _ = true |- _ => apply String.eqb_eq in h
         end.
  destruct x, y; cbn in *; subst; reflexivity.
Qed.

Lemma config_eqb_refl : forall x, config_eqb x x = true.
Proof.
  intros x. unfold config_eqb. rewrite !N.eqb_refl, !String.eqb_refl.
  destruct (list_eq_dec string_dec (c_default_ignores x) (c_default_ignores x)); [|congruence].
  destruct (list_eq_dec string_dec (c_ignores x) (c_ignores x)); [|congruence]. reflexivity.
Qed.

(* the property as a proposition on what was observed *)
Definition endpoint_ok_prop (o : endpoint_obs) : Prop :=
  o_remote o = ok /\ o_local o = ok
  /\ ~ (o_perm o = perm_portable /\ any_exec_bit (o_file_mode o) = true).

Definition prop_C37 (c a b : config) (created : bool) (oa ob : endpoint_obs) : Prop :=
  override_spec c a (o_merged oa) /\ override_spec c b (o_merged ob)
  /\ c_ignores (o_merged oa) = c_ignores c ++ c_ignores a
  /\ c_ignores (o_merged ob) = c_ignores c ++ c_ignores b
  /\ c_default_ignores (o_merged oa) = c_default_ignores c ++ c_default_ignores a
  /\ c_default_ignores (o_merged ob) = c_default_ignores c ++ c_default_ignores b
  /\ (created = true -> endpoint_ok_prop oa /\ endpoint_ok_prop ob).

Lemma endpoint_ok_sound : forall o, endpoint_ok o = true -> endpoint_ok_prop o.
Proof.
  intros o H. unfold endpoint_ok in H.
  apply andb_true_iff in H. destruct H as [H H3]. apply andb_true_iff in H. destruct H as [H1 H2].
  apply N.eqb_eq in H1, H2. repeat split; auto.
  intros [Hp Hx]. rewrite Hp, Hx in H3. cbn in H3. discriminate.
Qed.

Lemma check_sound :
  forall c a b created oa ob, check_C37 c a b created oa ob = true -> prop_C37 c a b created oa ob.
Proof.
  intros c a b created oa ob H. unfold check_C37 in H.
  apply andb_true_iff in H. destruct H as [H H3]. apply andb_true_iff in H. destruct H as [H1 H2].
  apply config_eqb_eq in H1, H2. unfold prop_C37. rewrite H1, H2.
  split; [apply merge_override|]. split; [apply merge_override|].
  split; [reflexivity|]. split; [reflexivity|]. split; [reflexivity|]. split; [reflexivity|].
  intros Hc. subst created. apply andb_true_iff in H3. destruct H3 as [Ha Hb].
  split; apply endpoint_ok_sound; assumption.
Qed.

Lemma model_passes :
  forall c a b,
    check_C37 c a b (creation_accepts true c a b) (model_obs (merge c a)) (model_obs (merge c b)) = true.
Proof.
  intros c a b. unfold check_C37. cbn [o_merged model_obs]. rewrite !config_eqb_refl. cbn [andb].
  destruct (creation_accepts true c a b) eqn:H; [|reflexivity].
  destruct (creation_fixed_merged_valid c a b H) as (_ & _ & _ & Ha & Hb).
  assert (P : forall m, ensure_valid false m = ok -> endpoint_ok (model_obs m) = true).
  { intros m Hm. unfold endpoint_ok, model_obs; cbn [o_remote o_local o_perm o_file_mode].
    unfold remote_request_check. rewrite Hm, (valid_local_handles m Hm).
    pose proof (valid_portable_no_exec m Hm) as Q. unfold portable_no_exec in Q.
    rewrite Q. reflexivity. }
  rewrite (P _ Ha), (P _ Hb). reflexivity.
Qed.

Lemma model_unfixed_fails_check :
  exists c a b,
    check_C37 c a b (creation_accepts false c a b) (model_obs (merge c a)) (model_obs (merge c b)) = false.
Proof. exists empty_config, witness_alpha, empty_config. vm_compute. reflexivity. Qed.

(* ---------------------------------------------------------------- environment *)

(* Endpoint initialization also depends on the endpoint's environment: the
   ignore patterns must compile under the effective syntax and the owner and
   group must resolve in the endpoint's user database. Creation cannot decide
   either (the code says so); they are a parameter here. *)
Section Environment.
  Variable env_accepts : config -> bool.

  Definition endpoint_init_accepts (m : config) : bool := endpoint_accepts m && env_accepts m.

  Definition full_statement : Prop :=
    forall c a b, creation_accepts true c a b = true ->
      endpoint_init_accepts (merge c a) = true /\ endpoint_init_accepts (merge c b) = true.

  Lemma endpoint_init_partial :
    forall c a b, creation_accepts true c a b = true ->
      env_accepts (merge c a) = true -> env_accepts (merge c b) = true ->
      endpoint_init_accepts (merge c a) = true /\ endpoint_init_accepts (merge c b) = true.
  Proof.
    intros c a b H Ea Eb. destruct (accepted_implies_endpoint_ok c a b H) as [Ha Hb].
    unfold endpoint_init_accepts. rewrite Ha, Hb, Ea, Eb. auto.
  Qed.

  (* the unrestricted statement holds exactly when the environment rejects no
     configuration that passes validation *)
  Lemma full_statement_iff_env :
    full_statement <-> (forall c a b, creation_accepts true c a b = true ->
                          env_accepts (merge c a) = true /\ env_accepts (merge c b) = true).
  Proof.
    unfold full_statement, endpoint_init_accepts. split; intros H c a b Hc.
    - destruct (H c a b Hc) as [Ha Hb]. apply andb_true_iff in Ha, Hb. tauto.
    - destruct (H c a b Hc) as [Ea Eb]. destruct (accepted_implies_endpoint_ok c a b Hc) as [Ha Hb].
      rewrite Ha, Hb, Ea, Eb. auto.
  Qed.
End Environment.

Lemma example_accepts :
  let c := merge empty_config witness_alpha in
  let c' := {| c_sync_mode := 3; c_hashing := 2; c_max_entry_count := 10; c_max_staging_file_size := 0;
     c_probe_mode := 1; c_scan_mode := 2; c_stage_mode := 2; c_symlink_mode := 2;
     c_watch_mode := 2; c_watch_polling_interval := 5; c_ignore_syntax := 2;
     c_default_ignores := []; c_ignores := ["*.o"; "!keep.o"]; c_ignore_vcs_mode := 1;
     c_permissions_mode := 2; c_default_file_mode := 420; c_default_directory_mode := 493;
     c_default_owner := "id:1000"; c_default_group := "staff"; c_compression := 2 |} in
  creation_accepts true c' witness_alpha empty_config = true
  /\ c_default_file_mode (merge c' witness_alpha) = 493
  /\ c_ignores (merge c' witness_alpha) = ["*.o"; "!keep.o"]
  /\ creation_accepts true c empty_config empty_config = false.
Proof. vm_compute. auto. Qed.
