(* Proofs about Model/Confine.v (C17). *)
From Coq Require Import List Arith String Ascii Bool Lia.
Import ListNotations.
From Mv Require Import Model.Confine.

Local Open Scope string_scope.

(* ------------------------------------------------------------ strings *)

Lemma has_slash_app : forall a b, has_slash (a ++ b) = has_slash a || has_slash b.
Proof.
  induction a as [|c a IH]; intro b; cbn; [reflexivity|].
  rewrite IH. apply orb_assoc.
Qed.

Lemma app_empty_r : forall s : string, s ++ "" = s.
Proof. induction s as [|c s IH]; cbn; [reflexivity|]. rewrite IH. reflexivity. Qed.

Lemma app_assoc_s : forall a b c : string, (a ++ b) ++ c = a ++ (b ++ c).
Proof. induction a as [|x a IH]; intros; cbn; [reflexivity|]. rewrite IH. reflexivity. Qed.

Lemma split_aux_noslash : forall s cur, has_slash s = false -> split_aux s cur = [cur ++ s].
Proof.
  induction s as [|c s IH]; intros cur H; cbn in *.
  - rewrite app_empty_r. reflexivity.
  - apply orb_false_iff in H. destruct H as [H1 H2]. rewrite H1.
    rewrite IH by exact H2. rewrite app_assoc_s. reflexivity.
Qed.

Lemma split_aux_slash : forall x y cur, has_slash x = false ->
  split_aux (x ++ "/" ++ y) cur = (cur ++ x) :: split_aux y "".
Proof.
  induction x as [|c x IH]; intros y cur H; cbn in *.
  - rewrite app_empty_r. reflexivity.
  - apply orb_false_iff in H. destruct H as [H1 H2]. rewrite H1.
    rewrite IH by exact H2. rewrite app_assoc_s. reflexivity.
Qed.

Lemma split_aux_components : forall s cur, has_slash cur = false ->
  Forall (fun c => has_slash c = false) (split_aux s cur).
Proof.
  induction s as [|c s IH]; intros cur H; cbn.
  - constructor; [exact H|constructor].
  - destruct (Ascii.eqb c slash) eqn:E.
    + constructor; [exact H|]. apply IH. reflexivity.
    + apply IH. rewrite has_slash_app, H. cbn. rewrite E. reflexivity.
Qed.

(* every component strings.Split yields is free of separators *)
Lemma split_slash_components : forall s, Forall (fun c => has_slash c = false) (split_slash s).
Proof. intro s. apply split_aux_components. reflexivity. Qed.

Lemma strip_prefix_app : forall a b, strip_prefix a (a ++ b) = Some b.
Proof.
  induction a as [|c a IH]; intro b; cbn; [reflexivity|].
  rewrite Ascii.eqb_refl. apply IH.
Qed.

Lemma all_chars_app : forall P a b, all_chars P (a ++ b) = all_chars P a && all_chars P b.
Proof.
  intros P. induction a as [|c a IH]; intro b; cbn; [reflexivity|].
  rewrite IH. apply andb_assoc.
Qed.

Lemma all_chars_substring : forall P s n m, all_chars P s = true -> all_chars P (substring n m s) = true.
Proof.
  intros P. induction s as [|c s IH]; intros n m H; cbn in *.
  - destruct n, m; reflexivity.
  - apply andb_true_iff in H. destruct H as [H1 H2].
    destruct n as [|n].
    + destruct m as [|m]; cbn; [reflexivity|]. rewrite H1. cbn. apply IH. exact H2.
    + apply IH. exact H2.
Qed.

Lemma hex_char_not_special : forall c, is_hex_char c = true ->
  Ascii.eqb c slash = false /\ Ascii.eqb c "."%char = false.
Proof.
  intros c H. unfold is_hex_char in H.
  split; destruct (Ascii.eqb c _) eqn:E; try reflexivity;
    apply Ascii.eqb_eq in E; subst c; cbn in H; discriminate.
Qed.

Lemma hex_no_slash : forall s, is_hex s = true -> has_slash s = false.
Proof.
  induction s as [|c s IH]; intro H; cbn in *; [reflexivity|].
  apply andb_true_iff in H. destruct H as [H1 H2].
  destruct (hex_char_not_special c H1) as [E _]. rewrite E. cbn. apply IH. exact H2.
Qed.

Lemma hex_valid_name : forall s, is_hex s = true -> valid_name s = true.
Proof.
  intros s H. unfold valid_name. rewrite (hex_no_slash s H). cbn.
  destruct s as [|c s]; [reflexivity|].
  cbn in H. apply andb_true_iff in H. destruct H as [H1 _].
  destruct (hex_char_not_special c H1) as [_ E].
  assert (N : forall t, (String c s =? String "."%char t) = false).
  { intro t. apply String.eqb_neq. intro X. injection X as X _. subst c.
    rewrite Ascii.eqb_refl in E. discriminate. }
  rewrite (N ""), (N "."). reflexivity.
Qed.

(* ------------------------------------------------ programs: post-conditions *)
Section Ops.
Variable root : string.
Variable staging : string.
Variable ownership : bool.
(* the root path is cleaned: its base name is a proper name *)
Hypothesis Hroot : valid_name (root_base root) = true.

Notation prim_ok := (prim_ok root staging).
Notation from_root := (from_root root).
Notation at_ok := (at_ok root).

(* every primitive issued is confined, and every value returned satisfies Q *)
Fixpoint cpost {A : Type} (Q : A -> Prop) (m : prog A) : Prop :=
  match m with
  | Ret a => Q a
  | Do p k => prim_ok p = true /\ forall a, sane a = true -> cpost Q (k a)
  end.

Lemma cpost_confined : forall A (Q : A -> Prop) (m : prog A), cpost Q m -> Confine.confined root staging m.
Proof.
  induction m as [a|p k IH]; cbn; [auto|].
  intros [H1 H2]. split; [exact H1|]. intros a Ha. apply IH. apply H2. exact Ha.
Qed.

Lemma cpost_bind : forall A B (Q : A -> Prop) (R : B -> Prop) (m : prog A) (f : A -> prog B),
  cpost Q m -> (forall a, Q a -> cpost R (f a)) -> cpost R (bind m f).
Proof.
  induction m as [a|p k IH]; cbn; intros f Hm Hf.
  - apply Hf. exact Hm.
  - destruct Hm as [H1 H2]. split; [exact H1|]. intros a Ha. apply IH; [apply H2; exact Ha|exact Hf].
Qed.

Lemma cpost_weaken : forall A (Q R : A -> Prop) (m : prog A),
  cpost Q m -> (forall a, Q a -> R a) -> cpost R m.
Proof.
  induction m as [a|p k IH]; cbn; intros Hm Hi.
  - apply Hi. exact Hm.
  - destruct Hm as [H1 H2]. split; [exact H1|]. intros a Ha. apply IH; [apply H2; exact Ha|exact Hi].
Qed.

Definition any {A : Type} : A -> Prop := fun _ => True.

Lemma cpost_choice : forall what, cpost (@any bool) (choice what).
Proof. intro what. cbn. split; [reflexivity|]. intros a _. destruct a; exact I. Qed.

Lemma cpost_ok_or_err : forall a, cpost (@any (res unit)) (ok_or_err a).
Proof. intro a. destruct a; exact I. Qed.

(* ---------------------------------------------------------------- handles *)

Definition hok (h : handle) : Prop := from_root h = true.
(* a (directory, name) pair as walkToParentAndComputeLeafName hands it out *)
Definition pokr (h : handle) (n : string) : Prop :=
  hok h \/ (h = HRootParent /\ n = root_base root).
(* ... or the cross-device temporary beside it *)
Definition pok (h : handle) (n : string) : Prop :=
  hok h \/ (h = HRootParent /\ parent_name_ok root n = true).

Lemma parent_name_ok_root : parent_name_ok root (root_base root) = true.
Proof. unfold parent_name_ok. rewrite String.eqb_refl, Hroot. reflexivity. Qed.

Lemma pok_of_pokr : forall h n, pokr h n -> pok h n.
Proof. intros h n [H|[-> ->]]; [left; exact H|right; split; [reflexivity|apply parent_name_ok_root]]. Qed.

Lemma at_ok_of_pok : forall h n, pok h n -> valid_name n = true -> at_ok h n = true.
Proof.
  intros h n [H|[-> Hn]] Hv; unfold Confine.at_ok.
  - unfold hok in H. rewrite H, Hv. reflexivity.
  - cbn. rewrite Hn. reflexivity.
Qed.

Lemma from_root_child : forall h n, hok h -> (n =? ".") || valid_name n = true ->
  hok (HChild h n).
Proof.
  intros h n H Hn. unfold hok in *. destruct h; cbn in *; try discriminate.
  - exact Hn.
  - rewrite H. exact Hn.
Qed.

Definition res_hok (r : res handle) : Prop := match r with OkR h => hok h | ErrR => True end.

(* ------------------------------------------------------------ Directory.* *)

Lemma dir_open_directory_ok : forall h n, pokr h n -> cpost res_hok (dir_open_directory h n).
Proof.
  intros h n Hp. unfold dir_open_directory.
  destruct ((n =? ".") || valid_name n) eqn:E; [|exact I].
  cbn [cpost]. split.
  - destruct Hp as [H|[-> ->]]; cbn.
    + unfold hok in H. rewrite H. cbn. rewrite E. reflexivity.
    + rewrite parent_name_ok_root. reflexivity.
  - intros a _. destruct a; cbn; try exact I.
    destruct Hp as [H|[-> ->]].
    + apply from_root_child; assumption.
    + unfold hok. cbn. rewrite String.eqb_refl, Hroot. reflexivity.
Qed.

Lemma open_file_prim_ok : forall h n, pok h n -> valid_name n = true ->
  prim_ok (POpenAt h n false) = true.
Proof.
  intros h n [H|[-> Hn]] Hv; cbn.
  - unfold hok in H. rewrite H, Hv. reflexivity.
  - rewrite Hn. reflexivity.
Qed.

Lemma at_prim_simple : forall (mk : handle -> string -> prim) h n,
  (forall h n, prim_ok (mk h n) = at_ok h n) ->
  pok h n ->
  cpost (@any (res unit)) (if valid_name n then Do (mk h n) ok_or_err else Ret ErrR).
Proof.
  intros mk h n Hmk Hp. destruct (valid_name n) eqn:E; [|exact I].
  cbn [cpost]. split; [rewrite Hmk; apply at_ok_of_pok; assumption|].
  intros a _. apply cpost_ok_or_err.
Qed.

Lemma dir_open_file_ok : forall h n, pok h n -> cpost (@any (res unit)) (dir_open_file h n).
Proof.
  intros h n Hp. unfold dir_open_file. destruct (valid_name n) eqn:E; [|exact I].
  cbn [cpost]. split; [apply open_file_prim_ok; assumption|].
  intros a _. apply cpost_ok_or_err.
Qed.

Lemma dir_create_directory_ok : forall h n, pok h n -> cpost (@any (res unit)) (dir_create_directory h n).
Proof. intros. apply (at_prim_simple PMkdirAt); [reflexivity|assumption]. Qed.

Lemma dir_create_symbolic_link_ok : forall h n, pok h n -> cpost (@any (res unit)) (dir_create_symbolic_link h n).
Proof. intros. apply (at_prim_simple PSymlinkAt); [reflexivity|assumption]. Qed.

Lemma dir_remove_directory_ok : forall h n, pok h n -> cpost (@any (res unit)) (dir_remove_directory h n).
Proof. intros. apply (at_prim_simple (fun h n => PUnlinkAt h n true)); [reflexivity|assumption]. Qed.

Lemma dir_remove_file_ok : forall h n, pok h n -> cpost (@any (res unit)) (dir_remove_file h n).
Proof. intros. apply (at_prim_simple (fun h n => PUnlinkAt h n false)); [reflexivity|assumption]. Qed.

Lemma dir_set_permissions_ok : forall h n own md, pok h n ->
  cpost (@any (res unit)) (dir_set_permissions h n own md).
Proof.
  intros h n own md Hp. unfold dir_set_permissions. destruct (valid_name n) eqn:E; [|exact I].
  eapply cpost_bind with (Q := @any (res unit)).
  - destruct own; [|exact I]. cbn [cpost]. split; [apply at_ok_of_pok; assumption|].
    intros a _. apply cpost_ok_or_err.
  - intros r _. destruct r; [|exact I]. destruct md; [|exact I].
    cbn [cpost]. split; [apply open_file_prim_ok; assumption|].
    intros a' _. apply cpost_ok_or_err.
Qed.

Definition names_ok (r : res (list string)) : Prop :=
  match r with OkR l => Forall (fun n => listed_name_ok n = true) l | ErrR => True end.

Lemma dir_read_content_names_ok : forall h, hok h -> cpost names_ok (dir_read_content_names h).
Proof.
  intros h H. unfold dir_read_content_names. cbn [cpost]. split; [exact H|].
  intros a Ha. destruct a; cbn; try exact I.
  cbn in Ha. rewrite forallb_forall in Ha. apply Forall_forall. intros n Hin.
  apply filter_In in Hin. destruct Hin as [Hin _]. apply Ha. exact Hin.
Qed.

Lemma dir_read_content_metadata_raw_ok : forall h n, hok h -> listed_name_ok n = true ->
  cpost (@any (res kind)) (dir_read_content_metadata_raw h n).
Proof.
  intros h n H Hn. unfold dir_read_content_metadata_raw. cbn [cpost]. split.
  - cbn. unfold Confine.at_ok. unfold hok in H. rewrite H.
    unfold listed_name_ok in Hn. apply andb_true_iff in Hn. destruct Hn as [Hv _]. rewrite Hv. reflexivity.
  - intros a _. destruct a; exact I.
Qed.

Lemma dir_read_content_metadata_ok : forall h n, pok h n ->
  cpost (@any (res kind)) (dir_read_content_metadata h n).
Proof.
  intros h n Hp. unfold dir_read_content_metadata. destruct (valid_name n) eqn:E; [|exact I].
  unfold dir_read_content_metadata_raw. cbn [cpost]. split; [apply at_ok_of_pok; assumption|].
  intros a _. destruct a; exact I.
Qed.

Definition listing_ok (r : res (list (string * kind))) : Prop :=
  match r with OkR l => Forall (fun nk => listed_name_ok (fst nk) = true) l | ErrR => True end.

Lemma read_contents_loop_ok : forall h names, hok h ->
  Forall (fun n => listed_name_ok n = true) names ->
  cpost listing_ok (read_contents_loop h names).
Proof.
  intros h names H. induction names as [|n rest IH]; intro Hn; cbn [read_contents_loop].
  - cbn. constructor.
  - inversion Hn as [|? ? Hn1 Hn2]; subst.
    eapply cpost_bind; [apply dir_read_content_metadata_raw_ok; assumption|].
    intros r _. destruct r as [k|].
    + eapply cpost_bind; [apply IH; exact Hn2|].
      intros r' Hr'. destruct r' as [l|]; cbn; [|exact I]. constructor; [exact Hn1|exact Hr'].
    + eapply cpost_bind; [apply cpost_choice|]. intros b _. destruct b; [apply IH; exact Hn2|exact I].
Qed.

Lemma dir_read_contents_ok : forall h, hok h -> cpost listing_ok (dir_read_contents h).
Proof.
  intros h H. unfold dir_read_contents.
  eapply cpost_bind; [apply dir_read_content_names_ok; exact H|].
  intros r Hr. destruct r as [names|]; [|exact I]. apply read_contents_loop_ok; assumption.
Qed.

Lemma dir_read_symbolic_link_ok : forall h n, pok h n -> cpost (@any (res string)) (dir_read_symbolic_link h n).
Proof.
  intros h n Hp. unfold dir_read_symbolic_link. destruct (valid_name n) eqn:E; [|exact I].
  cbn [cpost]. split; [apply at_ok_of_pok; assumption|]. intros a _. destruct a; exact I.
Qed.

Lemma digit_char_noslash : forall d, Ascii.eqb (digit_char d) slash = false.
Proof.
  intro d. unfold digit_char.
  assert (H : d mod 10 < 10) by (apply Nat.mod_upper_bound; lia).
  destruct (d mod 10) as [|[|[|[|[|[|[|[|[|[|n]]]]]]]]]]; try reflexivity. lia.
Qed.

Lemma digits_noslash : forall ds, has_slash (digits_string ds) = false.
Proof.
  induction ds as [|d t IH]; cbn [digits_string has_slash]; [reflexivity|]. rewrite digit_char_noslash, IH. reflexivity.
Qed.

Lemma cross_device_name_valid : forall r,
  valid_name (cross_device_pattern ++ digits_string r ++ "") = true.
Proof.
  intro r. unfold valid_name. rewrite !has_slash_app, digits_noslash. reflexivity.
Qed.

Lemma prefix_app_self : forall a b, prefix a (a ++ b) = true.
Proof.
  induction a as [|c a IH]; intro b; cbn; [destruct b; reflexivity|].
  destruct (ascii_dec c c); [apply IH|contradiction].
Qed.

(* the temporary beside [n] in the same directory is again a permitted pair *)
Definition res_tmp_ok (h : handle) (r : res string) : Prop :=
  match r with OkR t => pok h t | ErrR => True end.

Lemma tmp_pok : forall h n r, pok h n -> pok h (cross_device_pattern ++ digits_string r ++ "").
Proof.
  intros h n r [H|[-> _]]; [left; exact H|]. right. split; [reflexivity|].
  unfold parent_name_ok. rewrite prefix_app_self, cross_device_name_valid. apply andb_true_iff.
  split; [apply orb_true_r|reflexivity].
Qed.

Lemma dir_create_temporary_file_ok : forall h n rnds, pok h n ->
  cpost (res_tmp_ok h) (dir_create_temporary_file h cross_device_pattern rnds).
Proof.
  intros h n rnds Hp. induction rnds as [|r rest IH]; cbn [dir_create_temporary_file].
  - change (valid_name cross_device_pattern) with true. cbn iota. exact I.
  - change (valid_name cross_device_pattern) with true. cbn iota.
    change (star_split cross_device_pattern) with (cross_device_pattern, "").
    cbn [cpost]. split.
    + cbn. apply at_ok_of_pok; [eapply tmp_pok; exact Hp|apply cross_device_name_valid].
    + intros a _. destruct a; try exact I.
      * cbn. eapply tmp_pok. exact Hp.
      * exact IH.
Qed.

Lemma dir_rename_ok : forall h1 n1 h2 n2 rep, pok h1 n1 -> pok h2 n2 ->
  cpost (@any (res unit)) (dir_rename h1 n1 h2 n2 rep).
Proof.
  intros h1 n1 h2 n2 rep H1 H2. unfold dir_rename.
  destruct (valid_name n1 && valid_name n2) eqn:E; [|exact I].
  apply andb_true_iff in E. destruct E as [E1 E2].
  assert (Hp : forall nr, prim_ok (PRenameAt h1 n1 h2 n2 nr) = true).
  { intro nr. cbn. rewrite (at_ok_of_pok _ _ H1 E1), (at_ok_of_pok _ _ H2 E2). reflexivity. }
  destruct rep; cbn [cpost].
  - split; [apply Hp|]. intros a _. apply cpost_ok_or_err.
  - split; [apply Hp|]. intros a _. destruct a; try exact I.
    eapply cpost_bind; [apply dir_read_content_metadata_ok; exact H2|].
    intros r _. destruct r; [exact I|].
    eapply cpost_bind; [apply cpost_choice|]. intros b _. destruct b; [|exact I].
    cbn [cpost]. split; [apply Hp|]. intros a' _. apply cpost_ok_or_err.
Qed.

(* ------------------------------------- walkToParentAndComputeLeafName *)

Lemma name_exists_ok : forall h n, hok h -> cpost (@any (res bool)) (name_exists h n).
Proof.
  intros h n H. unfold name_exists.
  eapply cpost_bind; [apply dir_read_content_names_ok; exact H|].
  intros r _. destruct r; exact I.
Qed.

Lemma walk_loop_ok : forall parents h, hok h -> cpost res_hok (walk_loop h parents).
Proof.
  induction parents as [|c rest IH]; intros h H; cbn [walk_loop]; [exact H|].
  eapply cpost_bind; [apply name_exists_ok; exact H|].
  intros r _. destruct r as [[|]|]; try exact I.
  eapply cpost_bind; [apply dir_open_directory_ok; left; exact H|].
  intros r' Hr'. destruct r' as [h'|]; [|exact I]. apply IH. exact Hr'.
Qed.

Definition res_pair_ok (r : res (handle * string)) : Prop :=
  match r with OkR (h, n) => pokr h n | ErrR => True end.

Lemma walk_to_parent_ok : forall path v, cpost res_pair_ok (walk_to_parent root path v).
Proof.
  intros path v. unfold walk_to_parent.
  destruct (path =? "").
  - destruct (root_base root =? ""); [exact I|].
    cbn [cpost]. split; [cbn; apply String.eqb_refl|].
    intros a _. destruct a; try exact I. cbn. right. split; reflexivity.
  - cbn [cpost]. split; [cbn; apply String.eqb_refl|].
    intros a _. destruct a; try exact I.
    eapply cpost_bind; [apply walk_loop_ok; reflexivity|].
    intros r Hr. destruct r as [h|]; [|exact I].
    destruct v.
    + eapply cpost_bind; [apply name_exists_ok; exact Hr|].
      intros e _. destruct e as [[|]|]; try exact I. cbn. left. exact Hr.
    + cbn. left. exact Hr.
Qed.

(* ------------------------------------------------------ Opener.OpenFile *)

Definition opener_ok (o : opener) : Prop := Forall hok (o_dirs o).

Definition walk_res_ok (x : res handle * list string * list handle) : Prop :=
  let '(r, _, ds) := x in res_hok r /\ Forall hok ds.

Lemma opener_walk_ok : forall comps parent cn cd an ad,
  hok parent -> Forall hok cd -> Forall hok ad ->
  cpost walk_res_ok (opener_walk parent comps cn cd an ad).
Proof.
  induction comps as [|c rest IH]; intros parent cn cd an ad Hp Hcd Had; cbn [opener_walk].
  - cbn. split; [exact Hp|]. apply Forall_app. split; assumption.
  - assert (Hfresh : cpost walk_res_ok
       (bind (dir_open_directory parent c)
             (fun r => match r with
                       | OkR h' => opener_walk h' rest [] [] (an ++ [c])%list (ad ++ [h'])%list
                       | ErrR => Ret (ErrR, an, ad)
                       end))).
    { eapply cpost_bind; [apply dir_open_directory_ok; left; exact Hp|].
      intros r Hr. destruct r as [h'|].
      - apply IH; [exact Hr|constructor|]. apply Forall_app. split; [exact Had|]. constructor; [exact Hr|constructor].
      - cbn. split; [exact I|exact Had]. }
    destruct cn as [|n cn']; [exact Hfresh|].
    destruct cd as [|d cd']; [exact Hfresh|].
    destruct (n =? c); [|exact Hfresh].
    inversion Hcd as [|? ? Hd Hcd']; subst.
    apply IH; [exact Hd|exact Hcd'|]. apply Forall_app. split; [exact Had|]. constructor; [exact Hd|constructor].
Qed.

Definition opener_res_ok (x : opener * res unit) : Prop := opener_ok (fst x).

Lemma opener_open_file_ok : forall o path, opener_ok o ->
  cpost opener_res_ok (opener_open_file root o path).
Proof.
  intros o path Ho. unfold opener_open_file.
  destruct (path =? "").
  - destruct (o_root_open o); [exact Ho|].
    cbn [cpost]. split; [cbn; apply String.eqb_refl|]. intros a _. destruct a; exact Ho.
  - assert (Hgo : forall o', opener_ok o' ->
       cpost opener_res_ok
         (bind (opener_walk HRoot (removelast (split_slash path)) (o_names o') (o_dirs o') [] [])
               (fun x => let '(r, ns, ds) := x in
                         let o'' := {| o_root_open := true; o_names := ns; o_dirs := ds |} in
                         match r with
                         | ErrR => Ret (o'', ErrR)
                         | OkR parent => bind (dir_open_file parent (last (split_slash path) "")) (fun r' => Ret (o'', r'))
                         end))).
    { intros o' Ho'. eapply cpost_bind; [apply opener_walk_ok; [reflexivity|exact Ho'|constructor]|].
      intros [[r ns] ds] [Hr Hds]. destruct r as [parent|]; [|exact Hds].
      eapply cpost_bind; [apply dir_open_file_ok; left; exact Hr|]. intros r' _. exact Hds. }
    destruct (o_root_open o); [apply Hgo; exact Ho|].
    cbn [cpost]. split; [cbn; apply String.eqb_refl|].
    intros a _. destruct a; try exact Ho. apply Hgo. exact Ho.
Qed.

Lemma opener_open_files_ok : forall paths o, opener_ok o ->
  cpost (@any (list bool)) (opener_open_files root o paths).
Proof.
  induction paths as [|p rest IH]; intros o Ho; cbn [opener_open_files]; [exact I|].
  eapply cpost_bind; [apply opener_open_file_ok; exact Ho|].
  intros [o' r] Ho'. eapply cpost_bind; [apply IH; exact Ho'|]. intros l _. exact I.
Qed.

(* ---------------------------------------------------------- staging paths *)

Definition hex_ok (dhex phex : string) : bool :=
  is_hex dhex && is_hex phex && negb (dhex =? "").

Lemma staging_ok_two : forall x y, valid_name x = true -> (x =? "") = false ->
  valid_name y = true -> (y =? "") = false ->
  staging_ok staging (staging ++ "/" ++ x ++ "/" ++ y) = true.
Proof.
  intros x y Hx Hx' Hy Hy'. unfold staging_ok.
  replace (staging ++ "/" ++ x ++ "/" ++ y) with ((staging ++ "/") ++ (x ++ "/" ++ y))
    by (rewrite app_assoc_s; reflexivity).
  rewrite strip_prefix_app. unfold split_slash.
  assert (Sx : has_slash x = false).
  { unfold valid_name in Hx. apply andb_true_iff in Hx. destruct Hx as [_ Hx]. apply negb_true_iff. exact Hx. }
  assert (Sy : has_slash y = false).
  { unfold valid_name in Hy. apply andb_true_iff in Hy. destruct Hy as [_ Hy]. apply negb_true_iff. exact Hy. }
  rewrite split_aux_slash by exact Sx. rewrite split_aux_noslash by exact Sy. cbn [String.append].
  rewrite Hx, Hx', Hy, Hy'. apply orb_true_r.
Qed.

Lemma staging_ok_one : forall x, valid_name x = true -> (x =? "") = false ->
  staging_ok staging (staging ++ "/" ++ x) = true.
Proof.
  intros x Hx Hx'. unfold staging_ok.
  replace (staging ++ "/" ++ x) with ((staging ++ "/") ++ x) by (rewrite app_assoc_s; reflexivity).
  rewrite strip_prefix_app. unfold split_slash.
  assert (Sx : has_slash x = false).
  { unfold valid_name in Hx. apply andb_true_iff in Hx. destruct Hx as [_ Hx]. apply negb_true_iff. exact Hx. }
  rewrite split_aux_noslash by exact Sx. cbn [String.append]. rewrite Hx, Hx'. apply orb_true_r.
Qed.

Lemma hex_prefix2 : forall d, is_hex d = true -> (d =? "") = false ->
  valid_name (substring 0 2 d) = true /\ (substring 0 2 d =? "") = false.
Proof.
  intros d H Hn. split.
  - apply hex_valid_name. apply all_chars_substring. exact H.
  - destruct d as [|c d]; [discriminate|]. cbn. destruct d; reflexivity.
Qed.

Lemma hex_cat : forall d p, is_hex d = true -> is_hex p = true -> (d =? "") = false ->
  valid_name (d ++ p) = true /\ (d ++ p =? "") = false.
Proof.
  intros d p Hd Hp Hn. split.
  - apply hex_valid_name. unfold is_hex. rewrite all_chars_app. unfold is_hex in Hd, Hp. rewrite Hd, Hp. reflexivity.
  - destruct d; [discriminate|reflexivity].
Qed.

Lemma staged_path_ok : forall d p, hex_ok d p = true -> staging_ok staging (staged_path staging d p) = true.
Proof.
  intros d p H. unfold hex_ok in H. apply andb_true_iff in H. destruct H as [H Hn].
  apply andb_true_iff in H. destruct H as [Hd Hp]. apply negb_true_iff in Hn.
  unfold staged_path.
  destruct (hex_prefix2 d Hd Hn) as [A1 A2]. destruct (hex_cat d p Hd Hp Hn) as [B1 B2].
  replace (staging ++ "/" ++ substring 0 2 d ++ "/" ++ d ++ p)
    with (staging ++ "/" ++ substring 0 2 d ++ "/" ++ (d ++ p)) by reflexivity.
  apply staging_ok_two; assumption.
Qed.

Lemma staged_prefix_dir_ok : forall d p, hex_ok d p = true ->
  staging_ok staging (staged_prefix_dir staging d) = true.
Proof.
  intros d p H. unfold hex_ok in H. apply andb_true_iff in H. destruct H as [H Hn].
  apply andb_true_iff in H. destruct H as [Hd Hp]. apply negb_true_iff in Hn.
  unfold staged_prefix_dir. destruct (hex_prefix2 d Hd Hn) as [A1 A2]. apply staging_ok_one; assumption.
Qed.

Lemma storage_name_ok : forall rnd, staging_ok staging (staging ++ "/storage" ++ digits_string rnd) = true.
Proof.
  intro rnd. change (staging ++ "/storage" ++ digits_string rnd)
    with (staging ++ "/" ++ ("storage" ++ digits_string rnd)).
  apply staging_ok_one; [|reflexivity].
  unfold valid_name. rewrite has_slash_app, digits_noslash. reflexivity.
Qed.

Lemma stage_commit_ok : forall rnd d p, hex_ok d p = true ->
  cpost (@any (res unit)) (stage_commit staging rnd d p).
Proof.
  intros rnd d p H. unfold stage_commit. cbn [cpost].
  split; [unfold Confine.prim_ok; apply storage_name_ok|]. intros a _. destruct a; try exact I.
  eapply cpost_bind; [apply cpost_choice|]. intros known _.
  eapply cpost_bind with (Q := @any (res unit)).
  - destruct known; [exact I|]. cbn [cpost].
    split; [unfold Confine.prim_ok; eapply staged_prefix_dir_ok; exact H|].
    intros a' _. apply cpost_ok_or_err.
  - intros r _. destruct r.
    + cbn [cpost]. split.
      * unfold Confine.prim_ok. rewrite storage_name_ok, (staged_path_ok d p H). reflexivity.
      * intros a' _. destruct a'; try exact I;
          (cbn [cpost]; split; [unfold Confine.prim_ok; apply storage_name_ok|intros; exact I]).
    + cbn [cpost]. split; [unfold Confine.prim_ok; apply storage_name_ok|intros; exact I].
Qed.

Lemma stage_contains_ok : forall d p, hex_ok d p = true -> cpost (@any bool) (stage_contains staging d p).
Proof.
  intros d p H. unfold stage_contains. eapply cpost_bind; [apply cpost_choice|].
  intros known _. destruct known; [|exact I].
  cbn [cpost]. split; [unfold Confine.prim_ok; apply staged_path_ok; exact H|].
  intros a _. destruct a as [| | | | | |k| |]; try exact I. destruct k; exact I.
Qed.

Lemma stage_from_root_ok : forall o src rnd d p, opener_ok o -> hex_ok d p = true ->
  cpost (fun x : opener * bool => opener_ok (fst x)) (stage_from_root root staging o src rnd d p).
Proof.
  intros o src rnd d p Ho H. unfold stage_from_root.
  eapply cpost_bind; [apply cpost_choice|]. intros hit _. destruct hit; [|exact Ho].
  eapply cpost_bind; [apply opener_open_file_ok; exact Ho|].
  intros [o' r] Ho'. destruct r; [|exact Ho'].
  eapply cpost_bind; [apply stage_commit_ok; exact H|].
  intros c _. destruct c; [|exact Ho'].
  eapply cpost_bind; [apply stage_contains_ok; exact H|]. intros b _. exact Ho'.
Qed.

(* ---------------------------------------------------------- transitions *)

Lemma set_permissions_by_path_ok : forall d p, hex_ok d p = true ->
  cpost (@any (res unit)) (set_permissions_by_path ownership (staged_path staging d p)).
Proof.
  intros d p H. unfold set_permissions_by_path.
  eapply cpost_bind with (Q := @any (res unit)).
  - destruct ownership; [|exact I]. cbn [cpost]. split; [unfold Confine.prim_ok; apply staged_path_ok; exact H|].
    intros a _. apply cpost_ok_or_err.
  - intros r _. destruct r as [?u|]; [|exact I]. cbn [cpost]. split; [unfold Confine.prim_ok; apply staged_path_ok; exact H|].
    intros a' _. apply cpost_ok_or_err.
Qed.

Lemma abs_rename_into_ok : forall d p h n rep, hex_ok d p = true -> pok h n ->
  cpost (@any answer) (abs_rename_into (staged_path staging d p) h n rep).
Proof.
  intros d p h n rep H Hp. unfold abs_rename_into. destruct (valid_name n) eqn:E; [|exact I].
  assert (Hpr : forall nr, prim_ok (PAbsRenameAt (staged_path staging d p) h n nr) = true).
  { intro nr. unfold Confine.prim_ok. rewrite (staged_path_ok d p H), (at_ok_of_pok _ _ Hp E). reflexivity. }
  destruct rep; cbn [cpost].
  - split; [apply Hpr|]. intros a _. exact I.
  - split; [apply Hpr|]. intros a _. destruct a; try exact I.
    eapply cpost_bind; [apply dir_read_content_metadata_ok; exact Hp|].
    intros r _. destruct r as [?u|]; [exact I|].
    eapply cpost_bind; [apply cpost_choice|]. intros b _. destruct b; [|exact I].
    cbn [cpost]. split; [apply Hpr|]. intros; exact I.
Qed.

Lemma find_and_move_ok : forall d p h n rep rnds, hex_ok d p = true -> pok h n ->
  cpost (@any (res unit)) (find_and_move staging ownership d p h n rep rnds).
Proof.
  intros d p h n rep rnds H Hp. unfold find_and_move.
  eapply cpost_bind; [apply set_permissions_by_path_ok; exact H|].
  intros r _. destruct r as [?u|]; [|exact I].
  eapply cpost_bind; [apply abs_rename_into_ok; assumption|].
  intros a _. destruct a; try exact I.
  cbn [cpost]. split; [unfold Confine.prim_ok; apply staged_path_ok; exact H|].
  intros a1 _. destruct a1; try exact I.
  eapply cpost_bind; [eapply dir_create_temporary_file_ok; exact Hp|].
  intros t Ht. destruct t as [tmp|]; [|exact I]. cbn in Ht.
  eapply cpost_bind; [apply cpost_choice|]. intros okc _.
  destruct okc.
  - eapply cpost_bind; [apply dir_set_permissions_ok; exact Ht|].
    intros s _. destruct s as [?u|].
    + eapply cpost_bind; [apply dir_rename_ok; assumption|].
      intros rr _. destruct rr as [?u|].
      * cbn [cpost]. split; [unfold Confine.prim_ok; apply staged_path_ok; exact H|]. intros; exact I.
      * eapply cpost_bind; [apply dir_remove_file_ok; exact Ht|]. intros; exact I.
    + eapply cpost_bind; [apply dir_remove_file_ok; exact Ht|]. intros; exact I.
  - eapply cpost_bind; [apply dir_remove_file_ok; exact Ht|]. intros; exact I.
Qed.

Lemma ensure_expected_file_ok : forall h n, pok h n -> cpost (@any (res unit)) (ensure_expected_file h n).
Proof.
  intros h n Hp. unfold ensure_expected_file.
  eapply cpost_bind; [apply cpost_choice|]. intros c _. destruct c; [|exact I].
  eapply cpost_bind; [apply dir_read_content_metadata_ok; exact Hp|].
  intros r _. destruct r as [?u|]; [|exact I].
  eapply cpost_bind; [apply cpost_choice|]. intros m _. exact I.
Qed.

Lemma remove_file_ok : forall h n, pok h n -> cpost (@any (res unit)) (remove_file h n).
Proof.
  intros h n Hp. unfold remove_file.
  eapply cpost_bind; [apply ensure_expected_file_ok; exact Hp|].
  intros r _. destruct r as [?u|]; [|exact I]. apply dir_remove_file_ok. exact Hp.
Qed.

Lemma remove_symbolic_link_ok : forall li h n, pok h n -> cpost (@any (res unit)) (remove_symbolic_link li h n).
Proof.
  intros li h n Hp. unfold remove_symbolic_link. destruct li; [exact I|].
  eapply cpost_bind; [apply dir_read_symbolic_link_ok; exact Hp|].
  intros r _. destruct r as [?u|]; [|exact I].
  eapply cpost_bind; [apply cpost_choice|]. intros m _. destruct m; [|exact I].
  apply dir_remove_file_ok. exact Hp.
Qed.

(* entries whose staged content is addressed by well-formed hexadecimal names *)
Fixpoint ent_ok (e : ent) : bool :=
  match e with
  | EFile d p => hex_ok d p
  | EDir c => (fix all (l : list (string * ent)) : bool :=
                 match l with [] => true | (_, x) :: t => ent_ok x && all t end) c
  | _ => true
  end.

(* induction over entries with their contents *)
Lemma ent_ind' : forall P : ent -> Prop,
  (forall d p, P (EFile d p)) -> P ELink -> P EOtherKind ->
  (forall c, Forall (fun ne => P (snd ne)) c -> P (EDir c)) ->
  forall e, P e.
Proof.
  intros P Hf Hl Ho Hd. fix IH 1. intro e. destruct e as [d p| |c|].
  - apply Hf.
  - exact Hl.
  - apply Hd. induction c as [|[n x] t IHt]; constructor; [apply IH|exact IHt].
  - exact Ho.
Qed.

Lemma remove_directory_ok : forall li e h n, pokr h n -> cpost (@any bool) (remove_directory li h n e).
Proof.
  intros li e. induction e as [d p| | |c IHc] using ent_ind'; intros h n Hp; try exact I.
  cbn [remove_directory].
  eapply cpost_bind; [apply dir_open_directory_ok; exact Hp|].
  intros r Hr. destruct r as [dh|]; [|exact I]. cbn in Hr.
  eapply cpost_bind; [apply dir_read_contents_ok; exact Hr|].
  intros rc Hrc. destruct rc as [listed|]; [|exact I]. cbn in Hrc.
  eapply cpost_bind with (Q := @any bool).
  - clear Hrc. induction listed as [|[cn ck] rest IHl]; [exact I|].
    eapply cpost_bind with (Q := @any bool).
    + clear IHl. induction c as [|[k ce] t IHt]; [exact I|].
      inversion IHc as [|? ? Hce Ht]; subst. cbn in Hce.
      destruct (cn =? k).
      * destruct ce.
        -- eapply cpost_bind; [apply remove_file_ok; left; exact Hr|]. intros; exact I.
        -- eapply cpost_bind; [apply remove_symbolic_link_ok; left; exact Hr|]. intros; exact I.
        -- apply Hce. left. exact Hr.
        -- exact I.
      * apply IHt. exact Ht.
    + intros ok1 _. eapply cpost_bind; [exact IHl|]. intros; exact I.
  - intros all_ok _. destruct all_ok; [|exact I].
    eapply cpost_bind; [apply dir_remove_directory_ok; apply pok_of_pokr; exact Hp|]. intros; exact I.
Qed.

Lemma remove_ok : forall li path e, cpost (@any bool) (remove root li path e).
Proof.
  intros li path e. unfold remove.
  eapply cpost_bind; [apply walk_to_parent_ok|].
  intros r Hr. destruct r as [[parent name]|]; [|exact I]. cbn in Hr.
  destruct e.
  - eapply cpost_bind; [apply remove_file_ok; apply pok_of_pokr; exact Hr|]. intros; exact I.
  - eapply cpost_bind; [apply remove_symbolic_link_ok; apply pok_of_pokr; exact Hr|]. intros; exact I.
  - apply remove_directory_ok. exact Hr.
  - exact I.
Qed.

Lemma create_symbolic_link_ok : forall li h n, pok h n ->
  cpost (@any (res unit)) (create_symbolic_link ownership li h n).
Proof.
  intros li h n Hp. unfold create_symbolic_link. destruct li; [exact I|].
  eapply cpost_bind; [apply cpost_choice|]. intros pt _. destruct pt; [|exact I].
  eapply cpost_bind; [apply dir_create_symbolic_link_ok; exact Hp|].
  intros r _. destruct r as [?u|]; [|exact I]. apply dir_set_permissions_ok. exact Hp.
Qed.

Lemma create_directory_ok : forall li rnds e h n, ent_ok e = true -> pokr h n ->
  cpost (@any unit) (create_directory staging ownership li rnds h n e).
Proof.
  intros li rnds e. induction e as [d p| | |c IHc] using ent_ind'; intros h n He Hp; try exact I.
  cbn [create_directory].
  eapply cpost_bind; [apply dir_create_directory_ok; apply pok_of_pokr; exact Hp|].
  intros r _. destruct r as [?u|]; [|exact I].
  eapply cpost_bind; [apply dir_set_permissions_ok; apply pok_of_pokr; exact Hp|].
  intros s _. destruct s; [|exact I].
  assert (Hopen : forall l : list (string * ent),
             Forall (fun ne => forall h n, ent_ok (snd ne) = true -> pokr h n ->
                       cpost (@any unit) (create_directory staging ownership li rnds h n (snd ne))) l ->
             ent_ok (EDir l) = true ->
             forall F : handle -> list (string * ent) -> prog unit,
             (forall dh, hok dh -> forall l', Forall (fun ne => forall h n, ent_ok (snd ne) = true -> pokr h n ->
                       cpost (@any unit) (create_directory staging ownership li rnds h n (snd ne))) l' ->
                       ent_ok (EDir l') = true -> cpost (@any unit) (F dh l')) ->
             cpost (@any unit)
               (bind (dir_open_directory h n)
                     (fun o => match o with ErrR => Ret tt | OkR dh => F dh l end))).
  { intros l Hl Hel F HF. eapply cpost_bind; [apply dir_open_directory_ok; exact Hp|].
    intros o Ho. destruct o as [dh|]; [|exact I]. apply HF; assumption. }
  destruct c as [|c0 ct]; [exact I|].
  refine (Hopen (c0 :: ct) IHc He
            (fun d => fix each (c : list (string * ent)) : prog unit :=
               match c with
               | [] => Ret tt
               | (cn, ce) :: t =>
                 bind (match ce with
                       | EDir _ => create_directory staging ownership li rnds d cn ce
                       | EFile dh ph => bind (find_and_move staging ownership dh ph d cn false rnds) (fun _ => Ret tt)
                       | ELink => bind (create_symbolic_link ownership li d cn) (fun _ => Ret tt)
                       | EOtherKind => Ret tt
                       end)
                      (fun _ => each t)
               end) _).
  clear. intros dh Ho l IHl He. induction l as [|[cn ce] t IHt]; [exact I|].
  inversion IHl as [|? ? Hce Ht]; subst. cbn in Hce.
  cbn [ent_ok] in He. apply andb_true_iff in He. destruct He as [He1 He2].
  eapply cpost_bind with (Q := @any unit).
  - destruct ce.
    + eapply cpost_bind; [apply find_and_move_ok; [exact He1|left; exact Ho]|]. intros; exact I.
    + eapply cpost_bind; [apply create_symbolic_link_ok; left; exact Ho|]. intros; exact I.
    + apply Hce; [exact He1|left; exact Ho].
    + exact I.
  - intros _ _. apply IHt; [exact Ht|exact He2].
Qed.

Lemma create_ok : forall li rnds path e, ent_ok e = true ->
  cpost (@any unit) (create root staging ownership li rnds path e).
Proof.
  intros li rnds path e He. unfold create.
  eapply cpost_bind; [apply walk_to_parent_ok|].
  intros r Hr. destruct r as [[parent name]|]; [|exact I]. cbn in Hr.
  destruct e.
  - eapply cpost_bind; [apply find_and_move_ok; [exact He|apply pok_of_pokr; exact Hr]|]. intros; exact I.
  - eapply cpost_bind; [apply create_symbolic_link_ok; apply pok_of_pokr; exact Hr|]. intros; exact I.
  - apply create_directory_ok; assumption.
  - exact I.
Qed.

Lemma swap_file_ok : forall rnds path same d p, hex_ok d p = true ->
  cpost (@any (res unit)) (swap_file root staging ownership rnds path same d p).
Proof.
  intros rnds path same d p H. unfold swap_file.
  eapply cpost_bind; [apply walk_to_parent_ok|].
  intros r Hr. destruct r as [[parent name]|]; [|exact I]. cbn in Hr. apply pok_of_pokr in Hr.
  eapply cpost_bind; [apply ensure_expected_file_ok; exact Hr|].
  intros e _. destruct e as [?u|]; [|exact I].
  destruct same; [apply dir_set_permissions_ok; exact Hr|apply find_and_move_ok; assumption].
Qed.

Definition oent_ok (o : option ent) : bool := match o with Some e => ent_ok e | None => true end.

Definition change_ok (c : change) : bool :=
  match c with
  | CSwap _ _ d p => hex_ok d p
  | CReplace _ old new => oent_ok old && oent_ok new
  end.

Lemma transition_one_ok : forall li rnds c, change_ok c = true ->
  cpost (@any unit) (transition_one root staging ownership li rnds c).
Proof.
  intros li rnds c Hc. destruct c as [path same d p|path old new]; cbn [transition_one].
  - eapply cpost_bind; [apply swap_file_ok; exact Hc|]. intros; exact I.
  - cbn in Hc. apply andb_true_iff in Hc. destruct Hc as [_ Hn].
    eapply cpost_bind with (Q := @any bool).
    + destruct old; [apply remove_ok|exact I].
    + intros removed _. destruct removed; [|exact I].
      destruct new; [apply create_ok; exact Hn|exact I].
Qed.

Lemma transition_ok : forall li rnds cs, forallb change_ok cs = true ->
  cpost (@any unit) (transition root staging ownership li rnds cs).
Proof.
  intros li rnds cs. induction cs as [|c t IH]; intro H; cbn [transition]; [exact I|].
  cbn in H. apply andb_true_iff in H. destruct H as [H1 H2].
  eapply cpost_bind; [apply transition_one_ok; exact H1|]. intros _ _. apply IH. exact H2.
Qed.

(* ------------------------------------------------------------------ Scan *)

Lemma scan_directory_ok : forall fuel d, hok d -> cpost (@any unit) (scan_directory fuel d).
Proof.
  induction fuel as [|fuel IH]; intros d Hd; cbn [scan_directory]; [exact I|].
  eapply cpost_bind; [apply dir_read_contents_ok; exact Hd|].
  intros rc Hrc. destruct rc as [listed|]; [|exact I]. cbn in Hrc. clear Hrc.
  induction listed as [|[n k] rest IHl]; [exact I|].
  eapply cpost_bind with (Q := @any unit).
  - destruct (prefix temporary_name_prefix n); [exact I|].
    eapply cpost_bind; [apply cpost_choice|]. intros skip _. destruct skip; [exact I|].
    destruct k.
    + eapply cpost_bind; [apply cpost_choice|]. intros sd _. destruct sd; [|exact I].
      eapply cpost_bind; [apply dir_open_directory_ok; left; exact Hd|].
      intros o Ho. destruct o as [d'|]; [|exact I]. apply IH. exact Ho.
    + eapply cpost_bind; [apply cpost_choice|]. intros c _. destruct c; [exact I|].
      eapply cpost_bind; [apply dir_open_file_ok; left; exact Hd|]. intros; exact I.
    + eapply cpost_bind; [apply dir_read_symbolic_link_ok; left; exact Hd|]. intros; exact I.
    + exact I.
  - intros _ _. exact IHl.
Qed.

Lemma scan_ok : forall fuel, cpost (@any unit) (scan root fuel).
Proof.
  intro fuel. unfold scan. cbn [cpost]. split; [cbn; apply String.eqb_refl|].
  intros a _. destruct a; try exact I.
  eapply cpost_bind; [apply cpost_choice|]. intros isdir _. destruct isdir; [|exact I].
  apply scan_directory_ok. reflexivity.
Qed.

End Ops.

(* ============================================================ locations *)

Lemma valid_not_dot : forall n, valid_name n = true -> (n =? ".") = false.
Proof.
  intros n H. unfold valid_name in H. apply andb_true_iff in H. destruct H as [H _].
  apply andb_true_iff in H. destruct H as [H _]. apply negb_true_iff. exact H.
Qed.

Section Location.
Variable root : string.
Hypothesis Hroot : valid_name (root_base root) = true.

(* the position of a handle obtained from the root lies at or below the root,
   and is spelled with proper names only (no "..", no separator) *)
Lemma phys_from_root : forall h, from_root root h = true ->
  exists rest, phys root h = root_base root :: rest
               /\ Forall (fun c => valid_name c = true) rest.
Proof.
  induction h as [| |h' IH n]; intro H.
  - exists []. split; [reflexivity|constructor].
  - discriminate.
  - destruct h' as [| |h'' n'].
    + cbn in H. cbn [phys]. destruct (n =? ".") eqn:E.
      * exists []. split; [reflexivity|constructor].
      * cbn in H. exists [n]. split; [reflexivity|]. constructor; [exact H|constructor].
    + cbn in H. apply andb_true_iff in H. destruct H as [H1 H2].
      apply String.eqb_eq in H1. subst n. cbn [phys]. rewrite (valid_not_dot _ H2).
      exists []. split; [reflexivity|constructor].
    + change (from_root root (HChild (HChild h'' n') n))
        with (from_root root (HChild h'' n') && ((n =? ".") || valid_name n)) in H.
      apply andb_true_iff in H. destruct H as [H1 H2].
      destruct (IH H1) as [rest [Hr Hv]].
      change (phys root (HChild (HChild h'' n') n))
        with (if n =? "." then phys root (HChild h'' n') else (phys root (HChild h'' n') ++ [n])%list).
      destruct (n =? ".") eqn:E.
      * exists rest. split; assumption.
      * cbn in H2. exists (rest ++ [n])%list. split; [rewrite Hr; reflexivity|].
        apply Forall_app. split; [exact Hv|]. constructor; [exact H2|constructor].
Qed.

(* the object a confined (handle, name) pair designates *)
Theorem at_ok_location : forall h n, at_ok root h n = true ->
  (exists rest, (phys root h ++ [n])%list = root_base root :: rest
                /\ Forall (fun c => valid_name c = true) rest)
  \/ (h = HRootParent /\ prefix cross_device_pattern n = true /\ valid_name n = true
      /\ (phys root h ++ [n])%list = [n]).
Proof.
  intros h n H. unfold at_ok in H. apply orb_true_iff in H. destruct H as [H|H].
  - apply andb_true_iff in H. destruct H as [H1 H2].
    destruct (phys_from_root h H1) as [rest [Hr Hv]]. left.
    exists (rest ++ [n])%list. split; [rewrite Hr; reflexivity|].
    apply Forall_app. split; [exact Hv|]. constructor; [exact H2|constructor].
  - destruct h; try discriminate. unfold parent_name_ok in H.
    apply andb_true_iff in H. destruct H as [H1 H2]. apply orb_true_iff in H1. destruct H1 as [H1|H1].
    + apply String.eqb_eq in H1. subst n. left. exists []. split; [reflexivity|constructor].
    + right. repeat split; assumption.
Qed.
End Location.

(* ------------------------------------------------------- physical trees *)

Lemma at_phys_app : forall pos t x c,
  at_phys t pos = Some x ->
  at_phys t (pos ++ [c]) = match x with NDir cs => child c cs | _ => None end.
Proof.
  induction pos as [|p pos IH]; intros t x c H; cbn in *.
  - injection H as ->. destruct x as [cs| |]; [|reflexivity|reflexivity].
    destruct (child c cs); reflexivity.
  - destruct t as [cs| |]; try discriminate.
    destruct (child p cs) as [y|]; [|discriminate]. apply IH. exact H.
Qed.

Lemma at_phys_app_none : forall pos t c, at_phys t pos = None -> at_phys t (pos ++ [c]) = None.
Proof.
  induction pos as [|p pos IH]; intros t c H; cbn in *; [discriminate|].
  destruct t as [cs| |]; try reflexivity.
  destruct (child p cs) as [y|]; [|reflexivity]. apply IH. exact H.
Qed.

(* what the chain of O_NOFOLLOW opens reaches is the object physically at
   that position: never the target of a link *)
Theorem walk_nofollow_at_phys : forall comps t x,
  walk_nofollow t comps = Some x -> at_phys t comps = Some x.
Proof.
  induction comps as [|c rest IH]; intros t x H; cbn in *; [exact H|].
  destruct t as [cs| |]; try discriminate.
  destruct (child c cs) as [y|]; [|discriminate].
  destruct y as [cs'| |].
  - apply IH. exact H.
  - destruct rest; [exact H|discriminate].
  - destruct rest; [exact H|discriminate].
Qed.

(* every directory on the way is a real directory *)
Lemma walk_nofollow_prefix_dir : forall pre suf t x,
  suf <> [] -> walk_nofollow t (pre ++ suf) = Some x ->
  exists cs, at_phys t pre = Some (NDir cs).
Proof.
  induction pre as [|c pre IH]; intros suf t x Hs H; cbn in *.
  - destruct suf as [|s suf]; [contradiction|]. cbn in H.
    destruct t as [cs| |]; try discriminate. exists cs. reflexivity.
  - destruct t as [cs| |]; try discriminate.
    destruct (child c cs) as [y|]; [|discriminate].
    destruct y as [cs'| |].
    + eapply IH; eassumption.
    + destruct (pre ++ suf)%list eqn:E; [|discriminate].
      apply app_eq_nil in E. destruct E as [_ E]. contradiction.
    + destruct (pre ++ suf)%list eqn:E; [|discriminate].
      apply app_eq_nil in E. destruct E as [_ E]. contradiction.
Qed.

(* a path that crosses a link fails *)
Theorem walk_nofollow_crossing_fails : forall pre suf t a tg,
  suf <> [] -> at_phys t pre = Some (NLink a tg) -> walk_nofollow t (pre ++ suf) = None.
Proof.
  intros pre suf t a tg Hs Hl. destruct (walk_nofollow t (pre ++ suf)) as [x|] eqn:E; [|reflexivity].
  destruct (walk_nofollow_prefix_dir _ _ _ _ Hs E) as [cs Hc]. congruence.
Qed.

(* where no link is met, the chain of single-name opens and the kernel's own
   (link-following) resolution of the joined path agree *)
Theorem resolve_follow_agrees : forall comps fuel top pos t x,
  List.length comps < fuel ->
  at_phys top pos = Some t ->
  walk_nofollow t comps = Some x ->
  (forall a tg, x <> NLink a tg) ->
  Forall (fun c => plain c = true) comps ->
  resolve_follow fuel top pos comps = Some (pos ++ comps)%list.
Proof.
  induction comps as [|c rest IH]; intros fuel top pos t x Hf Hp Hw Hx Hc.
  - destruct fuel as [|fuel]; [cbn in Hf; lia|]. cbn. rewrite app_nil_r. reflexivity.
  - inversion Hc as [|? ? Hc1 Hc2]; subst.
    unfold plain in Hc1. apply andb_true_iff in Hc1. destruct Hc1 as [Hv He].
    unfold valid_name in Hv. apply andb_true_iff in Hv. destruct Hv as [Hv _].
    apply andb_true_iff in Hv. destruct Hv as [Hd Hdd].
    apply negb_true_iff in Hd. apply negb_true_iff in Hdd. apply negb_true_iff in He.
    destruct fuel as [|fuel]; [cbn in Hf; lia|]. cbn [List.length] in Hf.
    cbn [resolve_follow]. rewrite Hdd, Hd, He. cbn [orb].
    cbn [walk_nofollow] in Hw. destruct t as [cs| |]; try discriminate.
    rewrite (at_phys_app pos top (NDir cs) c Hp).
    destruct (child c cs) as [y|] eqn:Ey; [|discriminate].
    assert (Hy : at_phys top (pos ++ [c]) = Some y)
      by (rewrite (at_phys_app pos top (NDir cs) c Hp); exact Ey).
    destruct y as [cs'| |].
    + rewrite (IH fuel top (pos ++ [c])%list (NDir cs') x ltac:(lia) Hy Hw Hx Hc2).
      rewrite <- app_assoc. reflexivity.
    + destruct rest; [|discriminate]. destruct fuel as [|fuel]; [cbn in Hf; lia|].
      cbn. reflexivity.
    + destruct rest; [|discriminate]. injection Hw as <-. exfalso. eapply Hx. reflexivity.
Qed.

(* ... and where a link is met they differ: the kernel's resolution of the
   joined path leaves the root, the chain of O_NOFOLLOW opens fails. *)
Example follow_escapes :
  let top := NDir [("canary", NDir [("secret", NFile)]);
                   ("root", NDir [("l", NLink false [".."; "canary"]);
                                  ("m", NLink true ["canary"]);
                                  ("d", NDir [("f", NFile)])])] in
  resolve_follow 8 top [] ["root"; "l"; "secret"] = Some ["canary"; "secret"]
  /\ resolve_follow 8 top [] ["root"; "m"; "secret"] = Some ["canary"; "secret"]
  /\ walk_nofollow top ["root"; "l"; "secret"] = None
  /\ walk_nofollow top ["root"; "m"; "secret"] = None
  /\ walk_nofollow top ["root"; "l"] = Some (NLink false [".."; "canary"])
  /\ walk_nofollow top ["root"; "d"; "f"] = Some NFile
  /\ resolve_follow 8 top [] ["root"; "d"; "f"] = Some ["root"; "d"; "f"].
Proof. vm_compute. repeat split; reflexivity. Qed.

(* --------------------------------- the programs in the world of a tree *)

Lemma exec_bind : forall A B (w : prim -> answer) (m : prog A) (f : A -> prog B),
  exec w (bind m f) = exec w (f (exec w m)).
Proof. induction m as [a|p k IH]; intro f; cbn; [reflexivity|apply IH]. Qed.

Section TreeWorld.
Variable root : string.
Variable top : node.
Notation w := (tree_world root top).

Lemma plain_facts : forall c, plain c = true ->
  valid_name c = true /\ (c =? ".") = false /\ (c =? "") = false.
Proof.
  intros c H. unfold plain in H. apply andb_true_iff in H. destruct H as [Hv He].
  split; [exact Hv|]. split; [apply valid_not_dot; exact Hv|apply negb_true_iff; exact He].
Qed.

Lemma existsb_child : forall c (cs : list (string * node)),
  existsb (String.eqb c) (filter (fun n => negb (n =? ".") && negb (n =? "..")) (map fst cs)) = true ->
  exists y, child c cs = Some y.
Proof.
  intros c cs H. apply existsb_exists in H. destruct H as [n [Hin He]].
  apply String.eqb_eq in He. subst n. apply filter_In in Hin. destruct Hin as [Hin _].
  induction cs as [|[k y] t IH]; cbn in *; [contradiction|].
  destruct (c =? k) eqn:E; [eexists; reflexivity|].
  destruct Hin as [Hk|Hin]; [subst k; rewrite String.eqb_refl in E; discriminate|apply IH; exact Hin].
Qed.

(* opening one plain component below a directory handle *)
Lemma exec_open_directory : forall h c cs,
  at_phys top (phys root h) = Some (NDir cs) -> plain c = true ->
  match exec w (dir_open_directory h c) with
  | OkR h' => h' = HChild h c /\ phys root h' = (phys root h ++ [c])%list
              /\ exists cs', child c cs = Some (NDir cs')
                             /\ at_phys top (phys root h') = Some (NDir cs')
  | ErrR => forall cs', child c cs <> Some (NDir cs')
  end.
Proof.
  intros h c cs Hh Hc. destruct (plain_facts c Hc) as (Hv & Hd & _).
  unfold dir_open_directory. rewrite Hv, orb_true_r. cbn [exec tree_world].
  rewrite (at_phys_app _ _ _ c Hh).
  destruct (child c cs) as [y|] eqn:Ey.
  - destruct y as [cs'| |]; cbn.
    + split; [reflexivity|]. rewrite Hd. split; [reflexivity|].
      exists cs'. split; [reflexivity|]. rewrite (at_phys_app _ _ _ c Hh). exact Ey.
    + intros cs' X. discriminate.
    + intros cs' X. discriminate.
  - cbn. intros cs' X. discriminate.
Qed.

(* walkToParentAndComputeLeafName's loop *)
Lemma walk_loop_tree : forall parents h cs,
  at_phys top (phys root h) = Some (NDir cs) ->
  Forall (fun c => plain c = true) parents ->
  match exec w (walk_loop h parents) with
  | OkR h' => phys root h' = (phys root h ++ parents)%list
              /\ exists cs', walk_nofollow (NDir cs) parents = Some (NDir cs')
                             /\ at_phys top (phys root h') = Some (NDir cs')
  | ErrR => True
  end.
Proof.
  induction parents as [|c rest IH]; intros h cs Hh Hp; cbn [walk_loop].
  - cbn. rewrite app_nil_r. split; [reflexivity|]. exists cs. split; [reflexivity|exact Hh].
  - inversion Hp as [|? ? Hc Hrest]; subst.
    rewrite exec_bind. unfold name_exists. rewrite exec_bind.
    unfold dir_read_content_names. cbn [exec tree_world]. rewrite Hh. cbn [exec].
    destruct (existsb (String.eqb c) _) eqn:Ex; [|exact I].
    rewrite exec_bind.
    pose proof (exec_open_directory h c cs Hh Hc) as Ho.
    destruct (exec w (dir_open_directory h c)) as [h''|]; [|exact I].
    destruct Ho as (-> & Hph & cs' & Hch & Hat).
    specialize (IH (HChild h c) cs' Hat Hrest).
    destruct (exec w (walk_loop (HChild h c) rest)) as [h'|]; [|exact I].
    destruct IH as (Hph' & cs'' & Hw & Hat'). split.
    + rewrite Hph', Hph, <- app_assoc. reflexivity.
    + exists cs''. split; [|exact Hat']. cbn [walk_nofollow]. rewrite Hch. exact Hw.
Qed.

(* Opener.OpenFile's loop on a fresh opener *)
Lemma opener_walk_tree : forall parents h cs an ad,
  at_phys top (phys root h) = Some (NDir cs) ->
  Forall (fun c => plain c = true) parents ->
  match fst (fst (exec w (opener_walk h parents [] [] an ad))) with
  | OkR h' => phys root h' = (phys root h ++ parents)%list
              /\ exists cs', walk_nofollow (NDir cs) parents = Some (NDir cs')
                             /\ at_phys top (phys root h') = Some (NDir cs')
  | ErrR => True
  end.
Proof.
  induction parents as [|c rest IH]; intros h cs an ad Hh Hp; cbn [opener_walk].
  - cbn. rewrite app_nil_r. split; [reflexivity|]. exists cs. split; [reflexivity|exact Hh].
  - inversion Hp as [|? ? Hc Hrest]; subst.
    rewrite exec_bind.
    pose proof (exec_open_directory h c cs Hh Hc) as Ho.
    destruct (exec w (dir_open_directory h c)) as [h''|]; [|exact I].
    destruct Ho as (-> & Hph & cs' & Hch & Hat).
    specialize (IH (HChild h c) cs' (an ++ [c])%list (ad ++ [HChild h c])%list Hat Hrest).
    destruct (fst (fst (exec w (opener_walk (HChild h c) rest [] [] (an ++ [c]) (ad ++ [HChild h c])))))
      as [h'|]; [|exact I].
    destruct IH as (Hph' & cs'' & Hw & Hat'). split.
    + rewrite Hph', Hph, <- app_assoc. reflexivity.
    + exists cs''. split; [|exact Hat']. cbn [walk_nofollow]. rewrite Hch. exact Hw.
Qed.
End TreeWorld.

Section TreeTheorems.
Variable root : string.
Variable top : node.
Variable rcs : list (string * node).
(* the root is a directory of the tree (below its parent [top]) *)
Hypothesis Hrootdir : at_phys top [root_base root] = Some (NDir rcs).
Notation w := (tree_world root top).

Lemma walk_from_top : forall parents x,
  walk_nofollow (NDir rcs) parents = Some x ->
  walk_nofollow top (root_base root :: parents) = Some x.
Proof.
  intros parents x H. cbn in Hrootdir. cbn [walk_nofollow].
  destruct top as [tcs| |]; try discriminate.
  destruct (child (root_base root) tcs) as [y|]; [|discriminate].
  injection Hrootdir as ->. exact H.
Qed.

(* walkToParentAndComputeLeafName in the world of a tree: the directory
   handed out is the one PHYSICALLY at root/parents, reached through real
   directories only. *)
Theorem walk_to_parent_tree : forall path v h leaf,
  (path =? "") = false ->
  Forall (fun c => plain c = true) (removelast (split_slash path)) ->
  exec w (walk_to_parent root path v) = OkR (h, leaf) ->
  leaf = last (split_slash path) ""
  /\ phys root h = root_base root :: removelast (split_slash path)
  /\ exists cs, walk_nofollow top (root_base root :: removelast (split_slash path)) = Some (NDir cs)
                /\ at_phys top (phys root h) = Some (NDir cs).
Proof.
  intros path v h leaf Hne Hp H. unfold walk_to_parent in H. rewrite Hne in H.
  cbn [exec tree_world] in H. rewrite String.eqb_refl, Hrootdir in H.
  rewrite exec_bind in H.
  pose proof (walk_loop_tree root top (removelast (split_slash path)) HRoot rcs Hrootdir Hp) as Hw.
  destruct (exec w (walk_loop HRoot (removelast (split_slash path)))) as [h0|]; [|discriminate].
  destruct Hw as (Hph & cs & Hwn & Hat).
  assert (Hres : OkR (h0, last (split_slash path) "") = OkR (h, leaf) ->
                 leaf = last (split_slash path) ""
                 /\ phys root h = root_base root :: removelast (split_slash path)
                 /\ exists cs, walk_nofollow top (root_base root :: removelast (split_slash path)) = Some (NDir cs)
                               /\ at_phys top (phys root h) = Some (NDir cs)).
  { intro E. injection E as <- <-. split; [reflexivity|]. split; [exact Hph|].
    exists cs. split; [apply walk_from_top; exact Hwn|exact Hat]. }
  destruct v.
  - rewrite exec_bind in H.
    destruct (exec w (name_exists h0 (last (split_slash path) ""))) as [[|]|]; try discriminate.
    apply Hres. exact H.
  - apply Hres. exact H.
Qed.

(* Operations whose path crosses a link inside the root fail: if any parent
   component is physically a symbolic link, no directory is handed out. *)
Theorem walk_to_parent_crossing_fails : forall path v pre suf a tg,
  (path =? "") = false ->
  Forall (fun c => plain c = true) (removelast (split_slash path)) ->
  removelast (split_slash path) = (pre ++ suf)%list ->
  at_phys top (root_base root :: pre) = Some (NLink a tg) ->
  exec w (walk_to_parent root path v) = ErrR.
Proof.
  intros path v pre suf a tg Hne Hp Hsplit Hl.
  destruct (exec w (walk_to_parent root path v)) as [[h leaf]|] eqn:E; [|reflexivity].
  destruct (walk_to_parent_tree path v h leaf Hne Hp E) as (_ & _ & cs & Hw & _).
  rewrite Hsplit in Hw. exfalso.
  destruct suf as [|s suf].
  - rewrite app_nil_r in Hw. apply walk_nofollow_at_phys in Hw. congruence.
  - change (root_base root :: pre ++ s :: suf)%list with ((root_base root :: pre) ++ s :: suf)%list in Hw.
    rewrite (walk_nofollow_crossing_fails (root_base root :: pre) (s :: suf) top a tg) in Hw;
      [discriminate|discriminate|exact Hl].
Qed.

(* Opener.OpenFile (fresh opener) in the world of a tree: success means the
   object opened is the regular file physically at root/path. *)
Theorem opener_open_file_tree : forall path,
  (path =? "") = false ->
  Forall (fun c => plain c = true) (split_slash path) ->
  snd (exec w (opener_open_file root new_opener path)) = OkR tt ->
  at_phys top (root_base root :: split_slash path) = Some NFile
  /\ exists cs, walk_nofollow top (root_base root :: removelast (split_slash path)) = Some (NDir cs).
Proof.
  intros path Hne Hp H. unfold opener_open_file in H. rewrite Hne in H.
  cbn [o_root_open new_opener exec tree_world] in H. rewrite String.eqb_refl, Hrootdir in H.
  cbn [o_names o_dirs new_opener] in H. rewrite exec_bind in H.
  assert (Hsplit : split_slash path = (removelast (split_slash path) ++ [last (split_slash path) ""])%list).
  { apply app_removelast_last. unfold split_slash. generalize EmptyString.
    clear. induction path as [|c p IH]; intro cur; cbn; [discriminate|].
    destruct (Ascii.eqb c slash); [discriminate|apply IH]. }
  assert (Hpp : Forall (fun c => plain c = true) (removelast (split_slash path))
                /\ plain (last (split_slash path) "") = true).
  { rewrite Hsplit in Hp. apply Forall_app in Hp. destruct Hp as [A B]. split; [exact A|].
    inversion B; assumption. }
  destruct Hpp as [Hpar Hleaf].
  pose proof (opener_walk_tree root top (removelast (split_slash path)) HRoot rcs [] [] Hrootdir Hpar) as Hw.
  destruct (exec w (opener_walk HRoot (removelast (split_slash path)) [] [] [] [])) as [[r ns] ds].
  cbn [fst] in Hw. destruct r as [parent|]; [|cbn in H; discriminate].
  destruct Hw as (Hph & cs & Hwn & Hat).
  cbn beta iota in H. rewrite exec_bind in H. cbn [exec snd] in H.
  destruct (plain_facts _ Hleaf) as (Hv & _ & _).
  unfold dir_open_file in H. rewrite Hv in H. cbn [exec tree_world] in H.
  split.
  - rewrite Hsplit.
    change (root_base root :: removelast (split_slash path) ++ [last (split_slash path) ""])%list
      with ((root_base root :: removelast (split_slash path)) ++ [last (split_slash path) ""])%list.
    change (root_base root :: removelast (split_slash path)) with (phys root HRoot ++ removelast (split_slash path))%list.
    rewrite <- Hph.
    destruct (at_phys top (phys root parent ++ [last (split_slash path) ""])) as [[| |]|];
      try discriminate. reflexivity.
  - exists cs. apply walk_from_top. exact Hwn.
Qed.
End TreeTheorems.

(* ================================================= the checker's soundness *)

(* what check_C17 = true means *)
Definition holds_C17 (root staging : string) (canary_intact : bool) (observed : list obs) : Prop :=
  canary_intact = true
  /\ Forall (fun pa => prim_ok root staging (fst pa) = true) (abstract root [] observed).

Theorem check_C17_sound : forall root staging canary observed,
  check_C17 root staging canary observed = true -> holds_C17 root staging canary observed.
Proof.
  intros root staging canary observed H. unfold check_C17 in H.
  apply andb_true_iff in H. destruct H as [H1 H2]. split; [exact H1|].
  apply Forall_forall. rewrite forallb_forall in H2. exact H2.
Qed.

(* the trace of a confined program passes the checker's predicate *)
Theorem confined_run : forall root staging A (m : prog A) (wld : nat -> prim -> answer) i,
  (forall j p, sane (wld j p) = true) ->
  confined root staging m ->
  Forall (fun pa => prim_ok root staging (fst pa) = true) (fst (run wld i m)).
Proof.
  intros root staging A m wld. induction m as [a|p k IH]; intros i Hs Hc; cbn.
  - constructor.
  - destruct Hc as [Hp Hk].
    destruct (run wld (S i) (k (wld i p))) as [t r] eqn:E. cbn.
    constructor; [exact Hp|].
    specialize (IH (wld i p) (S i) Hs (Hk _ (Hs i p))). rewrite E in IH. exact IH.
Qed.

(* ===================================================== summary statements *)

Section Summary.
Variables root staging : string.
Variable ownership : bool.
Hypothesis Hroot : valid_name (root_base root) = true.

Theorem confined_walk_to_parent : forall path v,
  confined root staging (walk_to_parent root path v).
Proof. intros. eapply cpost_confined. apply walk_to_parent_ok. exact Hroot. Qed.

Theorem confined_opener : forall o paths, opener_ok root o ->
  confined root staging (opener_open_files root o paths).
Proof. intros. eapply cpost_confined. apply opener_open_files_ok; assumption. Qed.

Theorem confined_transmit : forall paths, confined root staging (transmit root paths).
Proof. intros. eapply cpost_confined. apply opener_open_files_ok; [exact Hroot|constructor]. Qed.

Theorem confined_scan : forall fuel, confined root staging (scan root fuel).
Proof. intros. eapply cpost_confined. apply scan_ok. exact Hroot. Qed.

Theorem confined_transition : forall links_ignored rnds cs, forallb change_ok cs = true ->
  confined root staging (transition root staging ownership links_ignored rnds cs).
Proof. intros. eapply cpost_confined. apply transition_ok; assumption. Qed.

Theorem confined_stage_from_root : forall o src rnd d p, opener_ok root o -> hex_ok d p = true ->
  confined root staging (stage_from_root root staging o src rnd d p).
Proof. intros. eapply cpost_confined. apply stage_from_root_ok; assumption. Qed.

Lemma new_opener_ok : opener_ok root new_opener.
Proof. constructor. Qed.
End Summary.

(* Non-vacuity on a concrete tree: root/l is a link to ../canary. The real
   programs, run in the world of that tree: opening l/secret fails, d/f
   succeeds; the walk for a transition below l fails, below d succeeds; a scan
   issues only confined primitives and never names anything below l. *)
Example programs_on_a_tree :
  let top := NDir [("canary", NDir [("secret", NFile)]);
                   ("root", NDir [("l", NLink false [".."; "canary"]);
                                  ("d", NDir [("f", NFile)])])] in
  let w := tree_world "/x/root" top in
  root_base "/x/root" = "root"
  /\ root_parent_path "/x/root" = "/x/"
  /\ snd (exec w (opener_open_file "/x/root" new_opener "l/secret")) = ErrR
  /\ snd (exec w (opener_open_file "/x/root" new_opener "d/f")) = OkR tt
  /\ exec w (walk_to_parent "/x/root" "l/new" false) = ErrR
  /\ exec w (walk_to_parent "/x/root" "d/new" false) = OkR (HChild HRoot "d", "new")
  /\ forallb (fun pa => prim_ok "/x/root" "/x/staging" (fst pa))
             (fst (run (fun _ => w) 0 (scan "/x/root" 5))) = true
  /\ map fst (fst (run (fun _ => w) 0 (scan "/x/root" 5))) =
     [PAbsOpen "/x/root" false; PChoice "root-is-directory";
      PListDir HRoot; PStatAt HRoot "l"; PStatAt HRoot "d";
      PChoice "ignored-or-invalid-name"; PReadlinkAt HRoot "l";
      PChoice "ignored-or-invalid-name"; PChoice "same-device";
      POpenAt HRoot "d" true; PListDir (HChild HRoot "d");
      PStatAt (HChild HRoot "d") "f"; PChoice "ignored-or-invalid-name";
      PChoice "digest-cached"; POpenAt (HChild HRoot "d") "f" false].
Proof. vm_compute. repeat split; reflexivity. Qed.
