(* Statements about the controller machine in the form used by Props/C29.v and
   Props/C11.v: for every schedule, the trace passes the monitors. *)
From Coq Require Import List Bool Arith String Lia.
Import ListNotations.
From Mv Require Import Model.Entry Model.Reconcile Model.Safety Model.Controller Model.ControllerCheck
     Proof.ControllerBase Proof.ControllerPause Proof.ControllerTerminate Proof.ControllerHalt Proof.ControllerFlush Proof.ControllerReset Proof.ControllerSaved.
Local Open Scope list_scope.

Lemma run_pause : forall md manual sched st tr,
  run (init_state md manual) sched = Some (st, tr) -> check_pause tr = true.
Proof. intros. eapply pause_monitor_accepts. eapply run_reach. eassumption. Qed.

Lemma run_terminate_lenient : forall md manual sched st tr,
  run (init_state md manual) sched = Some (st, tr) -> check_terminate false tr = true.
Proof. intros. eapply terminate_monitor_accepts. eapply run_reach. eassumption. Qed.

Lemma run_terminate_strict : forall md manual sched st tr,
  run (init_state md manual) sched = Some (st, tr) -> reset_overlapped_terminate tr = false ->
  check_terminate true tr = true.
Proof. intros. eapply terminate_strict_accepts; [eapply run_reach; eassumption|assumption]. Qed.

(* the schedule in which a Reset that selected the controller before a
   Terminate finished writes the archive afterwards *)
Definition race_schedule : list action :=
  [ACall 1 (CCreate true); AAcquire 1; AReturn 1;
   ACall 2 CTerminate; ASelect 2; ACall 3 CReset; ASelect 3;
   AAcquire 2; AReturn 2; AAcquire 3; AReturn 3; AObserveS; AObserveA].

Lemma terminate_strict_refuted :
  exists st tr, run (init_state TwoWaySafe true) race_schedule = Some (st, tr)
                /\ check_terminate true tr = false /\ reset_overlapped_terminate tr = true
                /\ arch_file st = Some None /\ sess_file st = None.
Proof.
  destruct (run (init_state TwoWaySafe true) race_schedule) as [[st tr]|] eqn:E; [|vm_compute in E; discriminate].
  exists st, tr. split; [reflexivity|]. vm_compute in E. inv E. vm_compute. auto.
Qed.

Lemma run_halt : forall md manual sched st tr,
  run (init_state md manual) sched = Some (st, tr) -> check_halt md tr = true.
Proof. intros. eapply halt_monitor_accepts. eapply run_reach. eassumption. Qed.

Lemma run_flush : forall md manual sched st tr,
  run (init_state md manual) sched = Some (st, tr) -> check_flush tr = true.
Proof. intros. eapply flush_monitor_accepts. eapply run_reach. eassumption. Qed.

Lemma run_reset : forall md manual sched st tr,
  run (init_state md manual) sched = Some (st, tr) -> check_reset tr = true.
Proof. intros. eapply reset_monitor_accepts. eapply run_reach. eassumption. Qed.

Lemma run_reset_write : forall md manual sched st tr a st' evs x,
  run (init_state md manual) sched = Some (st, tr) ->
  step st a = Some (st', evs) -> In (IWriteArchive true x) evs ->
  loop st = None /\ x = None /\ arch_file st' = Some None.
Proof. intros. eapply reset_writes_without_loop; [eapply run_reach; eassumption|eassumption|eassumption]. Qed.

Lemma run_saved : forall md manual sched st tr,
  run (init_state md manual) sched = Some (st, tr) -> check_saved tr = true.
Proof. intros. eapply saved_monitor_accepts. eapply run_reach. eassumption. Qed.

(* the model's own traces pass the whole C29 checker (lenient form always, the
   strict form outside the known class) *)
Lemma run_check_c29_lenient : forall md manual sched st tr,
  run (init_state md manual) sched = Some (st, tr) -> check_c29_lenient md tr = true.
Proof.
  intros md manual sched st tr H. unfold check_c29_lenient.
  rewrite (run_pause _ _ _ _ _ H), (run_terminate_lenient _ _ _ _ _ H), (run_flush _ _ _ _ _ H),
          (run_saved _ _ _ _ _ H), (run_reset _ _ _ _ _ H). reflexivity.
Qed.

Lemma run_check_c29 : forall md manual sched st tr,
  run (init_state md manual) sched = Some (st, tr) -> reset_overlapped_terminate tr = false ->
  check_c29_events md tr = true.
Proof.
  intros md manual sched st tr H Hk. unfold check_c29_events.
  rewrite (run_pause _ _ _ _ _ H), (run_terminate_strict _ _ _ _ _ H Hk), (run_flush _ _ _ _ _ H),
          (run_saved _ _ _ _ _ H), (run_reset _ _ _ _ _ H). reflexivity.
Qed.

(* the class predicate of the harness (only the strict terminate monitor
   rejects) implies the class predicate of the theorem *)
Lemma known_class_is_overlap : forall md tr,
  known_c29_events md tr = true -> reset_overlapped_terminate tr = true.
Proof.
  intros md tr H. unfold known_c29_events in H. apply andb_prop in H. destruct H as [Hs Hl].
  apply negb_true_iff in Hs. unfold check_c29_lenient in Hl.
  repeat (apply andb_prop in Hl; destruct Hl as [Hl ?]).
  assert (check_terminate false tr = true) as Hlen by assumption.
  unfold reset_overlapped_terminate. unfold check_terminate, accepts in *.
  destruct (mon_run (tmon_step false) tmon_init tr) as [m|] eqn:E; [|discriminate].
  destruct (t_arch_unknown m) eqn:Eu; [reflexivity|].
  rewrite (tmon_strict_run _ _ _ E Eu) in Hs. discriminate.
Qed.
