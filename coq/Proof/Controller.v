(* Statements about the controller machine in the form used by Props/C29.v and
   Props/C11.v: for every schedule, the trace passes the monitors. *)
From Coq Require Import List Bool Arith String Lia.
Import ListNotations.
From Mv Require Import Model.Entry Model.Reconcile Model.Safety Model.Controller Model.ControllerCheck
     Proof.ControllerBase Proof.ControllerPause Proof.ControllerTerminate Proof.ControllerHalt Proof.ControllerFlush Proof.ControllerReset Proof.ControllerSaved Proof.ControllerSound
     Proof.ControllerFlushTx Proof.ControllerFlushTxSound.
Local Open Scope list_scope.

Lemma run_pause : forall md manual sched st tr,
  run (init_state md manual) sched = Some (st, tr) -> check_pause tr = true.
Proof. intros. eapply pause_monitor_accepts. eapply run_reach. eassumption. Qed.

Lemma run_terminate_lenient : forall md manual sched st tr,
  run (init_state md manual) sched = Some (st, tr) -> check_terminate false tr = true.
Proof. intros. eapply terminate_monitor_accepts. eapply run_reach. eassumption. Qed.

(* the code as it is (controller.reset refuses a disabled controller): the
   strict monitor accepts every trace -- also the archive file is absent after
   Terminate *)
Lemma run_terminate_strict : forall md manual sched st tr,
  run (init_state md manual) sched = Some (st, tr) -> check_terminate true tr = true.
Proof. intros. eapply terminate_strict_monitor_accepts. eapply run_reach. eassumption. Qed.

(* the schedule in which a Reset that selected the controller before a
   Terminate finished writes the archive afterwards *)
Definition race_schedule : list action :=
  [ACall 1 (CCreate true); AAcquire 1; AReturn 1;
   ACall 2 CTerminate; ASelect 2; ACall 3 CReset; ASelect 3;
   AAcquire 2; AReturn 2; AAcquire 3; AReturn 3; AObserveS; AObserveA].

(* the code as it was: the Reset writes the archive after the Terminate *)
Lemma terminate_strict_refuted_unfixed :
  exists st tr, run (init_state_unfixed TwoWaySafe true) race_schedule = Some (st, tr)
                /\ check_terminate true tr = false /\ reset_overlapped_terminate tr = true
                /\ In (Rt 3 CReset true) tr
                /\ arch_file st = Some None /\ sess_file st = None.
Proof.
  destruct (run (init_state_unfixed TwoWaySafe true) race_schedule) as [[st tr]|] eqn:E; [|vm_compute in E; discriminate].
  exists st, tr. split; [reflexivity|]. vm_compute in E. inv E. vm_compute. intuition.
Qed.

(* the same schedule on the code as it is: the Reset is refused, nothing remains *)
Lemma race_schedule_fixed :
  exists st tr, run (init_state TwoWaySafe true) race_schedule = Some (st, tr)
                /\ In (Rt 3 CReset false) tr /\ check_terminate true tr = true
                /\ arch_file st = None /\ sess_file st = None.
Proof.
  destruct (run (init_state TwoWaySafe true) race_schedule) as [[st tr]|] eqn:E; [|vm_compute in E; discriminate].
  exists st, tr. split; [reflexivity|]. vm_compute in E. inv E. vm_compute. intuition.
Qed.

Lemma run_halt : forall md manual sched st tr,
  run (init_state md manual) sched = Some (st, tr) -> check_halt md tr = true.
Proof. intros. eapply halt_monitor_accepts. eapply run_reach. eassumption. Qed.

Lemma run_flush : forall md manual sched st tr,
  run (init_state md manual) sched = Some (st, tr) -> check_flush tr = true.
Proof. intros. eapply flush_monitor_accepts. eapply run_reach. eassumption. Qed.

Lemma run_reset : forall md manual sched st tr,
  run (init_state md manual) sched = Some (st, tr) -> check_reset tr = true.
Proof. intros. eapply reset_monitor_accepts. eapply run_reach. eassumption. Qed.

Lemma run_reset_write : forall md manual sched st tr a st' evs x,
  run (init_state md manual) sched = Some (st, tr) ->
  step st a = Some (st', evs) -> In (IWriteArchive true x) evs ->
  loop st = None /\ x = None /\ arch_file st' = Some None.
Proof. intros. eapply reset_writes_without_loop; [eapply run_reach; eassumption|eassumption|eassumption]. Qed.

Lemma run_saved : forall md manual sched st tr,
  run (init_state md manual) sched = Some (st, tr) -> check_saved tr = true.
Proof. intros. eapply saved_monitor_accepts. eapply run_reach. eassumption. Qed.

Lemma run_flushtx : forall md manual sched st tr,
  run (init_state md manual) sched = Some (st, tr) -> check_flushtx tr = true.
Proof. intros. eapply flushtx_monitor_accepts. eapply run_reach. eassumption. Qed.

(* the model's own traces pass the whole C29 checker *)
Lemma run_check_c29_lenient : forall md manual sched st tr,
  run (init_state md manual) sched = Some (st, tr) -> check_c29_lenient md tr = true.
Proof.
  intros md manual sched st tr H. unfold check_c29_lenient.
  rewrite (run_pause _ _ _ _ _ H), (run_terminate_lenient _ _ _ _ _ H), (run_flush _ _ _ _ _ H),
          (run_saved _ _ _ _ _ H), (run_reset _ _ _ _ _ H), (run_flushtx _ _ _ _ _ H). reflexivity.
Qed.

Lemma run_check_c29 : forall md manual sched st tr,
  run (init_state md manual) sched = Some (st, tr) -> check_c29_events md tr = true.
Proof.
  intros md manual sched st tr H. unfold check_c29_events.
  rewrite (run_pause _ _ _ _ _ H), (run_terminate_strict _ _ _ _ _ H), (run_flush _ _ _ _ _ H),
          (run_saved _ _ _ _ _ H), (run_reset _ _ _ _ _ H), (run_flushtx _ _ _ _ _ H). reflexivity.
Qed.

(* the class predicate of the harness (only the strict terminate monitor
   rejects) implies the class predicate of the theorem *)
Lemma known_class_is_overlap : forall md tr,
  known_c29_events md tr = true -> reset_overlapped_terminate tr = true.
Proof.
  intros md tr H. unfold known_c29_events in H. apply andb_prop in H. destruct H as [Hs Hl].
  apply negb_true_iff in Hs. unfold check_c29_lenient in Hl.
  repeat (apply andb_prop in Hl; destruct Hl as [Hl ?]).
  assert (check_terminate false tr = true) as Hlen by assumption.
  unfold reset_overlapped_terminate. unfold check_terminate, accepts in *.
  destruct (mon_run (tmon_step false) tmon_init tr) as [m|] eqn:E; [|discriminate].
  destruct (t_arch_unknown m) eqn:Eu; [reflexivity|].
  rewrite (tmon_strict_run _ _ _ E Eu) in Hs. discriminate.
Qed.

(* ------------------------------------------------------------------ *)
(* example schedules: the hypotheses of the theorems are satisfiable on
   non-trivial executions *)
Open Scope string_scope.
Definition okres (c : oentry) : callres := {| r_ok := true; r_retry := false; r_content := c; r_changes := [] |}.
Definition two_files : oentry := Some (EDir [("a", EFile false "h0"); ("b", EFile false "h1")]).

(* create, one cycle that saves the ancestor, a poll event, a second cycle in
   which alpha's root is seen emptied: the loop halts *)
Definition halting_schedule : list action :=
  [ACall 1 (CCreate false); AAcquire 1; AConn 1 true; AConn 1 true; AReturn 1;
   ALoop LaTau; ALoop LaTau; ALoop LaTau; ALoop LaTau; ALoop LaTau; ALoop LaTau;
   ALoop (LaEnter Alpha); ALoop (LaEnter Beta);
   ALoop (LaExit Alpha (okres two_files)); ALoop (LaExit Beta (okres two_files));
   ALoop LaTau; ALoop LaTau; ALoop LaTau; ALoop LaTau; ALoop LaTau; ALoop (LaChoice false); ALoop LaTau;
   ALoop LaTau; ALoop (LaEnter Alpha); ALoop (LaEnter Beta); ALoop (LaExit Alpha (okres None));
   ALoop (LaTrigger TrPoll); ALoop (LaExit Beta (okres None)); ALoop LaTau;
   ALoop (LaEnter Beta); ALoop (LaEnter Alpha);
   ALoop (LaExit Beta (okres two_files)); ALoop (LaExit Alpha (okres (Some (EDir []))));
   ALoop LaTau; ALoop LaTau;
   ALoop LaTau; ALoop LaTau; ALoop LaTau; ALoop LaTau; AObserveT; AObserveA].

Lemma halting_example :
  exists st tr, run (init_state TwoWaySafe false) halting_schedule = Some (st, tr)
                /\ In (IHalt HaltEmptied) tr /\ status st = 1 /\ option_map lp (loop st) = Some LHalted
                /\ arch_file st = Some two_files /\ check_halt TwoWaySafe tr = true.
Proof.
  destruct (run (init_state TwoWaySafe false) halting_schedule) as [[st tr]|] eqn:E; [|vm_compute in E; discriminate].
  exists st, tr. split; [reflexivity|]. vm_compute in E. inv E. vm_compute. intuition.
Qed.

(* create, pause while the loop polls, a flush that fails while paused, restart,
   resume, a waiting flush, terminate *)
Definition lifecycle_schedule : list action :=
  [ACall 1 (CCreate false); AAcquire 1; AConn 1 true; AConn 1 true; AReturn 1;
   ALoop LaTau; ALoop LaTau; ALoop LaTau; ALoop LaTau; ALoop LaTau; ALoop LaTau;
   ALoop (LaEnter Alpha); ALoop (LaEnter Beta);
   ALoop (LaExit Alpha (okres two_files)); ALoop (LaExit Beta (okres two_files));
   ALoop LaTau; ALoop LaTau; ALoop LaTau; ALoop LaTau; ALoop LaTau; ALoop (LaChoice false); ALoop LaTau;
   ALoop LaTau; ALoop (LaEnter Alpha); ALoop (LaEnter Beta);
   ACall 2 CPause; ASelect 2; AAcquire 2;
   ALoop (LaTrigger TrCancel); ALoop (LaExit Alpha (okres None)); ALoop (LaExit Beta (okres None)); ALoop LaTau;
   ALoop LaTau; ALoop LaTau; ALoop LaTau; ALoop LaTau; ALoop LaTau; ALoop LaTau; ALoop LaTau; ALoop LaTau;
   AJoin 2; AReturn 2; AObserveS;
   ACall 3 (CFlush true); ASelect 3; AAcquire 3; AReturn 3;
   ACall 4 CShutdown; ASelect 4; AAcquire 4; AReturn 4; ANewManager; AObserveS; AObserveT;
   ACall 5 CResume; ASelect 5; AAcquire 5; AConn 5 true; AConn 5 true; AReturn 5;
   ALoop LaTau; ALoop LaTau; ALoop LaTau; ALoop LaTau; ALoop LaTau; ALoop LaTau;
   ALoop (LaEnter Alpha); ALoop (LaEnter Beta);
   ALoop (LaExit Alpha (okres two_files)); ALoop (LaExit Beta (okres two_files));
   ALoop LaTau; ALoop LaTau; ALoop LaTau; ALoop LaTau; ALoop LaTau; ALoop (LaChoice false); ALoop LaTau;
   ALoop LaTau; ALoop (LaEnter Alpha); ALoop (LaEnter Beta);
   ACall 6 (CFlush true); ASelect 6; AAcquire 6; AFlushSend 6 FSend;
   ALoop (LaTrigger TrFlush); ALoop (LaExit Alpha (okres None)); ALoop (LaExit Beta (okres None)); ALoop LaTau;
   ALoop (LaEnter Alpha); ALoop (LaEnter Beta);
   ALoop (LaExit Alpha (okres two_files)); ALoop (LaExit Beta (okres two_files));
   ALoop LaTau; ALoop LaTau; ALoop LaTau; ALoop LaTau; ALoop LaTau; ALoop (LaChoice false); ALoop LaTau;
   AFlushRecv 6 FAnswered; AReturn 6; AObserveA;
   ACall 7 CTerminate; ASelect 7; AAcquire 7;
   ALoop LaTau; ALoop (LaEnter Alpha); ALoop (LaEnter Beta);
   ALoop (LaTrigger TrCancel); ALoop (LaExit Alpha (okres None)); ALoop (LaExit Beta (okres None)); ALoop LaTau;
   ALoop LaTau; ALoop LaTau; ALoop LaTau; ALoop LaTau; ALoop LaTau; ALoop LaTau; ALoop LaTau; ALoop LaTau;
   AJoin 7; AReturn 7; AObserveS; AObserveA;
   ACall 8 CResume; ASelect 8; AReturn 8].

Lemma lifecycle_example :
  exists st tr, run (init_state TwoWaySafe false) lifecycle_schedule = Some (st, tr)
                /\ In (Rt 2 CPause true) tr /\ In (Rt 3 (CFlush true) false) tr /\ In (Nm true) tr
                /\ In (Rt 5 CResume true) tr /\ In (Rt 6 (CFlush true) true) tr /\ In (Rt 7 CTerminate true) tr
                /\ In (Rt 8 CResume false) tr
                /\ sess_file st = None /\ arch_file st = None /\ loop st = None
                /\ check_c29_events TwoWaySafe tr = true.
Proof.
  destruct (run (init_state TwoWaySafe false) lifecycle_schedule) as [[st tr]|] eqn:E; [|vm_compute in E; discriminate].
  exists st, tr. split; [reflexivity|]. vm_compute in E. inv E. vm_compute. intuition.
Qed.
