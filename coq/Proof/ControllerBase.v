(* Basic facts about the controller machine (Model/Controller.v): reachability,
   thread-table lemmas, the frame of loop steps, and the global invariant on
   which the per-property simulations of Proof/Controller*.v rest. *)
From Coq Require Import List Bool Arith String Lia.
Import ListNotations.
From Mv Require Import Model.Entry Model.Reconcile Model.Safety Model.Controller Model.ControllerCheck.
Local Open Scope list_scope.

(* ------------------------------------------------------------------ *)
(* reachability *)

Inductive reach (st0 : cstate) : cstate -> list event -> Prop :=
| reach_nil : reach st0 st0 []
| reach_step : forall st tr a st' evs,
    reach st0 st tr -> step st a = Some (st', evs) -> reach st0 st' (tr ++ evs).

Lemma reach_trans_run : forall sched st0 st tr st' tr',
  reach st0 st tr -> run st sched = Some (st', tr') -> reach st0 st' (tr ++ tr').
Proof.
  induction sched as [|a rest IH]; intros st0 st tr st' tr' Hr Hrun; cbn in Hrun.
  - inversion Hrun; subst. rewrite app_nil_r. exact Hr.
  - destruct (step st a) as [[st1 evs]|] eqn:Hs; [|discriminate].
    destruct (run st1 rest) as [[st2 tr2]|] eqn:Hr2; [|discriminate].
    inversion Hrun; subst. rewrite app_assoc. eapply IH; [|exact Hr2].
    eapply reach_step; eassumption.
Qed.

Lemma run_reach : forall sched st0 st tr, run st0 sched = Some (st, tr) -> reach st0 st tr.
Proof.
  intros. change tr with ([] ++ tr). eapply reach_trans_run; [apply reach_nil|eassumption].
Qed.

(* ------------------------------------------------------------------ *)
(* monitors over concatenated traces *)

Lemma mon_run_app : forall (M : Type) (f : M -> event -> option M) l1 l2 m,
  mon_run f m (l1 ++ l2) = match mon_run f m l1 with
                           | Some m' => mon_run f m' l2
                           | None => None
                           end.
Proof.
  intros M f l1. induction l1 as [|e l1 IH]; intros l2 m; cbn; [reflexivity|].
  destruct (f m e); [apply IH|reflexivity].
Qed.

(* a simulation: every trace of the machine is accepted, and the monitor state
   stays related to the machine state *)
Section Simulation.
  Variable M : Type.
  Variable mstep : M -> event -> option M.
  Variable R : M -> cstate -> Prop.
  Variable st0 : cstate.
  Variable m0 : M.
  Hypothesis R0 : R m0 st0.
  Hypothesis Rstep : forall m st a st' evs,
    R m st -> step st a = Some (st', evs) -> exists m', mon_run mstep m evs = Some m' /\ R m' st'.

  Lemma simulation : forall st tr, reach st0 st tr -> exists m, mon_run mstep m0 tr = Some m /\ R m st.
  Proof.
    intros st tr H. induction H as [|st tr a st' evs Hr IH Hs].
    - exists m0. split; [reflexivity|exact R0].
    - destruct IH as (m & Hm & HR). destruct (Rstep m st a st' evs HR Hs) as (m' & Hm' & HR').
      exists m'. split; [|exact HR']. rewrite mon_run_app, Hm. exact Hm'.
  Qed.

  Lemma simulation_accepts : forall st tr, reach st0 st tr -> accepts mstep m0 tr = true.
  Proof.
    intros st tr H. destruct (simulation st tr H) as (m & Hm & _). unfold accepts. rewrite Hm. reflexivity.
  Qed.
End Simulation.

(* ------------------------------------------------------------------ *)
(* tactics *)

Ltac inv H := inversion H; subst; clear H.

(* split a hypothesis [H : <nested matches> = Some _] into its branches *)
Ltac break_in H :=
  repeat match type of H with
         | context [match ?x with _ => _ end] =>
           let E := fresh "E" in destruct x eqn:E; try discriminate H
         end.

(* ------------------------------------------------------------------ *)
(* the thread table *)

Definition keys (ths : list thread) : active := map (fun th => (th_id th, th_cmd th)) ths.
Definition ids (ths : list thread) : list tid := map th_id ths.

Lemma find_thread_in : forall t ths th, find_thread t ths = Some th -> In th ths /\ th_id th = t.
Proof.
  intros t ths. induction ths as [|x rest IH]; intros th H; cbn in H; [discriminate|].
  destruct (Nat.eqb (th_id x) t) eqn:E.
  - inv H. apply Nat.eqb_eq in E. split; [left; reflexivity|exact E].
  - apply IH in H. destruct H. split; [right; assumption|assumption].
Qed.

Lemma upd_thread_id : forall t pc th, th_id (upd_thread t pc th) = th_id th.
Proof. intros. unfold upd_thread. destruct (Nat.eqb (th_id th) t); reflexivity. Qed.

Lemma upd_thread_cmd : forall t pc th, th_cmd (upd_thread t pc th) = th_cmd th.
Proof. intros. unfold upd_thread. destruct (Nat.eqb (th_id th) t); reflexivity. Qed.

Lemma upd_thread_other : forall t pc th, th_id th <> t -> upd_thread t pc th = th.
Proof. intros. unfold upd_thread. apply Nat.eqb_neq in H. rewrite H. reflexivity. Qed.

Lemma upd_thread_same : forall t pc th, th_id th = t ->
  upd_thread t pc th = {| th_id := th_id th; th_cmd := th_cmd th; th_pc := pc |}.
Proof. intros. unfold upd_thread. apply Nat.eqb_eq in H. rewrite H. reflexivity. Qed.

Lemma ids_set_thread : forall t pc ths, ids (set_thread t pc ths) = ids ths.
Proof.
  intros. unfold ids, set_thread. rewrite map_map. apply map_ext. intro. apply upd_thread_id.
Qed.

Lemma keys_set_thread : forall t pc ths, keys (set_thread t pc ths) = keys ths.
Proof.
  intros. unfold keys, set_thread. rewrite map_map. apply map_ext. intro.
  rewrite upd_thread_id, upd_thread_cmd. reflexivity.
Qed.

Lemma keys_remove_thread : forall t ths, keys (remove_thread t ths) = act_remove t (keys ths).
Proof.
  intros t ths. unfold keys, remove_thread, act_remove.
  induction ths as [|x rest IH]; cbn; [reflexivity|].
  destruct (Nat.eqb (th_id x) t); cbn; [exact IH|]. rewrite IH. reflexivity.
Qed.

Lemma Forall_set_thread : forall (P Q : thread -> Prop) t pc ths,
  Forall P ths ->
  (forall th, In th ths -> P th -> th_id th <> t -> Q th) ->
  (forall th, In th ths -> P th -> th_id th = t ->
              Q {| th_id := th_id th; th_cmd := th_cmd th; th_pc := pc |}) ->
  Forall Q (set_thread t pc ths).
Proof.
  intros P Q t pc ths HP H1 H2. unfold set_thread. apply Forall_forall. intros y Hy.
  apply in_map_iff in Hy. destruct Hy as (x & <- & Hx).
  rewrite Forall_forall in HP. specialize (HP x Hx).
  destruct (Nat.eq_dec (th_id x) t) as [E|E].
  - rewrite upd_thread_same by exact E. apply H2; assumption.
  - rewrite upd_thread_other by exact E. apply H1; assumption.
Qed.

Lemma in_set_thread : forall t pc ths y,
  In y (set_thread t pc ths) ->
  exists x, In x ths /\ ((th_id x <> t /\ y = x) \/
                         (th_id x = t /\ y = {| th_id := th_id x; th_cmd := th_cmd x; th_pc := pc |})).
Proof.
  intros t pc ths y Hy. unfold set_thread in Hy. apply in_map_iff in Hy. destruct Hy as (x & <- & Hx).
  exists x. split; [exact Hx|].
  destruct (Nat.eq_dec (th_id x) t) as [E|E].
  - right. split; [exact E|apply upd_thread_same; exact E].
  - left. split; [exact E|apply upd_thread_other; exact E].
Qed.

Lemma set_thread_in : forall t pc ths x, In x ths -> In (upd_thread t pc x) (set_thread t pc ths).
Proof. intros. unfold set_thread. apply in_map. assumption. Qed.

Lemma in_remove_thread : forall t ths y, In y (remove_thread t ths) <-> In y ths /\ th_id y <> t.
Proof.
  intros. unfold remove_thread. rewrite filter_In. split; intros [H1 H2]; split; auto.
  - apply negb_true_iff, Nat.eqb_neq in H2. exact H2.
  - apply negb_true_iff, Nat.eqb_neq. exact H2.
Qed.

Lemma Forall_remove_thread : forall (P : thread -> Prop) t ths,
  Forall P ths -> Forall P (remove_thread t ths).
Proof.
  intros P t ths H. apply Forall_forall. intros y Hy. apply in_remove_thread in Hy.
  rewrite Forall_forall in H. apply H. apply Hy.
Qed.

Lemma NoDup_ids_remove : forall t ths, NoDup (ids ths) -> NoDup (ids (remove_thread t ths)).
Proof.
  intros t ths. unfold ids, remove_thread. induction ths as [|x rest IH]; intros H; cbn; [constructor|].
  inv H. destruct (Nat.eqb (th_id x) t); cbn; [apply IH; assumption|].
  constructor; [|apply IH; assumption].
  intro Hin. apply H2. apply in_map_iff in Hin. destruct Hin as (y & Hy & Hin).
  apply filter_In in Hin. apply in_map_iff. exists y. split; [exact Hy|apply Hin].
Qed.

(* ------------------------------------------------------------------ *)
(* the frame of loop steps: they touch the loop, the status, the archive and
   the answered list only, and emit no command/observation events *)

Definition loop_event (e : event) : bool :=
  match e with
  | Ca _ _ | Rt _ _ _ | ObS _ _ | ObA _ _ _ | ObT _ _ | Ed _ _ | Nm _
  | IWriteSession _ | IRemoveSession | IRemoveArchive | ICancel _ | ILoopStart _ => false
  | IWriteArchive r _ => negb r
  | _ => true
  end.

Record same_frame (st st' : cstate) : Prop := {
  fr_mode : cfg_mode st' = cfg_mode st;
  fr_manual : cfg_manual st' = cfg_manual st;
  fr_created : created st' = created st;
  fr_present : present st' = present st;
  fr_mgr : mgr_up st' = mgr_up st;
  fr_disabled : disabled st' = disabled st;
  fr_lock : lockh st' = lockh st;
  fr_sess : sess_file st' = sess_file st;
  fr_threads : threads st' = threads st;
  fr_gen : next_gen st' = next_gen st;
  fr_bound : tid_bound st' = tid_bound st
}.

Lemma lret_inv : forall st l evs st' evs',
  lret st l evs = Some (st', evs') -> st' = st_with_loop st (Some l) /\ evs' = evs.
Proof. intros. unfold lret in H. inv H. auto. Qed.

Ltac crunch1 :=
  match goal with
  | H : lret _ _ _ = Some _ |- _ => apply lret_inv in H; destruct H; subst
  | H : lfail _ _ = Some _ |- _ => unfold lfail in H
  | H : Some _ = Some _ |- _ => inv H
  | H : None = Some _ |- _ => discriminate H
  | H : prepend _ _ = Some _ |- _ => unfold prepend in H
  | H : stage_next _ _ _ _ _ = Some _ |- _ => unfold stage_next in H
  | H : match ?x with _ => _ end = Some _ |- _ => let E := fresh "E" in destruct x eqn:E; try discriminate H
  end.
Ltac crunch := repeat crunch1.

Lemma loop_step_frame : forall st l a st' evs,
  loop_step st l a = Some (st', evs) -> same_frame st st' /\ forallb loop_event evs = true.
Proof.
  intros st l a st' evs H. unfold loop_step in H.
  destruct (lp l) eqn:Elp;
    unfold step_conn, step_sync_init, step_top, step_poll, step_scan, step_rescan_wait, step_reconcile,
           step_stage, step_trans, step_save, step_respond, step_end, step_after, step_exit in H;
    try rewrite Elp in H;
    crunch; (split; [constructor; reflexivity|reflexivity]).
Qed.

Lemma loop_step_loop : forall st l a st' evs,
  loop_step st l a = Some (st', evs) ->
  loop st' = None \/ exists l', loop st' = Some l' /\ lcancel l' = lcancel l /\ lgen l' = lgen l.
Proof.
  intros st l a st' evs H. unfold loop_step in H.
  destruct (lp l) eqn:Elp;
    unfold step_conn, step_sync_init, step_top, step_poll, step_scan, step_rescan_wait, step_reconcile,
           step_stage, step_trans, step_save, step_respond, step_end, step_after, step_exit in H;
    try rewrite Elp in H;
    crunch; try (left; reflexivity); right; eexists; (split; [reflexivity|split; cbn; congruence]).
Qed.

(* ------------------------------------------------------------------ *)
(* the global invariant *)

Definition holds_lock (th : thread) : bool :=
  match th_pc th with TJoin | TResetArch | TResetResume | TConn _ _ => true | _ => false end.
Definition idle (th : thread) : bool :=
  match th_pc th with TCalled | TRet _ => true | _ => false end.
Definition is_create (c : cmd) : bool := match c with CCreate _ => true | _ => false end.
Definition creating (th : thread) : bool := is_create (th_cmd th) && negb (idle th).

Record ginv (st : cstate) : Prop := {
  g_nodup : NoDup (ids (threads st));
  g_bound : Forall (fun th => th_id th < tid_bound st) (threads st);
  g_lock1 : Forall (fun th => holds_lock th = true -> lockh st = Some (th_id th)) (threads st);
  g_lock2 : forall t, lockh st = Some t ->
                      exists th, In th (threads st) /\ th_id th = t /\ holds_lock th = true;
  g_created : present st = true -> created st = true;
  g_sel : Forall (fun th => idle th = false \/ (is_pause (th_cmd th) = true /\ th_pc th = TRet true)
                            -> created st = true) (threads st);
  g_creating : (exists th, In th (threads st) /\ creating th = true) ->
               present st = false /\ disabled st = false /\ loop st = None /\
               Forall (fun th => creating th = true \/ idle th = true) (threads st);
  g_disabled : disabled st = true -> loop st = None /\ lockh st = None;
  g_cancel : forall l, loop st = Some l -> lcancel l = true ->
                       exists th, In th (threads st) /\ th_pc th = TJoin
}.

Lemma ginv_init : forall m manual, ginv (init_state m manual).
Proof.
  intros. constructor; cbn.
  - constructor.
  - constructor.
  - constructor.
  - intros; discriminate.
  - intros; discriminate.
  - constructor.
  - intros (th & [] & _).
  - intros; discriminate.
  - intros; discriminate.
Qed.

Lemma ginv_loop_step : forall st l a st' evs,
  ginv st -> loop st = Some l -> loop_step st l a = Some (st', evs) -> ginv st'.
Proof.
  intros st l a st' evs G Hl H.
  destruct (loop_step_frame _ _ _ _ _ H) as [F _].
  destruct (loop_step_loop _ _ _ _ _ H) as [Hn|(l' & Hl' & Hc & _)];
  destruct F; destruct G; constructor;
    rewrite ?fr_threads0, ?fr_bound0, ?fr_lock0, ?fr_present0, ?fr_created0, ?fr_disabled0; auto.
  - intros Hex. destruct (g_creating0 Hex) as (_ & _ & Hnone & _). congruence.
  - intro Hd. destruct (g_disabled0 Hd) as [Hnone _]. congruence.
  - intros l0 Hl0. congruence.
  - intros Hex. destruct (g_creating0 Hex) as (_ & _ & Hnone & _). congruence.
  - intro Hd. destruct (g_disabled0 Hd) as [Hnone _]. congruence.
  - intros l0 Hl0 Hc0. rewrite Hl' in Hl0. inv Hl0. rewrite Hc in Hc0. eapply g_cancel0; eassumption.
Qed.
