(* Basic facts about the controller machine (Model/Controller.v): reachability,
   thread-table lemmas, the frame of loop steps, and the global invariant on
   which the per-property simulations of Proof/Controller*.v rest. *)
From Coq Require Import List Bool Arith String Lia.
Import ListNotations.
From Mv Require Import Model.Entry Model.Reconcile Model.Safety Model.Controller Model.ControllerCheck.
Local Open Scope list_scope.

(* ------------------------------------------------------------------ *)
(* reachability *)

Inductive reach (st0 : cstate) : cstate -> list event -> Prop :=
| reach_nil : reach st0 st0 []
| reach_step : forall st tr a st' evs,
    reach st0 st tr -> step st a = Some (st', evs) -> reach st0 st' (tr ++ evs).

Lemma reach_trans_run : forall sched st0 st tr st' tr',
  reach st0 st tr -> run st sched = Some (st', tr') -> reach st0 st' (tr ++ tr').
Proof.
  induction sched as [|a rest IH]; intros st0 st tr st' tr' Hr Hrun; cbn in Hrun.
  - inversion Hrun; subst. rewrite app_nil_r. exact Hr.
  - destruct (step st a) as [[st1 evs]|] eqn:Hs; [|discriminate].
    destruct (run st1 rest) as [[st2 tr2]|] eqn:Hr2; [|discriminate].
    inversion Hrun; subst. rewrite app_assoc. eapply IH; [|exact Hr2].
    eapply reach_step; eassumption.
Qed.

Lemma run_reach : forall sched st0 st tr, run st0 sched = Some (st, tr) -> reach st0 st tr.
Proof.
  intros. change tr with ([] ++ tr). eapply reach_trans_run; [apply reach_nil|eassumption].
Qed.

(* ------------------------------------------------------------------ *)
(* monitors over concatenated traces *)

Lemma mon_run_app : forall (M : Type) (f : M -> event -> option M) l1 l2 m,
  mon_run f m (l1 ++ l2) = match mon_run f m l1 with
                           | Some m' => mon_run f m' l2
                           | None => None
                           end.
Proof.
  intros M f l1. induction l1 as [|e l1 IH]; intros l2 m; cbn; [reflexivity|].
  destruct (f m e); [apply IH|reflexivity].
Qed.

(* a simulation: every trace of the machine is accepted, and the monitor state
   stays related to the machine state *)
Section Simulation.
  Variable M : Type.
  Variable mstep : M -> event -> option M.
  Variable R : M -> cstate -> Prop.
  Variable st0 : cstate.
  Variable m0 : M.
  Hypothesis R0 : R m0 st0.
  Hypothesis Rstep : forall m st a st' evs,
    R m st -> step st a = Some (st', evs) -> exists m', mon_run mstep m evs = Some m' /\ R m' st'.

  Lemma simulation : forall st tr, reach st0 st tr -> exists m, mon_run mstep m0 tr = Some m /\ R m st.
  Proof.
    intros st tr H. induction H as [|st tr a st' evs Hr IH Hs].
    - exists m0. split; [reflexivity|exact R0].
    - destruct IH as (m & Hm & HR). destruct (Rstep m st a st' evs HR Hs) as (m' & Hm' & HR').
      exists m'. split; [|exact HR']. rewrite mon_run_app, Hm. exact Hm'.
  Qed.

  Lemma simulation_accepts : forall st tr, reach st0 st tr -> accepts mstep m0 tr = true.
  Proof.
    intros st tr H. destruct (simulation st tr H) as (m & Hm & _). unfold accepts. rewrite Hm. reflexivity.
  Qed.
End Simulation.

(* ------------------------------------------------------------------ *)
(* tactics *)

Ltac inv H := inversion H; subst; clear H.

(* split a hypothesis [H : <nested matches> = Some _] into its branches *)
Ltac break_in H :=
  repeat match type of H with
         | context [match ?x with _ => _ end] =>
           let E := fresh "E" in destruct x eqn:E; try discriminate H
         end.

(* ------------------------------------------------------------------ *)
(* the thread table *)

Definition keys (ths : list thread) : active := map (fun th => (th_id th, th_cmd th)) ths.
Definition ids (ths : list thread) : list tid := map th_id ths.

Lemma find_thread_in : forall t ths th, find_thread t ths = Some th -> In th ths /\ th_id th = t.
Proof.
  intros t ths. induction ths as [|x rest IH]; intros th H; cbn in H; [discriminate|].
  destruct (Nat.eqb (th_id x) t) eqn:E.
  - inv H. apply Nat.eqb_eq in E. split; [left; reflexivity|exact E].
  - apply IH in H. destruct H. split; [right; assumption|assumption].
Qed.

Lemma upd_thread_id : forall t pc th, th_id (upd_thread t pc th) = th_id th.
Proof. intros. unfold upd_thread. destruct (Nat.eqb (th_id th) t); reflexivity. Qed.

Lemma upd_thread_cmd : forall t pc th, th_cmd (upd_thread t pc th) = th_cmd th.
Proof. intros. unfold upd_thread. destruct (Nat.eqb (th_id th) t); reflexivity. Qed.

Lemma upd_thread_other : forall t pc th, th_id th <> t -> upd_thread t pc th = th.
Proof. intros. unfold upd_thread. apply Nat.eqb_neq in H. rewrite H. reflexivity. Qed.

Lemma upd_thread_same : forall t pc th, th_id th = t ->
  upd_thread t pc th = {| th_id := th_id th; th_cmd := th_cmd th; th_pc := pc |}.
Proof. intros. unfold upd_thread. apply Nat.eqb_eq in H. rewrite H. reflexivity. Qed.

Lemma ids_set_thread : forall t pc ths, ids (set_thread t pc ths) = ids ths.
Proof.
  intros. unfold ids, set_thread. rewrite map_map. apply map_ext. intro. apply upd_thread_id.
Qed.

Lemma keys_set_thread : forall t pc ths, keys (set_thread t pc ths) = keys ths.
Proof.
  intros. unfold keys, set_thread. rewrite map_map. apply map_ext. intro.
  rewrite upd_thread_id, upd_thread_cmd. reflexivity.
Qed.

Lemma keys_remove_thread : forall t ths, keys (remove_thread t ths) = act_remove t (keys ths).
Proof.
  intros t ths. unfold keys, remove_thread, act_remove.
  induction ths as [|x rest IH]; cbn; [reflexivity|].
  destruct (Nat.eqb (th_id x) t); cbn; [exact IH|]. rewrite IH. reflexivity.
Qed.

Lemma Forall_set_thread : forall (P Q : thread -> Prop) t pc ths,
  Forall P ths ->
  (forall th, In th ths -> P th -> th_id th <> t -> Q th) ->
  (forall th, In th ths -> P th -> th_id th = t ->
              Q {| th_id := th_id th; th_cmd := th_cmd th; th_pc := pc |}) ->
  Forall Q (set_thread t pc ths).
Proof.
  intros P Q t pc ths HP H1 H2. unfold set_thread. apply Forall_forall. intros y Hy.
  apply in_map_iff in Hy. destruct Hy as (x & <- & Hx).
  rewrite Forall_forall in HP. specialize (HP x Hx).
  destruct (Nat.eq_dec (th_id x) t) as [E|E].
  - rewrite upd_thread_same by exact E. apply H2; assumption.
  - rewrite upd_thread_other by exact E. apply H1; assumption.
Qed.

Lemma in_set_thread : forall t pc ths y,
  In y (set_thread t pc ths) ->
  exists x, In x ths /\ ((th_id x <> t /\ y = x) \/
                         (th_id x = t /\ y = {| th_id := th_id x; th_cmd := th_cmd x; th_pc := pc |})).
Proof.
  intros t pc ths y Hy. unfold set_thread in Hy. apply in_map_iff in Hy. destruct Hy as (x & <- & Hx).
  exists x. split; [exact Hx|].
  destruct (Nat.eq_dec (th_id x) t) as [E|E].
  - right. split; [exact E|apply upd_thread_same; exact E].
  - left. split; [exact E|apply upd_thread_other; exact E].
Qed.

Lemma set_thread_in : forall t pc ths x, In x ths -> In (upd_thread t pc x) (set_thread t pc ths).
Proof. intros. unfold set_thread. apply in_map. assumption. Qed.

Lemma in_remove_thread : forall t ths y, In y (remove_thread t ths) <-> In y ths /\ th_id y <> t.
Proof.
  intros. unfold remove_thread. rewrite filter_In. split; intros [H1 H2]; split; auto.
  - apply negb_true_iff, Nat.eqb_neq in H2. exact H2.
  - apply negb_true_iff, Nat.eqb_neq. exact H2.
Qed.

Lemma Forall_remove_thread : forall (P : thread -> Prop) t ths,
  Forall P ths -> Forall P (remove_thread t ths).
Proof.
  intros P t ths H. apply Forall_forall. intros y Hy. apply in_remove_thread in Hy.
  rewrite Forall_forall in H. apply H. apply Hy.
Qed.

Lemma NoDup_ids_remove : forall t ths, NoDup (ids ths) -> NoDup (ids (remove_thread t ths)).
Proof.
  intros t ths. unfold ids, remove_thread. induction ths as [|x rest IH]; intros H; cbn; [constructor|].
  inv H. destruct (Nat.eqb (th_id x) t); cbn; [apply IH; assumption|].
  constructor; [|apply IH; assumption].
  intro Hin. apply H2. apply in_map_iff in Hin. destruct Hin as (y & Hy & Hin).
  apply filter_In in Hin. apply in_map_iff. exists y. split; [exact Hy|apply Hin].
Qed.

(* ------------------------------------------------------------------ *)
(* the frame of loop steps: they touch the loop, the status, the archive and
   the answered list only, and emit no command/observation events *)

Definition loop_event (e : event) : bool :=
  match e with
  | Ca _ _ | Rt _ _ _ | ObS _ _ | ObA _ _ _ | ObT _ _ | Ed _ _ | Nm _
  | IWriteSession _ | IRemoveSession | IRemoveArchive | ICancel _ | ILoopStart _ => false
  | IWriteArchive r _ => negb r
  | _ => true
  end.

Record same_frame (st st' : cstate) : Prop := {
  fr_mode : cfg_mode st' = cfg_mode st;
  fr_manual : cfg_manual st' = cfg_manual st;
  fr_created : created st' = created st;
  fr_present : present st' = present st;
  fr_mgr : mgr_up st' = mgr_up st;
  fr_disabled : disabled st' = disabled st;
  fr_sess : sess_file st' = sess_file st;
  fr_threads : threads st' = threads st;
  fr_gen : next_gen st' = next_gen st;
  fr_bound : tid_bound st' = tid_bound st
}.

Lemma lret_inv : forall st l evs st' evs',
  lret st l evs = Some (st', evs') -> st' = st_with_loop st (Some l) /\ evs' = evs.
Proof. intros. unfold lret in H. inv H. auto. Qed.

Ltac crunch1 :=
  match goal with
  | H : lret _ _ _ = Some _ |- _ => apply lret_inv in H; destruct H; subst
  | H : lfail _ _ = Some _ |- _ => unfold lfail in H
  | H : Some _ = Some _ |- _ => inv H
  | H : None = Some _ |- _ => discriminate H
  | H : prepend _ _ = Some _ |- _ => unfold prepend in H
  | H : stage_next _ _ _ _ _ = Some _ |- _ => unfold stage_next in H
  | H : match ?x with _ => _ end = Some _ |- _ => let E := fresh "E" in destruct x eqn:E; try discriminate H
  end.
Ltac crunch := repeat crunch1.

Lemma loop_step_frame : forall st l a st' evs,
  loop_step st l a = Some (st', evs) -> same_frame st st' /\ forallb loop_event evs = true.
Proof.
  intros st l a st' evs H. unfold loop_step in H.
  destruct (lp l) eqn:Elp;
    unfold step_conn, step_sync_init, step_top, step_poll, step_scan, step_rescan_wait, step_reconcile,
           step_stage, step_trans, step_save, step_respond, step_end, step_after, step_exit in H;
    try rewrite Elp in H;
    crunch; (split; [constructor; reflexivity|reflexivity]).
Qed.

Lemma loop_step_loop : forall st l a st' evs,
  loop_step st l a = Some (st', evs) ->
  loop st' = None \/ exists l', loop st' = Some l' /\ lcancel l' = lcancel l /\ lgen l' = lgen l.
Proof.
  intros st l a st' evs H. unfold loop_step in H.
  destruct (lp l) eqn:Elp;
    unfold step_conn, step_sync_init, step_top, step_poll, step_scan, step_rescan_wait, step_reconcile,
           step_stage, step_trans, step_save, step_respond, step_end, step_after, step_exit in H;
    try rewrite Elp in H;
    crunch; try (left; reflexivity); right; eexists; (split; [reflexivity|split; cbn; congruence]).
Qed.

(* ------------------------------------------------------------------ *)
(* the global invariant *)

Definition idle (th : thread) : bool :=
  match th_pc th with TCalled | TRet _ => true | _ => false end.
Definition holds_pc (pc : tpc) : bool :=
  match pc with TJoin | TResetArch | TResetResume | TConn _ _ => true | _ => false end.
Definition idle_pc (pc : tpc) : bool :=
  match pc with TCalled | TRet _ => true | _ => false end.

Lemma holds_lock_pc : forall th, holds_lock th = holds_pc (th_pc th).
Proof. reflexivity. Qed.
Lemma idle_idle_pc : forall th, idle th = idle_pc (th_pc th).
Proof. reflexivity. Qed.

(* which program counters a command can be at *)
Definition pc_cmd_ok (c : cmd) (pc : tpc) : bool :=
  match pc with
  | TCalled => negb (is_create c)
  | TStart | TRet _ => true
  | TJoin => match c with CPause | CShutdown | CTerminate | CResume | CReset => true | _ => false end
  | TResetArch | TResetResume => match c with CReset => true | _ => false end
  | TConn _ _ => match c with CResume | CReset | CCreate false => true | _ => false end
  | TFlushSend _ _ => match c with CFlush _ => true | _ => false end
  | TFlushWait _ _ => match c with CFlush true => true | _ => false end
  end.

Record ginv (st : cstate) : Prop := {
  g_nodup : NoDup (ids (threads st));
  g_bound : Forall (fun th => th_id th < tid_bound st) (threads st);
  g_lock : forall th th', In th (threads st) -> In th' (threads st) ->
                          holds_lock th = true -> holds_lock th' = true -> th_id th = th_id th';
  g_create : forall th, In th (threads st) -> is_create (th_cmd th) = true -> threads st = [th];
  g_pc : forall th, In th (threads st) -> pc_cmd_ok (th_cmd th) (th_pc th) = true;
  g_created : threads st <> [] -> created st = true;
  g_present : present st = true -> created st = true;
  g_fresh : created st = false -> disabled st = false /\ loop st = None /\ mgr_up st = true;
  g_creating : forall th, In th (threads st) -> is_create (th_cmd th) = true -> idle th = false ->
                          present st = false /\ disabled st = false /\ loop st = None;
  g_disabled : disabled st = true -> loop st = None /\ locked st = false;
  g_cancel : forall l, loop st = Some l -> lcancel l = true ->
                       exists th, In th (threads st) /\ th_pc th = TJoin
}.

Lemma ginv_init : forall m manual, ginv (init_state m manual).
Proof.
  intros. constructor; cbn.
  - constructor.
  - constructor.
  - intros th th' [].
  - intros th [].
  - intros th [].
  - intro H; contradiction.
  - intros; discriminate.
  - auto.
  - intros th [].
  - intros; discriminate.
  - intros; discriminate.
Qed.

Lemma ginv_loop_step : forall st l a st' evs,
  ginv st -> loop st = Some l -> loop_step st l a = Some (st', evs) -> ginv st'.
Proof.
  intros st l a st' evs G Hl H.
  destruct (loop_step_frame _ _ _ _ _ H) as [F _].
  assert (locked st' = locked st) as Hlk by (unfold locked; rewrite (fr_threads _ _ F); reflexivity).
  destruct (loop_step_loop _ _ _ _ _ H) as [Hn|(l' & Hl' & Hc & _)];
  destruct F; destruct G; constructor;
    rewrite ?Hlk, ?fr_threads0, ?fr_bound0, ?fr_present0, ?fr_created0, ?fr_disabled0, ?fr_mgr0; auto.
  - intro Hf. destruct (g_fresh0 Hf) as (_ & Hnone & _). congruence.
  - intros th Hin Hc Hi. destruct (g_creating0 th Hin Hc Hi) as (_ & _ & Hnone). congruence.
  - intro Hd. destruct (g_disabled0 Hd) as [Hnone _]. congruence.
  - intros l0 Hl0. congruence.
  - intro Hf. destruct (g_fresh0 Hf) as (_ & Hnone & _). congruence.
  - intros th Hin Hc0 Hi. destruct (g_creating0 th Hin Hc0 Hi) as (_ & _ & Hnone). congruence.
  - intro Hd. destruct (g_disabled0 Hd) as [Hnone _]. congruence.
  - intros l0 Hl0 Hc0. rewrite Hl' in Hl0. inv Hl0. rewrite Hc in Hc0. eapply g_cancel0; eassumption.
Qed.

(* ---- list-level helpers for moving one thread ---- *)

Lemma bound_set_thread : forall b t pc ths,
  Forall (fun th => th_id th < b) ths -> Forall (fun th => th_id th < b) (set_thread t pc ths).
Proof.
  intros. eapply Forall_set_thread; [eassumption| |]; intros; cbn; assumption.
Qed.

Lemma locked_false : forall ths, existsb holds_lock ths = false ->
  forall th, In th ths -> holds_lock th = false.
Proof.
  intros ths H th Hin. destruct (holds_lock th) eqn:E; [|reflexivity].
  assert (existsb holds_lock ths = true) by (apply existsb_exists; eauto). congruence.
Qed.

(* moving thread t to pc': at most one holder remains, provided that a
   lock-holding pc is entered only by the holder or when nobody holds it *)
Lemma lock_set_thread : forall ths t pc',
  (forall th th', In th ths -> In th' ths -> holds_lock th = true -> holds_lock th' = true -> th_id th = th_id th') ->
  (holds_pc pc' = true ->
   (exists th, In th ths /\ th_id th = t /\ holds_lock th = true) \/ existsb holds_lock ths = false) ->
  forall th th', In th (set_thread t pc' ths) -> In th' (set_thread t pc' ths) ->
                 holds_lock th = true -> holds_lock th' = true -> th_id th = th_id th'.
Proof.
  intros ths t pc' Hold Hnew y y' Hy Hy' Hh Hh'.
  apply in_set_thread in Hy. apply in_set_thread in Hy'.
  destruct Hy as (x & Hx & [[Hne ->]|[He ->]]); destruct Hy' as (x' & Hx' & [[Hne' ->]|[He' ->]]); cbn in *.
  - apply Hold; assumption.
  - rewrite He'. destruct (Hnew Hh') as [(th & Hin & Hid & Hl)|Hnone].
    + rewrite <- Hid. apply Hold; assumption.
    + rewrite (locked_false _ Hnone _ Hx) in Hh. discriminate.
  - rewrite He. destruct (Hnew Hh) as [(th & Hin & Hid & Hl)|Hnone].
    + rewrite <- Hid. symmetry. apply Hold; assumption.
    + rewrite (locked_false _ Hnone _ Hx') in Hh'. discriminate.
  - congruence.
Qed.

Lemma create_set_thread : forall ths t pc',
  (forall th, In th ths -> is_create (th_cmd th) = true -> ths = [th]) ->
  forall th, In th (set_thread t pc' ths) -> is_create (th_cmd th) = true -> set_thread t pc' ths = [th].
Proof.
  intros ths t pc' H y Hy Hc. unfold set_thread in *. apply in_map_iff in Hy. destruct Hy as (x & <- & Hx).
  rewrite upd_thread_cmd in Hc. rewrite (H x Hx Hc). reflexivity.
Qed.

Lemma set_thread_nonempty : forall t pc ths, ths <> [] -> set_thread t pc ths <> [].
Proof. intros t pc [|x r] H; [contradiction|discriminate]. Qed.

Lemma locked_set_thread_release : forall ths t pc',
  (forall th th', In th ths -> In th' ths -> holds_lock th = true -> holds_lock th' = true -> th_id th = th_id th') ->
  holds_pc pc' = false ->
  (exists th, In th ths /\ th_id th = t /\ holds_lock th = true) \/ existsb holds_lock ths = false ->
  existsb holds_lock (set_thread t pc' ths) = false.
Proof.
  intros ths t pc' Hold Hpc Hcase.
  destruct (existsb holds_lock (set_thread t pc' ths)) eqn:E; [|reflexivity].
  apply existsb_exists in E. destruct E as (y & Hy & Hh).
  apply in_set_thread in Hy. destruct Hy as (x & Hx & [[Hne ->]|[He ->]]).
  - destruct Hcase as [(th & Hin & Hid & Hl)|Hnone].
    + exfalso. apply Hne. rewrite <- Hid. apply Hold; assumption.
    + rewrite (locked_false _ Hnone _ Hx) in Hh. discriminate.
  - cbn in Hh. unfold holds_lock in Hh. cbn in Hh. fold (holds_pc pc') in Hh. congruence.
Qed.

Lemma nodup_ids_unique : forall ths a b,
  NoDup (ids ths) -> In a ths -> In b ths -> th_id a = th_id b -> a = b.
Proof.
  induction ths as [|x r IH]; intros a b Hnd Ha Hb He; [destruct Ha|].
  cbn in Hnd. inv Hnd. destruct Ha as [<-|Ha], Hb as [<-|Hb].
  - reflexivity.
  - exfalso. apply H1. rewrite He. apply in_map. exact Hb.
  - exfalso. apply H1. rewrite <- He. apply in_map. exact Ha.
  - apply IH; assumption.
Qed.

Lemma locked_iff : forall st, locked st = false -> forall th, In th (threads st) -> holds_lock th = false.
Proof. intros st H. apply locked_false. exact H. Qed.

(* one thread moves to another program counter while fields other than the
   thread table change *)
Lemma ginv_move : forall st X t th pc',
  ginv st -> find_thread t (threads st) = Some th ->
  threads X = threads st -> tid_bound X = tid_bound st -> pc_cmd_ok (th_cmd th) pc' = true ->
  (holds_pc pc' = true -> holds_lock th = true \/ locked st = false) ->
  (created st = true -> created X = true) ->
  (present X = true -> created X = true) ->
  (is_create (th_cmd th) = true -> idle_pc pc' = false ->
   present X = false /\ disabled X = false /\ loop X = None) ->
  (disabled X = true ->
   loop X = None /\ holds_pc pc' = false /\ (holds_lock th = true \/ locked st = false)) ->
  (forall l, loop X = Some l -> lcancel l = true ->
             pc' = TJoin \/ (th_pc th <> TJoin /\ exists l0, loop st = Some l0 /\ lcancel l0 = true)) ->
  ginv (goto X t pc').
Proof.
  intros st X t th pc' G Hf Hths Hb Hnc Hlock Hcr Hpr Hcreating Hdis Hcan.
  destruct (find_thread_in _ _ _ Hf) as [Hin Hid].
  destruct G. constructor; unfold goto; cbn; rewrite ?Hths, ?Hb.
  - rewrite ids_set_thread. assumption.
  - apply bound_set_thread. assumption.
  - apply lock_set_thread; [assumption|]. intro Hp. destruct (Hlock Hp) as [H|H].
    + left. exists th. auto.
    + right. exact H.
  - apply create_set_thread. assumption.
  - intros y Hy. apply in_set_thread in Hy. destruct Hy as (x & Hx & [[Hne ->]|[He ->]]).
    + apply g_pc0; assumption.
    + cbn. assert (x = th) as -> by (eapply nodup_ids_unique; eauto; congruence). exact Hnc.
  - intros _. apply Hcr. apply g_created0. intro E. rewrite E in Hin. destruct Hin.
  - assumption.
  - intro Hfr. exfalso. rewrite Hcr in Hfr; [discriminate|].
    apply g_created0. intro E. rewrite E in Hin. destruct Hin.
  - intros y Hy Hc Hi. apply in_set_thread in Hy. destruct Hy as (x & Hx & [[Hne ->]|[He ->]]).
    + (* another thread is a create thread: then it is the only thread *)
      exfalso. rewrite (g_create0 x Hx Hc) in Hin. destruct Hin as [<-|[]]. apply Hne. exact Hid.
    + cbn in Hc, Hi. assert (x = th) as -> by (eapply nodup_ids_unique; eauto; congruence).
      apply Hcreating; assumption.
  - intro Hd. destruct (Hdis Hd) as (Hl & Hp & Hcase). split; [exact Hl|].
    unfold locked. cbn. rewrite ?Hths. apply locked_set_thread_release; [assumption|exact Hp|].
    destruct Hcase as [H|H]; [left; exists th; auto|right; exact H].
  - intros l Hl Hc. destruct (Hcan l Hl Hc) as [->|(Hne & l0 & Hl0 & Hc0)].
    + exists {| th_id := th_id th; th_cmd := th_cmd th; th_pc := TJoin |}. split; [|reflexivity].
      rewrite <- (upd_thread_same t TJoin th Hid). apply set_thread_in. exact Hin.
    + destruct (g_cancel0 l0 Hl0 Hc0) as (th0 & Hin0 & Hpc0).
      exists th0. split; [|exact Hpc0].
      assert (th_id th0 <> t) as Hne0.
      { intro E. assert (th0 = th) by (eapply nodup_ids_unique; eauto; congruence). subst th0. contradiction. }
      rewrite <- (upd_thread_other t pc' th0 Hne0). apply set_thread_in. exact Hin0.
Qed.

Ltac unfold_steps H :=
  unfold step, acquire_step, join_step, reset_step, conn_step, flush_send_step, flush_recv_step,
         cancel_and_join, halt_tail, resume_tail, chan_live in H.

Lemma holder_locked : forall st th, In th (threads st) -> holds_lock th = true -> locked st = true.
Proof. intros. unfold locked. apply existsb_exists. eauto. Qed.

Ltac side :=
  cbn in *; unfold holds_lock, idle in *;
  repeat match goal with E : th_pc _ = _ |- _ => rewrite E in * end;
  repeat match goal with E : th_cmd _ = _ |- _ => rewrite E in * end;
  cbn in *; intros;
  try solve [intuition (try congruence; try discriminate; eauto)].

Lemma ginv_thread_moves : forall st t a st' evs,
  ginv st ->
  (a = ASelect t \/ a = AAcquire t \/ a = AJoin t \/ a = AResetStep t \/ (exists ok, a = AConn t ok)
   \/ (exists ch, a = AFlushSend t ch) \/ (exists ch, a = AFlushRecv t ch)) ->
  step st a = Some (st', evs) -> ginv st'.
Proof.
  intros st t a st' evs G Ha H.
  pose proof (g_present _ G) as Gp. pose proof (g_disabled _ G) as Gd. pose proof (g_cancel _ G) as Gc.
  destruct Ha as [->|[->|[->|[->|[(ok & ->)|[(ch & ->)|(ch & ->)]]]]]];
    unfold_steps H; crunch.
  all: match goal with
       | Hf : find_thread _ _ = Some ?th |- _ =>
         let Hin := fresh "Hin" in let Hid := fresh "Hid" in
         destruct (find_thread_in _ _ _ Hf) as [Hin Hid];
         pose proof (g_creating _ G _ Hin) as Gcr;
         pose proof (g_pc _ G _ Hin) as Gcp;
         pose proof (holder_locked _ _ Hin) as Ghl;
         assert (created st = true) as Gcd by (apply (g_created _ G); intro Em; rewrite Em in Hin; destruct Hin);
         try rewrite Hid in *;
         eapply (ginv_move _ _ _ _ _ G Hf)
       end.
  all: try reflexivity.
  all: try solve [side].
  all: try solve [cbn; intros l0 Hl0 Hc0; inv Hl0; discriminate].
  all: try solve [destruct wait; side].
  all: try solve [cbn; intros l0 Hl0 Hc0; inv Hl0; cbn in Hc0; right; rewrite E0; split; [discriminate|eauto]].
  all: try solve [rewrite E0 in Gcp; cbn in Gcp; apply negb_true_iff in Gcp; intros; congruence].
  all: try solve [rewrite E0 in Gcp; destruct (th_cmd t0) as [[]| | | | |[]| ]; cbn in *; congruence].
Qed.


Lemma existsb_false_forall : forall (A : Type) (f : A -> bool) l,
  existsb f l = false -> forall x, In x l -> f x = false.
Proof.
  intros A f l H x Hin. destruct (f x) eqn:E; [|reflexivity].
  assert (existsb f l = true) by (apply existsb_exists; eauto). congruence.
Qed.

Lemma ginv_call : forall st t c st' evs,
  ginv st -> step st (ACall t c) = Some (st', evs) -> ginv st'.
Proof.
  intros st t c st' evs G H. cbn in H.
  destruct (Nat.leb (tid_bound st) t) eqn:Eb; [|discriminate]. apply Nat.leb_le in Eb.
  assert (Hfresh : ~ In t (ids (threads st))).
  { intro Hin. unfold ids in Hin. apply in_map_iff in Hin. destruct Hin as (x & Hx & Hin).
    pose proof (proj1 (Forall_forall _ _) (g_bound _ G) _ Hin) as Hb. cbn in Hb. lia. }
  assert (Hbound : Forall (fun th => th_id th < S t) (threads st)).
  { eapply Forall_impl; [|apply (g_bound _ G)]. intros; cbn in *; lia. }
  destruct (is_create c) eqn:Ec.
  - (* Create: nothing exists yet *)
    destruct c; try discriminate. destruct (created st) eqn:Ecr; [discriminate|]. inv H.
    assert (threads st = []) as Hnil.
    { destruct (threads st) eqn:Et; [reflexivity|].
      assert (created st = true) by (apply (g_created _ G); rewrite Et; discriminate). congruence. }
    assert (present st = false) as Hp.
    { destruct (present st) eqn:Ep; [|reflexivity]. rewrite (g_present _ G Ep) in Ecr. discriminate. }
    destruct (g_fresh _ G Ecr) as (Hd & Hl & Hm).
    constructor; cbn; rewrite ?Hnil; cbn.
    + constructor; [intros []|constructor].
    + constructor; [cbn; lia|constructor].
    + intros th th' [<-|[]] [<-|[]] _ _. reflexivity.
    + intros th [<-|[]] _. reflexivity.
    + intros th [<-|[]]. reflexivity.
    + reflexivity.
    + reflexivity.
    + discriminate.
    + intros th [<-|[]] _ _. auto.
    + rewrite Hd. discriminate.
    + rewrite Hl. discriminate.
  - (* any other command: Create has returned *)
    assert (st' = st_with_threads (st_with_bound st (S t))
                                  ({| th_id := t; th_cmd := c; th_pc := TCalled |} :: threads st)
            /\ created st = true
            /\ existsb (fun th => is_create (th_cmd th)) (threads st) = false) as (-> & Hcr & Hnc).
    { destruct c; try discriminate;
        (destruct (created st && negb (existsb (fun th => is_create (th_cmd th)) (threads st))) eqn:E;
         [|discriminate]; apply andb_prop in E; destruct E as [E1 E2]; apply negb_true_iff in E2;
         inv H; repeat split; assumption). }
    pose proof (existsb_false_forall _ _ _ Hnc) as Hno.
    destruct G. constructor; cbn.
    + constructor; assumption.
    + constructor; [cbn; lia|assumption].
    + intros th th' [<-|Hin] [<-|Hin'] Hh Hh'; try discriminate. apply g_lock0; assumption.
    + intros th [<-|Hin] Hc; [cbn in Hc; congruence|]. rewrite (Hno th Hin) in Hc. discriminate.
    + intros th [<-|Hin]; [cbn; rewrite Ec; reflexivity|]. apply g_pc0; assumption.
    + intros _. exact Hcr.
    + assumption.
    + intro Hf. congruence.
    + intros th [<-|Hin] Hc Hi; [cbn in Hc; congruence|]. rewrite (Hno th Hin) in Hc. discriminate.
    + intro Hd. destruct (g_disabled0 Hd) as [Hl Hk]. split; [exact Hl|].
      unfold locked in *. cbn. exact Hk.
    + intros l Hl Hc. destruct (g_cancel0 l Hl Hc) as (th & Hin & Hpc). exists th. split; [right; exact Hin|exact Hpc].
Qed.

Lemma ginv_return : forall st t st' evs,
  ginv st -> step st (AReturn t) = Some (st', evs) -> ginv st'.
Proof.
  intros st t st' evs G H. cbn in H.
  destruct (find_thread t (threads st)) as [th|] eqn:Ef; [|discriminate].
  destruct (th_pc th) eqn:Epc; try discriminate. inv H.
  destruct (find_thread_in _ _ _ Ef) as [Hin Hid].
  assert (Hcr : created st = true).
  { apply (g_created _ G). intro E. rewrite E in Hin. destruct Hin. }
  destruct G. constructor; cbn.
  - apply NoDup_ids_remove. assumption.
  - apply Forall_remove_thread. assumption.
  - intros x x' Hx Hx'. apply in_remove_thread in Hx. apply in_remove_thread in Hx'.
    apply g_lock0; tauto.
  - intros x Hx Hc. apply in_remove_thread in Hx. destruct Hx as [Hx Hne].
    pose proof (g_create0 x Hx Hc) as E. rewrite E in Hin. destruct Hin as [<-|[]]. congruence.
  - intros x Hx. apply in_remove_thread in Hx. apply g_pc0. tauto.
  - intros _. exact Hcr.
  - assumption.
  - intro Hf. congruence.
  - intros x Hx. apply in_remove_thread in Hx. apply g_creating0. tauto.
  - intro Hd. destruct (g_disabled0 Hd) as [Hl Hk]. split; [exact Hl|].
    unfold locked in *. cbn. destruct (existsb holds_lock (remove_thread t (threads st))) eqn:E; [|reflexivity].
    apply existsb_exists in E. destruct E as (x & Hx & Hh). apply in_remove_thread in Hx.
    rewrite (locked_false _ Hk x (proj1 Hx)) in Hh. discriminate.
  - intros l Hl Hc. destruct (g_cancel0 l Hl Hc) as (x & Hx & Hpc). exists x. split; [|exact Hpc].
    apply in_remove_thread. split; [exact Hx|]. intro E.
    assert (x = th) by (eapply nodup_ids_unique; eauto; congruence). subst x. congruence.
Qed.

Lemma ginv_new_manager : forall st st' evs,
  ginv st -> step st ANewManager = Some (st', evs) -> ginv st'.
Proof.
  intros st st' evs G H. cbn in H.
  destruct (threads st) eqn:Et; [|discriminate].
  destruct (mgr_up st) eqn:Em; [discriminate|].
  destruct (loop st) eqn:Eloop; [discriminate|]. cbn in H.
  assert (Hcr : created st = true).
  { destruct (created st) eqn:E; [reflexivity|]. destruct (g_fresh _ G E) as (_ & _ & Hm). congruence. }
  assert (Hlk : forall X, threads X = [] -> locked X = false) by (intros X E; unfold locked; rewrite E; reflexivity).
  destruct (sess_file st) as [p|] eqn:Es; [destruct p|]; inv H; constructor; cbn; rewrite ?Et.
  all: try solve [constructor | intros th [] | intros th th' [] | intros; discriminate
                 | intro; contradiction | intros; exact Hcr | intro; congruence
                 | intros l Hl Hc; inv Hl; discriminate
                 | intros; split; [reflexivity|apply Hlk; cbn; assumption] ].
  intros; split; reflexivity.
Qed.

Lemma ginv_step : forall st a st' evs, ginv st -> step st a = Some (st', evs) -> ginv st'.
Proof.
  intros st a st' evs G H. destruct a.
  - eapply ginv_call; eassumption.
  - eapply ginv_thread_moves; [eassumption| |eassumption]. auto.
  - eapply ginv_thread_moves; [eassumption| |eassumption]. auto.
  - eapply ginv_thread_moves; [eassumption| |eassumption]. auto.
  - eapply ginv_thread_moves; [eassumption| |eassumption]. auto.
  - eapply ginv_thread_moves; [eassumption| |eassumption]. eauto 8.
  - eapply ginv_thread_moves; [eassumption| |eassumption]. eauto 8.
  - eapply ginv_thread_moves; [eassumption| |eassumption]. eauto 8.
  - eapply ginv_return; eassumption.
  - cbn in H. inv H. assumption.
  - cbn in H. inv H. assumption.
  - cbn in H. inv H. assumption.
  - cbn in H. inv H. assumption.
  - eapply ginv_new_manager; eassumption.
  - cbn in H. destruct (loop st) eqn:El; [|discriminate]. eapply ginv_loop_step; eassumption.
Qed.

Lemma ginv_reach : forall m manual st tr, reach (init_state m manual) st tr -> ginv st.
Proof.
  intros m manual st tr H. induction H.
  - apply ginv_init.
  - eapply ginv_step; eassumption.
Qed.

(* ------------------------------------------------------------------ *)
(* what a step does to the thread table and which command events it emits *)

Definition is_call_ret (e : event) : bool :=
  match e with Ca _ _ | Rt _ _ _ => true | _ => false end.

Lemma step_keys : forall st a st' evs,
  step st a = Some (st', evs) ->
  (forall t c, a <> ACall t c) -> (forall t, a <> AReturn t) ->
  keys (threads st') = keys (threads st) /\ forallb (fun e => negb (is_call_ret e)) evs = true.
Proof.
  intros st a st' evs H Hnc Hnr.
  destruct a; try (exfalso; eapply Hnc; reflexivity); try (exfalso; eapply Hnr; reflexivity).
  all: try solve [unfold_steps H; crunch; cbn -[set_thread keys]; rewrite ?keys_set_thread; split; reflexivity].
  - (* new manager *)
    cbn in H. destruct (threads st) eqn:Et; [|discriminate]. crunch; cbn; rewrite ?Et; split; reflexivity.
  - (* loop *)
    cbn in H. destruct (loop st) as [l|] eqn:El; [|discriminate].
    destruct (loop_step_frame _ _ _ _ _ H) as [F Hev]. rewrite (fr_threads _ _ F). split; [reflexivity|].
    clear -Hev. induction evs as [|e r IH]; [reflexivity|]. cbn in *. apply andb_prop in Hev. destruct Hev as [He Hr].
    rewrite (IH Hr). destruct e; cbn in *; try discriminate; reflexivity.
Qed.

Lemma step_call : forall st t c st' evs,
  step st (ACall t c) = Some (st', evs) ->
  evs = [Ca t c] /\
  threads st' = {| th_id := t; th_cmd := c; th_pc := if is_create c then TStart else TCalled |} :: threads st /\
  created st = negb (is_create c) /\ tid_bound st <= t /\ tid_bound st' = S t.
Proof.
  intros st t c st' evs H. cbn in H.
  destruct (Nat.leb (tid_bound st) t) eqn:Eb; [|discriminate]. apply Nat.leb_le in Eb.
  destruct c; cbn;
    try (destruct (created st) eqn:Ec; [|discriminate];
         destruct (negb (existsb (fun th => is_create (th_cmd th)) (threads st))); [|discriminate];
         inv H; repeat split; auto);
    destruct (created st) eqn:Ec; [discriminate|]; inv H; repeat split; auto.
Qed.

Lemma step_return : forall st t st' evs,
  step st (AReturn t) = Some (st', evs) ->
  exists th ok, find_thread t (threads st) = Some th /\ th_pc th = TRet ok /\
                threads st' = remove_thread t (threads st) /\
                evs = [Rt t (th_cmd th) (match th_cmd th with CShutdown => true | _ => ok end)].
Proof.
  intros st t st' evs H. cbn in H.
  destruct (find_thread t (threads st)) as [th|] eqn:Ef; [|discriminate].
  destruct (th_pc th) eqn:Epc; try discriminate. inv H. eauto 8.
Qed.

Lemma in_ids_remove : forall t t0 ths, In t0 (ids (remove_thread t ths)) <-> In t0 (ids ths) /\ t0 <> t.
Proof.
  intros. unfold ids. rewrite !in_map_iff. split.
  - intros (x & <- & Hx). apply in_remove_thread in Hx. destruct Hx. split; eauto.
  - intros [(x & <- & Hx) Hne]. exists x. split; [reflexivity|]. apply in_remove_thread. auto.
Qed.

Lemma step_bound : forall st a st' evs,
  step st a = Some (st', evs) -> (forall t c, a <> ACall t c) -> tid_bound st' = tid_bound st.
Proof.
  intros st a st' evs H Hnc.
  destruct a; try (exfalso; eapply Hnc; reflexivity).
  all: try solve [unfold_steps H; crunch; reflexivity].
  cbn in H. destruct (loop st) as [l|] eqn:El; [|discriminate].
  destruct (loop_step_frame _ _ _ _ _ H) as [F _]. apply (fr_bound _ _ F).
Qed.

Lemma keys_transfer : forall st st' th',
  keys (threads st') = keys (threads st) -> In th' (threads st') ->
  exists x, In x (threads st) /\ th_id x = th_id th' /\ th_cmd x = th_cmd th'.
Proof.
  intros st st' th' Hk Hin.
  assert (In (th_id th', th_cmd th') (keys (threads st'))) as H by (unfold keys; apply in_map_iff; eauto).
  rewrite Hk in H. unfold keys in H. apply in_map_iff in H. destruct H as (x & E & Hx). inv E. eauto.
Qed.


Lemma action_eq_dec_nm : forall a : action, {a = ANewManager} + {a <> ANewManager}.
Proof. intro a. destruct a; try (right; discriminate). left. reflexivity. Qed.

Lemma action_eq_dec_oa : forall a : action, {a = AObserveA} + {a <> AObserveA}.
Proof. intro a. destruct a; try (right; discriminate). left. reflexivity. Qed.

Lemma in_find_thread_nodup : forall ths th, NoDup (ids ths) -> In th ths -> find_thread (th_id th) ths = Some th.
Proof.
  induction ths as [|x rest IH]; intros th Hnd Hin; [destruct Hin|].
  cbn in Hnd. inv Hnd. cbn. destruct Hin as [->|Hin].
  - rewrite Nat.eqb_refl. reflexivity.
  - destruct (Nat.eqb (th_id x) (th_id th)) eqn:E.
    + apply Nat.eqb_eq in E. exfalso. apply H1. rewrite E. apply in_map. exact Hin.
    + apply IH; assumption.
Qed.

(* the configuration (mode, watch mode, which version of reset) never changes *)
Lemma step_config : forall st a st' evs,
  step st a = Some (st', evs) ->
  cfg_fixed st' = cfg_fixed st /\ cfg_mode st' = cfg_mode st /\ cfg_manual st' = cfg_manual st.
Proof.
  intros st a st' evs H. destruct a.
  15: { cbn in H. destruct (loop st) as [l|] eqn:El; [|discriminate]. unfold loop_step in H.
        destruct (lp l) eqn:Elp;
          unfold step_conn, step_sync_init, step_top, step_poll, step_scan, step_rescan_wait, step_reconcile,
                 step_stage, step_trans, step_save, step_respond, step_end, step_after, step_exit in H;
          try rewrite Elp in H; crunch; repeat split; reflexivity. }
  all: unfold_steps H; crunch; repeat split; reflexivity.
Qed.

Lemma reach_fixed : forall md manual st tr, reach (init_state md manual) st tr -> cfg_fixed st = true.
Proof.
  intros md manual st tr H. induction H; [reflexivity|].
  destruct (step_config _ _ _ _ H0) as [E _]. congruence.
Qed.
