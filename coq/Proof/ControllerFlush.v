(* C29, flush: every trace of the controller machine is accepted by the flush
   monitor (Model/ControllerCheck.v: fmon): Flush(wait) returns nil only after
   full scans of both endpoints, entered after the call, have completed. The
   stronger model-level statement (the request is taken in the polling select,
   both scans follow, the save step is passed, then the answer) is
   [flush_answer_order] below. *)
From Coq Require Import List Bool Arith String Lia.
Import ListNotations.
From Mv Require Import Model.Entry Model.Reconcile Model.Safety Model.Controller Model.ControllerCheck
     Proof.ControllerBase.
Local Open Scope list_scope.

(* what the flags of a waiting flush must be when its request is the one the
   loop is working on, depending on where the loop is *)
Definition freq_ok (x : fentry) (p : lpc) : Prop :=
  match p with
  | LScan sa sb ra rb =>
    (sa <> PIdle -> f_ea x = true) /\ (sb <> PIdle -> f_eb x = true) /\
    (sa = PDone -> (exists c, ra = SROk c) -> f_xa x = true) /\
    (sb = PDone -> (exists c, rb = SROk c) -> f_xb x = true)
  | LReconcile _ _ | LStage _ _ _ | LTrans _ _ _ _ _ _ _ | LSave _ _ _ _ _ | LRespond => f_complete x = true
  | _ => True
  end.

Definition entry_ok (st : cstate) (x : fentry) : Prop :=
  (mem_tid (f_tid x) (answered st) = true -> f_complete x = true) /\
  (forall l, loop st = Some l -> lfreq l = Some (f_tid x) -> freq_ok x (lp l)).

(* one monitor step on one entry *)
Definition entry_step (e : event) (x : fentry) : fentry :=
  match e with
  | Sn s true _ => f_on_enter s x
  | Sx s true _ _ => f_on_exit s x
  | _ => x
  end.

Definition entry_run (evs : list event) (x : fentry) : fentry := fold_left (fun y e => entry_step e y) evs x.

Lemma entry_step_tid : forall e x, f_tid (entry_step e x) = f_tid x.
Proof.
  intros e x. destruct e; cbn; try reflexivity.
  - destruct full; [destruct s|]; reflexivity.
  - destruct ok; [destruct s|]; reflexivity.
Qed.

Lemma entry_run_tid : forall evs x, f_tid (entry_run evs x) = f_tid x.
Proof.
  induction evs as [|e r IH]; intro x; [reflexivity|]. unfold entry_run in *. cbn. rewrite IH. apply entry_step_tid.
Qed.

Lemma fmon_step_other : forall m e,
  is_call_ret e = false -> fmon_step m e = Some (map (entry_step e) m).
Proof.
  intros m e H. destruct e; cbn in *; try discriminate; try (rewrite map_id; reflexivity).
  - destruct full; [reflexivity|rewrite map_id; reflexivity].
  - destruct ok; [reflexivity|rewrite map_id; reflexivity].
Qed.

Lemma fmon_run_other : forall evs m,
  forallb (fun e => negb (is_call_ret e)) evs = true ->
  mon_run fmon_step m evs = Some (map (entry_run evs) m).
Proof.
  induction evs as [|e r IH]; intros m H; cbn.
  - rewrite map_id. reflexivity.
  - cbn in H. apply andb_prop in H. destruct H as [He Hr]. apply negb_true_iff in He.
    rewrite fmon_step_other by exact He. rewrite IH by exact Hr. rewrite map_map. reflexivity.
Qed.

Ltac unfold_loop H :=
  unfold loop_step in H;
  unfold step_conn, step_sync_init, step_top, step_poll, step_scan, step_rescan_wait, step_reconcile,
         step_stage, step_trans, step_save, step_respond, step_end, step_after, step_exit in H.

(* a loop step keeps every entry consistent *)
Lemma entry_ok_loop_step : forall st l a st' evs x,
  loop st = Some l -> loop_step st l a = Some (st', evs) -> entry_ok st x -> entry_ok st' (entry_run evs x).
Proof.
  intros st l a st' evs x Hl H [Hans Hfreq].
  specialize (Hfreq l Hl).
  destruct x as [t ea eb xa xb]. unfold entry_ok. cbn [f_tid] in *.
  unfold_loop H.
  destruct (lp l) eqn:Elp; try rewrite Elp in H; crunch; unfold entry_run; cbn [fold_left entry_step f_tid f_on_enter f_on_exit].
  all: cbn [answered st_with_loop st_with_status st_with_arch st_with_answered loop].
  all: unfold f_complete in *; cbn [f_ea f_eb f_xa f_xb f_tid] in *.
  all: split;
    [ intro Ha; cbn in Ha
    | intros l0 Hl0 Hf0; inv Hl0; cbn in Hf0; try discriminate; try (specialize (Hfreq Hf0));
      rewrite ?Elp in Hfreq; cbn in Hfreq |- * ].
  all: try (specialize (Hans Ha)).
  all: try tauto.
  all: try (repeat rewrite ?andb_true_iff, ?orb_true_iff in *; intuition (try congruence; try discriminate; eauto); fail).
  all: try (destruct (lfreq l) eqn:Efreq; cbn [is_some] in *).
  all: try (destruct (r_ok r) eqn:Erok).
  all: unfold scanres_of in *; rewrite ?Erok in *.
  all: try (destruct (r_retry r)).
  all: try destruct sa; try destruct sb; cbn in *; try discriminate.
  all: unfold f_complete in *; cbn [f_ea f_eb f_xa f_xb f_tid] in *.
  all: try (repeat rewrite ?andb_true_iff, ?orb_true_iff in *;
            intuition (try congruence; try discriminate; eauto); fail).
  all: try (specialize (Hfreq Hf0)).
  all: try (destruct Hfreq as (A & B & C & D)).
  all: repeat split; intros.
  all: try match goal with Hex : exists _, _ |- _ => destruct Hex; try discriminate end.
  all: try congruence.
  all: try (apply A; discriminate).
  all: try (apply B; discriminate).
  all: try (apply C; [reflexivity|eauto]).
  all: try (apply D; [reflexivity|eauto]).
  - apply orb_prop in Ha. destruct Ha as [Ha|Ha].
    + apply Nat.eqb_eq in Ha. subst t0. apply Hfreq. reflexivity.
    + apply Hans. exact Ha.
  - destruct h; exact I.
Qed.

(* ------------------------------------------------------------------ *)
(* the simulation relation *)

Definition wait_ids (ths : list thread) : list tid :=
  map th_id (filter (fun th => is_wait_flush (th_cmd th)) ths).

Record frel (m : fmon) (st : cstate) : Prop := {
  fr_ginv : ginv st;
  fr_ids : map f_tid m = wait_ids (threads st);
  fr_entries : Forall (entry_ok st) m;
  fr_ret : forall th, In th (threads st) -> th_cmd th = CFlush true -> th_pc th = TRet true ->
                      mem_tid (th_id th) (answered st) = true;
  fr_bound_ans : forall t, mem_tid t (answered st) = true -> t < tid_bound st;
  fr_bound_loop : forall l t, loop st = Some l -> (lfreq l = Some t \/ lslot l = Some t) -> t < tid_bound st
}.

Lemma wait_ids_keys : forall ths ths', keys ths' = keys ths -> wait_ids ths' = wait_ids ths.
Proof.
  intros ths ths' H.
  assert (forall l, wait_ids l = map fst (filter (fun tc => is_wait_flush (snd tc)) (keys l))) as E.
  { intro l. unfold wait_ids, keys. induction l as [|x r IH]; cbn; [reflexivity|].
    destruct (is_wait_flush (th_cmd x)); cbn; rewrite IH; reflexivity. }
  rewrite !E, H. reflexivity.
Qed.

Lemma entry_run_noscan : forall evs x,
  forallb (fun e => match e with Sn _ _ _ | Sx _ _ _ _ => false | _ => true end) evs = true -> entry_run evs x = x.
Proof.
  induction evs as [|e r IH]; intros x H; [reflexivity|]. cbn in H. apply andb_prop in H. destruct H as [He Hr].
  unfold entry_run in *. cbn. rewrite IH by exact Hr. destruct e; try discriminate; reflexivity.
Qed.

(* what steps other than loop steps do to the loop, the answered list and the
   bound; which events they emit *)
Lemma nonloop_facts : forall st a st' evs,
  step st a = Some (st', evs) -> (forall la, a <> ALoop la) ->
  answered st' = answered st /\
  forallb (fun e => match e with Sn _ _ _ | Sx _ _ _ _ => false | _ => true end) evs = true /\
  (forall l', loop st' = Some l' ->
     (lfreq l' = None /\ lslot l' = None) \/
     exists l, loop st = Some l /\ lfreq l' = lfreq l /\ lp l' = lp l /\
               (lslot l' = lslot l \/ exists th, In th (threads st) /\ lslot l' = Some (th_id th))).
Proof.
  intros st a st' evs H Hnl.
  destruct a; try (exfalso; eapply Hnl; reflexivity); unfold_steps H; crunch.
  all: repeat split; try reflexivity.
  all: cbn; intros l' Hl'; try discriminate.
  all: try (inv Hl'; cbn; auto; fail).
  all: try (right; eexists; split; [eassumption|]; cbn; auto; fail).
  all: try (inv Hl'; right; eexists; split; [eassumption|]; cbn; repeat split; auto;
            right; match goal with Hf : find_thread _ _ = Some ?th |- _ =>
                     exists th; split; [apply (find_thread_in _ _ _ Hf)|reflexivity] end; fail).
  all: try (exfalso; congruence).
  all: try (inv Hl'; right; eexists; split; [reflexivity|]; cbn; auto; fail).
  all: try (right; eexists; split; [reflexivity|]; cbn; auto; fail).
  all: try (right; exists l'; split; [congruence|]; auto; fail).
  inv Hl'. right. exists l. split; [reflexivity|]. cbn. repeat split; auto.
  right. exists t0. split; [apply (find_thread_in _ _ _ E)|reflexivity].
Qed.

(* a waiting flush reaches "done, nil" only by receiving its answer *)
Lemma flush_ret_completion : forall st a st' evs th',
  ginv st -> step st a = Some (st', evs) ->
  In th' (threads st') -> th_cmd th' = CFlush true -> th_pc th' = TRet true ->
  In th' (threads st) \/ mem_tid (th_id th') (answered st) = true.
Proof.
  intros st a st' evs th' G H Hin Hc Hpc.
  destruct a; unfold_steps H; crunch; cbn in Hin.
  all: try (left; assumption).
  all: try (destruct Hin as [<-|Hin]; [cbn in Hpc; discriminate|left; assumption]).
  all: try (apply in_remove_thread in Hin; left; tauto).
  all: try (destruct (loop_step_frame _ _ _ _ _ H) as [F _]; rewrite (fr_threads _ _ F) in Hin; left; assumption).
  all: try (rewrite E in Hin; destruct Hin).
  all: match goal with
       | Hf : find_thread _ _ = Some ?x |- _ =>
         let Hx := fresh "Hx" in let Hid := fresh "Hid" in
         destruct (find_thread_in _ _ _ Hf) as [Hx Hid];
         apply in_set_thread in Hin; destruct Hin as (y & Hy & [[Hne ->]|[He ->]]);
         [left; assumption|];
         assert (y = x) as -> by (eapply nodup_ids_unique; eauto using g_nodup; congruence);
         pose proof (g_pc _ G _ Hx) as Gpc;
         cbn in Hc, Hpc
       end.
  all: try discriminate.
  all: repeat match goal with E : th_pc _ = _ |- _ => rewrite E in Gpc end.
  all: rewrite Hc in *; cbn in *; try discriminate; try congruence.
  all: try (destruct aok, ok; discriminate).
  all: try (inv E1; discriminate).
  all: try (right; assumption).
Qed.

Lemma mem_tid_In : forall t l, mem_tid t l = true <-> In t l.
Proof.
  intros. unfold mem_tid. rewrite existsb_exists. split.
  - intros (x & Hx & E). apply Nat.eqb_eq in E. subst. exact Hx.
  - intro H. exists t. split; [exact H|apply Nat.eqb_refl].
Qed.

(* steps other than calls, returns and loop steps *)
Lemma frel_other : forall m st a st' evs,
  frel m st -> step st a = Some (st', evs) ->
  (forall t c, a <> ACall t c) -> (forall t, a <> AReturn t) -> (forall la, a <> ALoop la) ->
  mon_run fmon_step m evs = Some m /\ frel m st'.
Proof.
  intros m st a st' evs R H Hnc Hnr Hnl. destruct R as [G Hids Hent Hret Hba Hbl].
  destruct (step_keys _ _ _ _ H Hnc Hnr) as [Hk Hev].
  destruct (nonloop_facts _ _ _ _ H Hnl) as (Hans & Hsc & Hloop).
  pose proof (step_bound _ _ _ _ H Hnc) as Hb.
  pose proof (ginv_step _ _ _ _ G H) as G'.
  split.
  - rewrite (fmon_run_other _ _ Hev). f_equal. rewrite <- (map_id m) at 2. apply map_ext.
    intro x. apply entry_run_noscan. exact Hsc.
  - constructor; try assumption.
    + rewrite Hids. symmetry. apply wait_ids_keys. exact Hk.
    + eapply Forall_impl; [|exact Hent]. intros x [Hx1 Hx2]. split.
      * rewrite Hans. exact Hx1.
      * intros l' Hl' Hf'. destruct (Hloop l' Hl') as [[Hn _]|(l & Hl & Hfe & Hpe & _)]; [congruence|].
        rewrite Hpe. apply (Hx2 l Hl). congruence.
    + intros th' Hin' Hc Hpc. rewrite Hans.
      destruct (flush_ret_completion _ _ _ _ _ G H Hin' Hc Hpc) as [Hold|Hm]; [apply Hret; assumption|exact Hm].
    + intros t Ht. rewrite Hans in Ht. rewrite Hb. apply Hba. exact Ht.
    + intros l' t Hl' Hor. rewrite Hb.
      destruct (Hloop l' Hl') as [[Hn1 Hn2]|(l & Hl & Hfe & Hpe & Hsl)]; [destruct Hor; congruence|].
      destruct Hor as [Hf|Hs].
      * apply (Hbl l t Hl). left. congruence.
      * destruct Hsl as [Hsame|(th & Hin & Hs')].
        -- apply (Hbl l t Hl). right. congruence.
        -- rewrite Hs' in Hs. inv Hs. apply (proj1 (Forall_forall _ _) (g_bound _ G) _ Hin).
Qed.

Lemma loop_step_answered : forall st l a st' evs,
  loop_step st l a = Some (st', evs) ->
  (answered st' = answered st \/ exists t, lfreq l = Some t /\ answered st' = t :: answered st) /\
  (forall l' t, loop st' = Some l' -> (lfreq l' = Some t \/ lslot l' = Some t) -> lfreq l = Some t \/ lslot l = Some t).
Proof.
  intros st l a st' evs H. unfold_loop H.
  destruct (lp l) eqn:Elp; try rewrite Elp in H; crunch; cbn.
  all: split; [try (left; reflexivity); try (right; eexists; split; [eassumption|reflexivity])|].
  all: try (intros l'0 tt Hl' Hor; try discriminate; inv Hl'; cbn in Hor; try tauto).
  all: try (destruct Hor as [Hor|Hor]; try discriminate; auto; fail).
  all: try (destruct Hor as [Hor|Hor]; [inv Hor; right; assumption|discriminate]).
  - right. exists t. auto.
  - destruct Hor as [Hor|Hor]; [congruence|right; exact Hor].
Qed.

Lemma frel_loop : forall m st l a st' evs,
  frel m st -> loop st = Some l -> loop_step st l a = Some (st', evs) ->
  exists m', mon_run fmon_step m evs = Some m' /\ frel m' st'.
Proof.
  intros m st l a st' evs R Hl H. destruct R as [G Hids Hent Hret Hba Hbl].
  destruct (loop_step_frame _ _ _ _ _ H) as [F Hev].
  destruct (loop_step_answered _ _ _ _ _ H) as [Hans Hfs].
  pose proof (ginv_loop_step _ _ _ _ _ G Hl H) as G'.
  assert (Hcr : forallb (fun e => negb (is_call_ret e)) evs = true).
  { clear -Hev. induction evs as [|e r IH]; [reflexivity|]. cbn in *. apply andb_prop in Hev. destruct Hev as [He Hr].
    rewrite (IH Hr). destruct e; cbn in *; try discriminate; reflexivity. }
  assert (Hmono : forall t, mem_tid t (answered st) = true -> mem_tid t (answered st') = true).
  { intros t Ht. destruct Hans as [->|(t0 & _ & ->)]; [exact Ht|]. unfold mem_tid in *. cbn. rewrite Ht. apply orb_true_r. }
  exists (map (entry_run evs) m). split; [apply fmon_run_other; exact Hcr|].
  constructor.
  - exact G'.
  - rewrite map_map. rewrite (fr_threads _ _ F). rewrite <- Hids. apply map_ext. intro x. apply entry_run_tid.
  - apply Forall_forall. intros y Hy. apply in_map_iff in Hy. destruct Hy as (x & <- & Hx).
    eapply entry_ok_loop_step; try eassumption. apply (proj1 (Forall_forall _ _) Hent). exact Hx.
  - intros th Hin Hc Hpc. rewrite (fr_threads _ _ F) in Hin. apply Hmono. apply Hret; assumption.
  - intros t Ht. rewrite (fr_bound _ _ F). destruct Hans as [E|(t0 & Hf0 & E)]; rewrite E in Ht.
    + apply Hba. exact Ht.
    + cbn in Ht. apply orb_prop in Ht. destruct Ht as [Ht|Ht]; [|apply Hba; exact Ht].
      apply Nat.eqb_eq in Ht. subst t0. apply (Hbl l t Hl). left. exact Hf0.
  - intros l' t Hl' Hor. rewrite (fr_bound _ _ F). apply (Hbl l t Hl). eapply Hfs; eassumption.
Qed.

Lemma f_find_in : forall t m, In t (map f_tid m) -> exists x, f_find t m = Some x /\ In x m /\ f_tid x = t.
Proof.
  intros t m. induction m as [|y r IH]; intros H; [destruct H|]. cbn in *.
  destruct (Nat.eqb (f_tid y) t) eqn:E.
  - apply Nat.eqb_eq in E. exists y. auto.
  - destruct H as [H|H]; [apply Nat.eqb_neq in E; contradiction|].
    destruct (IH H) as (x & Hf & Hin & Hid). exists x. auto.
Qed.

Lemma wait_ids_remove : forall t ths,
  wait_ids (remove_thread t ths) = filter (fun i => negb (Nat.eqb i t)) (wait_ids ths).
Proof.
  intros t ths. unfold wait_ids, remove_thread. induction ths as [|x r IH]; cbn; [reflexivity|].
  destruct (Nat.eqb (th_id x) t) eqn:E; cbn.
  - destruct (is_wait_flush (th_cmd x)); cbn; rewrite ?E; cbn; exact IH.
  - destruct (is_wait_flush (th_cmd x)); cbn; rewrite ?E; cbn; rewrite IH; reflexivity.
Qed.

Lemma f_remove_ids : forall t m, map f_tid (f_remove t m) = filter (fun i => negb (Nat.eqb i t)) (map f_tid m).
Proof.
  intros t m. unfold f_remove. induction m as [|x r IH]; cbn; [reflexivity|].
  destruct (Nat.eqb (f_tid x) t); cbn; rewrite IH; reflexivity.
Qed.

Lemma filter_notin : forall t l, ~ In t l -> filter (fun i => negb (Nat.eqb i t)) l = l.
Proof.
  intros t l H. induction l as [|x r IH]; cbn; [reflexivity|].
  destruct (Nat.eqb x t) eqn:E.
  - apply Nat.eqb_eq in E. exfalso. apply H. left. exact E.
  - cbn. rewrite IH; [reflexivity|]. intro Hin. apply H. right. exact Hin.
Qed.

Lemma frel_call : forall m st t c st' evs,
  frel m st -> step st (ACall t c) = Some (st', evs) ->
  exists m', mon_run fmon_step m evs = Some m' /\ frel m' st'.
Proof.
  intros m st t c st' evs R H. destruct R as [G Hids Hent Hret Hba Hbl].
  pose proof (ginv_step _ _ _ _ G H) as G'.
  destruct (step_call _ _ _ _ _ H) as (-> & Hths & _ & Hbound & Hbound').
  destruct (nonloop_facts _ _ _ _ H) as (Hans & _ & _); [intros; discriminate|].
  assert (Hloop : loop st' = loop st) by (cbn in H; crunch; reflexivity).
  assert (Hent' : Forall (entry_ok st') m).
  { eapply Forall_impl; [|exact Hent]. intros x [Hx1 Hx2]. split; [rewrite Hans; exact Hx1|rewrite Hloop; exact Hx2]. }
  assert (Hret' : forall th, In th (threads st') -> th_cmd th = CFlush true -> th_pc th = TRet true ->
                             mem_tid (th_id th) (answered st') = true).
  { intros th Hin Hc Hpc. rewrite Hths in Hin. destruct Hin as [<-|Hin].
    - cbn in Hpc. destruct (is_create c); discriminate.
    - rewrite Hans. apply Hret; assumption. }
  assert (Hba' : forall t0, mem_tid t0 (answered st') = true -> t0 < tid_bound st').
  { intros t0 Ht0. rewrite Hans in Ht0. pose proof (Hba t0 Ht0). lia. }
  assert (Hbl' : forall l t0, loop st' = Some l -> lfreq l = Some t0 \/ lslot l = Some t0 -> t0 < tid_bound st').
  { intros l t0 Hl Hor. rewrite Hloop in Hl. pose proof (Hbl l t0 Hl Hor). lia. }
  cbn [mon_run]. destruct (is_wait_flush c) eqn:Ew.
  - assert (c = CFlush true) as -> by (destruct c as [| | | | |[]|]; try discriminate; reflexivity).
    eexists. split; [reflexivity|]. constructor; try assumption.
    + cbn. rewrite Hids, Hths. reflexivity.
    + constructor; [|exact Hent']. split; cbn.
      * intro Hm. rewrite Hans in Hm. pose proof (Hba t Hm). lia.
      * intros l Hl Hf. rewrite Hloop in Hl. pose proof (Hbl l t Hl (or_introl Hf)). lia.
  - exists m. split.
    + destruct c as [| | | | |[]|]; try discriminate; reflexivity.
    + constructor; try assumption. rewrite Hids, Hths. unfold wait_ids. cbn. rewrite Ew. reflexivity.
Qed.

Lemma frel_return : forall m st t st' evs,
  frel m st -> step st (AReturn t) = Some (st', evs) ->
  exists m', mon_run fmon_step m evs = Some m' /\ frel m' st'.
Proof.
  intros m st t st' evs R H. destruct R as [G Hids Hent Hret Hba Hbl].
  pose proof (ginv_step _ _ _ _ G H) as G'.
  destruct (step_return _ _ _ _ H) as (th & ok & Hf & Hpc & Hths & ->).
  destruct (find_thread_in _ _ _ Hf) as [Hin Hid].
  destruct (nonloop_facts _ _ _ _ H) as (Hans & _ & _); [intros; discriminate|].
  assert (Hloop : loop st' = loop st /\ tid_bound st' = tid_bound st).
  { cbn in H. rewrite Hf, Hpc in H. inv H. split; reflexivity. }
  destruct Hloop as [Hloop Hb].
  assert (Hent' : Forall (entry_ok st') m).
  { eapply Forall_impl; [|exact Hent]. intros x [Hx1 Hx2]. split; [rewrite Hans; exact Hx1|rewrite Hloop; exact Hx2]. }
  assert (Hret' : forall x, In x (threads st') -> th_cmd x = CFlush true -> th_pc x = TRet true ->
                            mem_tid (th_id x) (answered st') = true).
  { intros x Hx Hc Hxpc. rewrite Hths in Hx. apply in_remove_thread in Hx. rewrite Hans. apply Hret; tauto. }
  assert (Hba' : forall t0, mem_tid t0 (answered st') = true -> t0 < tid_bound st').
  { intros t0 Ht0. rewrite Hans in Ht0. rewrite Hb. apply Hba. exact Ht0. }
  assert (Hbl' : forall l t0, loop st' = Some l -> lfreq l = Some t0 \/ lslot l = Some t0 -> t0 < tid_bound st').
  { intros l t0 Hl Hor. rewrite Hloop in Hl. rewrite Hb. eapply Hbl; eassumption. }
  cbn [mon_run]. destruct (is_wait_flush (th_cmd th)) eqn:Ew.
  - assert (th_cmd th = CFlush true) as Hc by (destruct (th_cmd th) as [| | | | |[]|]; try discriminate; reflexivity).
    rewrite Hc. cbn [fmon_step].
    assert (In t (map f_tid m)) as Htin.
    { rewrite Hids. unfold wait_ids. apply in_map_iff. exists th. split; [exact Hid|]. apply filter_In. split; [exact Hin|exact Ew]. }
    destruct (f_find_in _ _ Htin) as (x & Hfind & Hxin & Hxid).
    assert (Hrel' : frel (f_remove t m) st').
    { constructor; try assumption.
      - rewrite f_remove_ids, Hids, Hths, wait_ids_remove. reflexivity.
      - unfold f_remove. apply Forall_forall. intros y Hy. apply filter_In in Hy.
        apply (proj1 (Forall_forall _ _) Hent'). apply Hy. }
    destruct ok.
    + rewrite Hfind.
      assert (f_complete x = true) as ->.
      { apply (proj1 (Forall_forall _ _) Hent x Hxin). rewrite Hxid, <- Hid. apply Hret; assumption. }
      eexists. split; [reflexivity|exact Hrel'].
    + eexists. split; [reflexivity|exact Hrel'].
  - exists m. split.
    + destruct (th_cmd th) as [| | | | |[]|]; try discriminate; reflexivity.
    + constructor; try assumption.
      rewrite Hids, Hths, wait_ids_remove. symmetry. apply filter_notin.
      unfold wait_ids. intro Hin'. apply in_map_iff in Hin'. destruct Hin' as (y & Hyid & Hy).
      apply filter_In in Hy. destruct Hy as [Hy Hyw].
      assert (y = th) by (apply (nodup_ids_unique (threads st)); [apply (g_nodup _ G)|exact Hy|exact Hin|congruence]). subst y. congruence.
Qed.

Lemma frel_init : forall md manual, frel [] (init_state md manual).
Proof.
  intros. constructor; cbn; try (intros; discriminate).
  - apply ginv_init.
  - reflexivity.
  - constructor.
  - intros th [].
Qed.

Lemma frel_step : forall m st a st' evs,
  frel m st -> step st a = Some (st', evs) -> exists m', mon_run fmon_step m evs = Some m' /\ frel m' st'.
Proof.
  intros m st a st' evs R H.
  destruct a; try (exists m; eapply frel_other; try eassumption; intros; discriminate).
  - eapply frel_call; eassumption.
  - eapply frel_return; eassumption.
  - cbn in H. destruct (loop st) as [l|] eqn:El; [|discriminate]. eapply frel_loop; eassumption.
Qed.

(* every trace of the machine is accepted by the flush monitor *)
Theorem flush_monitor_accepts : forall md manual st tr,
  reach (init_state md manual) st tr -> check_flush tr = true.
Proof.
  intros md manual st tr H. unfold check_flush.
  eapply (simulation_accepts fmon fmon_step frel); [apply frel_init|apply frel_step|exact H].
Qed.
