(* C29, flush, completed cycle: every trace of the controller machine is
   accepted by the transition-outcome monitor of the flush (xmon of
   Model/ControllerCheck.v): when Flush(wait) returns nil, the Transition
   calls of the answering cycle have all returned and none returned an error
   (step_save reaches LRespond only when both sides are ok; otherwise the
   loop fails and drops the request). *)
From Coq Require Import List Bool Arith String Lia.
Import ListNotations.
From Mv Require Import Model.Entry Model.Reconcile Model.Safety Model.Controller Model.ControllerCheck
     Proof.ControllerBase Proof.ControllerFlush.
Local Open Scope list_scope.

(* program points at which no scan of the current cycle has been entered yet
   (or no cycle is running) *)
Definition quiet_pc (p : lpc) : bool :=
  match p with
  | LScan PIdle PIdle _ _ => true
  | LScan _ _ _ _ | LRescanWait | LReconcile _ _ | LStage _ _ _ | LTrans _ _ _ _ _ _ _
  | LSave _ _ _ _ _ | LRespond => false
  | _ => true
  end.

Definition xfreq_ok (x : xentry) (p : lpc) : Prop :=
  match p with
  | LScan sa sb ra rb =>
    (sa <> PIdle -> f_ea (x_f x) = true) /\ (sb <> PIdle -> f_eb (x_f x) = true) /\
    (sa = PDone -> (exists c, ra = SROk c) -> f_xa (x_f x) = true) /\
    (sb = PDone -> (exists c, rb = SROk c) -> f_xb (x_f x) = true)
  | LReconcile _ _ | LStage _ _ _ | LRespond => f_complete (x_f x) = true
  | LTrans _ ta tb oka okb _ _ =>
    (ta = PDone -> oka = true) -> (tb = PDone -> okb = true) -> f_complete (x_f x) = true
  | LSave _ oka okb _ _ => oka && okb = true -> f_complete (x_f x) = true
  | _ => True
  end.

Definition open_pc (s : side) (p : lpc) : Prop :=
  match p with
  | LTrans _ ta tb _ _ _ _ => match s with Alpha => ta = PRun | Beta => tb = PRun end
  | _ => False
  end.

Definition open_ok (st : cstate) (s : side) : Prop :=
  exists l, loop st = Some l /\ open_pc s (lp l).

Record xentry_ok (st : cstate) (x : xentry) : Prop := {
  xo_ans : mem_tid (x_tid x) (answered st) = true -> x_done x = true;
  xo_quiet : mem_tid (x_tid x) (answered st) = true -> x_sealed x = false ->
             forall l, loop st = Some l -> quiet_pc (lp l) = true;
  xo_freq : forall l, loop st = Some l -> lfreq l = Some (x_tid x) -> xfreq_ok x (lp l);
  xo_oa : x_oa x = true -> open_ok st Alpha;
  xo_ob : x_ob x = true -> open_ok st Beta;
  xo_win : x_oa x || x_ob x = true -> x_window x = true
}.

Definition x_run (evs : list event) (x : xentry) : xentry := fold_left (fun y e => x_step e y) evs x.

Lemma x_step_tid : forall e x, x_tid (x_step e x) = x_tid x.
Proof.
  intros e x. unfold x_tid. destruct e; cbn; try reflexivity.
  - destruct full; [destruct s|]; reflexivity.
  - destruct ok; [destruct s|]; reflexivity.
  - destruct (x_window x); [destruct s|]; reflexivity.
  - destruct (x_window x); [destruct ok; [destruct s|]|]; reflexivity.
Qed.

Lemma x_run_tid : forall evs x, x_tid (x_run evs x) = x_tid x.
Proof.
  induction evs as [|e r IH]; intro x; [reflexivity|]. unfold x_run in *. cbn. rewrite IH. apply x_step_tid.
Qed.

Lemma xmon_step_other : forall m e,
  is_call_ret e = false -> xmon_step m e = Some (map (x_step e) m).
Proof. intros m e H. destruct e; cbn in *; try discriminate; reflexivity. Qed.

Lemma xmon_run_other : forall evs m,
  forallb (fun e => negb (is_call_ret e)) evs = true ->
  mon_run xmon_step m evs = Some (map (x_run evs) m).
Proof.
  induction evs as [|e r IH]; intros m H; cbn.
  - rewrite map_id. reflexivity.
  - cbn in H. apply andb_prop in H. destruct H as [He Hr]. apply negb_true_iff in He.
    rewrite xmon_step_other by exact He. rewrite IH by exact Hr. rewrite map_map. reflexivity.
Qed.

Definition plain_event (e : event) : bool :=
  match e with Sn _ _ _ | Sx _ _ _ _ | Tn _ _ | Tx _ _ _ => false | _ => true end.

Lemma x_run_plain : forall evs x, forallb plain_event evs = true -> x_run evs x = x.
Proof.
  induction evs as [|e r IH]; intros x H; [reflexivity|]. cbn in H. apply andb_prop in H. destruct H as [He Hr].
  unfold x_run in *. cbn. rewrite IH by exact Hr. destruct e; try discriminate; reflexivity.
Qed.

(* steps other than loop steps: the program point of the loop is kept, a new
   loop starts at LConnA, no scan or transition event is emitted *)
Lemma nonloop_pcs : forall st a st' evs,
  step st a = Some (st', evs) -> (forall la, a <> ALoop la) ->
  (forall l, loop st = Some l -> exists l', loop st' = Some l' /\ lp l' = lp l) /\
  (forall l', loop st' = Some l' -> (exists l, loop st = Some l /\ lp l' = lp l) \/ lp l' = LConnA) /\
  forallb plain_event evs = true.
Proof.
  intros st a st' evs H Hnl.
  destruct a; try (exfalso; eapply Hnl; reflexivity); unfold_steps H; crunch.
  all: cbn [loop st_with_loop st_with_status st_with_arch st_with_answered st_with_gen st_with_flags goto] in *.
  all: (split; [|split]); try reflexivity.
  all: try solve [intros l0 Hl0; try discriminate; try (rewrite Hl0 in *; discriminate);
            eexists; split; [first [eassumption|reflexivity]|]; cbn; congruence].
  all: try solve [intros l0 Hl0; try discriminate; inv Hl0; cbn;
            first [right; reflexivity | left; eexists; split; [first [eassumption|reflexivity]|cbn; congruence]]].
  all: try solve [intros l0 Hl0; cbn in Hl0; congruence].
  all: try solve [intros l0 Hl0; rewrite Hl0 in *; cbn in *; rewrite orb_true_r in *; discriminate].
Qed.

Ltac unfold_loop H :=
  unfold loop_step in H;
  unfold step_conn, step_sync_init, step_top, step_poll, step_scan, step_rescan_wait, step_reconcile,
         step_stage, step_trans, step_save, step_respond, step_end, step_after, step_exit in H.

(* a loop step keeps every entry consistent *)
Ltac bool_solve :=
  repeat rewrite ?andb_true_iff, ?orb_true_iff, ?negb_true_iff, ?orb_false_iff, ?andb_false_iff, ?negb_false_iff in *;
  intuition (try congruence; try discriminate; eauto).

Lemma pdone_done : forall p, pdone p = true -> p = PDone.
Proof. destruct p; cbn; congruence. Qed.

Lemma xentry_ok_loop_step : forall st l a st' evs x,
  loop st = Some l -> loop_step st l a = Some (st', evs) -> xentry_ok st x -> xentry_ok st' (x_run evs x).
Proof.
  intros st l a st' evs x Hl H [Hans Hq Hfreq Hoa Hob Hwin].
  specialize (Hfreq l Hl).
  assert (Hq' : mem_tid (x_tid x) (answered st) = true -> x_sealed x = false -> quiet_pc (lp l) = true)
    by (intros; eapply Hq; eauto).
  assert (Hoa' : x_oa x = true -> open_pc Alpha (lp l)).
  { intro A. destruct (Hoa A) as (l0 & E0 & P). rewrite Hl in E0. inv E0. exact P. }
  assert (Hob' : x_ob x = true -> open_pc Beta (lp l)).
  { intro A. destruct (Hob A) as (l0 & E0 & P). rewrite Hl in E0. inv E0. exact P. }
  clear Hq Hoa Hob.
  destruct x as [[t ea eb xa xb] sl oa ob].
  unfold x_tid, x_done, x_window, f_complete in *. cbn [x_f x_sealed x_oa x_ob f_tid f_ea f_eb f_xa f_xb] in *.
  unfold_loop H.
  destruct (lp l) eqn:Elp; try rewrite Elp in H; crunch; unfold x_run; cbn [fold_left x_step].
  all: try match goal with |- context [is_some (lfreq ?l0)] => destruct (lfreq l0) eqn:Efreq; cbn [is_some] end.
  all: try match goal with |- context [r_ok ?r0] => destruct (r_ok r0) eqn:Erok end.
  all: cbn [x_step f_on_enter f_on_exit x_set_open x_fresh x_tid f_tid f_ea f_eb f_xa f_xb x_f x_sealed x_oa x_ob].
  all: unfold x_window, f_complete, x_fresh; cbn [f_on_enter f_on_exit x_set_open x_tid f_tid f_ea f_eb f_xa f_xb x_f x_sealed x_oa x_ob].
  all: repeat match goal with |- context [if ?b then _ else _] => destruct b eqn:?W end.
  all: cbn [x_step f_on_enter f_on_exit x_set_open x_tid f_tid f_ea f_eb f_xa f_xb x_f x_sealed x_oa x_ob].
  all: cbn [quiet_pc xfreq_ok open_pc] in *.
  all: repeat match goal with Hp : pdone _ && pdone _ = true |- _ =>
         apply andb_prop in Hp; destruct Hp as [?Hp1 ?Hp2]; apply pdone_done in Hp1; apply pdone_done in Hp2; subst end.
  all: constructor; unfold x_tid, x_done, x_window, f_complete, open_ok;
       cbn [x_f x_sealed x_oa x_ob f_tid f_ea f_eb f_xa f_xb answered loop
            st_with_loop st_with_status st_with_arch st_with_answered].
  all: try solve [intros; tauto].
  all: try solve [intros ? ? l9 Hl9; inv Hl9; cbn; auto].
  all: try solve [intros l9 Hl9 Hf9; inv Hl9; cbn in *; try discriminate; auto].
  all: try solve [intro A9; exfalso; auto].
  (* answered / window *)
  all: try solve [intro A9; try specialize (Hans A9); cbn in *; bool_solve].
  (* quiet *)
  all: try solve [intros A9 B9 l9 Hl9; inv Hl9; cbn; specialize (Hans A9); try specialize (Hq' A9); cbn in *; bool_solve].
  (* freq *)
  all: try solve [intros l9 Hl9 Hf9; inv Hl9; cbn in Hf9; try discriminate; try specialize (Hfreq Hf9); cbn in *; bool_solve].
  (* open *)
  all: try solve [intro A9; eexists; split; [reflexivity|]; cbn; cbn in *; bool_solve].
  (* freq, scanning *)
  all: try solve [intros l9 Hl9 Hf9; inv Hl9; cbn in Hf9; try rewrite Efreq in Hf9; specialize (Hfreq Hf9);
                  cbn in Hfreq |- *; unfold f_complete, scanres_of in *; cbn in Hfreq |- *; rewrite ?Erok in *;
                  destruct Hfreq as (A & B & C & D);
                  try (assert (ea = true) by (apply A; discriminate); subst ea);
                  try (assert (eb = true) by (apply B; discriminate); subst eb);
                  repeat split; intros;
                  repeat match goal with Hex : exists _, _ |- _ => destruct Hex end;
                  try match goal with |- context [r_retry ?r0] => destruct (r_retry r0) end;
                  repeat match goal with Hex : exists _, _ |- _ => destruct Hex end;
                  rewrite ?orb_true_r; try discriminate; try congruence; eauto].
  all: try solve [intros l9 Hl9 Hf9; inv Hl9; cbn in Hf9; specialize (Hfreq Hf9);
                  cbn in Hfreq |- *; unfold f_complete; cbn;
                  destruct Hfreq as (A & B & C & D);
                  rewrite A by discriminate; rewrite B by discriminate;
                  rewrite C; [|reflexivity|eauto]; rewrite D; [|reflexivity|eauto]; reflexivity].
  all: try solve [intros l9 Hl9 Hf9; inv Hl9; cbn in Hf9; specialize (Hfreq Hf9);
                  cbn in Hfreq |- *; unfold scanres_of; rewrite Erok;
                  match goal with Hr : r_ok ?r0 = false |- _ => destruct (r_retry r0) end;
                  destruct Hfreq as (A & B & C & D);
                  repeat split; intros;
                  repeat match goal with Hex : exists _, _ |- _ => destruct Hex end;
                  try discriminate; try congruence; eauto;
                  first [apply A; discriminate | apply B; discriminate]].
  - intro A9. cbn in A9. apply orb_prop in A9. destruct A9 as [A9|A9].
    + apply Nat.eqb_eq in A9. subst t0. specialize (Hfreq eq_refl). cbn in Hfreq. unfold f_complete in Hfreq. cbn in Hfreq.
      rewrite Hfreq. destruct oa; [exfalso; auto|]. destruct ob; [exfalso; auto|]. reflexivity.
    + auto.
Qed.

(* steps other than loop steps keep every entry consistent *)
Lemma xentry_ok_nonloop : forall st a st' evs x,
  step st a = Some (st', evs) -> (forall la, a <> ALoop la) -> xentry_ok st x -> xentry_ok st' x.
Proof.
  intros st a st' evs x H Hnl [Hans Hq Hfreq Hoa Hob Hwin].
  destruct (nonloop_facts _ _ _ _ H Hnl) as (Ea & _ & Hloop).
  destruct (nonloop_pcs _ _ _ _ H Hnl) as (Hfwd & Hbwd & _).
  constructor.
  - rewrite Ea. exact Hans.
  - rewrite Ea. intros A B l' Hl'. destruct (Hbwd l' Hl') as [(l & Hl & Hp)|Hp]; rewrite Hp; [eauto|reflexivity].
  - intros l' Hl' Hf'. destruct (Hloop l' Hl') as [[Hn _]|(l & Hl & Hfe & Hpe & _)]; [congruence|].
    rewrite Hpe. apply (Hfreq l Hl). congruence.
  - intro A. destruct (Hoa A) as (l & Hl & P). destruct (Hfwd l Hl) as (l' & Hl' & Hp). exists l'. rewrite Hp. auto.
  - intro A. destruct (Hob A) as (l & Hl & P). destruct (Hfwd l Hl) as (l' & Hl' & Hp). exists l'. rewrite Hp. auto.
  - exact Hwin.
Qed.

Record xrel (m : xmon) (st : cstate) : Prop := {
  xr_f : exists mf, frel mf st;
  xr_ids : map x_tid m = wait_ids (threads st);
  xr_entries : Forall (xentry_ok st) m
}.

Lemma xrel_other : forall m st a st' evs,
  xrel m st -> step st a = Some (st', evs) ->
  (forall t c, a <> ACall t c) -> (forall t, a <> AReturn t) -> (forall la, a <> ALoop la) ->
  mon_run xmon_step m evs = Some m /\ xrel m st'.
Proof.
  intros m st a st' evs [[mf Rf] Hids Hent] H Hnc Hnr Hnl.
  destruct (step_keys _ _ _ _ H Hnc Hnr) as [Hk Hev].
  destruct (nonloop_pcs _ _ _ _ H Hnl) as (_ & _ & Hpl).
  split.
  - rewrite (xmon_run_other _ _ Hev). f_equal. rewrite <- (map_id m) at 2. apply map_ext.
    intro x. apply x_run_plain. exact Hpl.
  - constructor.
    + destruct (frel_step _ _ _ _ _ Rf H) as (mf' & _ & Rf'). exists mf'. exact Rf'.
    + rewrite Hids. symmetry. apply wait_ids_keys. exact Hk.
    + eapply Forall_impl; [|exact Hent]. intros x Hx. eapply xentry_ok_nonloop; eassumption.
Qed.

Lemma xrel_loop : forall m st l a st' evs,
  xrel m st -> loop st = Some l -> loop_step st l a = Some (st', evs) ->
  exists m', mon_run xmon_step m evs = Some m' /\ xrel m' st'.
Proof.
  intros m st l a st' evs [[mf Rf] Hids Hent] Hl H.
  destruct (loop_step_frame _ _ _ _ _ H) as [F Hev].
  assert (Hcr : forallb (fun e => negb (is_call_ret e)) evs = true).
  { clear -Hev. induction evs as [|e r IH]; [reflexivity|]. cbn in *. apply andb_prop in Hev. destruct Hev as [He Hr].
    rewrite (IH Hr). destruct e; cbn in *; try discriminate; reflexivity. }
  exists (map (x_run evs) m). split; [apply xmon_run_other; exact Hcr|].
  constructor.
  - assert (Hs : step st (ALoop a) = Some (st', evs)) by (cbn; rewrite Hl; exact H).
    destruct (frel_step _ _ _ _ _ Rf Hs) as (mf' & _ & Rf'). exists mf'. exact Rf'.
  - rewrite map_map. rewrite (fr_threads _ _ F). rewrite <- Hids. apply map_ext. intro x. apply x_run_tid.
  - apply Forall_forall. intros y Hy. apply in_map_iff in Hy. destruct Hy as (x & <- & Hx).
    eapply xentry_ok_loop_step; try eassumption. apply (proj1 (Forall_forall _ _) Hent). exact Hx.
Qed.

Lemma x_find_in : forall t m, In t (map x_tid m) -> exists x, x_find t m = Some x /\ In x m /\ x_tid x = t.
Proof.
  intros t m. induction m as [|y r IH]; intros H; [destruct H|]. cbn in *.
  destruct (Nat.eqb (x_tid y) t) eqn:E.
  - apply Nat.eqb_eq in E. exists y. auto.
  - destruct H as [H|H]; [apply Nat.eqb_neq in E; contradiction|].
    destruct (IH H) as (x & Hf & Hin & Hid). exists x. auto.
Qed.

Lemma x_remove_ids : forall t m, map x_tid (x_remove t m) = filter (fun i => negb (Nat.eqb i t)) (map x_tid m).
Proof.
  intros t m. unfold x_remove. induction m as [|x r IH]; cbn; [reflexivity|].
  destruct (Nat.eqb (x_tid x) t); cbn; rewrite IH; reflexivity.
Qed.

Lemma xrel_call : forall m st t c st' evs,
  xrel m st -> step st (ACall t c) = Some (st', evs) ->
  exists m', mon_run xmon_step m evs = Some m' /\ xrel m' st'.
Proof.
  intros m st t c st' evs [[mf Rf] Hids Hent] H.
  assert (Hnl : forall la, ACall t c <> ALoop la) by (intros; discriminate).
  destruct (frel_step _ _ _ _ _ Rf H) as (mf' & _ & Rf').
  destruct (step_call _ _ _ _ _ H) as (-> & Hths & _ & Hbound & Hbound').
  destruct (nonloop_facts _ _ _ _ H Hnl) as (Hans & _ & _).
  assert (Hloop : loop st' = loop st) by (cbn in H; crunch; reflexivity).
  assert (Hent' : Forall (xentry_ok st') m).
  { eapply Forall_impl; [|exact Hent]. intros x Hx. eapply xentry_ok_nonloop; eassumption. }
  cbn [mon_run]. destruct (is_wait_flush c) eqn:Ew.
  - assert (c = CFlush true) as -> by (destruct c as [| | | | |[]|]; try discriminate; reflexivity).
    eexists. split; [reflexivity|]. constructor.
    + exists mf'. exact Rf'.
    + cbn. rewrite Hids, Hths. reflexivity.
    + constructor; [|exact Hent'].
      assert (Hna : mem_tid t (answered st') = true -> False).
      { intro Hm. rewrite Hans in Hm. pose proof (fr_bound_ans _ _ Rf t Hm). lia. }
      constructor; cbn.
      * intro A. exfalso. auto.
      * intro A. exfalso. auto.
      * intros l Hl Hf. rewrite Hloop in Hl. pose proof (fr_bound_loop _ _ Rf l t Hl (or_introl Hf)). lia.
      * discriminate.
      * discriminate.
      * discriminate.
  - exists m. split.
    + destruct c as [| | | | |[]|]; try discriminate; reflexivity.
    + constructor; [exists mf'; exact Rf'| |exact Hent'].
      rewrite Hids, Hths. unfold wait_ids. cbn. rewrite Ew. reflexivity.
Qed.

Lemma xrel_return : forall m st t st' evs,
  xrel m st -> step st (AReturn t) = Some (st', evs) ->
  exists m', mon_run xmon_step m evs = Some m' /\ xrel m' st'.
Proof.
  intros m st t st' evs [[mf Rf] Hids Hent] H.
  assert (Hnl : forall la, AReturn t <> ALoop la) by (intros; discriminate).
  destruct (frel_step _ _ _ _ _ Rf H) as (mf' & _ & Rf').
  pose proof (fr_ginv _ _ Rf) as G.
  destruct (step_return _ _ _ _ H) as (th & ok & Hf & Hpc & Hths & ->).
  destruct (find_thread_in _ _ _ Hf) as [Hin Hid].
  assert (Hent' : Forall (xentry_ok st') m).
  { eapply Forall_impl; [|exact Hent]. intros x Hx. eapply xentry_ok_nonloop; eassumption. }
  cbn [mon_run]. destruct (is_wait_flush (th_cmd th)) eqn:Ew.
  - assert (th_cmd th = CFlush true) as Hc by (destruct (th_cmd th) as [| | | | |[]|]; try discriminate; reflexivity).
    rewrite Hc. cbn [xmon_step].
    assert (In t (map x_tid m)) as Htin.
    { rewrite Hids. unfold wait_ids. apply in_map_iff. exists th. split; [exact Hid|]. apply filter_In. split; [exact Hin|exact Ew]. }
    destruct (x_find_in _ _ Htin) as (x & Hfind & Hxin & Hxid).
    assert (Hrel' : xrel (x_remove t m) st').
    { constructor; [exists mf'; exact Rf'| |].
      - rewrite x_remove_ids, Hids, Hths, wait_ids_remove. reflexivity.
      - unfold x_remove. apply Forall_forall. intros y Hy. apply filter_In in Hy.
        apply (proj1 (Forall_forall _ _) Hent'). apply Hy. }
    destruct ok.
    + rewrite Hfind.
      assert (x_done x = true) as ->.
      { apply (xo_ans _ _ (proj1 (Forall_forall _ _) Hent x Hxin)). rewrite Hxid, <- Hid.
        apply (fr_ret _ _ Rf); assumption. }
      eexists. split; [reflexivity|exact Hrel'].
    + eexists. split; [reflexivity|exact Hrel'].
  - exists m. split.
    + destruct (th_cmd th) as [| | | | |[]|]; try discriminate; reflexivity.
    + constructor; [exists mf'; exact Rf'| |exact Hent'].
      rewrite Hids, Hths, wait_ids_remove. symmetry. apply filter_notin.
      unfold wait_ids. intro Hin'. apply in_map_iff in Hin'. destruct Hin' as (y & Hyid & Hy).
      apply filter_In in Hy. destruct Hy as [Hy Hyw].
      assert (y = th) by (apply (nodup_ids_unique (threads st)); [apply (g_nodup _ G)|exact Hy|exact Hin|congruence]). subst y. congruence.
Qed.

Lemma xrel_init : forall md manual, xrel [] (init_state md manual).
Proof.
  intros. constructor.
  - exists []. apply frel_init.
  - reflexivity.
  - constructor.
Qed.

Lemma xrel_step : forall m st a st' evs,
  xrel m st -> step st a = Some (st', evs) -> exists m', mon_run xmon_step m evs = Some m' /\ xrel m' st'.
Proof.
  intros m st a st' evs R H.
  destruct a; try (exists m; eapply xrel_other; try eassumption; intros; discriminate).
  - eapply xrel_call; eassumption.
  - eapply xrel_return; eassumption.
  - cbn in H. destruct (loop st) as [l|] eqn:El; [|discriminate]. eapply xrel_loop; eassumption.
Qed.

(* every trace of the machine is accepted by the transition-outcome monitor *)
Theorem flushtx_monitor_accepts : forall md manual st tr,
  reach (init_state md manual) st tr -> check_flushtx tr = true.
Proof.
  intros md manual st tr H. unfold check_flushtx.
  eapply (simulation_accepts xmon xmon_step xrel); [apply xrel_init|apply xrel_step|exact H].
Qed.
