(* What the transition-outcome monitor of the flush (xmon) says about an
   accepted trace: between the call of a waiting flush and its successful
   return there is a window - starting when the monitor's scan flags of that
   flush are complete (full scans entered on both sides after the call, and
   returned without error), ending at the next scan that is entered or at the
   return - inside which no Transition call returned an error and every
   Transition call that was entered has returned. *)
From Coq Require Import List Bool Arith String Lia.
Import ListNotations.
From Mv Require Import Model.Entry Model.Reconcile Model.Safety Model.Controller Model.ControllerCheck
     Proof.ControllerBase Proof.ControllerFlushTx.
Local Open Scope list_scope.

Definition is_sn (e : event) : bool := match e with Sn _ _ _ => true | _ => false end.
Definition is_tx_err (e : event) : bool := match e with Tx _ false _ => true | _ => false end.

(* a Transition call on side s was entered and has not returned *)
Definition open_step (s : side) (o : bool) (e : event) : bool :=
  match e with
  | Tn s' _ => if side_eqb s s' then true else o
  | Tx s' _ _ => if side_eqb s s' then false else o
  | _ => o
  end.
Definition open_side (s : side) (w : list event) : bool := fold_left (open_step s) w false.

Definition window (t : tid) (p : list event) (x : xentry) : Prop :=
  exists m1 w m3, p = m1 ++ w ++ m3 /\
    f_complete (x_f (x_run m1 (x_fresh t))) = true /\
    forallb (fun e => negb (is_sn e)) w = true /\
    forallb (fun e => negb (is_tx_err e)) w = true /\
    open_side Alpha w = x_oa x /\ open_side Beta w = x_ob x /\
    (if x_sealed x then exists e m3', m3 = e :: m3' /\ is_sn e = true else m3 = []).

Definition winv (t : tid) (p : list event) (x : xentry) : Prop :=
  (f_xa (x_f x) = true -> f_ea (x_f x) = true) /\
  (f_xb (x_f x) = true -> f_eb (x_f x) = true) /\
  (f_complete (x_f x) = false -> x_sealed x = false /\ x_oa x = false /\ x_ob x = false) /\
  (f_complete (x_f x) = true -> window t p x).

Lemma x_run_snoc : forall p e x, x_run (p ++ [e]) x = x_step e (x_run p x).
Proof. intros. unfold x_run. rewrite fold_left_app. reflexivity. Qed.

Lemma open_side_snoc : forall s w e, open_side s (w ++ [e]) = open_step s (open_side s w) e.
Proof. intros. unfold open_side. rewrite fold_left_app. reflexivity. Qed.

Lemma forallb_snoc : forall (f : event -> bool) w e, forallb f (w ++ [e]) = forallb f w && f e.
Proof. intros. rewrite forallb_app. cbn. rewrite andb_true_r. reflexivity. Qed.

(* the window grows by an event that is neither a scan entry nor a failed
   Transition, while the entry is not sealed *)
Lemma window_ext_w : forall t p x x' e,
  window t p x -> x_sealed x = false -> x_sealed x' = false ->
  is_sn e = false -> is_tx_err e = false ->
  x_oa x' = open_step Alpha (x_oa x) e -> x_ob x' = open_step Beta (x_ob x) e ->
  window t (p ++ [e]) x'.
Proof.
  intros t p x x' e (m1 & w & m3 & Hp & Hc & Hs & Ht & Ha & Hb & Hm) S S' E1 E2 A B.
  rewrite S in Hm. subst m3. exists m1, (w ++ [e]), []. rewrite S'.
  repeat split; auto.
  - rewrite Hp, !app_nil_r, app_assoc. reflexivity.
  - rewrite forallb_snoc, Hs, E1. reflexivity.
  - rewrite forallb_snoc, Ht, E2. reflexivity.
  - rewrite open_side_snoc, Ha. auto.
  - rewrite open_side_snoc, Hb. auto.
Qed.

(* after the window was sealed everything goes behind it *)
Lemma window_ext_m3 : forall t p x x' e,
  window t p x -> x_sealed x = true -> x_sealed x' = true ->
  x_oa x' = x_oa x -> x_ob x' = x_ob x ->
  window t (p ++ [e]) x'.
Proof.
  intros t p x x' e (m1 & w & m3 & Hp & Hc & Hs & Ht & Ha & Hb & Hm) S S' A B.
  rewrite S in Hm. destruct Hm as (e0 & m3' & -> & He0). exists m1, w, (e0 :: m3' ++ [e]). rewrite S'.
  repeat split; auto; try congruence.
  - rewrite Hp, <- !app_assoc. reflexivity.
  - exists e0, (m3' ++ [e]). auto.
Qed.

(* a scan entry seals an open window *)
Lemma window_seal : forall t p x x' e,
  window t p x -> x_sealed x = false -> x_sealed x' = true -> is_sn e = true ->
  x_oa x' = x_oa x -> x_ob x' = x_ob x ->
  window t (p ++ [e]) x'.
Proof.
  intros t p x x' e (m1 & w & m3 & Hp & Hc & Hs & Ht & Ha & Hb & Hm) S S' E A B.
  rewrite S in Hm. subst m3. exists m1, w, [e]. rewrite S'.
  repeat split; auto; try congruence.
  - rewrite Hp, !app_nil_r, <- app_assoc. reflexivity.
  - exists e, []. auto.
Qed.

Ltac bsolve :=
  repeat rewrite ?andb_true_iff, ?orb_true_iff, ?negb_true_iff, ?orb_false_iff, ?andb_false_iff, ?negb_false_iff in *;
  intuition (try congruence; try discriminate; eauto).

Lemma winv_step : forall t p e,
  winv t p (x_run p (x_fresh t)) -> winv t (p ++ [e]) (x_run (p ++ [e]) (x_fresh t)).
Proof.
  intros t p e. rewrite x_run_snoc.
  assert (Hid : x_tid (x_run p (x_fresh t)) = t) by (rewrite x_run_tid; reflexivity).
  remember (x_run p (x_fresh t)) as x eqn:Ex.
  intros (Ia & Ib & Ii & Ic).
  assert (Hrun : forall x', x' = x_step e x -> f_complete (x_f x) = false -> f_complete (x_f x') = true ->
                 x_sealed x' = false -> x_oa x' = false -> x_ob x' = false -> window t (p ++ [e]) x').
  { intros x' Hx' _ C S A B. exists (p ++ [e]), [], []. rewrite S, A, B.
    repeat split; auto.
    - rewrite !app_nil_r. reflexivity.
    - rewrite x_run_snoc, <- Ex, <- Hx'. exact C. }
  destruct x as [[t' ea eb xa xb] sl oa ob]. unfold x_tid in Hid. cbn in Hid. subst t'.
  unfold winv, f_complete in *. cbn [x_f x_sealed x_oa x_ob f_tid f_ea f_eb f_xa f_xb] in *.
  destruct (ea && eb && xa && xb) eqn:C.
  - (* the flags are complete *)
    specialize (Ic eq_refl).
    assert (ea = true /\ eb = true /\ xa = true /\ xb = true) as (-> & -> & -> & ->) by (clear -C; bsolve).
    destruct e; cbn [x_step]; unfold x_window, f_complete; cbn [x_f x_sealed x_oa x_ob f_tid f_ea f_eb f_xa f_xb andb negb].
    all: try (destruct sl;
              [ repeat split; try tauto; try discriminate; intros _;
                eapply window_ext_m3; [exact Ic|reflexivity|reflexivity|reflexivity|reflexivity]
              | repeat split; try tauto; try discriminate; intros _;
                eapply window_ext_w; [exact Ic|reflexivity|reflexivity|reflexivity|reflexivity|reflexivity|reflexivity] ]).
    + (* Sn *)
      assert (F : f_ea (if full then f_on_enter s {| f_tid := t; f_ea := true; f_eb := true; f_xa := true; f_xb := true |}
                        else {| f_tid := t; f_ea := true; f_eb := true; f_xa := true; f_xb := true |}) = true /\
                  f_eb (if full then f_on_enter s {| f_tid := t; f_ea := true; f_eb := true; f_xa := true; f_xb := true |}
                        else {| f_tid := t; f_ea := true; f_eb := true; f_xa := true; f_xb := true |}) = true /\
                  f_xa (if full then f_on_enter s {| f_tid := t; f_ea := true; f_eb := true; f_xa := true; f_xb := true |}
                        else {| f_tid := t; f_ea := true; f_eb := true; f_xa := true; f_xb := true |}) = true /\
                  f_xb (if full then f_on_enter s {| f_tid := t; f_ea := true; f_eb := true; f_xa := true; f_xb := true |}
                        else {| f_tid := t; f_ea := true; f_eb := true; f_xa := true; f_xb := true |}) = true)
        by (destruct full, s; cbn; auto).
      destruct F as (F1 & F2 & F3 & F4). rewrite F1, F2, F3, F4. cbn [andb]. rewrite orb_true_r.
      repeat split; try tauto; try discriminate. intros _.
      destruct sl.
      * eapply window_ext_m3; [exact Ic|reflexivity|reflexivity|reflexivity|reflexivity].
      * eapply window_seal; [exact Ic|reflexivity|reflexivity|reflexivity|reflexivity|reflexivity].
    + (* Sx *)
      destruct ok.
      * assert (F : f_on_exit s {| f_tid := t; f_ea := true; f_eb := true; f_xa := true; f_xb := true |}
                    = {| f_tid := t; f_ea := true; f_eb := true; f_xa := true; f_xb := true |}) by (destruct s; reflexivity).
        rewrite F. cbn [f_ea f_eb f_xa f_xb andb].
        destruct sl; repeat split; try tauto; try discriminate; intros _.
        -- eapply window_ext_m3; [exact Ic|reflexivity|reflexivity|reflexivity|reflexivity].
        -- eapply window_ext_w; [exact Ic|reflexivity|reflexivity|reflexivity|reflexivity|reflexivity|reflexivity].
      * cbn [f_ea f_eb f_xa f_xb andb].
        destruct sl; repeat split; try tauto; try discriminate; intros _.
        -- eapply window_ext_m3; [exact Ic|reflexivity|reflexivity|reflexivity|reflexivity].
        -- eapply window_ext_w; [exact Ic|reflexivity|reflexivity|reflexivity|reflexivity|reflexivity|reflexivity].
    + (* Tn *)
      destruct sl; cbn [negb].
      * repeat split; try tauto; try discriminate; intros _.
        eapply window_ext_m3; [exact Ic|reflexivity|reflexivity|reflexivity|reflexivity].
      * destruct s; cbn [x_set_open x_f x_sealed x_oa x_ob f_ea f_eb f_xa f_xb andb];
          repeat split; try tauto; try discriminate; intros _;
          (eapply window_ext_w; [exact Ic|reflexivity|reflexivity|reflexivity|reflexivity|reflexivity|reflexivity]).
    + (* Tx *)
      destruct sl; cbn [negb].
      * repeat split; try tauto; try discriminate; intros _.
        eapply window_ext_m3; [exact Ic|reflexivity|reflexivity|reflexivity|reflexivity].
      * destruct ok.
        -- destruct s; cbn [x_set_open x_f x_sealed x_oa x_ob f_ea f_eb f_xa f_xb andb];
             repeat split; try tauto; try discriminate; intros _;
             (eapply window_ext_w; [exact Ic|reflexivity|reflexivity|reflexivity|reflexivity|reflexivity|reflexivity]).
        -- unfold x_fresh. cbn. repeat split; try tauto; discriminate.
  - (* the flags are not complete *)
    destruct (Ii eq_refl) as (-> & -> & ->). clear Ic.
    destruct e; cbn [x_step]; unfold x_window, f_complete; cbn [x_f x_sealed x_oa x_ob f_tid f_ea f_eb f_xa f_xb];
      rewrite ?C; cbn [andb orb].
    all: try (repeat split; try tauto; try congruence; fail).
    all: try (cbn; rewrite ?C; cbn; repeat split; try tauto; try congruence; fail).
    + (* Sn: the flags stay incomplete *)
      destruct full, s, ea, eb, xa, xb; cbn in C |- *; try discriminate C;
        try (specialize (Ia eq_refl); discriminate Ia); try (specialize (Ib eq_refl); discriminate Ib);
        repeat split; intros; try discriminate; auto.
    + (* Sx: a scan that returns without error may complete them *)
      destruct ok, s, ea, eb, xa, xb; cbn in C |- *; try discriminate C;
        try (specialize (Ia eq_refl); discriminate Ia); try (specialize (Ib eq_refl); discriminate Ib);
        repeat split; intros; try discriminate; auto;
        try (eapply Hrun; reflexivity).
Qed.

Lemma winv_run : forall t p, winv t p (x_run p (x_fresh t)).
Proof.
  intros t p. induction p as [|e p IH] using rev_ind.
  - unfold winv, x_run. cbn. repeat split; try discriminate; auto.
  - apply winv_step. exact IH.
Qed.

(* tracking one entry through a run of the monitor *)
Lemma x_find_map : forall (g : xentry -> xentry) t m,
  (forall x, x_tid (g x) = x_tid x) -> x_find t (map g m) = option_map g (x_find t m).
Proof.
  intros g t m Hg. induction m as [|y r IH]; [reflexivity|]. cbn. rewrite Hg.
  destruct (Nat.eqb (x_tid y) t); [reflexivity|exact IH].
Qed.

Lemma x_find_remove_other : forall t t' m, t' <> t -> x_find t (x_remove t' m) = x_find t m.
Proof.
  intros t t' m Hne. unfold x_remove. induction m as [|y r IH]; [reflexivity|]. cbn.
  destruct (Nat.eqb (x_tid y) t') eqn:E'; cbn.
  - apply Nat.eqb_eq in E'. destruct (Nat.eqb (x_tid y) t) eqn:E; [apply Nat.eqb_eq in E; congruence|exact IH].
  - destruct (Nat.eqb (x_tid y) t); [reflexivity|exact IH].
Qed.

Lemma xmon_track : forall tr m m' t x,
  mon_run xmon_step m tr = Some m' ->
  (forall c ok, ~ In (Rt t c ok) tr) -> (forall c, ~ In (Ca t c) tr) ->
  x_find t m = Some x -> x_find t m' = Some (x_run tr x).
Proof.
  induction tr as [|e r IH]; intros m m' t x H Hnr Hnc Hf.
  - cbn in H. inv H. exact Hf.
  - cbn [mon_run] in H. destruct (xmon_step m e) as [m1|] eqn:E; [|discriminate].
    unfold x_run. cbn [fold_left]. fold (x_run r (x_step e x)).
    apply (IH m1 m' t (x_step e x) H).
    + intros c ok Hin. apply (Hnr c ok). right. exact Hin.
    + intros c Hin. apply (Hnc c). right. exact Hin.
    + assert (Hmap : x_find t (map (x_step e) m) = Some (x_step e x))
        by (rewrite x_find_map by (intro; apply x_step_tid); rewrite Hf; reflexivity).
      destruct e; cbn in E; try (inv E; exact Hmap).
      * (* Ca *)
        assert (t0 <> t) by (intro; subst; apply (Hnc c); left; reflexivity).
        destruct c as [| | | | |[]|]; inv E; cbn [x_step]; try exact Hf.
        cbn [x_find]. unfold x_tid, x_fresh. cbn [x_f f_tid]. destruct (Nat.eqb t0 t) eqn:E0; [apply Nat.eqb_eq in E0; congruence|exact Hf].
      * (* Rt *)
        assert (t0 <> t) by (intro; subst; apply (Hnr c ok); left; reflexivity).
        destruct c as [| | | | |[]|]; try (inv E; cbn [x_step]; exact Hf).
        destruct ok.
        -- destruct (x_find t0 m) as [y|]; [|discriminate]. destruct (x_done y); inv E.
           cbn [x_step]. rewrite x_find_remove_other by assumption. exact Hf.
        -- inv E. cbn [x_step]. rewrite x_find_remove_other by assumption. exact Hf.
Qed.

(* the soundness statement *)
Theorem flushtx_sound : forall pre t mid post,
  check_flushtx (pre ++ Ca t (CFlush true) :: mid ++ Rt t (CFlush true) true :: post) = true ->
  (forall c ok, ~ In (Rt t c ok) mid) -> (forall c, ~ In (Ca t c) mid) ->
  exists m1 w m3, mid = m1 ++ w ++ m3 /\
    f_complete (x_f (x_run m1 (x_fresh t))) = true /\
    (forall s f a, ~ In (Sn s f a) w) /\
    (forall s r, ~ In (Tx s false r) w) /\
    open_side Alpha w = false /\ open_side Beta w = false /\
    (m3 = [] \/ exists s f a m3', m3 = Sn s f a :: m3').
Proof.
  intros pre t mid post H Hnr Hnc. unfold check_flushtx, accepts in H.
  destruct (mon_run xmon_step [] (pre ++ Ca t (CFlush true) :: mid ++ Rt t (CFlush true) true :: post)) as [mf|] eqn:E;
    [|discriminate].
  rewrite mon_run_app in E. destruct (mon_run xmon_step [] pre) as [m1|] eqn:E1; [|discriminate].
  cbn [mon_run xmon_step] in E. rewrite mon_run_app in E.
  destruct (mon_run xmon_step (x_fresh t :: m1) mid) as [m2|] eqn:E2; [|discriminate].
  assert (Hf0 : x_find t (x_fresh t :: m1) = Some (x_fresh t)).
  { cbn [x_find]. unfold x_tid, x_fresh. cbn [x_f f_tid]. rewrite Nat.eqb_refl. reflexivity. }
  pose proof (xmon_track _ _ _ _ _ E2 Hnr Hnc Hf0) as Hf'.
  cbn [mon_run xmon_step] in E. rewrite Hf' in E.
  destruct (x_done (x_run mid (x_fresh t))) eqn:Ed; [|discriminate].
  unfold x_done in Ed. apply andb_prop in Ed. destruct Ed as [Ed Hob]. apply andb_prop in Ed. destruct Ed as [Hc Hoa].
  apply negb_true_iff in Hoa. apply negb_true_iff in Hob.
  destruct (winv_run t mid) as (_ & _ & _ & W). destruct (W Hc) as (m1' & w & m3 & Hp & Hc1 & Hs & Ht & Ha & Hb & Hm).
  exists m1', w, m3. repeat split; auto; try congruence.
  - intros s f a Hin. rewrite forallb_forall in Hs. specialize (Hs _ Hin). discriminate.
  - intros s r Hin. rewrite forallb_forall in Ht. specialize (Ht _ Hin). discriminate.
  - destruct (x_sealed (x_run mid (x_fresh t))); [|left; exact Hm].
    right. destruct Hm as (e & m3' & -> & He). destruct e; try discriminate. eauto.
Qed.

(* what complete flags mean in terms of events: full scans were entered on
   both sides and scans returned without error on both sides *)
Lemma x_flags_events : forall l x,
  (f_ea (x_f (x_run l x)) = true -> f_ea (x_f x) = true \/ exists a, In (Sn Alpha true a) l) /\
  (f_eb (x_f (x_run l x)) = true -> f_eb (x_f x) = true \/ exists a, In (Sn Beta true a) l) /\
  (f_xa (x_f (x_run l x)) = true -> f_xa (x_f x) = true \/ exists r c, In (Sx Alpha true r c) l) /\
  (f_xb (x_f (x_run l x)) = true -> f_xb (x_f x) = true \/ exists r c, In (Sx Beta true r c) l).
Proof.
  induction l as [|e r IH]; intro x; [cbn; tauto|].
  unfold x_run. cbn [fold_left]. fold (x_run r (x_step e x)).
  destruct (IH (x_step e x)) as (A & B & C & D).
  assert (S : (f_ea (x_f (x_step e x)) = true -> f_ea (x_f x) = true \/ exists a, e = Sn Alpha true a) /\
              (f_eb (x_f (x_step e x)) = true -> f_eb (x_f x) = true \/ exists a, e = Sn Beta true a) /\
              (f_xa (x_f (x_step e x)) = true -> f_xa (x_f x) = true \/ exists r c, e = Sx Alpha true r c) /\
              (f_xb (x_f (x_step e x)) = true -> f_xb (x_f x) = true \/ exists r c, e = Sx Beta true r c)).
  { destruct x as [[t ea eb xa xb] sl oa ob]. destruct e; cbn; try tauto.
    - destruct full; [destruct s|]; cbn; repeat split; intros; eauto.
    - destruct ok; [destruct s|]; cbn; repeat split; intros; eauto;
        destruct xa, xb; cbn in *; eauto.
    - destruct (x_window _); [destruct s|]; cbn; tauto.
    - destruct (x_window _); [destruct ok; [destruct s|]|]; cbn; try tauto.
      repeat split; intros; discriminate. }
  destruct S as (SA & SB & SC & SD).
  repeat split; intro H.
  - destruct (A H) as [H1|(a & Hin)]; [destruct (SA H1) as [|(a & ->)]; [auto|right; exists a; left; reflexivity]|right; exists a; right; exact Hin].
  - destruct (B H) as [H1|(a & Hin)]; [destruct (SB H1) as [|(a & ->)]; [auto|right; exists a; left; reflexivity]|right; exists a; right; exact Hin].
  - destruct (C H) as [H1|(a & c & Hin)]; [destruct (SC H1) as [|(a & c & ->)]; [auto|right; exists a, c; left; reflexivity]|right; exists a, c; right; exact Hin].
  - destruct (D H) as [H1|(a & c & Hin)]; [destruct (SD H1) as [|(a & c & ->)]; [auto|right; exists a, c; left; reflexivity]|right; exists a, c; right; exact Hin].
Qed.

Lemma x_complete_events : forall t l,
  f_complete (x_f (x_run l (x_fresh t))) = true ->
  (exists a, In (Sn Alpha true a) l) /\ (exists a, In (Sn Beta true a) l) /\
  (exists r c, In (Sx Alpha true r c) l) /\ (exists r c, In (Sx Beta true r c) l).
Proof.
  intros t l H. unfold f_complete in H. repeat (apply andb_prop in H; destruct H as [H ?]).
  destruct (x_flags_events l (x_fresh t)) as (A & B & C & D).
  repeat split.
  - destruct (A H) as [X|X]; [discriminate|exact X].
  - destruct (B H2) as [X|X]; [discriminate|exact X].
  - destruct (C H1) as [X|X]; [discriminate|exact X].
  - destruct (D H0) as [X|X]; [discriminate|exact X].
Qed.
