(* C11, no propagation: every trace of the controller machine is accepted by
   the halt monitor (Model/ControllerCheck.v: hmon), under every schedule. *)
From Coq Require Import List Bool Arith String Lia.
Import ListNotations.
From Mv Require Import Model.Entry Model.Reconcile Model.Safety Model.Controller Model.ControllerCheck
     Proof.ControllerBase.
Local Open Scope list_scope.

(* what the monitor has seen of the scans of the cycle in progress *)
Definition enc (p : pstat) (r : scanres) : sst :=
  match p with
  | PIdle => SIdle
  | PRun => SEnt
  | PDone => match r with SROk c => SOk c | _ => SErr end
  end.

Definition view (st : cstate) : sst * sst :=
  match loop st with
  | Some l =>
    match lp l with
    | LScan sa sb ra rb => if pdone sa && pdone sb then (SIdle, SIdle) else (enc sa ra, enc sb rb)
    | _ => (SIdle, SIdle)
    end
  | None => (SIdle, SIdle)
  end.

(* the ancestor the monitor remembers is the loop's, once a scan was entered *)
Definition anc_ok (a : oentry) (st : cstate) : Prop :=
  match loop st with
  | Some l =>
    match lp l with
    | LScan sa sb _ _ => pdone sa && pdone sb = true \/ (sa = PIdle /\ sb = PIdle) \/ a = lanc l
    | _ => True
    end
  | None => True
  end.

(* where the loop is while the monitor expects the halted behaviour *)
Definition phase_ok (md : mode) (k : halt_kind) (shut : nat) (st : cstate) : Prop :=
  exists l, loop st = Some l /\
  match lp l with
  | LScan PDone PDone (SROk ca) (SROk cb) => shut = 0 /\ safety_verdict md (lanc l) ca cb = Some k
  | LReconcile ca cb => shut = 0 /\ safety_verdict md (lanc l) ca cb = Some k
  | LEnd (Some k') n =>
    k' = k /\ status st = halt_status k /\ ((n <= 1 /\ shut = 0) \/ (2 <= n /\ n <= 3 /\ shut = 1))
  | LHalted => shut = 2 /\ status st = halt_status k
  | _ => False
  end.

Definition no_lifecycle (st : cstate) : Prop :=
  forall th, In th (threads st) -> is_lifecycle (th_cmd th) = false.

Record hrel (md : mode) (m : hmon) (st : cstate) : Prop := {
  hr_ginv : ginv st;
  hr_mode : cfg_mode st = md;
  hr_act : h_act m = keys (threads st);
  hr_view : h_halt m = None -> (h_ra m, h_rb m) = view st /\ anc_ok (h_anc m) st;
  hr_halt : forall k shut, h_halt m = Some (k, shut) -> no_lifecycle st /\ phase_ok md k shut st
}.

Lemma no_lifecycle_no_cancel : forall st l,
  ginv st -> no_lifecycle st -> loop st = Some l -> lcancel l = false.
Proof.
  intros st l G Hn Hl. destruct (lcancel l) eqn:E; [|reflexivity].
  destruct (g_cancel _ G l Hl E) as (th & Hin & Hpc).
  pose proof (g_pc _ G _ Hin) as Hp. rewrite Hpc in Hp. pose proof (Hn th Hin) as Hlc.
  destruct (th_cmd th); cbn in *; discriminate.
Qed.

Lemma any_active_lifecycle_false : forall ths,
  any_active is_lifecycle (keys ths) = false -> forall th, In th ths -> is_lifecycle (th_cmd th) = false.
Proof.
  intros ths H th Hin. unfold any_active in H.
  pose proof (existsb_false_forall _ _ _ H (th_id th, th_cmd th)) as Hx. cbn in Hx. apply Hx.
  unfold keys. apply in_map_iff. eauto.
Qed.

(* ------------------------------------------------------------------ *)
(* loop steps *)

Ltac unfold_loop H :=
  unfold loop_step in H;
  unfold step_conn, step_sync_init, step_top, step_poll, step_scan, step_rescan_wait, step_reconcile,
         step_stage, step_trans, step_save, step_respond, step_end, step_after, step_exit in H.

(* monitor steps on the events of a loop step, when the monitor is not expecting
   the halted behaviour *)
Lemma hrel_loop_unarmed : forall md m st l a st' evs,
  hrel md m st -> h_halt m = None -> loop st = Some l -> loop_step st l a = Some (st', evs) ->
  exists m', mon_run (hmon_step md) m evs = Some m' /\ hrel md m' st'.
Proof.
  intros md m st l a st' evs R Hh Hl H.
  destruct R as [G Hmode Hact Hview Hhalt]. destruct (Hview Hh) as [Hv Ha].
  pose proof (ginv_loop_step _ _ _ _ _ G Hl H) as G'.
  destruct (loop_step_frame _ _ _ _ _ H) as [F _].
  assert (Hmode' : cfg_mode st' = md) by (rewrite (fr_mode _ _ F); exact Hmode).
  assert (Hact' : h_act m = keys (threads st')) by (rewrite (fr_threads _ _ F); exact Hact).
  unfold view in Hv. unfold anc_ok in Ha. rewrite Hl in Hv, Ha.
  destruct m as [mact manc mra mrb mhalt]. cbn in Hh, Hv, Ha, Hact'. subst mhalt.
  unfold_loop H.
  destruct (lp l) eqn:Elp; try rewrite Elp in H; crunch; cbn [mon_run hmon_step h_halt h_act h_anc h_ra h_rb act_step].
  all: try (eexists; split; [reflexivity|];
            constructor; cbn; try assumption; try discriminate;
            intros _; unfold view, anc_ok; cbn; rewrite ?Elp; cbn; auto).
  all: try (cbn in Hv; rewrite ?andb_false_r in *; cbn in Hv; inv Hv; split; [reflexivity|right; right; reflexivity]).
  all: try (destruct h; cbn in *; inv Hv; auto).
  (* a scan returns *)
  all: cbn in Hv; rewrite ?andb_false_r in Hv; cbn in Hv; inv Hv;
    (destruct Ha as [Hd|[[Hx Hy]|Ha]]; [cbn in Hd; rewrite ?andb_false_r in Hd; discriminate Hd|try discriminate Hx; try discriminate Hy|]); subst manc.
  all: destruct r as [[] [] rc rch]; unfold scanres_of in *; cbn in *.
  all: try destruct sb; try destruct sa; cbn.
  all: try destruct rb; try destruct ra; cbn.
  all: try match goal with
           | |- context [safety_verdict ?a ?b ?c ?d] => destruct (safety_verdict a b c d) eqn:Ev
           end.
  all: try match goal with
           | |- context [any_active ?a ?b] => destruct (any_active a b) eqn:Eaa
           end.
  all: eexists; (split; [reflexivity|]).
  all: constructor; cbn; try assumption; try discriminate.
  all: try (intros _; unfold view, anc_ok; cbn; auto).
  all: intros k shut Hs;
    match type of Hs with
    | (if ?b then _ else _) = _ => destruct b eqn:Eaa; [discriminate|]
    end; inv Hs; split;
    [intros th Hin; eapply any_active_lifecycle_false; [exact Eaa|exact Hin]
    |eexists; split; [reflexivity|]; cbn; auto].
Qed.

(* loop steps while the monitor expects the halted behaviour: the loop can only
   walk from the completed scans through the firing check to the shutdown of
   both endpoints, and then waits *)
Lemma hrel_loop_armed : forall md m st l a st' evs k shut,
  hrel md m st -> h_halt m = Some (k, shut) -> loop st = Some l -> loop_step st l a = Some (st', evs) ->
  exists m', mon_run (hmon_step md) m evs = Some m' /\ hrel md m' st'.
Proof.
  intros md m st l a st' evs k shut R Hh Hl H.
  destruct R as [G Hmode Hact Hview Hhalt]. destruct (Hhalt k shut Hh) as [Hnl Hph].
  pose proof (no_lifecycle_no_cancel _ _ G Hnl Hl) as Hnc.
  pose proof (ginv_loop_step _ _ _ _ _ G Hl H) as G'.
  destruct (loop_step_frame _ _ _ _ _ H) as [F _].
  assert (Hmode' : cfg_mode st' = md) by (rewrite (fr_mode _ _ F); exact Hmode).
  assert (Hact' : h_act m = keys (threads st')) by (rewrite (fr_threads _ _ F); exact Hact).
  assert (Hnl' : no_lifecycle st') by (unfold no_lifecycle; rewrite (fr_threads _ _ F); exact Hnl).
  destruct Hph as (l0 & Hl0 & Hph). rewrite Hl in Hl0. inv Hl0.
  destruct m as [mact manc mra mrb mhalt]. cbn in Hh, Hact'. subst mhalt.
  unfold_loop H.
  destruct (lp l0) eqn:Elp; try contradiction; try rewrite Elp in H.
  - (* scans complete *)
    destruct sa; try contradiction. destruct sb; try contradiction. destruct ra; try contradiction.
    destruct rb; try contradiction. destruct Hph as [-> Hv].
    crunch; cbn [mon_run hmon_step h_halt h_act h_anc h_ra h_rb act_step]; try discriminate.
    all: try (cbn in *; congruence).
    all: eexists; (split; [reflexivity|]); constructor; cbn; try assumption; try discriminate.
    all: intros k0 shut0 Hs; inv Hs; split; [assumption|]; eexists; split; [reflexivity|]; cbn; auto.
  - (* the check fires *)
    destruct Hph as [-> Hv]. rewrite Hv in H.
    crunch; cbn [mon_run hmon_step h_halt h_act h_anc h_ra h_rb act_step is_endpoint].
    eexists; (split; [reflexivity|]); constructor; cbn; try assumption; try discriminate.
    intros k0 shut0 Hs; inv Hs; split; [assumption|]; eexists; split; [reflexivity|]; cbn.
    repeat split; auto.
  - (* shutting the endpoints down *)
    destruct h as [k'|]; try contradiction. destruct Hph as (-> & Hst & Hn).
    crunch; cbn [mon_run hmon_step h_halt h_act h_anc h_ra h_rb act_step is_endpoint].
    all: try (exfalso; lia).
    all: eexists; (split; [reflexivity|]); constructor; cbn; try assumption; try discriminate.
    all: intros k0 shut0 Hs; inv Hs; split; [assumption|]; eexists; split; [reflexivity|]; cbn.
    all: try (destruct Hn as [[? ->]|(? & ? & ->)]; try lia; repeat split; auto; lia).
  - (* halted: only cancellation moves the loop on *)
    destruct Hph as [-> Hst]. rewrite Hnc in H. crunch.
Qed.

Lemma phase_status : forall md k shut st,
  phase_ok md k shut st -> 2 <= shut -> status st = halt_status k.
Proof.
  intros md k shut st (l & Hl & Hph) Hs.
  destruct (lp l); try contradiction.
  - destruct sa, sb, ra, rb; try contradiction. destruct Hph. lia.
  - destruct Hph. lia.
  - destruct h; try contradiction. destruct Hph as (_ & _ & [[? ?]|(? & ? & ?)]); lia.
  - apply Hph.
Qed.

(* ------------------------------------------------------------------ *)
(* steps of command threads, observations, edits, a new manager *)

Definition scan_event (e : event) : bool :=
  match e with Sn _ _ _ | Sx _ _ _ _ => true | _ => false end.

Lemma nonloop_view : forall st a st' evs,
  step st a = Some (st', evs) -> (forall la, a <> ALoop la) ->
  view st' = view st /\ (forall x, anc_ok x st -> anc_ok x st') /\ cfg_mode st' = cfg_mode st /\
  forallb (fun e => negb (scan_event e)) evs = true.
Proof.
  intros st a st' evs H Hnl.
  destruct a; try (exfalso; eapply Hnl; reflexivity); unfold_steps H; crunch.
  all: unfold view, anc_ok; cbn; rewrite ?E, ?E0, ?E1, ?E2, ?E3, ?E4, ?E5; cbn; auto.
  all: apply orb_false_elim in E0; destruct E0 as [_ E0]; destruct (loop st); [discriminate|]; auto.
Qed.

Lemma hmon_unarmed_other : forall md m e,
  h_halt m = None -> is_call_ret e = false -> scan_event e = false -> hmon_step md m e = Some m.
Proof.
  intros md [a anc ra rb h] e Hh Hcr Hs. cbn in Hh. subst h.
  destruct e; cbn in *; try discriminate; reflexivity.
Qed.

Lemma hmon_run_unarmed : forall md evs m,
  h_halt m = None -> forallb (fun e => negb (is_call_ret e)) evs = true ->
  forallb (fun e => negb (scan_event e)) evs = true -> mon_run (hmon_step md) m evs = Some m.
Proof.
  induction evs as [|e r IH]; intros m Hh H1 H2; [reflexivity|]. cbn in *.
  apply andb_prop in H1. apply andb_prop in H2. destruct H1 as [A1 B1]. destruct H2 as [A2 B2].
  apply negb_true_iff in A1. apply negb_true_iff in A2.
  rewrite hmon_unarmed_other by assumption. apply IH; assumption.
Qed.

Lemma hrel_other : forall md m st a st' evs,
  hrel md m st -> step st a = Some (st', evs) ->
  (forall t c, a <> ACall t c) -> (forall t, a <> AReturn t) -> (forall la, a <> ALoop la) ->
  exists m', mon_run (hmon_step md) m evs = Some m' /\ hrel md m' st'.
Proof.
  intros md m st a st' evs R H Hnc Hnr Hnl.
  destruct R as [G Hmode Hact Hview Hhalt].
  pose proof (ginv_step _ _ _ _ G H) as G'.
  destruct (step_keys _ _ _ _ H Hnc Hnr) as [Hk _].
  assert (Hact' : h_act m = keys (threads st')) by (rewrite Hk; exact Hact).
  destruct m as [mact manc mra mrb mhalt]. cbn in Hview, Hhalt, Hact'.
  destruct mhalt as [[k shut]|].
  - (* expecting the halted behaviour: only flush threads and observations move *)
    destruct (Hhalt k shut eq_refl) as [Hnlc (l & Hl & Hph)].
    assert (Hnlc' : no_lifecycle st').
    { intros th' Hin'. destruct (keys_transfer _ _ _ Hk Hin') as (x & Hx & _ & Hxc). rewrite <- Hxc. apply Hnlc. exact Hx. }
    destruct a; try (exfalso; eapply Hnc; reflexivity); try (exfalso; eapply Hnr; reflexivity);
      try (exfalso; eapply Hnl; reflexivity);
      unfold_steps H; rewrite ?Hl in H; crunch.
    all: try match goal with
             | Hf : find_thread _ _ = Some ?th |- _ =>
               let Hin := fresh "Hin" in let Hid := fresh "Hid" in
               destruct (find_thread_in _ _ _ Hf) as [Hin Hid];
               pose proof (g_pc _ G _ Hin) as Gpc; pose proof (Hnlc _ Hin) as Hlc
             end.
    all: repeat match goal with E : th_pc _ = _ |- _ => rewrite E in * end.
    all: repeat match goal with E : th_cmd _ = _ |- _ => rewrite E in * end.
    all: try (cbn in Gpc, Hlc); try discriminate.
    all: try (destruct (th_cmd t0) as [[]| | | | |[]|]; cbn in *; discriminate).
    all: cbn [mon_run hmon_step h_halt h_act h_anc h_ra h_rb act_step is_endpoint].
    all: try (eexists; (split; [reflexivity|]); constructor; cbn -[set_thread]; try assumption; try reflexivity; try discriminate;
              intros k0 shut0 Hs; inv Hs; split; [assumption|];
              first [ exists l; split; [assumption|exact Hph]
                    | eexists; split; [reflexivity|]; cbn; congruence ]).
    all: try solve [eexists; (split; [reflexivity|]); constructor; cbn; try assumption; try reflexivity; try discriminate].
    + (* the status observed after both shutdowns is the halted status *)
      assert (Hst : 2 <= shut -> status st' = halt_status k).
      { intro Hs. eapply phase_status; [|exact Hs]. exists l. split; [exact Hl|exact Hph]. }
      destruct (mgr_up st' && present st').
      * destruct (Nat.leb 2 shut) eqn:E2.
        -- apply Nat.leb_le in E2. rewrite (Hst E2), Nat.eqb_refl. cbn.
           eexists; (split; [reflexivity|]); constructor; cbn; try assumption; try reflexivity.
        -- cbn. eexists; (split; [reflexivity|]); constructor; cbn; try assumption; try reflexivity.
      * eexists; (split; [reflexivity|]); constructor; cbn; try assumption; try reflexivity.
    + eexists; (split; [reflexivity|]); constructor; cbn; try assumption; try reflexivity; try discriminate.
      intros _. unfold view, anc_ok. cbn. auto.
    + eexists; (split; [reflexivity|]); constructor; cbn; try assumption; try reflexivity; try discriminate.
      intros _. unfold view, anc_ok. cbn. auto.
    + eexists; (split; [reflexivity|]); constructor; cbn; try assumption; try reflexivity; try discriminate.
      intros _. unfold view, anc_ok. cbn. auto.
  - (* not expecting anything: the scans in progress are untouched *)
    destruct (step_keys _ _ _ _ H Hnc Hnr) as [_ Hev].
    destruct (nonloop_view _ _ _ _ H Hnl) as (Hv & Ha & Hm & Hsc).
    destruct (Hview eq_refl) as [Hv0 Ha0].
    exists {| h_act := mact; h_anc := manc; h_ra := mra; h_rb := mrb; h_halt := None |}.
    split; [apply hmon_run_unarmed; [reflexivity|exact Hev|exact Hsc]|].
    constructor; cbn; try assumption; try discriminate.
    + rewrite Hm. exact Hmode.
    + intros _. rewrite Hv. split; [exact Hv0|apply Ha; exact Ha0].
Qed.

(* ------------------------------------------------------------------ *)
(* calls and returns *)

Lemma hrel_call : forall md m st t c st' evs,
  hrel md m st -> step st (ACall t c) = Some (st', evs) ->
  exists m', mon_run (hmon_step md) m evs = Some m' /\ hrel md m' st'.
Proof.
  intros md m st t c st' evs R H. destruct R as [G Hmode Hact Hview Hhalt].
  pose proof (ginv_step _ _ _ _ G H) as G'.
  destruct (step_call _ _ _ _ _ H) as (-> & Hths & _ & _ & _).
  assert (Hkeys : keys (threads st') = (t, c) :: keys (threads st)) by (rewrite Hths; reflexivity).
  destruct (nonloop_view _ _ _ _ H) as (Hv & Ha & Hm & _); [intros; discriminate|].
  assert (Hloop : loop st' = loop st /\ status st' = status st).
  { cbn in H. crunch; split; reflexivity. }
  destruct Hloop as [Hloop Hstatus].
  destruct m as [mact manc mra mrb mhalt]. cbn in Hview, Hhalt, Hact.
  cbn [mon_run]. unfold hmon_step. cbn [h_halt h_act h_anc h_ra h_rb act_step].
  destruct mhalt as [[k shut]|].
  - destruct (Hhalt k shut eq_refl) as [Hnlc (l & Hl & Hph)].
    destruct (is_lifecycle c) eqn:Elc.
    + eexists. split; [reflexivity|]. constructor; cbn; try assumption; try discriminate.
      * rewrite Hm. exact Hmode.
      * rewrite Hact, Hkeys. reflexivity.
      * intros _. rewrite Hv. unfold view, anc_ok. rewrite Hloop, Hl.
        destruct (lp l); try contradiction; auto.
        destruct sa, sb, ra, rb; try contradiction. cbn. auto.
    + eexists. split; [reflexivity|]. constructor; cbn; try assumption; try discriminate.
      * rewrite Hm. exact Hmode.
      * rewrite Hact, Hkeys. reflexivity.
      * intros k0 shut0 Hs. injection Hs as <- <-. split.
        -- intros th Hin. rewrite Hths in Hin. destruct Hin as [<-|Hin]; [exact Elc|apply Hnlc; exact Hin].
        -- exists l. split; [congruence|]. rewrite Hstatus. exact Hph.
  - destruct (Hview eq_refl) as [Hv0 Ha0].
    eexists. split; [reflexivity|]. constructor; cbn; try assumption; try discriminate.
    + rewrite Hm. exact Hmode.
    + rewrite Hact, Hkeys. reflexivity.
    + intros _. rewrite Hv. split; [exact Hv0|apply Ha; exact Ha0].
Qed.

Lemma hrel_return : forall md m st t st' evs,
  hrel md m st -> step st (AReturn t) = Some (st', evs) ->
  exists m', mon_run (hmon_step md) m evs = Some m' /\ hrel md m' st'.
Proof.
  intros md m st t st' evs R H. destruct R as [G Hmode Hact Hview Hhalt].
  pose proof (ginv_step _ _ _ _ G H) as G'.
  destruct (step_return _ _ _ _ H) as (th & ok & Hf & Hpc & Hths & ->).
  assert (Hkeys : keys (threads st') = act_remove t (keys (threads st))) by (rewrite Hths; apply keys_remove_thread).
  destruct (nonloop_view _ _ _ _ H) as (Hv & Ha & Hm & _); [intros; discriminate|].
  assert (Hloop : loop st' = loop st /\ status st' = status st).
  { cbn in H. rewrite Hf, Hpc in H. inv H. split; reflexivity. }
  destruct Hloop as [Hloop Hstatus].
  destruct m as [mact manc mra mrb mhalt]. cbn in Hview, Hhalt, Hact.
  cbn [mon_run]. unfold hmon_step. cbn [h_halt h_act h_anc h_ra h_rb act_step is_endpoint].
  destruct mhalt as [[k shut]|].
  - destruct (Hhalt k shut eq_refl) as [Hnlc (l & Hl & Hph)].
    eexists. split; [reflexivity|]. constructor; cbn; try assumption; try discriminate.
    + rewrite Hm. exact Hmode.
    + rewrite Hact, Hkeys. reflexivity.
    + intros k0 shut0 Hs. injection Hs as <- <-. split.
      * intros x Hx. rewrite Hths in Hx. apply in_remove_thread in Hx. apply Hnlc. tauto.
      * exists l. split; [congruence|]. rewrite Hstatus. exact Hph.
  - destruct (Hview eq_refl) as [Hv0 Ha0].
    eexists. split; [reflexivity|]. constructor; cbn; try assumption; try discriminate.
    + rewrite Hm. exact Hmode.
    + rewrite Hact, Hkeys. reflexivity.
    + intros _. rewrite Hv. split; [exact Hv0|apply Ha; exact Ha0].
Qed.

Lemma hrel_init : forall md manual, hrel md hmon_init (init_state md manual).
Proof.
  intros. constructor; cbn; try (intros; discriminate).
  - apply ginv_init.
  - reflexivity.
  - reflexivity.
  - intros _. split; reflexivity.
Qed.

Lemma hrel_step : forall md m st a st' evs,
  hrel md m st -> step st a = Some (st', evs) ->
  exists m', mon_run (hmon_step md) m evs = Some m' /\ hrel md m' st'.
Proof.
  intros md m st a st' evs R H.
  destruct a; try (eapply hrel_other; try eassumption; intros; discriminate).
  - eapply hrel_call; eassumption.
  - eapply hrel_return; eassumption.
  - cbn in H. destruct (loop st) as [l|] eqn:El; [|discriminate].
    destruct (h_halt m) as [[k shut]|] eqn:Eh.
    + eapply hrel_loop_armed; eassumption.
    + eapply hrel_loop_unarmed; eassumption.
Qed.

(* every trace of the machine is accepted by the halt monitor *)
Theorem halt_monitor_accepts : forall md manual st tr,
  reach (init_state md manual) st tr -> check_halt md tr = true.
Proof.
  intros md manual st tr H. unfold check_halt.
  eapply (simulation_accepts hmon (hmon_step md) (hrel md)); [apply hrel_init|apply hrel_step|exact H].
Qed.
