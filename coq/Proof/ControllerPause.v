(* C29, pause: every trace of the controller machine is accepted by the pause
   monitor (Model/ControllerCheck.v: pmon), under every schedule. *)
From Coq Require Import List Bool Arith String Lia.
Import ListNotations.
From Mv Require Import Model.Entry Model.Reconcile Model.Safety Model.Controller Model.ControllerCheck
     Proof.ControllerBase.
Local Open Scope list_scope.

(* a thread that is going to start a synchronization loop *)
Definition starter (th : thread) : bool :=
  match th_cmd th with
  | CCreate _ => negb (idle th)
  | CResume => true
  | CReset => holds_lock th
  | _ => false
  end.

(* the quiet condition: no loop, not marked unpaused, nobody about to start one *)
Record quiet (st : cstate) : Prop := {
  q_loop : loop st = None;
  q_sess : sess_file st <> Some false;
  q_created : created st = true;
  q_starter : forall th, In th (threads st) -> starter th = false
}.

Lemma starter_set_thread : forall ths t pc',
  (forall th, In th ths -> starter th = false) ->
  (forall th, In th ths -> th_id th = t ->
              starter {| th_id := th_id th; th_cmd := th_cmd th; th_pc := pc' |} = false) ->
  forall th, In th (set_thread t pc' ths) -> starter th = false.
Proof.
  intros ths t pc' H Hn y Hy. apply in_set_thread in Hy. destruct Hy as (x & Hx & [[Hne ->]|[He ->]]).
  - apply H; assumption.
  - apply Hn; assumption.
Qed.

Ltac unfold_steps H :=
  unfold step, acquire_step, join_step, reset_step, conn_step, flush_send_step, flush_recv_step,
         cancel_and_join, halt_tail, resume_tail, chan_live in H.

(* events that the pause monitor forbids while quiet *)
Definition quiet_event (e : event) : bool :=
  negb (is_endpoint e) && match e with ObS _ (Some false) => false | _ => true end.

(* the quiet condition is stable under every step that does not add a Resume
   thread, and such a step emits no endpoint event *)
Lemma quiet_step : forall st a st' evs,
  ginv st -> quiet st -> step st a = Some (st', evs) ->
  (forall t, a <> ACall t CResume) ->
  quiet st' /\ forallb quiet_event evs = true.
Proof.
  intros st a st' evs G Q H Hnr.
  destruct Q as [Ql Qs Qc Qst].
  destruct a; unfold_steps H; try rewrite Ql in H; crunch.
  all: try match goal with
           | Hf : find_thread _ _ = Some ?th |- _ =>
             let Hin := fresh "Hin" in let Hid := fresh "Hid" in
             destruct (find_thread_in _ _ _ Hf) as [Hin Hid];
             pose proof (Qst _ Hin) as Qth; unfold starter, holds_lock, idle in Qth;
             pose proof (g_pc _ G _ Hin) as Gpc
           end.
  all: repeat match goal with E : th_pc _ = _ |- _ => rewrite E in * end.
  all: repeat match goal with E : th_cmd _ = _ |- _ => rewrite E in * end.
  all: cbn in *; try discriminate; try congruence.
  all: try (exfalso; apply (Hnr t); reflexivity).
  all: try match goal with
           | Hin : In ?th (threads _), Gpc : _ |- _ =>
             match type of Gpc with context [th_cmd th] =>
               destruct (th_cmd th) as [[]| | | | |[]|] eqn:Ecmd; cbn in *; try discriminate; try congruence
             end
           end.
  all: split; [|try reflexivity].
  all: try (constructor; cbn; try assumption; try discriminate; try congruence).
  all: try (apply starter_set_thread; [assumption|]; intros x Hx Hxid;
            match goal with Hin : In ?th (threads _) |- _ =>
              assert (x = th) as -> by (eapply nodup_ids_unique; eauto using g_nodup; congruence) end;
            unfold starter, holds_lock, idle; cbn;
            repeat match goal with E : th_cmd _ = _ |- _ => rewrite E end; cbn; congruence).
  all: try (intros th [<-|Hin]; [reflexivity|apply Qst; assumption]).
  all: try (intros th Hth; apply in_remove_thread in Hth; apply Qst; tauto).
  all: try assumption.
  all: try (rewrite E; intros th []).
  destruct (sess_file st') as [[]|]; try reflexivity. exfalso. apply Qs. reflexivity.
Qed.

(* ------------------------------------------------------------------ *)
(* completion of a pause establishes the quiet condition *)

Definition no_resume (st : cstate) : Prop :=
  forall th, In th (threads st) -> is_resume (th_cmd th) = false.

Lemma starter_others : forall st x th0,
  ginv st -> no_resume st -> In x (threads st) -> In th0 (threads st) -> th_id x <> th_id th0 ->
  (locked st = false \/ holds_lock th0 = true) -> starter x = false.
Proof.
  intros st x th0 G Hnr Hx Hin Hne Hlk. unfold starter.
  pose proof (Hnr x Hx) as Hr.
  destruct (th_cmd x) eqn:Ec; try reflexivity; try discriminate.
  - (* a create thread is alone *)
    exfalso. assert (is_create (th_cmd x) = true) as Hc by (rewrite Ec; reflexivity).
    rewrite (g_create _ G x Hx Hc) in Hin. destruct Hin as [<-|[]]. congruence.
  - destruct Hlk as [Hlk|Hlk].
    + apply (locked_false _ Hlk). exact Hx.
    + destruct (holds_lock x) eqn:Eh; [|reflexivity]. exfalso. apply Hne. apply (g_lock _ G); assumption.
Qed.

Lemma keys_in : forall ths t c, In (t, c) (keys ths) <-> exists th, In th ths /\ th_id th = t /\ th_cmd th = c.
Proof.
  intros. unfold keys. rewrite in_map_iff. split.
  - intros (th & E & Hin). inv E. eauto.
  - intros (th & Hin & <- & <-). eauto.
Qed.

Lemma quiet_after_pause : forall st X t0,
  ginv st -> no_resume st -> In t0 (threads st) ->
  (locked st = false \/ holds_lock t0 = true) ->
  is_pause (th_cmd t0) = true ->
  threads X = threads st -> loop X = None -> sess_file X = Some true -> created X = true ->
  quiet (goto X (th_id t0) (TRet true)).
Proof.
  intros st X t0 G Hnr Hin Hlk Hp Hths Hl Hs Hc. constructor; cbn; try assumption.
  - rewrite Hs. discriminate.
  - rewrite Hths. intros y Hy. apply in_set_thread in Hy. destruct Hy as (x & Hx & [[Hne ->]|[He ->]]).
    + eapply (starter_others st x t0); eauto.
    + assert (x = t0) as -> by (eapply nodup_ids_unique; eauto using g_nodup).
      unfold starter, idle. cbn. destruct (th_cmd t0) as [[]| | | | | |]; try discriminate; reflexivity.
Qed.

(* a pausing command (Pause, Create paused) that reaches "done, nil" in this
   step establishes the quiet condition, provided no Resume thread exists *)
Lemma pause_completion : forall st a st' evs th',
  ginv st -> no_resume st -> step st a = Some (st', evs) ->
  In th' (threads st') -> is_pause (th_cmd th') = true -> th_pc th' = TRet true ->
  In th' (threads st) \/ quiet st'.
Proof.
  intros st a st' evs th' G Hnr H Hin Hp Hpc.
  destruct a; unfold_steps H; crunch; cbn in Hin.
  all: try (left; assumption).
  all: try (destruct Hin as [<-|Hin]; [cbn in Hpc; discriminate|left; assumption]).
  all: try (apply in_remove_thread in Hin; left; tauto).
  all: try (destruct (loop_step_frame _ _ _ _ _ H) as [F _]; rewrite (fr_threads _ _ F) in Hin; left; assumption).
  all: try (rewrite E in Hin; destruct Hin).
  all: match goal with
       | Hf : find_thread _ _ = Some ?x |- _ =>
         let Hx := fresh "Hx" in let Hid := fresh "Hid" in
         destruct (find_thread_in _ _ _ Hf) as [Hx Hid];
         apply in_set_thread in Hin; destruct Hin as (y & Hy & [[Hne ->]|[He ->]]);
         [left; assumption|];
         assert (y = x) as -> by (eapply nodup_ids_unique; eauto using g_nodup; congruence);
         pose proof (g_pc _ G _ Hx) as Gpc;
         cbn in Hp, Hpc
       end.
  all: try discriminate.
  all: repeat match goal with E : th_pc _ = _ |- _ => rewrite E in Gpc end.
  all: repeat match goal with E : th_cmd _ = _ |- _ => rewrite E in Gpc, Hp end.
  all: cbn in *; try discriminate.
  all: try (destruct wait; discriminate).
  all: try (destruct aok, ok; discriminate).
  all: try (destruct paused; discriminate).
  all: try (destruct (th_cmd t0) as [[]| | | | |[]|]; cbn in *; discriminate).
  all: right.
  all: assert (created st = true) as Gcd by (apply (g_created _ G); intro Em; rewrite Em in Hx; destruct Hx).
  all: apply (quiet_after_pause st _ t0); try assumption; try reflexivity.
  all: try (rewrite E2; reflexivity).
  all: try (left; assumption).
  all: try (right; unfold holds_lock; rewrite E0; reflexivity).
  cbn. assert (is_create (th_cmd t0) = true) as Hc by (rewrite E2; reflexivity).
  assert (idle t0 = false) as Hi by (unfold idle; rewrite E0; reflexivity).
  destruct (g_creating _ G _ Hx Hc Hi) as (_ & _ & Hl). exact Hl.
Qed.


(* ------------------------------------------------------------------ *)
(* the simulation relation *)

Definition pause_thread (t : tid) (st : cstate) : Prop :=
  forall th, In th (threads st) -> th_id th = t -> is_pause (th_cmd th) = true -> th_pc th = TRet true -> quiet st.

Record prel (m : pmon) (st : cstate) : Prop := {
  pr_ginv : ginv st;
  pr_act : p_act m = keys (threads st);
  pr_clean : forall t, flag_of t (p_pauses m) = Some false -> no_resume st /\ pause_thread t st;
  pr_quiet : p_quiet m = true -> quiet st /\ no_resume st;
  pr_tracked : forall t b, flag_of t (p_pauses m) = Some b ->
                           exists th, In th (threads st) /\ th_id th = t /\ is_pause (th_cmd th) = true
}.

Lemma flag_of_dirty : forall t f, flag_of t (set_all_dirty f) <> Some false.
Proof.
  intros t f. induction f as [|[t' b] r IH]; cbn; [discriminate|].
  destruct (Nat.eqb t' t); [discriminate|exact IH].
Qed.

Lemma flag_of_dirty_some : forall t f b, flag_of t (set_all_dirty f) = Some b -> exists b', flag_of t f = Some b'.
Proof.
  intros t f. induction f as [|[t' b0] r IH]; cbn; intros b H; [discriminate|].
  destruct (Nat.eqb t' t); [eauto|eapply IH; eassumption].
Qed.

Lemma flag_of_remove : forall t t0 f b,
  flag_of t0 (flag_remove t f) = Some b -> t0 <> t /\ flag_of t0 f = Some b.
Proof.
  intros t t0 f. induction f as [|[t' b0] r IH]; cbn; intros b H; [discriminate|].
  destruct (Nat.eqb t' t) eqn:E1; cbn in H.
  - apply IH in H. destruct H as [Hne H]. split; [exact Hne|].
    apply Nat.eqb_eq in E1. subst t'. destruct (Nat.eqb t t0) eqn:E2; [apply Nat.eqb_eq in E2; congruence|exact H].
  - destruct (Nat.eqb t' t0) eqn:E2.
    + apply Nat.eqb_eq in E2. subst t'. split; [|exact H]. intro E. subst t0. rewrite Nat.eqb_refl in E1. discriminate.
    + apply IH. exact H.
Qed.

Lemma any_active_resume_false : forall ths,
  any_active is_resume (keys ths) = false -> forall th, In th ths -> is_resume (th_cmd th) = false.
Proof.
  intros ths H th Hin. unfold any_active in H.
  pose proof (existsb_false_forall _ _ _ H (th_id th, th_cmd th)) as Hx. cbn in Hx. apply Hx.
  unfold keys. apply in_map_iff. eauto.
Qed.

Lemma pmon_other : forall m e,
  is_call_ret e = false -> (p_quiet m = true -> quiet_event e = true) -> pmon_step m e = Some m.
Proof.
  intros [a q p] e Hcr Hq. cbn in Hq.
  destruct q.
  - specialize (Hq eq_refl). unfold quiet_event in Hq. apply andb_prop in Hq. destruct Hq as [He Ho].
    apply negb_true_iff in He.
    destruct e; cbn in *; try discriminate; try reflexivity.
    destruct clean; [|reflexivity]. destruct sess as [[]|]; try discriminate; reflexivity.
  - destruct e; cbn in *; try discriminate; try reflexivity.
    + destruct clean; [|reflexivity]. destruct sess as [[]|]; reflexivity.
Qed.

Lemma pmon_run_other : forall evs m,
  forallb (fun e => negb (is_call_ret e)) evs = true ->
  (p_quiet m = true -> forallb quiet_event evs = true) ->
  mon_run pmon_step m evs = Some m.
Proof.
  induction evs as [|e r IH]; intros m Hcr Hq; [reflexivity|].
  cbn in *. apply andb_prop in Hcr. destruct Hcr as [He Hr]. apply negb_true_iff in He.
  rewrite pmon_other; [apply IH; [exact Hr|]|exact He|].
  - intro Hm. specialize (Hq Hm). apply andb_prop in Hq. apply Hq.
  - intro Hm. specialize (Hq Hm). apply andb_prop in Hq. apply Hq.
Qed.

Lemma no_resume_keys : forall st st', keys (threads st') = keys (threads st) -> no_resume st -> no_resume st'.
Proof.
  intros st st' Hk H th Hin.
  assert (In (th_id th, th_cmd th) (keys (threads st'))) as Hin' by (unfold keys; apply in_map_iff; eauto).
  rewrite Hk in Hin'. apply keys_in in Hin'. destruct Hin' as (x & Hx & _ & Hc). rewrite <- Hc. apply H. exact Hx.
Qed.

(* steps other than calls and returns *)
Lemma prel_step_other : forall m st a st' evs,
  prel m st -> step st a = Some (st', evs) ->
  (forall t c, a <> ACall t c) -> (forall t, a <> AReturn t) ->
  mon_run pmon_step m evs = Some m /\ prel m st'.
Proof.
  intros m st a st' evs R H Hnc Hnr. destruct R as [G Hact Hclean Hq Htr].
  destruct (step_keys _ _ _ _ H Hnc Hnr) as [Hk Hev].
  assert (Hres : forall t, a <> ACall t CResume) by (intros t E; eapply Hnc; exact E).
  split.
  - apply pmon_run_other; [exact Hev|]. intro Hm. destruct (Hq Hm) as [Q _].
    eapply quiet_step; eassumption.
  - constructor.
    + eapply ginv_step; eassumption.
    + rewrite Hk. exact Hact.
    + intros t Hf. destruct (Hclean t Hf) as [Hno Hpt]. split; [eapply no_resume_keys; eassumption|].
      intros th' Hin' Hid Hp Hpc.
      destruct (pause_completion _ _ _ _ _ G Hno H Hin' Hp Hpc) as [Hold|Hnew]; [|exact Hnew].
      eapply quiet_step; try eassumption. eapply Hpt; eassumption.
    + intro Hm. destruct (Hq Hm) as [Q Hno]. split; [eapply quiet_step; eassumption|eapply no_resume_keys; eassumption].
    + intros t b Hf. destruct (Htr t b Hf) as (th & Hin & Hid & Hp).
      assert (In (t, th_cmd th) (keys (threads st'))) as Hin'.
      { rewrite Hk. apply keys_in. eauto. }
      apply keys_in in Hin'. destruct Hin' as (x & Hx & Hxid & Hxc). exists x. repeat split; auto. congruence.
Qed.

Lemma fresh_tid : forall st t c st' evs,
  ginv st -> step st (ACall t c) = Some (st', evs) -> ~ In t (ids (threads st)).
Proof.
  intros st t c st' evs G H. cbn in H.
  destruct (Nat.leb (tid_bound st) t) eqn:Eb; [|discriminate]. apply Nat.leb_le in Eb.
  intro Hin. unfold ids in Hin. apply in_map_iff in Hin. destruct Hin as (x & Hx & Hin).
  pose proof (proj1 (Forall_forall _ _) (g_bound _ G) _ Hin) as Hb. cbn in Hb. lia.
Qed.

Lemma prel_step_call : forall m st t c st' evs,
  prel m st -> step st (ACall t c) = Some (st', evs) ->
  exists m', mon_run pmon_step m evs = Some m' /\ prel m' st'.
Proof.
  intros m st t c st' evs R H. destruct R as [G Hact Hclean Hq Htr].
  pose proof (fresh_tid _ _ _ _ _ G H) as Hfresh.
  pose proof (ginv_step _ _ _ _ G H) as G'.
  destruct (step_call _ _ _ _ _ H) as (-> & Hths & Hcrc & _ & _).
  assert (Hkeys : keys (threads st') = (t, c) :: keys (threads st)) by (rewrite Hths; reflexivity).
  assert (Hnottr : forall b, flag_of t (p_pauses m) <> Some b).
  { intros b Hf. destruct (Htr t b Hf) as (th & Hin & Hid & _). apply Hfresh. rewrite <- Hid. unfold ids. apply in_map. exact Hin. }
  assert (Hold_in : forall th, In th (threads st) -> In th (threads st')) by (intros; rewrite Hths; right; assumption).
  cbn [mon_run]. unfold pmon_step.
  destruct (is_resume c) eqn:Er.
  - (* Resume: nothing is concluded any more *)
    eexists. split; [reflexivity|]. constructor; cbn.
    + exact G'.
    + rewrite Hact, Hkeys. reflexivity.
    + intros t0 Hf. exfalso. eapply flag_of_dirty. exact Hf.
    + discriminate.
    + intros t0 b Hf. apply flag_of_dirty_some in Hf. destruct Hf as (b' & Hf).
      destruct (Htr t0 b' Hf) as (th & Hin & Hid & Hp). exists th. auto.
  - assert (Hnr_new : forall th, In th (threads st') -> ~ In th (threads st) -> is_resume (th_cmd th) = false).
    { intros th Hin Hnot. rewrite Hths in Hin. destruct Hin as [<-|Hin]; [exact Er|contradiction]. }
    assert (Hno' : no_resume st -> no_resume st').
    { intros Hno th Hin. rewrite Hths in Hin. destruct Hin as [<-|Hin]; [exact Er|apply Hno; exact Hin]. }
    assert (Hquiet' : quiet st -> quiet st').
    { intro Q. refine (proj1 (quiet_step _ _ _ _ G Q H _)). intros t0 E. inv E. discriminate. }
    assert (Hpt' : forall t0, t0 <> t -> pause_thread t0 st -> pause_thread t0 st').
    { intros t0 Hne Hpt th Hin Hid Hp Hpcc. rewrite Hths in Hin. destruct Hin as [<-|Hin]; [cbn in Hid; congruence|].
      apply Hquiet'. eapply Hpt; eassumption. }
    destruct (is_pause c) eqn:Ep.
    + eexists. split; [reflexivity|]. constructor; cbn.
      * exact G'.
      * rewrite Hact, Hkeys. reflexivity.
      * intros t0 Hf. destruct (Nat.eqb t t0) eqn:E.
        -- apply Nat.eqb_eq in E. subst t0. inv Hf.
           assert (no_resume st) as Hno.
           { intros th Hin. rewrite Hact in H1. eapply any_active_resume_false; eassumption. }
           split; [apply Hno'; exact Hno|].
           intros th Hin Hid Hp Hpcc. rewrite Hths in Hin. destruct Hin as [<-|Hin].
           ++ cbn in Hpcc. destruct (is_create c); discriminate.
           ++ exfalso. apply Hfresh. rewrite <- Hid. unfold ids. apply in_map. exact Hin.
        -- apply Nat.eqb_neq in E. destruct (Hclean t0 Hf) as [Hno Hpt]. split; [apply Hno'; exact Hno|].
           apply Hpt'; [congruence|exact Hpt].
      * intro Hm. destruct (Hq Hm) as [Q Hno]. split; [apply Hquiet'; exact Q|apply Hno'; exact Hno].
      * intros t0 b Hf. destruct (Nat.eqb t t0) eqn:E.
        -- apply Nat.eqb_eq in E. subst t0. eexists. split; [rewrite Hths; left; reflexivity|]. cbn. auto.
        -- destruct (Htr t0 b Hf) as (th & Hin & Hid & Hp). exists th. auto.
    + eexists. split; [reflexivity|]. constructor; cbn.
      * exact G'.
      * rewrite Hact, Hkeys. reflexivity.
      * intros t0 Hf. destruct (Hclean t0 Hf) as [Hno Hpt]. split; [apply Hno'; exact Hno|].
        apply Hpt'; [|exact Hpt]. intro E. subst t0. eapply Hnottr. exact Hf.
      * intro Hm. destruct (Hq Hm) as [Q Hno]. split; [apply Hquiet'; exact Q|apply Hno'; exact Hno].
      * intros t0 b Hf. destruct (Htr t0 b Hf) as (th & Hin & Hid & Hp). exists th. auto.
Qed.

Lemma prel_step_return : forall m st t st' evs,
  prel m st -> step st (AReturn t) = Some (st', evs) ->
  exists m', mon_run pmon_step m evs = Some m' /\ prel m' st'.
Proof.
  intros m st t st' evs R H. destruct R as [G Hact Hclean Hq Htr].
  pose proof (ginv_step _ _ _ _ G H) as G'.
  destruct (step_return _ _ _ _ H) as (th & ok & Hf & Hpc & Hths & ->).
  destruct (find_thread_in _ _ _ Hf) as [Hin Hid].
  assert (Hkeys : keys (threads st') = act_remove t (keys (threads st))) by (rewrite Hths; apply keys_remove_thread).
  assert (Hsub : forall x, In x (threads st') -> In x (threads st)).
  { intros x Hx. rewrite Hths in Hx. apply in_remove_thread in Hx. tauto. }
  assert (Hno' : no_resume st -> no_resume st') by (intros Hno x Hx; apply Hno; apply Hsub; exact Hx).
  assert (Hquiet' : quiet st -> quiet st').
  { intro Q. refine (proj1 (quiet_step _ _ _ _ G Q H _)). intros t0 E. discriminate. }
  assert (Hpt' : forall t0, pause_thread t0 st -> pause_thread t0 st').
  { intros t0 Hpt x Hx Hxid Hp Hxpc. apply Hquiet'. apply (Hpt x); auto. }
  cbn [mon_run]. unfold pmon_step.
  destruct (is_pause (th_cmd th)) eqn:Ep.
  - eexists. split; [reflexivity|]. constructor; cbn.
    + exact G'.
    + rewrite Hact, Hkeys. reflexivity.
    + intros t0 Hf0. apply flag_of_remove in Hf0. destruct Hf0 as [Hne Hf0].
      destruct (Hclean t0 Hf0) as [Hno Hpt]. split; [apply Hno'; exact Hno|apply Hpt'; exact Hpt].
    + intro Hm.
      destruct (flag_of t (p_pauses m)) as [[]|] eqn:Eflag.
      * destruct (Hq Hm) as [Q Hno]. split; [apply Hquiet'; exact Q|apply Hno'; exact Hno].
      * destruct (Hclean t Eflag) as [Hno Hpt]. split; [|apply Hno'; exact Hno].
        apply Hquiet'. apply orb_prop in Hm. destruct Hm as [Hm|Hm]; [|apply (Hq Hm)].
        assert (ok = true) as -> by (destruct (th_cmd th); try discriminate; exact Hm).
        eapply Hpt; eassumption.
      * destruct (Hq Hm) as [Q Hno]. split; [apply Hquiet'; exact Q|apply Hno'; exact Hno].
    + intros t0 b Hf0. apply flag_of_remove in Hf0. destruct Hf0 as [Hne Hf0].
      destruct (Htr t0 b Hf0) as (x & Hx & Hxid & Hp). exists x. repeat split; auto.
      rewrite Hths. apply in_remove_thread. split; [exact Hx|congruence].
  - eexists. split; [reflexivity|]. constructor; cbn.
    + exact G'.
    + rewrite Hact, Hkeys. reflexivity.
    + intros t0 Hf0. destruct (Hclean t0 Hf0) as [Hno Hpt]. split; [apply Hno'; exact Hno|apply Hpt'; exact Hpt].
    + intro Hm. destruct (Hq Hm) as [Q Hno]. split; [apply Hquiet'; exact Q|apply Hno'; exact Hno].
    + intros t0 b Hf0. destruct (Htr t0 b Hf0) as (x & Hx & Hxid & Hp). exists x. repeat split; auto.
      rewrite Hths. apply in_remove_thread. split; [exact Hx|].
      intro E. assert (x = th) by (apply (nodup_ids_unique (threads st)); [apply (g_nodup _ G)|exact Hx|exact Hin|congruence]). subst x. congruence.
Qed.

Lemma prel_init : forall md manual, prel pmon_init (init_state md manual).
Proof.
  intros. constructor; cbn.
  - apply ginv_init.
  - reflexivity.
  - intros; discriminate.
  - discriminate.
  - intros; discriminate.
Qed.

Lemma prel_step : forall m st a st' evs,
  prel m st -> step st a = Some (st', evs) -> exists m', mon_run pmon_step m evs = Some m' /\ prel m' st'.
Proof.
  intros m st a st' evs R H.
  destruct a; try (exists m; eapply prel_step_other; try eassumption; intros; discriminate).
  - eapply prel_step_call; eassumption.
  - eapply prel_step_return; eassumption.
Qed.

(* every trace of the machine is accepted by the pause monitor *)
Theorem pause_monitor_accepts : forall md manual st tr,
  reach (init_state md manual) st tr -> check_pause tr = true.
Proof.
  intros md manual st tr H. unfold check_pause.
  eapply (simulation_accepts pmon pmon_step prel); [apply prel_init|apply prel_step|exact H].
Qed.
