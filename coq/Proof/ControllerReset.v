(* C29, reset: every trace of the controller machine is accepted by the reset
   monitor (Model/ControllerCheck.v: rmon); and the model-level facts: Reset
   writes the (empty) archive only while no loop exists, and its thread never
   enters an endpoint method. *)
From Coq Require Import List Bool Arith String Lia.
Import ListNotations.
From Mv Require Import Model.Entry Model.Reconcile Model.Safety Model.Controller Model.ControllerCheck
     Proof.ControllerBase.
Local Open Scope list_scope.

(* program counters from which the loop cannot save the ancestor before it has
   entered a scan on both endpoints again *)
Definition prescan (p : lpc) : bool :=
  match p with
  | LScan PIdle PIdle _ _ => true
  | LScan _ _ _ _ | LReconcile _ _ | LStage _ _ _ | LTrans _ _ _ _ _ _ _ | LSave _ _ _ _ _ => false
  | _ => true
  end.

(* program counters at which synchronize's local ancestor is in use *)
Definition loaded (p : lpc) : bool :=
  match p with
  | LTop | LPoll _ _ _ _ _ | LScan _ _ _ _ | LRescanWait | LRespond => true
  | _ => false
  end.

(* the loop, if any, started from the emptied archive and has not scanned *)
Definition loop_fresh (st : cstate) : Prop :=
  match loop st with
  | None => True
  | Some l => prescan (lp l) = true /\ (loaded (lp l) = true -> lanc l = None)
  end.

(* the scans still owed an empty ancestor will get it *)
Definition owed_ok (pa pb : bool) (st : cstate) : Prop :=
  match loop st with
  | None => True
  | Some l =>
    match lp l with
    | LScan sa sb _ _ => (pa = true -> sa = PIdle) /\ (pb = true -> sb = PIdle) /\ lanc l = None
    | LReconcile _ _ | LStage _ _ _ | LTrans _ _ _ _ _ _ _ | LSave _ _ _ _ _ => False
    | p => loaded p = true -> lanc l = None
    end
  end.

Definition no_lifecycle (st : cstate) : Prop :=
  forall th, In th (threads st) -> is_lifecycle (th_cmd th) = false.

Definition only_lifecycle (t : tid) (st : cstate) : Prop :=
  forall th, In th (threads st) -> is_lifecycle (th_cmd th) = true -> th_id th = t.

(* what is known about the state at each program counter of an undisturbed Reset *)
Definition reset_fact (pc : tpc) (st : cstate) : Prop :=
  match pc with
  | TResetArch => loop st = None
  | TResetResume | TConn _ _ => loop st = None /\ arch_file st = Some None
  | TRet true => arch_file st = Some None /\ loop_fresh st
  | _ => True
  end.

(* what is known about an undisturbed Reset during whose interval no scan was
   entered *)
Definition cur_ok (t : tid) (st : cstate) : Prop :=
  only_lifecycle t st /\
  forall th, In th (threads st) -> th_id th = t ->
    th_cmd th = CReset /\ reset_fact (th_pc th) st.

Record rrel (m : rmon) (st : cstate) : Prop := {
  rr_ginv : ginv st;
  rr_act : r_act m = keys (threads st);
  rr_cur : forall t, r_cur m = Some (t, (true, false)) -> cur_ok t st;
  rr_cur_thread : forall t gs, r_cur m = Some (t, gs) ->
                               exists th, In th (threads st) /\ th_id th = t /\ th_cmd th = CReset;
  rr_armed : forall pa pb, r_armed m = Some (pa, pb) ->
                           (pa = true \/ pb = true) /\ no_lifecycle st /\ arch_file st = Some None /\ owed_ok pa pb st;
  rr_fresh : r_fresh m = true -> r_armed m = Some (true, true)
}.

Ltac unfold_loop H :=
  unfold loop_step in H;
  unfold step_conn, step_sync_init, step_top, step_poll, step_scan, step_rescan_wait, step_reconcile,
         step_stage, step_trans, step_save, step_respond, step_end, step_after, step_exit in H.

Definition sn_event (e : event) : bool := match e with Sn _ _ _ => true | _ => false end.

(* a loop step that enters no scan keeps a fresh loop fresh and the archive
   untouched *)
Lemma loop_fresh_step : forall st l a st' evs,
  loop st = Some l -> loop_step st l a = Some (st', evs) ->
  loop_fresh st -> arch_file st = Some None ->
  forallb (fun e => negb (sn_event e)) evs = true ->
  loop_fresh st' /\ arch_file st' = Some None.
Proof.
  intros st l a st' evs Hl H Hf Ha Hns. unfold loop_fresh in *. rewrite Hl in Hf. destruct Hf as [Hp Hld].
  unfold_loop H.
  destruct (lp l) eqn:Elp; try rewrite Elp in H; cbn in Hp; try discriminate; crunch; cbn in *; try discriminate.
  all: rewrite ?Ha in *; try discriminate.
  all: try (repeat split; try reflexivity; try exact I; intros; try discriminate; auto; fail).
  - destruct sa, sb; cbn in *; discriminate.
  - destruct h; cbn; repeat split; intros; try discriminate; auto.
Qed.

(* the same for the scans still owed an empty ancestor *)
Lemma owed_step_nosn : forall st l a st' evs pa pb,
  loop st = Some l -> loop_step st l a = Some (st', evs) ->
  owed_ok pa pb st -> arch_file st = Some None -> (pa = true \/ pb = true) ->
  forallb (fun e => negb (sn_event e)) evs = true ->
  owed_ok pa pb st' /\ arch_file st' = Some None.
Proof.
  intros st l a st' evs pa pb Hl H Ho Ha Hor Hns. unfold owed_ok in *. rewrite Hl in Ho.
  unfold_loop H.
  destruct (lp l) eqn:Elp; try rewrite Elp in H; try contradiction; crunch; cbn in *; try discriminate.
  all: rewrite ?Ha in *; try discriminate.
  all: try (repeat split; try reflexivity; try exact I; intros; try discriminate; auto; tauto).
  - exfalso. destruct Ho as (A & B & _). destruct Hor as [Hp|Hp].
    + rewrite (A Hp) in E0. discriminate.
    + rewrite (B Hp) in E0. rewrite andb_false_r in E0. discriminate.
  - destruct Ho as (A & B & C). repeat split; auto. intro Hp. specialize (A Hp). discriminate.
  - destruct Ho as (A & B & C). repeat split; auto. intro Hp. specialize (B Hp). discriminate.
  - destruct h; cbn; split; auto; intros; discriminate.
Qed.

Lemma rmon_quiet_event : forall m e,
  is_call_ret e = false -> sn_event e = false ->
  (match e with Nm _ | ObA _ _ _ => false | _ => true end) = true ->
  rmon_step m e = Some m.
Proof.
  intros [a c ar f] e H1 H2 H3. destruct e; cbn in *; try discriminate; reflexivity.
Qed.

Lemma rmon_run_quiet : forall evs m,
  forallb (fun e => negb (is_call_ret e) && negb (sn_event e)
                    && match e with Nm _ | ObA _ _ _ => false | _ => true end) evs = true ->
  mon_run rmon_step m evs = Some m.
Proof.
  induction evs as [|e r IH]; intros m H; [reflexivity|]. cbn in *.
  apply andb_prop in H. destruct H as [He Hr]. apply andb_prop in He. destruct He as [He H3].
  apply andb_prop in He. destruct He as [H1 H2]. apply negb_true_iff in H1. apply negb_true_iff in H2.
  rewrite rmon_quiet_event by assumption. apply IH. exact Hr.
Qed.

(* a loop step either enters no scan, or is the entry of one scan *)
Lemma loop_step_sn : forall st l a st' evs,
  loop_step st l a = Some (st', evs) ->
  forallb (fun e => negb (is_call_ret e) && negb (sn_event e)
                    && match e with Nm _ | ObA _ _ _ => false | _ => true end) evs = true
  \/ (exists sa sb ra rb s,
        lp l = LScan sa sb ra rb /\ evs = [Sn s (is_some (lfreq l)) (lanc l)] /\
        arch_file st' = arch_file st /\
        ((s = Alpha /\ sa = PIdle /\ loop st' = Some (l_with_p l (LScan PRun sb ra rb)))
         \/ (s = Beta /\ sb = PIdle /\ loop st' = Some (l_with_p l (LScan sa PRun ra rb))))).
Proof.
  intros st l a st' evs H. unfold_loop H.
  destruct (lp l) eqn:Elp; try rewrite Elp in H; crunch; cbn.
  all: try (left; reflexivity).
  all: right; do 5 eexists; (split; [reflexivity|]); (split; [reflexivity|]); (split; [reflexivity|]); auto.
Qed.


Lemma rrel_loop : forall m st l a st' evs,
  rrel m st -> loop st = Some l -> loop_step st l a = Some (st', evs) ->
  exists m', mon_run rmon_step m evs = Some m' /\ rrel m' st'.
Proof.
  intros m st l a st' evs R Hl H. destruct R as [G Hact Hcur Hcth Harm Hfresh].
  pose proof (ginv_loop_step _ _ _ _ _ G Hl H) as G'.
  destruct (loop_step_frame _ _ _ _ _ H) as [F _].
  assert (Hths : threads st' = threads st) by apply (fr_threads _ _ F).
  destruct (loop_step_sn _ _ _ _ _ H) as [Hq|(sa & sb & ra & rb & s & Elp & -> & Harch & Hside)].
  - (* no scan entered *)
    assert (Hns : forallb (fun e => negb (sn_event e)) evs = true).
    { clear -Hq. induction evs as [|e r IH]; [reflexivity|]. cbn in *. apply andb_prop in Hq. destruct Hq as [He Hr].
      rewrite (IH Hr). apply andb_prop in He. destruct He as [He _]. apply andb_prop in He. destruct He as [_ He].
      rewrite He. reflexivity. }
    exists m. split; [apply rmon_run_quiet; exact Hq|]. constructor; try assumption.
    + rewrite Hths. exact Hact.
    + intros t Hc. destruct (Hcur t Hc) as [Hol Hth]. split.
      * unfold only_lifecycle. rewrite Hths. exact Hol.
      * intros th Hin Hid. rewrite Hths in Hin. destruct (Hth th Hin Hid) as [Hcmd Hpc]. split; [exact Hcmd|].
        unfold reset_fact in *. destruct (th_pc th); try exact I.
        -- congruence.
        -- destruct Hpc as [Hn _]. congruence.
        -- destruct Hpc as [Hn _]. congruence.
        -- destruct ok; [|exact I]. destruct Hpc as [Ha Hf].
           destruct (loop_fresh_step _ _ _ _ _ Hl H Hf Ha Hns) as [Hf' Ha']. auto.
    + intros t gs Hc. rewrite Hths. apply (Hcth t gs Hc).
    + intros pa pb Ha. destruct (Harm pa pb Ha) as (Hor & Hnl & Harc & Ho).
      destruct (owed_step_nosn _ _ _ _ _ _ _ Hl H Ho Harc Hor Hns) as [Ho' Harc'].
      repeat split; auto. unfold no_lifecycle. rewrite Hths. exact Hnl.
  - (* one scan is entered: it is given the loop's ancestor *)
    destruct m as [mact mcur marm mfresh]. cbn in Hact, Hcur, Hcth, Harm, Hfresh.
    assert (Hloop' : exists l', loop st' = Some l' /\ lanc l' = lanc l /\
                                ((s = Alpha /\ sa = PIdle /\ lp l' = LScan PRun sb ra rb)
                                 \/ (s = Beta /\ sb = PIdle /\ lp l' = LScan sa PRun ra rb))).
    { destruct Hside as [(-> & -> & Hl')|(-> & -> & Hl')]; eexists; (split; [exact Hl'|]); cbn; auto. }
    destruct Hloop' as (l' & Hl' & Hanc' & Hside').
    cbn [mon_run rmon_step r_armed r_cur r_act r_fresh act_step].
    set (cur' := match mcur with Some (t0, (good, _)) => Some (t0, (good, true)) | None => None end).
    assert (Hcur' : forall t, cur' = Some (t, (true, false)) -> cur_ok t st').
    { intros t Hc. unfold cur' in Hc. destruct mcur as [[t0 [g sn]]|]; discriminate. }
    assert (Hcth' : forall t gs, cur' = Some (t, gs) -> exists th, In th (threads st') /\ th_id th = t /\ th_cmd th = CReset).
    { intros t gs Hc. rewrite Hths. unfold cur' in Hc. destruct mcur as [[t0 [g sn]]|]; [|discriminate].
      inv Hc. eapply Hcth. reflexivity. }
    destruct marm as [[pa pb]|].
    + destruct (Harm pa pb eq_refl) as (Hor & Hnl & Harc & Ho).
      unfold owed_ok in Ho. rewrite Hl, Elp in Ho. destruct Ho as (A & B & C).
      rewrite C. cbn [is_none_entry negb]. rewrite andb_false_r.
      eexists. split; [reflexivity|]. constructor; cbn; try assumption.
      * rewrite Hths. exact Hact.
      * intros pa' pb' Harm'.
        assert (no_lifecycle st') as Hnl' by (unfold no_lifecycle; rewrite Hths; exact Hnl).
        assert (arch_file st' = Some None) as Harc' by congruence.
        destruct Hside' as [(-> & -> & Hlp')|(-> & -> & Hlp')].
        -- destruct pb; cbn in Harm'; [|discriminate]. inv Harm'.
           repeat split; auto. unfold owed_ok. rewrite Hl', Hlp'. repeat split; auto; [discriminate|congruence].
        -- destruct pa; cbn in Harm'; [|discriminate]. inv Harm'.
           repeat split; auto. unfold owed_ok. rewrite Hl', Hlp'. repeat split; auto; [discriminate|congruence].
      * discriminate.
    + eexists. split; [reflexivity|]. constructor; cbn; try assumption; try discriminate.
      rewrite Hths. exact Hact.
Qed.

(* ------------------------------------------------------------------ *)
(* steps of threads *)

Definition actor (a : action) : option tid :=
  match a with
  | ASelect t | AAcquire t | AJoin t | AResetStep t | AConn t _ | AFlushSend t _ | AFlushRecv t _ => Some t
  | _ => None
  end.

(* the loop as far as the reset monitor's invariants look at it *)
Definition same_shape (st st' : cstate) : Prop :=
  match loop st, loop st' with
  | None, None => True
  | Some l, Some l' => lp l' = lp l /\ lanc l' = lanc l
  | _, _ => False
  end.

Lemma same_shape_fresh : forall st st', same_shape st st' -> loop_fresh st -> loop_fresh st'.
Proof.
  intros st st' H. unfold same_shape, loop_fresh in *.
  destruct (loop st), (loop st'); try contradiction; auto. destruct H as [-> ->]. auto.
Qed.

Lemma same_shape_owed : forall st st' pa pb, same_shape st st' -> owed_ok pa pb st -> owed_ok pa pb st'.
Proof.
  intros st st' pa pb H. unfold same_shape, owed_ok in *.
  destruct (loop st), (loop st'); try contradiction; auto. destruct H as [-> ->]. auto.
Qed.

Lemma lifecycle_in_set_thread : forall st t th pc th',
  ginv st -> find_thread t (threads st) = Some th -> is_lifecycle (th_cmd th) = false ->
  In th' (set_thread t pc (threads st)) -> is_lifecycle (th_cmd th') = true -> In th' (threads st).
Proof.
  intros st t th pc th' G Hf Hlc Hin Hl. destruct (find_thread_in _ _ _ Hf) as [Hth Hid].
  apply in_set_thread in Hin. destruct Hin as (x & Hx & [[Hne ->]|[He ->]]); [exact Hx|].
  assert (x = th) as -> by (apply (nodup_ids_unique (threads st)); [apply (g_nodup _ G)|exact Hx|exact Hth|congruence]).
  cbn in Hl. congruence.
Qed.

(* a step of a thread whose command is not a lifecycle command (a flush), an
   observation or an edit *)
Lemma nonlife_step : forall st a st' evs,
  ginv st -> step st a = Some (st', evs) ->
  (forall t c, a <> ACall t c) -> (forall t, a <> AReturn t) -> (forall la, a <> ALoop la) -> a <> ANewManager ->
  (forall t th, actor a = Some t -> find_thread t (threads st) = Some th -> is_lifecycle (th_cmd th) = false) ->
  arch_file st' = arch_file st /\ same_shape st st' /\
  (forall th', In th' (threads st') -> is_lifecycle (th_cmd th') = true -> In th' (threads st)).
Proof.
  intros st a st' evs G H Hnc Hnr Hnl Hnm Hact.
  destruct a; try (exfalso; eapply Hnc; reflexivity); try (exfalso; eapply Hnr; reflexivity);
    try (exfalso; eapply Hnl; reflexivity); try (exfalso; apply Hnm; reflexivity);
    unfold_steps H; crunch.
  all: try match goal with
           | Hf : find_thread ?t _ = Some ?th |- _ =>
             pose proof (Hact t th eq_refl Hf) as Hlc;
             pose proof (g_pc _ G _ (proj1 (find_thread_in _ _ _ Hf))) as Gpc
           end.
  all: repeat match goal with E : th_pc _ = _ |- _ => rewrite E in * end.
  all: repeat match goal with E : th_cmd _ = _ |- _ => rewrite E in * end.
  all: try (cbn in Hlc); try discriminate.
  all: try (destruct (th_cmd t0) as [[]| | | | |[]|]; cbn in *; discriminate).
  all: unfold same_shape; cbn -[set_thread]; rewrite ?E2, ?E3, ?E4; cbn -[set_thread].
  all: repeat split; auto.
  all: try (intros th' Hin' Hl'; apply in_set_thread in Hin'; destruct Hin' as (x & Hx & [[Hne ->]|[He ->]]);
            [exact Hx|];
            match goal with Hf : find_thread _ _ = Some ?th |- _ =>
              assert (x = th) as -> by (eapply nodup_ids_unique; eauto using g_nodup, find_thread_in;
                                        [apply (find_thread_in _ _ _ Hf)|rewrite (proj2 (find_thread_in _ _ _ Hf)); congruence])
            end; cbn in Hl'; congruence).
  all: try (destruct (loop st); auto; fail).
  all: try (rewrite ?E2, ?E3, ?E4 in *; cbn; auto; fail).
  all: try (intros th' Hin' Hl';
            match goal with Hf : find_thread ?t _ = Some ?th, Ec : th_cmd ?th = _ |- _ =>
              assert (is_lifecycle (th_cmd th) = false) as Hlc' by (rewrite Ec; reflexivity);
              rewrite ?(proj2 (find_thread_in _ _ _ Hf)) in Hin';
              exact (lifecycle_in_set_thread st t th _ th' G Hf Hlc' Hin' Hl')
            end).
  all: try (intros th' Hin' Hl';
            match goal with Hf : find_thread ?t _ = Some ?th |- _ =>
              rewrite ?(proj2 (find_thread_in _ _ _ Hf)) in Hin';
              exact (lifecycle_in_set_thread st t th _ th' G Hf Hlc Hin' Hl')
            end).
  all: try (destruct (loop st'); auto; fail).
Qed.

(* the Reset thread's own steps: the archive is cleared while no loop exists,
   and the loop it starts is fresh *)
Lemma reset_own_step : forall st a st' evs t th,
  ginv st -> step st a = Some (st', evs) -> actor a = Some t ->
  find_thread t (threads st) = Some th -> th_cmd th = CReset -> reset_fact (th_pc th) st ->
  forall th', In th' (threads st') -> th_id th' = t -> th_cmd th' = CReset /\ reset_fact (th_pc th') st'.
Proof.
  intros st a st' evs t th G H Hact Hf Hc Hfact th' Hin' Hid'.
  destruct (find_thread_in _ _ _ Hf) as [Hin Hid].
  pose proof (g_pc _ G _ Hin) as Gpc.
  destruct th as [i c pc]. cbn in Hc, Hid, Gpc, Hfact. subst c i.
  destruct a; cbn in Hact; try discriminate; inv Hact; unfold_steps H; rewrite Hf in H; cbn in H; crunch;
    cbn -[set_thread] in Hin'.
  all: cbn in Gpc; try discriminate.
  all: apply in_set_thread in Hin'; destruct Hin' as (x & Hx & [[Hne ->]|[He ->]]); try (exfalso; congruence).
  all: match goal with Hin : In ?th0 (threads ?s0), G0 : ginv ?s0 |- _ =>
         assert (x = th0) as -> by (apply (nodup_ids_unique (threads s0)); [apply (g_nodup _ G0)|exact Hx|exact Hin|exact He])
       end.
  all: cbn; split; [reflexivity|]; unfold reset_fact, loop_fresh in *; cbn; auto.
  - match goal with E : loop _ = None |- _ => rewrite E end. auto.
  - destruct (aok && ok); [|exact I]. destruct Hfact as [_ Ha]. repeat split; auto.
Qed.

Lemma other_events_quiet : forall st a st' evs,
  step st a = Some (st', evs) ->
  (forall t c, a <> ACall t c) -> (forall t, a <> AReturn t) -> (forall la, a <> ALoop la) ->
  a <> ANewManager -> a <> AObserveA ->
  forallb (fun e => negb (is_call_ret e) && negb (sn_event e)
                    && match e with Nm _ | ObA _ _ _ => false | _ => true end) evs = true.
Proof.
  intros st a st' evs H Hnc Hnr Hnl Hnm Hno.
  destruct a; try (exfalso; eapply Hnc; reflexivity); try (exfalso; eapply Hnr; reflexivity);
    try (exfalso; eapply Hnl; reflexivity); try (exfalso; apply Hnm; reflexivity);
    try (exfalso; apply Hno; reflexivity); unfold_steps H; crunch; reflexivity.
Qed.

Lemma reset_fact_shape : forall pc st st',
  same_shape st st' -> arch_file st' = arch_file st -> reset_fact pc st -> reset_fact pc st'.
Proof.
  intros pc st st' Hs Ha Hf. unfold reset_fact in *.
  assert (loop st = None -> loop st' = None) as Hn.
  { unfold same_shape in Hs. intro E. rewrite E in Hs. destruct (loop st'); [contradiction|reflexivity]. }
  destruct pc; auto.
  - destruct Hf. split; [auto|congruence].
  - destruct Hf. split; [auto|congruence].
  - destruct ok; auto. destruct Hf. split; [congruence|eapply same_shape_fresh; eassumption].
Qed.

Lemma rrel_other : forall m st a st' evs,
  rrel m st -> step st a = Some (st', evs) ->
  (forall t c, a <> ACall t c) -> (forall t, a <> AReturn t) -> (forall la, a <> ALoop la) ->
  exists m', mon_run rmon_step m evs = Some m' /\ rrel m' st'.
Proof.
  intros m st a st' evs R H Hnc Hnr Hnl. destruct R as [G Hact Hcur Hcth Harm Hfresh].
  pose proof (ginv_step _ _ _ _ G H) as G'.
  destruct (step_keys _ _ _ _ H Hnc Hnr) as [Hk _].
  assert (Hact' : r_act m = keys (threads st')) by (rewrite Hk; exact Hact).
  destruct (action_eq_dec_nm a) as [->|Hnm].
  - (* a new manager: the monitor drops everything *)
    cbn in H. crunch; cbn [mon_run rmon_step r_act act_step]; eexists; (split; [reflexivity|]);
      constructor; cbn; try assumption; try discriminate; intros; discriminate.
  - destruct (action_eq_dec_oa a) as [->|Hno].
    + (* the archive is observed *)
      cbn in H. inv H. cbn [mon_run rmon_step].
      assert (R : rrel m st') by (constructor; assumption).
      destruct (r_fresh m) eqn:Ef.
      * destruct (Harm _ _ (Hfresh eq_refl)) as (_ & _ & Ha & _). rewrite Ha. exists m. split; [reflexivity|exact R].
      * exists m. split; [reflexivity|exact R].
    + pose proof (other_events_quiet _ _ _ _ H Hnc Hnr Hnl Hnm Hno) as Hq.
      exists m. split; [apply rmon_run_quiet; exact Hq|].
      assert (Hnonlife : (forall th, In th (threads st) -> actor a = Some (th_id th) -> is_lifecycle (th_cmd th) = false) ->
                         arch_file st' = arch_file st /\ same_shape st st' /\
                         (forall th', In th' (threads st') -> is_lifecycle (th_cmd th') = true -> In th' (threads st))).
      { intro Hx. apply (nonlife_step _ _ _ _ G H Hnc Hnr Hnl Hnm).
        intros t th Ha Hf. destruct (find_thread_in _ _ _ Hf) as [Hin Hid]. apply Hx; [exact Hin|congruence]. }
      constructor; try assumption.
      * intros t Hc. destruct (Hcur t Hc) as [Hol Hth]. split.
        -- intros th' Hin' Hl'. destruct (keys_transfer _ _ _ Hk Hin') as (x & Hx & Hxid & Hxc).
           rewrite <- Hxid. apply Hol; congruence.
        -- intros th' Hin' Hid'.
           destruct (actor a) as [ta|] eqn:Eact.
           ++ destruct (Nat.eq_dec ta t) as [->|Hne].
              ** (* the Reset's own step *)
                 destruct (Hcth t _ Hc) as (th & Hin & Hid & Hcmd).
                 assert (find_thread t (threads st) = Some th) as Hf.
                 { rewrite <- Hid. apply in_find_thread_nodup; [apply (g_nodup _ G)|exact Hin]. }
                 apply (reset_own_step st a st' evs t th G H Eact Hf Hcmd (proj2 (Hth th Hin Hid)) th' Hin' Hid').
              ** (* another thread: not a lifecycle command *)
                 destruct Hnonlife as (Ha & Hs & Hsub).
                 { intros th Hin Hact0. inv Hact0. destruct (is_lifecycle (th_cmd th)) eqn:E; [|reflexivity].
                   exfalso. apply Hne. apply Hol; assumption. }
                 destruct (keys_transfer _ _ _ Hk Hin') as (x & Hx & Hxid & Hxc).
                 assert (th_cmd th' = CReset) as Hc' by (rewrite <- Hxc; apply Hth; congruence).
                 assert (In th' (threads st)) as Hold by (apply Hsub; [exact Hin'|rewrite Hc'; reflexivity]).
                 destruct (Hth th' Hold Hid') as [_ Hfact]. split; [exact Hc'|].
                 eapply reset_fact_shape; eassumption.
           ++ destruct Hnonlife as (Ha & Hs & Hsub); [intros; discriminate|].
              destruct (keys_transfer _ _ _ Hk Hin') as (x & Hx & Hxid & Hxc).
              assert (th_cmd th' = CReset) as Hc' by (rewrite <- Hxc; apply Hth; congruence).
              assert (In th' (threads st)) as Hold by (apply Hsub; [exact Hin'|rewrite Hc'; reflexivity]).
              destruct (Hth th' Hold Hid') as [_ Hfact]. split; [exact Hc'|].
              eapply reset_fact_shape; eassumption.
      * intros t gs Hc. destruct (Hcth t gs Hc) as (th & Hin & Hid & Hcmd).
        assert (keys (threads st) = keys (threads st')) as Hk' by (symmetry; exact Hk).
        destruct (keys_transfer _ _ _ Hk' Hin) as (x & Hx & Hxid & Hxc). exists x. repeat split; congruence.
      * intros pa pb Ha. destruct (Harm pa pb Ha) as (Hor & Hnlc & Harc & Ho).
        destruct Hnonlife as (Ha' & Hs & Hsub); [intros th Hin _; apply Hnlc; exact Hin|].
        repeat split; auto.
        -- intros th' Hin'. destruct (keys_transfer _ _ _ Hk Hin') as (x & Hx & Hxid & Hxc). rewrite <- Hxc. apply Hnlc. exact Hx.
        -- congruence.
        -- eapply same_shape_owed; eassumption.
Qed.

Lemma fresh_owed : forall st, loop_fresh st -> owed_ok true true st.
Proof.
  intros st H. unfold loop_fresh, owed_ok in *. destruct (loop st) as [l|]; [|exact I].
  destruct H as [Hp Hl]. destruct (lp l); cbn in *; try discriminate; auto.
  destruct sa, sb; try discriminate. repeat split; auto.
Qed.

Lemma same_shape_refl_of : forall st st', loop st' = loop st -> same_shape st st'.
Proof. intros st st' H. unfold same_shape. rewrite H. destruct (loop st); auto. Qed.

Lemma any_active_lifecycle_false : forall ths,
  any_active is_lifecycle (keys ths) = false -> forall th, In th ths -> is_lifecycle (th_cmd th) = false.
Proof.
  intros ths H th Hin. unfold any_active in H.
  pose proof (existsb_false_forall _ _ _ H (th_id th, th_cmd th)) as Hx. cbn in Hx. apply Hx.
  unfold keys. apply in_map_iff. eauto.
Qed.

Lemma rrel_call : forall m st t c st' evs,
  rrel m st -> step st (ACall t c) = Some (st', evs) ->
  exists m', mon_run rmon_step m evs = Some m' /\ rrel m' st'.
Proof.
  intros m st t c st' evs R H. destruct R as [G Hact Hcur Hcth Harm Hfresh].
  pose proof (ginv_step _ _ _ _ G H) as G'.
  destruct (step_call _ _ _ _ _ H) as (-> & Hths & _ & Hbound & _).
  assert (Hkeys : keys (threads st') = (t, c) :: keys (threads st)) by (rewrite Hths; reflexivity).
  assert (Hsame : arch_file st' = arch_file st /\ loop st' = loop st) by (cbn in H; crunch; split; reflexivity).
  destruct Hsame as [Harch Hloop]. pose proof (same_shape_refl_of _ _ Hloop) as Hshape.
  assert (Hnotin : forall th, In th (threads st) -> th_id th <> t).
  { intros th Hin E. pose proof (proj1 (Forall_forall _ _) (g_bound _ G) _ Hin) as Hb. cbn in Hb. lia. }
  cbn [mon_run]. unfold rmon_step. cbn [act_step].
  destruct (is_lifecycle c) eqn:Elc.
  - eexists. split; [reflexivity|]. constructor; cbn; try assumption; try discriminate.
    + rewrite Hact, Hkeys. reflexivity.
    + intros t0 Hc.
      destruct (is_reset c && negb (any_active is_lifecycle (r_act m))) eqn:Enew.
      * inv Hc. apply andb_prop in Enew. destruct Enew as [Er Ena]. apply negb_true_iff in Ena. rewrite Hact in Ena.
        assert (c = CReset) as -> by (destruct c; try discriminate; reflexivity).
        split.
        -- intros th Hin Hl. rewrite Hths in Hin. destruct Hin as [<-|Hin]; [reflexivity|].
           rewrite (any_active_lifecycle_false _ Ena th Hin) in Hl. discriminate.
        -- intros th Hin Hid. rewrite Hths in Hin. destruct Hin as [<-|Hin]; [cbn; auto|].
           exfalso. eapply Hnotin; eassumption.
      * destruct (r_cur m) as [[t1 [g1 s1]]|]; discriminate.
    + intros t0 gs Hc.
      destruct (is_reset c && negb (any_active is_lifecycle (r_act m))) eqn:Enew.
      * inv Hc. apply andb_prop in Enew. destruct Enew as [Er _].
        eexists. split; [rewrite Hths; left; reflexivity|]. cbn. split; [reflexivity|].
        destruct c; try discriminate; reflexivity.
      * destruct (r_cur m) as [[t1 [g1 s1]]|] eqn:Ec; [|discriminate]. inv Hc.
        destruct (Hcth t0 _ eq_refl) as (th & Hin & Hid & Hcmd). exists th. repeat split; auto.
        rewrite Hths. right. exact Hin.
  - eexists. split; [reflexivity|].
    assert (Hnew : forall th, In th (threads st') -> In th (threads st) \/ (th_id th = t /\ th_cmd th = c)).
    { intros th Hin. rewrite Hths in Hin. destruct Hin as [<-|Hin]; [right; auto|left; exact Hin]. }
    constructor; cbn; try assumption.
    + rewrite Hact, Hkeys. reflexivity.
    + intros t0 Hc. destruct (Hcur t0 Hc) as [Hol Hth]. destruct (Hcth t0 _ Hc) as (th0 & Hin0 & Hid0 & _).
      split.
      * intros th Hin Hl. destruct (Hnew th Hin) as [Hold|[_ Hcc]]; [apply Hol; assumption|congruence].
      * intros th Hin Hid. destruct (Hnew th Hin) as [Hold|[Hidn _]].
        -- destruct (Hth th Hold Hid) as [Hcmd Hf]. split; [exact Hcmd|]. eapply reset_fact_shape; eassumption.
        -- exfalso. apply (Hnotin th0 Hin0). congruence.
    + intros t0 gs Hc. destruct (Hcth t0 gs Hc) as (th & Hin & Hid & Hcmd). exists th. repeat split; auto.
      rewrite Hths. right. exact Hin.
    + intros pa pb Ha. destruct (Harm pa pb Ha) as (Hor & Hnlc & Harc & Ho). repeat split; auto.
      * intros th Hin. destruct (Hnew th Hin) as [Hold|[_ Hcc]]; [apply Hnlc; exact Hold|congruence].
      * congruence.
      * eapply same_shape_owed; eassumption.
Qed.

Lemma rrel_return : forall m st t st' evs,
  rrel m st -> step st (AReturn t) = Some (st', evs) ->
  exists m', mon_run rmon_step m evs = Some m' /\ rrel m' st'.
Proof.
  intros m st t st' evs R H. destruct R as [G Hact Hcur Hcth Harm Hfresh].
  pose proof (ginv_step _ _ _ _ G H) as G'.
  destruct (step_return _ _ _ _ H) as (th & ok & Hf & Hpc & Hths & ->).
  destruct (find_thread_in _ _ _ Hf) as [Hin Hid].
  assert (Hkeys : keys (threads st') = act_remove t (keys (threads st))) by (rewrite Hths; apply keys_remove_thread).
  assert (Hsame : arch_file st' = arch_file st /\ loop st' = loop st).
  { cbn in H. rewrite Hf, Hpc in H. inv H. split; reflexivity. }
  destruct Hsame as [Harch Hloop]. pose proof (same_shape_refl_of _ _ Hloop) as Hshape.
  assert (Hsub : forall x, In x (threads st') -> In x (threads st) /\ th_id x <> t).
  { intros x Hx. rewrite Hths in Hx. apply in_remove_thread in Hx. exact Hx. }
  assert (Hgeneric : forall cur armed fresh,
            (forall t0, cur = Some (t0, (true, false)) -> r_cur m = Some (t0, (true, false)) /\ t0 <> t) ->
            (forall t0 gs, cur = Some (t0, gs) -> r_cur m = Some (t0, gs) /\ t0 <> t) ->
            (forall pa pb, armed = Some (pa, pb) ->
               (pa = true \/ pb = true) /\ no_lifecycle st' /\ arch_file st' = Some None /\ owed_ok pa pb st') ->
            (fresh = true -> armed = Some (true, true)) ->
            rrel {| r_act := act_remove t (r_act m); r_cur := cur; r_armed := armed; r_fresh := fresh |} st').
  { intros cur armed fresh H1 H2 H3 H4. constructor; cbn; try assumption.
    - rewrite Hact, Hkeys. reflexivity.
    - intros t0 Hc. destruct (H1 t0 Hc) as [Hc0 Hne]. destruct (Hcur t0 Hc0) as [Hol Hth]. split.
      + intros x Hx Hl. apply Hol; [apply Hsub; exact Hx|exact Hl].
      + intros x Hx Hxid. destruct (Hth x (proj1 (Hsub x Hx)) Hxid) as [Hcmd Hfact]. split; [exact Hcmd|].
        eapply reset_fact_shape; eassumption.
    - intros t0 gs Hc. destruct (H2 t0 gs Hc) as [Hc0 Hne]. destruct (Hcth t0 gs Hc0) as (x & Hx & Hxid & Hxc).
      exists x. repeat split; auto. rewrite Hths. apply in_remove_thread. split; [exact Hx|congruence]. }
  assert (Harm' : forall pa pb, r_armed m = Some (pa, pb) ->
            (pa = true \/ pb = true) /\ no_lifecycle st' /\ arch_file st' = Some None /\ owed_ok pa pb st').
  { intros pa pb Ha. destruct (Harm pa pb Ha) as (Hor & Hnlc & Harc & Ho). repeat split; auto.
    - intros x Hx. apply Hnlc. apply Hsub. exact Hx.
    - congruence.
    - eapply same_shape_owed; eassumption. }
  cbn [mon_run]. unfold rmon_step. cbn [act_step].
  destruct (r_cur m) as [[t0 [good sn]]|] eqn:Ecur.
  - destruct (Nat.eqb t0 t) eqn:Et.
    + apply Nat.eqb_eq in Et. subst t0.
      set (ok' := match th_cmd th with CShutdown => true | _ => ok end).
      destruct (good && ok' && negb sn) eqn:Egood.
      * (* the undisturbed Reset returned nil and no scan was entered meanwhile *)
        apply andb_prop in Egood. destruct Egood as [Eg Esn]. apply andb_prop in Eg. destruct Eg as [Eg Eok].
        apply negb_true_iff in Esn. subst good sn.
        destruct (Hcur t eq_refl) as [Hol Hth]. destruct (Hth th Hin Hid) as [Hcmd Hfact].
        assert (ok = true) as -> by (unfold ok' in Eok; rewrite Hcmd in Eok; exact Eok).
        rewrite Hpc in Hfact. cbn in Hfact. destruct Hfact as [Ha Hfr].
        eexists. split; [reflexivity|]. apply Hgeneric; try (intros; discriminate).
        -- intros pa pb E. inv E. repeat split; auto.
           ++ intros x Hx. destruct (Hsub x Hx) as [Hx0 Hne].
              destruct (is_lifecycle (th_cmd x)) eqn:El; [|reflexivity]. exfalso. apply Hne. apply Hol; assumption.
           ++ congruence.
           ++ eapply same_shape_owed; [exact Hshape|]. apply fresh_owed. exact Hfr.
        -- reflexivity.
      * eexists. split; [reflexivity|]. apply Hgeneric; intros; discriminate.
    + apply Nat.eqb_neq in Et. eexists. split; [reflexivity|]. apply Hgeneric.
      * intros t1 E. inv E. auto.
      * intros t1 gs E. inv E. auto.
      * exact Harm'.
      * exact Hfresh.
  - eexists. split; [reflexivity|]. apply Hgeneric; try (intros; discriminate); assumption.
Qed.

Lemma rrel_init : forall md manual, rrel rmon_init (init_state md manual).
Proof.
  intros. constructor; cbn; try (intros; discriminate).
  - apply ginv_init.
  - reflexivity.
Qed.

Lemma rrel_step : forall m st a st' evs,
  rrel m st -> step st a = Some (st', evs) -> exists m', mon_run rmon_step m evs = Some m' /\ rrel m' st'.
Proof.
  intros m st a st' evs R H.
  destruct a; try (eapply rrel_other; try eassumption; intros; discriminate).
  - eapply rrel_call; eassumption.
  - eapply rrel_return; eassumption.
  - cbn in H. destruct (loop st) as [l|] eqn:El; [|discriminate]. eapply rrel_loop; eassumption.
Qed.

(* every trace of the machine is accepted by the reset monitor *)
Theorem reset_monitor_accepts : forall md manual st tr,
  reach (init_state md manual) st tr -> check_reset tr = true.
Proof.
  intros md manual st tr H. unfold check_reset.
  eapply (simulation_accepts rmon rmon_step rrel); [apply rrel_init|apply rrel_step|exact H].
Qed.

(* ------------------------------------------------------------------ *)
(* model-level facts about Reset *)

(* a thread past the join of the old loop (and before it starts the new one)
   sees no loop *)
Definition post_pc (pc : tpc) : bool :=
  match pc with TResetArch | TResetResume | TConn _ _ => true | _ => false end.

Definition postjoin (st : cstate) : Prop :=
  forall th, In th (threads st) -> post_pc (th_pc th) = true -> loop st = None.

Lemma postjoin_step : forall st a st' evs,
  ginv st -> postjoin st -> step st a = Some (st', evs) -> postjoin st'.
Proof.
  intros st a st' evs G P H th' Hin' Hpc'.
  destruct a.
  15: { (* loop steps: a thread past the join excludes a loop *)
    cbn in H. destruct (loop st) as [l|] eqn:El; [|discriminate].
    destruct (loop_step_frame _ _ _ _ _ H) as [F _]. rewrite (fr_threads _ _ F) in Hin'.
    specialize (P th' Hin' Hpc'). congruence. }
  all: unfold_steps H; crunch; cbn -[set_thread] in Hin' |- *.
  all: try (apply (P th'); assumption).
  all: try (destruct Hin' as [<-|Hin']; [cbn in Hpc'; try destruct (is_create c); discriminate|apply (P th'); assumption]).
  all: try (apply in_remove_thread in Hin'; apply (P th'); tauto).
  all: try (rewrite E in Hin'; destruct Hin').
  all: match goal with
       | Hf : find_thread _ _ = Some ?x |- _ =>
         let Hx := fresh "Hx" in let Hid := fresh "Hid" in
         destruct (find_thread_in _ _ _ Hf) as [Hx Hid];
         apply in_set_thread in Hin'; destruct Hin' as (y & Hy & [[Hne ->]|[He ->]])
       end.
  (* an untouched thread past the join: there was no loop, and only the lock
     holder can have started one *)
  all: try (pose proof (P y Hy Hpc') as Pn; try congruence; try exact Pn;
            exfalso; apply Hne;
            match goal with Hf : find_thread _ _ = Some ?x, Epc : th_pc ?x = _ |- _ =>
              rewrite <- (proj2 (find_thread_in _ _ _ Hf));
              apply (g_lock _ G y x Hy (proj1 (find_thread_in _ _ _ Hf)));
              [unfold holds_lock; destruct (th_pc y); try discriminate; reflexivity
              |unfold holds_lock; rewrite Epc; reflexivity]
            end).
  all: try (cbn in Hpc'; discriminate).
  all: try assumption.
  all: try (cbn in Hpc'; destruct wait; discriminate).
  all: try (apply (P t0 Hx); rewrite E0; reflexivity).
  all: try (exfalso; apply Hne;
            first [ apply (g_lock _ G y t0 Hy Hx) | rewrite <- Hid; apply (g_lock _ G y t0 Hy Hx) ];
            [unfold holds_lock; destruct (th_pc y); try discriminate; reflexivity
            |unfold holds_lock; rewrite E0; reflexivity]).
  (* Create takes the lock: nothing exists yet *)
  assert (is_create (th_cmd t0) = true) as Hc by (rewrite E2; reflexivity).
  assert (idle t0 = false) as Hi by (unfold idle; rewrite E0; reflexivity).
  destruct (g_creating _ G _ Hx Hc Hi) as (_ & _ & Hl). exact Hl.
Qed.


Lemma postjoin_reach : forall md manual st tr, reach (init_state md manual) st tr -> postjoin st.
Proof.
  intros md manual st tr H. induction H.
  - intros th [].
  - eapply postjoin_step; [eapply ginv_reach; eassumption|eassumption|eassumption].
Qed.

(* a Reset writes the archive only in a state without loop, and what it writes
   is the empty archive *)
Theorem reset_writes_without_loop : forall md manual st tr a st' evs x,
  reach (init_state md manual) st tr ->
  step st a = Some (st', evs) -> In (IWriteArchive true x) evs ->
  loop st = None /\ x = None /\ arch_file st' = Some None.
Proof.
  intros md manual st tr a st' evs x Hr H Hin.
  pose proof (postjoin_reach _ _ _ _ Hr) as P.
  destruct a; unfold_steps H; crunch; cbn in Hin;
    repeat (destruct Hin as [Hin|Hin]; [try discriminate; try (inv Hin; auto)|]); try contradiction.
  all: try (destruct (loop_step_frame _ _ _ _ _ H) as [_ Hev];
            rewrite forallb_forall in Hev; specialize (Hev _ Hin); discriminate).
  repeat split; auto. apply (P t0 (proj1 (find_thread_in _ _ _ E))). rewrite E0. reflexivity.
Qed.

(* the steps of command threads never enter or leave an endpoint method: only
   loop steps do (Connect is not an endpoint method) *)
Definition endpoint_method_event (e : event) : bool :=
  match e with
  | En _ _ | Ex _ _ _ | Sn _ _ _ | Sx _ _ _ _ | Tn _ _ | Tx _ _ _ => true
  | _ => false
  end.

Theorem thread_steps_call_no_endpoint : forall st a st' evs,
  step st a = Some (st', evs) -> (forall la, a <> ALoop la) ->
  forallb (fun e => negb (endpoint_method_event e)) evs = true.
Proof.
  intros st a st' evs H Hnl.
  destruct a; try (exfalso; eapply Hnl; reflexivity); unfold_steps H; crunch; reflexivity.
Qed.
