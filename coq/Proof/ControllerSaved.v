(* C29, flush (saved before the answer): every trace of the controller machine
   is accepted by the monitor smon (Model/ControllerCheck.v): once Flush(wait)
   has returned nil after exactly one scan per side since its call and with no
   lifecycle command active, the archive file does not change any more until
   the next scan is entered or a lifecycle command is called. *)
From Coq Require Import List Bool Arith String Lia.
Import ListNotations.
From Mv Require Import Model.Entry Model.Reconcile Model.Safety Model.Controller Model.ControllerCheck
     Proof.ControllerBase Proof.ControllerFlush Proof.ControllerReset.
Local Open Scope list_scope.

(* the loop cannot write the archive before it enters a scan *)
Definition loop_idle (st : cstate) : Prop :=
  match loop st with None => True | Some l => prescan (lp l) = true end.

Definition cfreq_ok (na nb : nat) (p : lpc) : Prop :=
  match p with
  | LScan sa sb _ _ => (sa <> PIdle -> 1 <= na) /\ (sb <> PIdle -> 1 <= nb)
  | LReconcile _ _ | LStage _ _ _ | LTrans _ _ _ _ _ _ _ | LSave _ _ _ _ _ | LRespond => 1 <= na /\ 1 <= nb
  | _ => True
  end.

Definition cnt_ok (st : cstate) (e : tid * (nat * nat)) : Prop :=
  let '(t, (na, nb)) := e in
  (mem_tid t (answered st) = true -> 1 <= na /\ 1 <= nb /\ (na = 1 -> nb = 1 -> loop_idle st)) /\
  (forall l, loop st = Some l -> lfreq l = Some t -> cfreq_ok na nb (lp l)).

Definition cnt_step (e : event) (c : tid * (nat * nat)) : tid * (nat * nat) :=
  match e with
  | Sn Alpha _ _ => (fst c, (S (fst (snd c)), snd (snd c)))
  | Sn Beta _ _ => (fst c, (fst (snd c), S (snd (snd c))))
  | _ => c
  end.

Definition cnt_run (evs : list event) (c : tid * (nat * nat)) : tid * (nat * nat) :=
  fold_left (fun y e => cnt_step e y) evs c.

Ltac unfold_loop H :=
  unfold loop_step in H;
  unfold step_conn, step_sync_init, step_top, step_poll, step_scan, step_rescan_wait, step_reconcile,
         step_stage, step_trans, step_save, step_respond, step_end, step_after, step_exit in H.

Lemma cnt_ok_loop_step : forall st l a st' evs c,
  loop st = Some l -> loop_step st l a = Some (st', evs) -> cnt_ok st c -> cnt_ok st' (cnt_run evs c).
Proof.
  intros st l a st' evs [t [na nb]] Hl H [Hans Hfreq].
  specialize (Hfreq l Hl). unfold loop_idle in Hans. rewrite Hl in Hans.
  unfold_loop H.
  destruct (lp l) eqn:Elp; try rewrite Elp in H; crunch; unfold cnt_run; cbn [fold_left cnt_step fst snd].
  all: unfold cnt_ok, loop_idle; cbn [answered st_with_loop st_with_status st_with_arch st_with_answered loop].
  all: split;
    [ intro Ha; cbn in Ha
    | intros l0 Hl0 Hf0; inv Hl0; cbn in Hf0; try discriminate; try (specialize (Hfreq Hf0));
      rewrite ?Elp in Hfreq; cbn in Hfreq |- * ].
  all: try (specialize (Hans Ha)).
  all: cbn in *.
  all: try (intuition (try lia; try discriminate; try congruence); fail).
  - destruct Hans as (A & B & C). repeat split; auto. intros H1 H2. specialize (C H1 H2).
    destruct sa, sb; cbn in *; discriminate.
  - destruct sa, sb; cbn in E0; try discriminate. destruct Hfreq as [A B]. split; [apply A|apply B]; discriminate.
  - apply orb_prop in Ha. destruct Ha as [Ha|Ha].
    + apply Nat.eqb_eq in Ha. subst t0. destruct (Hfreq eq_refl) as [A B]. auto.
    + destruct (Hans Ha) as (A & B & _). auto.
  - destruct Hans as (A & B & C). repeat split; auto. intros. destruct h; reflexivity.
  - destruct h; exact I.
Qed.

Lemma idle_step : forall st l a st' evs,
  loop st = Some l -> loop_step st l a = Some (st', evs) -> loop_idle st ->
  forallb (fun e => negb (sn_event e)) evs = true ->
  loop_idle st' /\ arch_ver st' = arch_ver st.
Proof.
  intros st l a st' evs Hl H Hi Hns. unfold loop_idle in *. rewrite Hl in Hi.
  unfold_loop H.
  destruct (lp l) eqn:Elp; try rewrite Elp in H; cbn in Hi; try discriminate; crunch; cbn in *; try discriminate.
  all: try (split; reflexivity).
  all: try (destruct sa, sb; cbn in *; discriminate).
  - destruct sa; discriminate.
  - destruct h; split; reflexivity.
Qed.

(* steps other than loop steps keep an idle loop idle *)
Lemma nonloop_idle : forall st a st' evs,
  step st a = Some (st', evs) -> (forall la, a <> ALoop la) -> loop_idle st -> loop_idle st'.
Proof.
  intros st a st' evs H Hnl Hi. unfold loop_idle in *.
  destruct a; try (exfalso; eapply Hnl; reflexivity); unfold_steps H; crunch; cbn.
  all: try exact Hi.
  all: try reflexivity.
  all: try (match goal with E : loop _ = Some _ |- _ => rewrite E in Hi end; exact Hi).
  all: try exact I.
  all: try (match goal with E : loop _ = _ |- _ => rewrite E end; try exact I; try exact Hi).
  all: try (match goal with E : loop _ = _ |- _ => rewrite E in Hi end; exact Hi).
Qed.

(* ------------------------------------------------------------------ *)
(* the simulation relation *)

Record srel (m : smon) (st : cstate) : Prop := {
  sr_frel : exists mf, frel mf st;
  sr_act : s_act m = keys (threads st);
  sr_ids : map fst (s_counts m) = wait_ids (threads st);
  sr_cnt : Forall (cnt_ok st) (s_counts m);
  sr_anchor : forall v, s_anchor m = Some v ->
                        no_lifecycle st /\ loop_idle st /\ (forall s, v = Some s -> arch_ver st = s)
}.

Definition squiet (e : event) : bool :=
  negb (is_call_ret e) && negb (sn_event e) && match e with Nm _ | ObA _ _ _ => false | _ => true end.

Lemma smon_quiet_event : forall m e, squiet e = true -> smon_step m e = Some m.
Proof.
  intros [a c an] e H. unfold squiet in H. destruct e; cbn in *; try discriminate; reflexivity.
Qed.

Lemma smon_run_quiet : forall evs m, forallb squiet evs = true -> mon_run smon_step m evs = Some m.
Proof.
  induction evs as [|e r IH]; intros m H; [reflexivity|]. cbn in *.
  apply andb_prop in H. destruct H as [He Hr]. rewrite smon_quiet_event by exact He. apply IH. exact Hr.
Qed.

Lemma cnt_run_nosn : forall evs c, forallb (fun e => negb (sn_event e)) evs = true -> cnt_run evs c = c.
Proof.
  induction evs as [|e r IH]; intros c H; [reflexivity|]. cbn in H. apply andb_prop in H. destruct H as [He Hr].
  unfold cnt_run in *. cbn. rewrite IH by exact Hr. destruct e; try discriminate; reflexivity.
Qed.

Lemma quiet_nosn : forall evs, forallb squiet evs = true -> forallb (fun e => negb (sn_event e)) evs = true.
Proof.
  induction evs as [|e r IH]; intro H; [reflexivity|]. cbn in *. apply andb_prop in H. destruct H as [He Hr].
  rewrite (IH Hr). unfold squiet in He. apply andb_prop in He. destruct He as [He _]. apply andb_prop in He.
  destruct He as [_ He]. rewrite He. reflexivity.
Qed.

Lemma srel_loop : forall m st l a st' evs,
  srel m st -> loop st = Some l -> loop_step st l a = Some (st', evs) ->
  exists m', mon_run smon_step m evs = Some m' /\ srel m' st'.
Proof.
  intros m st l a st' evs R Hl H. destruct R as [[mf Hf] Hact Hids Hcnt Hanc].
  destruct (frel_loop _ _ _ _ _ _ Hf Hl H) as (mf' & _ & Hf').
  destruct (loop_step_frame _ _ _ _ _ H) as [F _].
  assert (Hths : threads st' = threads st) by apply (fr_threads _ _ F).
  destruct (loop_step_sn _ _ _ _ _ H) as [Hq|(sa & sb & ra & rb & s & Elp & -> & Harch & Hside)].
  - pose proof (quiet_nosn _ Hq) as Hns.
    exists m. split; [apply smon_run_quiet; exact Hq|]. constructor.
    + eauto.
    + rewrite Hths. exact Hact.
    + rewrite Hths. exact Hids.
    + eapply Forall_impl; [|exact Hcnt]. intros c Hc.
      rewrite <- (cnt_run_nosn evs c Hns). eapply cnt_ok_loop_step; eassumption.
    + intros v Hv. destruct (Hanc v Hv) as (Hnl & Hi & Hver).
      destruct (idle_step _ _ _ _ _ Hl H Hi Hns) as [Hi' Hv'].
      repeat split; auto.
      * unfold no_lifecycle. rewrite Hths. exact Hnl.
      * intros s0 Hs0. rewrite Hv'. apply Hver. exact Hs0.
  - destruct m as [mact mcnt manc]. cbn in Hact, Hids, Hcnt, Hanc.
    cbn [mon_run smon_step s_act s_counts s_anchor act_step].
    eexists. split; [reflexivity|]. constructor; cbn.
    + eauto.
    + rewrite Hths. exact Hact.
    + rewrite Hths, <- Hids. unfold cnt_bump. rewrite map_map. apply map_ext. intros [t [na nb]]. destruct s; reflexivity.
    + unfold cnt_bump. apply Forall_forall. intros y Hy. apply in_map_iff in Hy. destruct Hy as (c & <- & Hc).
      pose proof (cnt_ok_loop_step _ _ _ _ _ c Hl H (proj1 (Forall_forall _ _) Hcnt c Hc)) as Hok.
      destruct c as [t [na nb]]. destruct s; exact Hok.
    + intros; discriminate.
Qed.

(* a step of a non-lifecycle thread leaves the archive's write counter alone *)
Lemma nonlife_ver : forall st a st' evs,
  ginv st -> step st a = Some (st', evs) ->
  (forall t c, a <> ACall t c) -> (forall t, a <> AReturn t) -> (forall la, a <> ALoop la) -> a <> ANewManager ->
  (forall t th, actor a = Some t -> find_thread t (threads st) = Some th -> is_lifecycle (th_cmd th) = false) ->
  arch_ver st' = arch_ver st.
Proof.
  intros st a st' evs G H Hnc Hnr Hnl Hnm Hact.
  destruct a; try (exfalso; eapply Hnc; reflexivity); try (exfalso; eapply Hnr; reflexivity);
    try (exfalso; eapply Hnl; reflexivity); try (exfalso; apply Hnm; reflexivity);
    unfold_steps H; crunch.
  all: try match goal with
           | Hf : find_thread ?t _ = Some ?th |- _ =>
             pose proof (Hact t th eq_refl Hf) as Hlc;
             pose proof (g_pc _ G _ (proj1 (find_thread_in _ _ _ Hf))) as Gpc
           end.
  all: repeat match goal with E : th_pc _ = _ |- _ => rewrite E in * end.
  all: repeat match goal with E : th_cmd _ = _ |- _ => rewrite E in * end.
  all: try (cbn in Hlc); try discriminate.
  all: try (destruct (th_cmd t0) as [[]| | | | |[]|]; cbn in *; discriminate).
  all: reflexivity.
Qed.

Lemma srel_other : forall m st a st' evs,
  srel m st -> step st a = Some (st', evs) ->
  (forall t c, a <> ACall t c) -> (forall t, a <> AReturn t) -> (forall la, a <> ALoop la) ->
  exists m', mon_run smon_step m evs = Some m' /\ srel m' st'.
Proof.
  intros m st a st' evs R H Hnc Hnr Hnl. destruct R as [[mf Hf] Hact Hids Hcnt Hanc].
  pose proof (fr_ginv _ _ Hf) as G.
  destruct (frel_other _ _ _ _ _ Hf H Hnc Hnr Hnl) as [_ Hf'].
  destruct (step_keys _ _ _ _ H Hnc Hnr) as [Hk _].
  destruct (nonloop_facts _ _ _ _ H Hnl) as (Hans & _ & Hloop).
  assert (Hact' : s_act m = keys (threads st')) by (rewrite Hk; exact Hact).
  assert (Hids' : map fst (s_counts m) = wait_ids (threads st')).
  { rewrite Hids. symmetry. apply wait_ids_keys. exact Hk. }
  assert (Hcnt' : Forall (cnt_ok st') (s_counts m)).
  { eapply Forall_impl; [|exact Hcnt]. intros [t [na nb]] [H1 H2]. split.
    - rewrite Hans. intro Ha. destruct (H1 Ha) as (A & B & C). repeat split; auto.
      intros E1 E2. eapply nonloop_idle; eauto.
    - intros l' Hl' Hf0. destruct (Hloop l' Hl') as [[Hn _]|(l & Hl & Hfe & Hpe & _)]; [congruence|].
      rewrite Hpe. apply (H2 l Hl). congruence. }
  assert (Hnlc' : no_lifecycle st -> no_lifecycle st').
  { intros Hn th' Hin'. destruct (keys_transfer _ _ _ Hk Hin') as (x & Hx & _ & Hxc). rewrite <- Hxc. apply Hn. exact Hx. }
  destruct (action_eq_dec_nm a) as [->|Hnm].
  - (* a new manager: the anchor is dropped *)
    cbn in H. crunch; cbn [mon_run smon_step s_act act_step]; eexists; (split; [reflexivity|]);
      constructor; cbn; eauto; intros; discriminate.
  - assert (Hver : no_lifecycle st -> arch_ver st' = arch_ver st).
    { intro Hn. apply (nonlife_ver _ _ _ _ G H Hnc Hnr Hnl Hnm).
      intros t th _ Hft. apply Hn. apply (find_thread_in _ _ _ Hft). }
    assert (Hanc' : forall v, s_anchor m = Some v ->
                      no_lifecycle st' /\ loop_idle st' /\ (forall s, v = Some s -> arch_ver st' = s)).
    { intros v Hv. destruct (Hanc v Hv) as (Hn & Hi & Hs). repeat split; auto.
      - eapply nonloop_idle; eauto.
      - intros s0 E. rewrite (Hver Hn). apply Hs. exact E. }
    destruct (action_eq_dec_oa a) as [->|Hno].
    + (* the archive is observed: its identity is remembered / compared *)
      cbn in H. inv H. destruct m as [mact mcnt manc]. cbn in *.
      destruct manc as [[s0|]|] eqn:Ea; cbn.
      * destruct (Hanc _ eq_refl) as (_ & _ & Hs). rewrite (Hs s0 eq_refl), Nat.eqb_refl.
        eexists. split; [reflexivity|]. constructor; cbn; eauto.
      * eexists. split; [reflexivity|]. constructor; cbn; eauto.
        intros v Hv. inv Hv. destruct (Hanc _ eq_refl) as (Hn & Hi & _). repeat split; auto. intros s1 E. inv E. reflexivity.
      * eexists. split; [reflexivity|]. constructor; cbn; eauto.
    + pose proof (other_events_quiet _ _ _ _ H Hnc Hnr Hnl Hnm Hno) as Hq.
      exists m. split; [apply smon_run_quiet; exact Hq|]. constructor; eauto.
Qed.

Lemma cnt_of_in : forall t l c, cnt_of t l = Some c -> In (t, c) l.
Proof.
  intros t l. induction l as [|[t' c'] r IH]; intros c H; cbn in H; [discriminate|].
  destruct (Nat.eqb t' t) eqn:E.
  - apply Nat.eqb_eq in E. subst. inv H. left. reflexivity.
  - right. apply IH. exact H.
Qed.

Lemma cnt_remove_ids : forall t l,
  map fst (cnt_remove t l) = filter (fun i => negb (Nat.eqb i t)) (map fst l).
Proof.
  intros t l. unfold cnt_remove. induction l as [|[t' c] r IH]; cbn; [reflexivity|].
  destruct (Nat.eqb t' t); cbn; rewrite IH; reflexivity.
Qed.

Lemma srel_call : forall m st t c st' evs,
  srel m st -> step st (ACall t c) = Some (st', evs) ->
  exists m', mon_run smon_step m evs = Some m' /\ srel m' st'.
Proof.
  intros m st t c st' evs R H. destruct R as [[mf Hf] Hact Hids Hcnt Hanc].
  pose proof (fr_ginv _ _ Hf) as G.
  destruct (frel_call _ _ _ _ _ _ Hf H) as (mf' & _ & Hf').
  destruct (step_call _ _ _ _ _ H) as (-> & Hths & _ & Hbound & _).
  assert (Hkeys : keys (threads st') = (t, c) :: keys (threads st)) by (rewrite Hths; reflexivity).
  destruct (nonloop_facts _ _ _ _ H) as (Hans & _ & _); [intros; discriminate|].
  assert (Hsame : loop st' = loop st /\ arch_ver st' = arch_ver st) by (cbn in H; crunch; split; reflexivity).
  destruct Hsame as [Hloop Hver].
  assert (Hidle : loop_idle st -> loop_idle st') by (unfold loop_idle; rewrite Hloop; auto).
  assert (Hcnt' : Forall (cnt_ok st') (s_counts m)).
  { eapply Forall_impl; [|exact Hcnt]. intros [t0 [na nb]] [H1 H2]. split.
    - rewrite Hans. intro Ha. destruct (H1 Ha) as (A & B & C). repeat split; auto.
    - rewrite Hloop. exact H2. }
  destruct m as [mact mcnt manc]. cbn in Hact, Hids, Hcnt, Hanc, Hcnt'.
  cbn [mon_run smon_step s_act s_counts s_anchor act_step].
  eexists. split; [reflexivity|]. constructor; cbn.
  - eauto.
  - rewrite Hact, Hkeys. reflexivity.
  - rewrite Hths. unfold wait_ids. cbn. destruct (is_wait_flush c); cbn; rewrite Hids; reflexivity.
  - destruct (is_wait_flush c); [|exact Hcnt'].
    constructor; [|exact Hcnt']. split.
    + rewrite Hans. intro Ha. pose proof (fr_bound_ans _ _ Hf t Ha). lia.
    + intros l Hl Hfr. rewrite Hloop in Hl. pose proof (fr_bound_loop _ _ Hf l t Hl (or_introl Hfr)). lia.
  - intros v Hv. destruct (is_lifecycle c) eqn:Elc; [discriminate|].
    destruct (Hanc v Hv) as (Hn & Hi & Hs). repeat split; auto.
    + intros th Hin. rewrite Hths in Hin. destruct Hin as [<-|Hin]; [exact Elc|apply Hn; exact Hin].
    + intros s0 E. rewrite Hver. apply Hs. exact E.
Qed.

Lemma srel_return : forall m st t st' evs,
  srel m st -> step st (AReturn t) = Some (st', evs) ->
  exists m', mon_run smon_step m evs = Some m' /\ srel m' st'.
Proof.
  intros m st t st' evs R H. destruct R as [[mf Hf] Hact Hids Hcnt Hanc].
  pose proof (fr_ginv _ _ Hf) as G.
  destruct (frel_return _ _ _ _ _ Hf H) as (mf' & _ & Hf').
  destruct (step_return _ _ _ _ H) as (th & ok & Hft & Hpc & Hths & ->).
  destruct (find_thread_in _ _ _ Hft) as [Hin Hid].
  assert (Hkeys : keys (threads st') = act_remove t (keys (threads st))) by (rewrite Hths; apply keys_remove_thread).
  destruct (nonloop_facts _ _ _ _ H) as (Hans & _ & _); [intros; discriminate|].
  assert (Hsame : loop st' = loop st /\ arch_ver st' = arch_ver st).
  { cbn in H. rewrite Hft, Hpc in H. inv H. split; reflexivity. }
  destruct Hsame as [Hloop Hver].
  assert (Hidle : loop_idle st -> loop_idle st') by (unfold loop_idle; rewrite Hloop; auto).
  assert (Hsub : forall x, In x (threads st') -> In x (threads st)).
  { intros x Hx. rewrite Hths in Hx. apply in_remove_thread in Hx. tauto. }
  assert (Hcnt' : Forall (cnt_ok st') (s_counts m)).
  { eapply Forall_impl; [|exact Hcnt]. intros [t0 [na nb]] [H1 H2]. split.
    - rewrite Hans. intro Ha. destruct (H1 Ha) as (A & B & C). repeat split; auto.
    - rewrite Hloop. exact H2. }
  assert (Hanc' : forall v, s_anchor m = Some v ->
                    no_lifecycle st' /\ loop_idle st' /\ (forall s, v = Some s -> arch_ver st' = s)).
  { intros v Hv. destruct (Hanc v Hv) as (Hn & Hi & Hs). repeat split; auto.
    - intros x Hx. apply Hn. apply Hsub. exact Hx.
    - intros s0 E. rewrite Hver. apply Hs. exact E. }
  destruct m as [mact mcnt manc]. cbn in Hact, Hids, Hcnt, Hanc, Hcnt', Hanc'.
  cbn [mon_run smon_step s_act s_counts s_anchor act_step].
  destruct (is_wait_flush (th_cmd th)) eqn:Ew.
  - assert (th_cmd th = CFlush true) as Hc by (destruct (th_cmd th) as [| | | | |[]|]; try discriminate; reflexivity).
    assert (Hok : (match th_cmd th with CShutdown => true | _ => ok end) = ok) by (rewrite Hc; reflexivity).
    rewrite Hok.
    eexists. split; [reflexivity|]. constructor; cbn.
    + eauto.
    + rewrite Hact, Hkeys. reflexivity.
    + rewrite cnt_remove_ids, Hids, Hths, wait_ids_remove. reflexivity.
    + unfold cnt_remove. apply Forall_forall. intros y Hy. apply filter_In in Hy.
      apply (proj1 (Forall_forall _ _) Hcnt'). apply Hy.
    + intros v Hv.
      destruct (ok && negb (any_active is_lifecycle mact)) eqn:Eok; [|apply Hanc'; exact Hv].
      destruct (cnt_of t mcnt) as [[na nb]|] eqn:Ecnt; [|apply Hanc'; exact Hv].
      destruct na as [|[|na]]; try (apply Hanc'; exact Hv).
      destruct nb as [|[|nb]]; try (apply Hanc'; exact Hv).
      apply andb_prop in Eok. destruct Eok as [Eo Ena]. apply negb_true_iff in Ena. rewrite Hact in Ena.
      injection Hv as <-. rewrite Eo in Hpc.
      assert (no_lifecycle st) as Hn.
      { intros x Hx. unfold any_active in Ena. pose proof (existsb_false_forall _ _ _ Ena (th_id x, th_cmd x)) as Hx'.
        cbn in Hx'. apply Hx'. unfold keys. apply in_map_iff. eauto. }
      pose proof (fr_ret _ _ Hf th Hin Hc Hpc) as Hmem. rewrite Hid in Hmem.
      pose proof (proj1 (Forall_forall _ _) Hcnt _ (cnt_of_in _ _ _ Ecnt)) as [H1 _]. cbn in H1.
      destruct (H1 Hmem) as (_ & _ & Hi).
      repeat split.
      * intros x Hx. apply Hn. apply Hsub. exact Hx.
      * apply Hidle. apply Hi; reflexivity.
      * intros s0 E. discriminate.
  - exists {| s_act := act_remove t mact; s_counts := mcnt; s_anchor := manc |}. split; [reflexivity|]. constructor; cbn.
    + eauto.
    + rewrite Hact, Hkeys. reflexivity.
    + rewrite Hids, Hths, wait_ids_remove. symmetry. apply filter_notin.
      unfold wait_ids. intro Hin'. apply in_map_iff in Hin'. destruct Hin' as (y & Hyid & Hy).
      apply filter_In in Hy. destruct Hy as [Hy Hyw].
      assert (y = th) by (apply (nodup_ids_unique (threads st)); [apply (g_nodup _ G)|exact Hy|exact Hin|congruence]).
      subst y. congruence.
    + exact Hcnt'.
    + exact Hanc'.
Qed.

Lemma srel_init : forall md manual, srel smon_init (init_state md manual).
Proof.
  intros. constructor; cbn; try (intros; discriminate).
  - exists []. apply frel_init.
  - reflexivity.
  - reflexivity.
  - constructor.
Qed.

Lemma srel_step : forall m st a st' evs,
  srel m st -> step st a = Some (st', evs) -> exists m', mon_run smon_step m evs = Some m' /\ srel m' st'.
Proof.
  intros m st a st' evs R H.
  destruct a; try (eapply srel_other; try eassumption; intros; discriminate).
  - eapply srel_call; eassumption.
  - eapply srel_return; eassumption.
  - cbn in H. destruct (loop st) as [l|] eqn:El; [|discriminate]. eapply srel_loop; eassumption.
Qed.

(* every trace of the machine is accepted by the saved-before-answer monitor *)
Theorem saved_monitor_accepts : forall md manual st tr,
  reach (init_state md manual) st tr -> check_saved tr = true.
Proof.
  intros md manual st tr H. unfold check_saved.
  eapply (simulation_accepts smon smon_step srel); [apply srel_init|apply srel_step|exact H].
Qed.
