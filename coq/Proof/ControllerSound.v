(* Soundness of the C29 / C11 checkers: what acceptance of a history by a
   monitor of Model/ControllerCheck.v means, stated on the event list itself
   (no machine involved: these lemmas apply to recorded histories of the real
   Manager as well as to traces of the model). *)
From Coq Require Import List Bool Arith String Lia.
Import ListNotations.
From Mv Require Import Model.Entry Model.Reconcile Model.Safety Model.Controller Model.ControllerCheck
     Proof.ControllerBase.
Local Open Scope list_scope.

Definition acts (tr : list event) : active := fold_left act_step tr [].

Lemma fold_act_app : forall l1 l2 a, fold_left act_step (l1 ++ l2) a = fold_left act_step l2 (fold_left act_step l1 a).
Proof. intros. apply fold_left_app. Qed.

(* ------------------------------------------------------------------ *)
(* pause *)

Lemma pmon_act : forall tr m m', mon_run pmon_step m tr = Some m' -> p_act m' = fold_left act_step tr (p_act m).
Proof.
  induction tr as [|e r IH]; intros m m' H; cbn in H; [inv H; reflexivity|].
  destruct (pmon_step m e) as [m1|] eqn:E; [|discriminate]. rewrite (IH _ _ H). cbn. f_equal.
  unfold pmon_step in E. destruct e; crunch; reflexivity.
Qed.

Definition no_resume_call (tr : list event) : Prop := forall t, ~ In (Ca t CResume) tr.

Lemma flag_of_dirty_ne : forall t f, flag_of t (set_all_dirty f) <> Some false.
Proof.
  intros t f. induction f as [|[t' b] r IH]; cbn; [discriminate|]. destruct (Nat.eqb t' t); [discriminate|exact IH].
Qed.

Lemma flag_of_remove_ne : forall t t0 f b, t0 <> t -> flag_of t0 f = Some b -> flag_of t0 (flag_remove t f) = Some b.
Proof.
  intros t t0 f. induction f as [|[t' b0] r IH]; cbn; intros b Hne H; [discriminate|].
  destruct (Nat.eqb t' t0) eqn:E2.
  - apply Nat.eqb_eq in E2. subst t'. inv H.
    assert (Nat.eqb t0 t = false) as -> by (apply Nat.eqb_neq; exact Hne). cbn. rewrite Nat.eqb_refl. reflexivity.
  - destruct (Nat.eqb t' t); cbn; [apply IH; assumption|]. rewrite E2. apply IH; assumption.
Qed.

(* while no Resume is called and t does not return, t stays a clean pause *)
Lemma pmon_keep_clean : forall tr m m' t,
  mon_run pmon_step m tr = Some m' -> flag_of t (p_pauses m) = Some false ->
  no_resume_call tr -> (forall c ok, ~ In (Rt t c ok) tr) -> (forall c, ~ In (Ca t c) tr) ->
  flag_of t (p_pauses m') = Some false.
Proof.
  induction tr as [|e r IH]; intros m m' t H Hf Hnr Hnt Hnc; cbn in H; [inv H; exact Hf|].
  destruct (pmon_step m e) as [m1|] eqn:E; [|discriminate].
  apply (IH m1 m' t H).
  - unfold pmon_step in E. destruct e; crunch; cbn; try exact Hf.
    + exfalso. destruct c; try discriminate. apply (Hnr t0). left. reflexivity.
    + destruct (Nat.eqb t0 t) eqn:Et; [|exact Hf]. apply Nat.eqb_eq in Et. subst t0. exfalso. apply (Hnc c). left. reflexivity.
    + apply flag_of_remove_ne; [|exact Hf]. intro Et. subst t0. apply (Hnt c ok). left. reflexivity.
  - intros t0 Hin. apply (Hnr t0). right. exact Hin.
  - intros c ok Hin. apply (Hnt c ok). right. exact Hin.
  - intros c Hin. apply (Hnc c). right. exact Hin.
Qed.

(* while quiet and no Resume is called, every accepted event is neither an
   endpoint event nor an observation of an unpaused session *)
Lemma pmon_quiet_events : forall tr m m',
  mon_run pmon_step m tr = Some m' -> p_quiet m = true -> no_resume_call tr ->
  p_quiet m' = true /\
  forall e, In e tr -> is_endpoint e = false /\ e <> ObS true (Some false).
Proof.
  induction tr as [|e r IH]; intros m m' H Hq Hnr; cbn in H; [inv H; split; [exact Hq|intros e []]|].
  destruct (pmon_step m e) as [m1|] eqn:E; [|discriminate].
  assert (p_quiet m1 = true /\ is_endpoint e = false /\ e <> ObS true (Some false)) as (Hq1 & He1 & He2).
  { unfold pmon_step in E. rewrite Hq in E. destruct e; crunch; cbn; repeat split; try reflexivity; try discriminate;
      try (exfalso; destruct c; try discriminate; apply (Hnr t); left; reflexivity).
    all: try (destruct (flag_of t (p_pauses m)) as [[]|]; try reflexivity; apply orb_true_r).
    }
  destruct (IH m1 m' H Hq1) as [Hq' Hall]; [intros t Hin; apply (Hnr t); right; exact Hin|].
  split; [exact Hq'|]. intros e' [<-|Hin]; [split; assumption|apply Hall; exact Hin].
Qed.

(* The property, on the history: if a Pause (or a Create that starts paused) is
   called while no Resume is active, returns nil, and no Resume is called
   between its call and some later point, then between its return and that
   point there is no endpoint event and the persisted session is never seen
   unpaused. *)
Theorem pause_sound : forall pre t c mid1 mid2,
  check_pause (pre ++ Ca t c :: mid1 ++ Rt t c true :: mid2) = true ->
  is_pause c = true ->
  any_active is_resume (acts pre) = false ->
  no_resume_call (mid1 ++ mid2) ->
  (forall c' ok, ~ In (Rt t c' ok) mid1) -> (forall c', ~ In (Ca t c') mid1) ->
  forall e, In e mid2 -> is_endpoint e = false /\ e <> ObS true (Some false).
Proof.
  intros pre t c mid1 mid2 H Hp Hna Hnr Hnt Hnc.
  unfold check_pause, accepts in H.
  destruct (mon_run pmon_step pmon_init (pre ++ Ca t c :: mid1 ++ Rt t c true :: mid2)) as [mf|] eqn:E; [|discriminate].
  rewrite mon_run_app in E. destruct (mon_run pmon_step pmon_init pre) as [m1|] eqn:E1; [|discriminate].
  cbn [mon_run] in E. destruct (pmon_step m1 (Ca t c)) as [m2|] eqn:E2; [|discriminate].
  rewrite mon_run_app in E. destruct (mon_run pmon_step m2 mid1) as [m3|] eqn:E3; [|discriminate].
  cbn [mon_run] in E. destruct (pmon_step m3 (Rt t c true)) as [m4|] eqn:E4; [|discriminate].
  (* the pause is tracked clean *)
  assert (flag_of t (p_pauses m2) = Some false) as Hf2.
  { pose proof (pmon_act _ _ _ E1) as Ha. cbn in Ha. unfold acts in Hna. rewrite <- Ha in Hna.
    unfold pmon_step in E2. assert (is_resume c = false) as Hr by (destruct c as [[]| | | | | |]; try discriminate; reflexivity).
    rewrite Hr, Hp in E2. inv E2. cbn. rewrite Nat.eqb_refl, Hna. reflexivity. }
  assert (flag_of t (p_pauses m3) = Some false) as Hf3.
  { eapply pmon_keep_clean; try eassumption. intros t0 Hin. apply (Hnr t0). apply in_or_app. left. exact Hin. }
  assert (p_quiet m4 = true) as Hq4.
  { unfold pmon_step in E4. rewrite Hp, Hf3 in E4. inv E4. reflexivity. }
  assert (Hnr2 : no_resume_call mid2).
  { intros t0 Hin0. apply (Hnr t0). apply in_or_app. right. exact Hin0. }
  destruct (pmon_quiet_events _ _ _ E Hq4 Hnr2) as [_ Hall]. intros e Hin. apply Hall. exact Hin.
Qed.

(* ------------------------------------------------------------------ *)
(* terminate *)

Lemma tmon_term_mono : forall strict tr m m',
  mon_run (tmon_step strict) m tr = Some m' -> t_term m = true -> t_term m' = true.
Proof.
  induction tr as [|e r IH]; intros m m' H Ht; cbn in H; [inv H; exact Ht|].
  destruct (tmon_step strict m e) as [m1|] eqn:E; [|discriminate]. apply (IH m1 m' H).
  unfold tmon_step in E. destruct e; crunch; cbn; try exact Ht; rewrite Ht; reflexivity.
Qed.

(* once a Terminate has returned nil, every later accepted event is neither an
   endpoint event, nor the sight of a session file, nor the loading of the
   session by a new manager, nor (strict form) the sight of an archive file *)
Lemma tmon_dead_events : forall strict tr m m',
  mon_run (tmon_step strict) m tr = Some m' -> t_term m = true ->
  forall e, In e tr ->
    is_endpoint e = false /\ (forall s, e <> ObS true (Some s)) /\ e <> Nm true /\
    (strict = true -> forall a n, e <> ObA true (Some a) n).
Proof.
  induction tr as [|e r IH]; intros m m' H Ht e0 Hin; [destruct Hin|]. cbn in H.
  destruct (tmon_step strict m e) as [m1|] eqn:E; [|discriminate].
  assert (t_term m1 = true) as Ht1.
  { assert (mon_run (tmon_step strict) m [e] = Some m1) as H1 by (cbn; rewrite E; reflexivity).
    eapply tmon_term_mono; eassumption. }
  destruct Hin as [<-|Hin]; [|eapply IH; eassumption].
  unfold tmon_step in E. rewrite Ht in E.
  destruct e; crunch; cbn; repeat split; try discriminate; try reflexivity; try (intros; discriminate).
  all: try (intros Hs; subst strict; cbn in *; discriminate).
Qed.

Theorem terminate_sound : forall strict pre t post,
  check_terminate strict (pre ++ Rt t CTerminate true :: post) = true ->
  forall e, In e post ->
    is_endpoint e = false /\ (forall s, e <> ObS true (Some s)) /\ e <> Nm true /\
    (strict = true -> forall a n, e <> ObA true (Some a) n).
Proof.
  intros strict pre t post H. unfold check_terminate, accepts in H.
  destruct (mon_run (tmon_step strict) tmon_init (pre ++ Rt t CTerminate true :: post)) as [mf|] eqn:E; [|discriminate].
  rewrite mon_run_app in E. destruct (mon_run (tmon_step strict) tmon_init pre) as [m1|] eqn:E1; [|discriminate].
  cbn [mon_run] in E. destruct (tmon_step strict m1 (Rt t CTerminate true)) as [m2|] eqn:E2; [|discriminate].
  assert (t_term m2 = true) as Ht.
  { unfold tmon_step in E2. cbn in E2. crunch; cbn; apply orb_true_r. }
  intros e Hin. eapply tmon_dead_events; eassumption.
Qed.

(* commands called after a Terminate returned nil never return nil *)
Lemma tmon_late_kept : forall strict tr m m' t,
  mon_run (tmon_step strict) m tr = Some m' -> mem_tid t (t_late m) = true -> mem_tid t (t_late m') = true.
Proof.
  induction tr as [|e r IH]; intros m m' t H Hl; cbn in H; [inv H; exact Hl|].
  destruct (tmon_step strict m e) as [m1|] eqn:E; [|discriminate]. apply (IH m1 m' t H).
  unfold tmon_step in E. destruct e; crunch; cbn; try exact Hl.
  destruct (t_term m); [|exact Hl]. destruct c; try exact Hl; unfold mem_tid in *; cbn; rewrite Hl; apply orb_true_r.
Qed.

Theorem terminate_sound_late : forall strict pre t mid t' c post,
  check_terminate strict (pre ++ Rt t CTerminate true :: mid ++ Ca t' c :: post) = true ->
  c <> CShutdown -> forall c', ~ In (Rt t' c' true) post.
Proof.
  intros strict pre t mid t' c post H Hns c' Hin. unfold check_terminate, accepts in H.
  destruct (mon_run (tmon_step strict) tmon_init (pre ++ Rt t CTerminate true :: mid ++ Ca t' c :: post)) as [mf|] eqn:E;
    [|discriminate].
  rewrite mon_run_app in E. destruct (mon_run (tmon_step strict) tmon_init pre) as [m1|] eqn:E1; [|discriminate].
  cbn [mon_run] in E. destruct (tmon_step strict m1 (Rt t CTerminate true)) as [m2|] eqn:E2; [|discriminate].
  assert (t_term m2 = true) as Ht by (unfold tmon_step in E2; cbn in E2; crunch; cbn; apply orb_true_r).
  rewrite mon_run_app in E. destruct (mon_run (tmon_step strict) m2 mid) as [m3|] eqn:E3; [|discriminate].
  pose proof (tmon_term_mono _ _ _ _ E3 Ht) as Ht3.
  cbn [mon_run] in E. destruct (tmon_step strict m3 (Ca t' c)) as [m4|] eqn:E4; [|discriminate].
  assert (mem_tid t' (t_late m4) = true) as Hl4.
  { unfold tmon_step in E4. rewrite Ht3 in E4. inv E4. cbn. destruct c; try contradiction; unfold mem_tid; cbn;
      rewrite Nat.eqb_refl; reflexivity. }
  (* walk to the return record *)
  apply in_split in Hin. destruct Hin as (p1 & p2 & ->).
  rewrite mon_run_app in E. destruct (mon_run (tmon_step strict) m4 p1) as [m5|] eqn:E5; [|discriminate].
  pose proof (tmon_late_kept _ _ _ _ _ E5 Hl4) as Hl5.
  cbn [mon_run] in E. unfold tmon_step in E at 1. rewrite Hl5 in E. cbn in E. discriminate.
Qed.

(* ------------------------------------------------------------------ *)
(* flush *)

Lemma f_find_map : forall (g : fentry -> fentry) t m,
  (forall x, f_tid (g x) = f_tid x) -> f_find t (map g m) = option_map g (f_find t m).
Proof.
  intros g t m Hg. induction m as [|y r IH]; cbn; [reflexivity|]. rewrite Hg.
  destruct (Nat.eqb (f_tid y) t); [reflexivity|exact IH].
Qed.

Lemma f_find_remove_other : forall t t0 m, t <> t0 -> f_find t (f_remove t0 m) = f_find t m.
Proof.
  intros t t0 m Hne. unfold f_remove. induction m as [|y r IH]; cbn; [reflexivity|].
  destruct (Nat.eqb (f_tid y) t0) eqn:E0; cbn.
  - destruct (Nat.eqb (f_tid y) t) eqn:E; [|exact IH].
    apply Nat.eqb_eq in E0. apply Nat.eqb_eq in E. congruence.
  - destruct (Nat.eqb (f_tid y) t); [reflexivity|exact IH].
Qed.

(* the flags of a waiting flush are witnessed by scan events *)
Lemma fmon_flags : forall tr m m' t x,
  mon_run fmon_step m tr = Some m' ->
  (forall ok, ~ In (Rt t (CFlush true) ok) tr) -> (forall c, ~ In (Ca t c) tr) ->
  f_find t m = Some x ->
  exists x', f_find t m' = Some x' /\
    (f_ea x' = true -> f_ea x = true \/ exists a, In (Sn Alpha true a) tr) /\
    (f_eb x' = true -> f_eb x = true \/ exists a, In (Sn Beta true a) tr) /\
    (f_xa x' = true -> f_xa x = true \/ exists r c, In (Sx Alpha true r c) tr) /\
    (f_xb x' = true -> f_xb x = true \/ exists r c, In (Sx Beta true r c) tr).
Proof.
  induction tr as [|e r IH]; intros m m' t x H Hnr Hnc Hf; cbn in H.
  - inv H. exists x. split; [exact Hf|]. tauto.
  - destruct (fmon_step m e) as [m1|] eqn:E; [|discriminate].
    assert (Hnr' : forall ok, ~ In (Rt t (CFlush true) ok) r) by (intros ok Hin; apply (Hnr ok); right; exact Hin).
    assert (Hnc' : forall c, ~ In (Ca t c) r) by (intros c Hin; apply (Hnc c); right; exact Hin).
    assert (exists x1, f_find t m1 = Some x1 /\
              (f_ea x1 = true -> f_ea x = true \/ exists a, e = Sn Alpha true a) /\
              (f_eb x1 = true -> f_eb x = true \/ exists a, e = Sn Beta true a) /\
              (f_xa x1 = true -> f_xa x = true \/ exists r0 c, e = Sx Alpha true r0 c) /\
              (f_xb x1 = true -> f_xb x = true \/ exists r0 c, e = Sx Beta true r0 c))
      as (x1 & Hf1 & A1 & B1 & C1 & D1).
    { destruct e; cbn in E; try (inv E; exists x; split; [exact Hf|tauto]).
      - (* a call: another thread *)
        destruct c as [| | | | |[]|]; inv E; try (exists x; split; [exact Hf|tauto]).
        exists x. split; [|tauto]. cbn. destruct (Nat.eqb t0 t) eqn:Et; [|exact Hf].
        apply Nat.eqb_eq in Et. subst t0. exfalso. apply (Hnc (CFlush true)). left. reflexivity.
      - (* a return: another thread *)
        destruct c as [| | | | |[]|]; try (inv E; exists x; split; [exact Hf|tauto]).
        assert (t0 <> t) as Hne.
        { intro Et. subst t0. apply (Hnr ok). left. reflexivity. }
        destruct ok.
        + destruct (f_find t0 m) as [y|]; [|discriminate]. destruct (f_complete y); inv E.
          exists x. split; [|tauto]. rewrite f_find_remove_other by congruence. exact Hf.
        + inv E. exists x. split; [|tauto]. rewrite f_find_remove_other by congruence. exact Hf.
      - destruct full; inv E; [|exists x; split; [exact Hf|tauto]].
        exists (f_on_enter s x). split.
        + rewrite f_find_map; [rewrite Hf; reflexivity|]. intros y. destruct s; reflexivity.
        + destruct s; cbn; repeat split; intros; eauto.
      - destruct ok; inv E; [|exists x; split; [exact Hf|tauto]].
        exists (f_on_exit s x). split.
        + rewrite f_find_map; [rewrite Hf; reflexivity|]. intros y. destruct s; reflexivity.
        + destruct s; cbn; repeat split; intros Hx; eauto;
            apply orb_prop in Hx; destruct Hx as [Hx|Hx]; eauto. }
    destruct (IH m1 m' t x1 H Hnr' Hnc' Hf1) as (x' & Hf' & A & B & C & D).
    exists x'. split; [exact Hf'|].
    repeat split; intro Hx.
    + destruct (A Hx) as [Hy|(a & Hin)]; [|right; exists a; right; exact Hin].
      destruct (A1 Hy) as [Hz|(a & ->)]; [left; exact Hz|right; exists a; left; reflexivity].
    + destruct (B Hx) as [Hy|(a & Hin)]; [|right; exists a; right; exact Hin].
      destruct (B1 Hy) as [Hz|(a & ->)]; [left; exact Hz|right; exists a; left; reflexivity].
    + destruct (C Hx) as [Hy|(r0 & c & Hin)]; [|right; exists r0, c; right; exact Hin].
      destruct (C1 Hy) as [Hz|(r0 & c & ->)]; [left; exact Hz|right; exists r0, c; left; reflexivity].
    + destruct (D Hx) as [Hy|(r0 & c & Hin)]; [|right; exists r0, c; right; exact Hin].
      destruct (D1 Hy) as [Hz|(r0 & c & ->)]; [left; exact Hz|right; exists r0, c; left; reflexivity].
Qed.

(* The property, on the history: a waiting flush that returns nil was preceded,
   since its call, by a full scan entered on alpha and on beta and by a
   successful scan return on each side. *)
Theorem flush_sound : forall pre t mid post,
  check_flush (pre ++ Ca t (CFlush true) :: mid ++ Rt t (CFlush true) true :: post) = true ->
  (forall ok, ~ In (Rt t (CFlush true) ok) mid) -> (forall c, ~ In (Ca t c) mid) ->
  (exists a, In (Sn Alpha true a) mid) /\ (exists a, In (Sn Beta true a) mid) /\
  (exists r c, In (Sx Alpha true r c) mid) /\ (exists r c, In (Sx Beta true r c) mid).
Proof.
  intros pre t mid post H Hnr Hnc. unfold check_flush, accepts in H.
  destruct (mon_run fmon_step [] (pre ++ Ca t (CFlush true) :: mid ++ Rt t (CFlush true) true :: post)) as [mf|] eqn:E;
    [|discriminate].
  rewrite mon_run_app in E. destruct (mon_run fmon_step [] pre) as [m1|] eqn:E1; [|discriminate].
  cbn [mon_run fmon_step] in E. rewrite mon_run_app in E.
  set (x0 := {| f_tid := t; f_ea := false; f_eb := false; f_xa := false; f_xb := false |}) in *.
  destruct (mon_run fmon_step (x0 :: m1) mid) as [m2|] eqn:E2; [|discriminate].
  assert (f_find t (x0 :: m1) = Some x0) as Hf0 by (cbn; rewrite Nat.eqb_refl; reflexivity).
  destruct (fmon_flags _ _ _ _ _ E2 Hnr Hnc Hf0) as (x' & Hf' & A & B & C & D).
  cbn [mon_run fmon_step] in E. rewrite Hf' in E.
  destruct (f_complete x') eqn:Ec; [|discriminate].
  unfold f_complete in Ec. repeat (apply andb_prop in Ec; destruct Ec as [Ec ?]).
  repeat split.
  - destruct (A Ec) as [Hx|Hx]; [discriminate|exact Hx].
  - destruct (B H2) as [Hx|Hx]; [discriminate|exact Hx].
  - destruct (C H1) as [Hx|Hx]; [discriminate|exact Hx].
  - destruct (D H0) as [Hx|Hx]; [discriminate|exact Hx].
Qed.

(* ------------------------------------------------------------------ *)
(* halt (C11) *)

Definition is_shutdown_event (e : event) : bool :=
  match e with En _ MShutdown | Ex _ MShutdown _ => true | _ => false end.

(* when the monitor starts expecting the halted behaviour: the second scan of
   a cycle has just returned, the check sequence yields a halt on the ancestor
   given to the scans and the two returned contents, and no lifecycle command
   is active *)
Theorem halt_arming : forall md m s r c m' k n,
  hmon_step md m (Sx s true r c) = Some m' -> h_halt m = None -> h_halt m' = Some (k, n) ->
  n = 0 /\ any_active is_lifecycle (h_act m) = false /\
  exists ca cb, safety_verdict md (h_anc m) ca cb = Some k /\
                ((s = Alpha /\ ca = c /\ h_rb m = SOk cb) \/ (s = Beta /\ cb = c /\ h_ra m = SOk ca)).
Proof.
  intros md m s r c m' k n H Hh Hh'. unfold hmon_step in H. rewrite Hh in H.
  destruct s; cbn in H.
  - destruct (h_rb m) as [| |cb|] eqn:Eb; cbn in H; try (inv H; cbn in Hh'; discriminate).
    destruct (safety_verdict md (h_anc m) c cb) eqn:Ev; [|inv H; cbn in Hh'; discriminate].
    destruct (any_active is_lifecycle (h_act m)) eqn:Ea; inv H; cbn in Hh'; [discriminate|]. inv Hh'.
    repeat split; auto. exists c, cb. split; [exact Ev|]. left. auto.
  - destruct (h_ra m) as [| |ca|] eqn:Ea0; cbn in H; try (inv H; cbn in Hh'; discriminate).
    destruct (safety_verdict md (h_anc m) ca c) eqn:Ev; [|inv H; cbn in Hh'; discriminate].
    destruct (any_active is_lifecycle (h_act m)) eqn:Ea; inv H; cbn in Hh'; [discriminate|]. inv Hh'.
    repeat split; auto. exists ca, c. split; [exact Ev|]. right. auto.
Qed.

(* while it expects the halted behaviour and no lifecycle command is called and
   no new manager is created: the only endpoint events accepted are the entry
   and exit of Shutdown; and a status observed after both shutdowns have
   returned is the Halted status of the check that fired *)
Theorem halt_sound : forall md tr m m' k shut,
  mon_run (hmon_step md) m tr = Some m' -> h_halt m = Some (k, shut) ->
  (forall t c, In (Ca t c) tr -> is_lifecycle c = false) -> (forall l, ~ In (Nm l) tr) ->
  (exists shut', h_halt m' = Some (k, shut') /\ shut <= shut') /\
  (forall e, In e tr -> is_endpoint e = true -> is_shutdown_event e = true) /\
  (forall st, In (ObT true (Some st)) tr -> 2 <= shut -> st = halt_status k).
Proof.
  intros md tr. induction tr as [|e r IH]; intros m m' k shut H Hh Hnl Hnm; cbn in H.
  - inv H. split; [eauto|]. split; intros; contradiction.
  - destruct (hmon_step md m e) as [m1|] eqn:E; [|discriminate].
    assert (Hstep : (exists shut1, h_halt m1 = Some (k, shut1) /\ shut <= shut1) /\
                    (is_endpoint e = true -> is_shutdown_event e = true) /\
                    (forall st, e = ObT true (Some st) -> 2 <= shut -> st = halt_status k)).
    { unfold hmon_step in E. rewrite Hh in E.
      destruct e; try (cbn in E |- *; inv E; cbn; repeat split; eauto; intros; discriminate); cbn -[Nat.leb] in E |- *.
      - assert (is_lifecycle c = false) as Hl by (apply (Hnl t c); left; reflexivity). rewrite Hl in E. inv E. cbn.
        repeat split; eauto; intros; discriminate.
      - destruct m0; inv E; cbn; repeat split; eauto; intros; discriminate.
      - destruct m0; inv E; cbn; repeat split; eauto; intros; discriminate.
      - destruct clean; [|inv E; cbn; repeat split; eauto; intros; discriminate].
        destruct status as [st0|]; [|inv E; cbn; repeat split; eauto; intros; discriminate].
        destruct (Nat.leb 2 shut && negb (Nat.eqb st0 (halt_status k))) eqn:Eb; inv E. cbn.
        split; [exists shut; split; [reflexivity|lia]|]. split; [intros; discriminate|].
        intros st Hst Hs. injection Hst as <-. apply andb_false_iff in Eb. destruct Eb as [Eb|Eb].
        + apply Nat.leb_gt in Eb. lia.
        + apply negb_false_iff in Eb. apply Nat.eqb_eq in Eb. exact Eb.
      - exfalso. apply (Hnm loaded). left. reflexivity. }
    destruct Hstep as ((shut1 & Hh1 & Hle1) & He & Hst).
    destruct (IH m1 m' k shut1 H Hh1) as ((shut' & Hh' & Hle') & Hall & Hobs).
    + intros t c Hin. apply (Hnl t c). right. exact Hin.
    + intros l Hin. apply (Hnm l). right. exact Hin.
    + split; [exists shut'; split; [exact Hh'|lia]|]. split.
      * intros e0 [<-|Hin]; [exact He|apply Hall; exact Hin].
      * intros st [Hin|Hin] Hs; [apply Hst; [exact Hin|exact Hs]|apply Hobs; [exact Hin|lia]].
Qed.
