(* C29, terminate: every trace of the controller machine is accepted by the
   lenient terminate monitor (Model/ControllerCheck.v: tmon with strict = false)
   under every schedule, and by the strict one whenever no Reset overlapped a
   successful Terminate. *)
From Coq Require Import List Bool Arith String Lia.
Import ListNotations.
From Mv Require Import Model.Entry Model.Reconcile Model.Safety Model.Controller Model.ControllerCheck
     Proof.ControllerBase.
Local Open Scope list_scope.

(* the terminated condition *)
Record dead (st : cstate) : Prop := {
  d_disabled : disabled st = true;
  d_present : present st = false;
  d_sess : sess_file st = None;
  d_created : created st = true
}.

(* no Reset thread is past the selection of the controller *)
Definition no_active_reset (st : cstate) : Prop :=
  forall th, In th (threads st) -> is_reset (th_cmd th) = true -> idle th = true.

Definition dead_event (e : event) : bool :=
  negb (is_endpoint e) &&
  match e with
  | ObS _ (Some _) => false
  | Nm true => false
  | _ => true
  end.

Definition arch_event (e : event) : bool :=
  match e with ObA _ (Some _) _ => false | _ => true end.

Lemma dead_loop : forall st, ginv st -> dead st -> loop st = None /\ locked st = false.
Proof. intros st G D. apply (g_disabled _ G). apply (d_disabled _ D). Qed.

Ltac prep_thread G :=
  match goal with
  | Hf : find_thread _ _ = Some ?th |- _ =>
    let Hin := fresh "Hin" in let Hid := fresh "Hid" in
    destruct (find_thread_in _ _ _ Hf) as [Hin Hid];
    pose proof (g_pc _ G _ Hin) as Gpc;
    pose proof (holder_locked _ _ Hin) as Ghl; unfold holds_lock in Ghl
  | _ => idtac
  end.

(* the terminated condition is stable, and nothing observable contradicts it *)
Lemma dead_step : forall st a st' evs,
  ginv st -> dead st -> step st a = Some (st', evs) ->
  dead st' /\ forallb dead_event evs = true.
Proof.
  intros st a st' evs G D H.
  destruct (dead_loop _ G D) as [Hl Hk]. destruct D as [Dd Dp Ds Dc].
  destruct a; unfold_steps H; try rewrite Hl in H; try rewrite Dd in H; try rewrite Dp in H;
    try rewrite Ds in H; try rewrite Dc in H; crunch.
  all: prep_thread G.
  all: repeat match goal with E : th_pc _ = _ |- _ => rewrite E in * end.
  all: cbn in *; try discriminate; try congruence.
  all: try (specialize (Ghl eq_refl); congruence).
  all: try (split; [constructor; cbn; first [assumption|reflexivity]|reflexivity]).
  all: try (destruct (negb (existsb (fun th => is_create (th_cmd th)) (threads st))); discriminate).
  all: try (exfalso;
            assert (is_create (th_cmd t0) = true) as Hc by (rewrite E2; reflexivity);
            assert (idle t0 = false) as Hi by (unfold idle; rewrite E0; reflexivity);
            destruct (g_creating _ G _ Hin Hc Hi) as (_ & Hd & _); congruence).
Qed.

Definition failing (th : thread) : Prop := th_pc th = TCalled \/ th_pc th = TRet false.

(* in a terminated state, a thread that has not yet selected the controller can
   only fail *)
Lemma late_step : forall st a st' evs th',
  ginv st -> dead st -> step st a = Some (st', evs) ->
  In th' (threads st') -> th_cmd th' <> CShutdown ->
  (forall x, In x (threads st) -> th_id x = th_id th' -> failing x) -> failing th'.
Proof.
  intros st a st' evs th' G D H Hin Hns Hold.
  destruct (dead_loop _ G D) as [Hl Hk]. destruct D as [Dd Dp Ds Dc].
  destruct a; unfold_steps H; try rewrite Hl in H; try rewrite Dd in H; try rewrite Dp in H;
    try rewrite Ds in H; try rewrite Dc in H; crunch; cbn in Hin.
  all: try (apply Hold; [assumption|reflexivity]).
  all: try (destruct Hin as [<-|Hin]; [left; reflexivity|apply Hold; [assumption|reflexivity]]).
  all: try (apply in_remove_thread in Hin; apply Hold; [tauto|reflexivity]).
  all: try (rewrite E in Hin; destruct Hin).
  all: match goal with
       | Hf : find_thread _ _ = Some ?x |- _ =>
         let Hx := fresh "Hx" in let Hid := fresh "Hid" in
         destruct (find_thread_in _ _ _ Hf) as [Hx Hid];
         apply in_set_thread in Hin; destruct Hin as (y & Hy & [[Hne ->]|[He ->]]);
         [apply Hold; [assumption|reflexivity]|];
         assert (y = x) as -> by (eapply nodup_ids_unique; eauto using g_nodup; congruence);
         pose proof (Hold x Hx eq_refl) as Hf0; unfold failing in Hf0
       end.
  all: repeat match goal with E : th_pc _ = _ |- _ => rewrite E in * end.
  all: try (destruct Hf0; discriminate).
  all: cbn in *; try congruence.
  all: try (right; reflexivity).
Qed.

(* a Terminate that reaches "done, nil" in this step leaves the terminated state *)
Lemma term_completion : forall st a st' evs th',
  ginv st -> step st a = Some (st', evs) ->
  In th' (threads st') -> th_cmd th' = CTerminate -> th_pc th' = TRet true ->
  In th' (threads st) \/ (dead st' /\ arch_file st' = None).
Proof.
  intros st a st' evs th' G H Hin Hc Hpc.
  destruct a; unfold_steps H; crunch; cbn in Hin.
  all: try (left; assumption).
  all: try (destruct Hin as [<-|Hin]; [cbn in Hpc; discriminate|left; assumption]).
  all: try (apply in_remove_thread in Hin; left; tauto).
  all: try (destruct (loop_step_frame _ _ _ _ _ H) as [F _]; rewrite (fr_threads _ _ F) in Hin; left; assumption).
  all: try (rewrite E in Hin; destruct Hin).
  all: match goal with
       | Hf : find_thread _ _ = Some ?x |- _ =>
         let Hx := fresh "Hx" in let Hid := fresh "Hid" in
         destruct (find_thread_in _ _ _ Hf) as [Hx Hid];
         apply in_set_thread in Hin; destruct Hin as (y & Hy & [[Hne ->]|[He ->]]);
         [left; assumption|];
         assert (y = x) as -> by (eapply nodup_ids_unique; eauto using g_nodup; congruence);
         pose proof (g_pc _ G _ Hx) as Gpc;
         cbn in Hc, Hpc
       end.
  all: try discriminate.
  all: repeat match goal with E : th_pc _ = _ |- _ => rewrite E in Gpc end.
  all: rewrite Hc in *; cbn in *; try discriminate; try congruence.
  all: try (destruct wait; discriminate).
  all: try (destruct aok, ok; discriminate).
  all: right.
  all: assert (created st = true) as Gcd by (apply (g_created _ G); intro Em; rewrite Em in Hx; destruct Hx).
  all: split; [constructor; cbn; first [assumption|reflexivity]|reflexivity].
Qed.

(* once terminated with no Reset under way, the archive file stays absent *)
Lemma arch_stable : forall st a st' evs,
  ginv st -> dead st -> no_active_reset st -> arch_file st = None -> step st a = Some (st', evs) ->
  arch_file st' = None /\ no_active_reset st' /\ forallb arch_event evs = true.
Proof.
  intros st a st' evs G D Hnar Ha H.
  destruct (dead_loop _ G D) as [Hl Hk]. destruct D as [Dd Dp Ds Dc].
  destruct a; unfold_steps H; try rewrite Hl in H; try rewrite Dd in H; try rewrite Dp in H;
    try rewrite Ds in H; try rewrite Dc in H; crunch.
  all: match goal with
       | Hf : find_thread _ _ = Some ?x |- _ =>
         let Hx := fresh "Hx" in let Hid := fresh "Hid" in
         destruct (find_thread_in _ _ _ Hf) as [Hx Hid];
         pose proof (g_pc _ G _ Hx) as Gpc;
         pose proof (holder_locked _ _ Hx) as Ghl; unfold holds_lock in Ghl;
         pose proof (Hnar _ Hx) as Hnx; unfold idle in Hnx
       | _ => idtac
       end.
  all: repeat match goal with E : th_pc _ = _ |- _ => rewrite E in * end.
  all: repeat match goal with E : th_cmd _ = _ |- _ => rewrite E in * end.
  all: cbn in *; try discriminate; try congruence.
  all: try (specialize (Ghl eq_refl); congruence).
  all: try (specialize (Hnx eq_refl); discriminate).
  all: try (destruct (negb (existsb (fun th => is_create (th_cmd th)) (threads st))); discriminate).
  all: split; [try assumption; try reflexivity|split; [|try reflexivity; try (rewrite Ha; reflexivity)]].
  all: try (intros y Hy Hr; cbn in Hy; destruct Hy as [<-|Hy]; [reflexivity|apply Hnar; assumption]).
  all: try (intros y Hy Hr; cbn in Hy; apply in_remove_thread in Hy; apply Hnar; tauto).
  all: try (intros y Hy Hr; cbn in Hy; apply in_set_thread in Hy; destruct Hy as (x & Hx' & [[Hne ->]|[He ->]]);
            [apply Hnar; assumption|reflexivity]).
  all: try (intros y Hy Hr; apply Hnar; assumption).
  all: try (exfalso;
            assert (is_create (th_cmd t0) = true) as Hc by (rewrite E2; reflexivity);
            assert (idle t0 = false) as Hi by (unfold idle; rewrite E0; reflexivity);
            destruct (g_creating _ G _ Hx Hc Hi) as (_ & Hd & _); congruence).
  intros y Hy Hr; cbn in Hy; apply in_set_thread in Hy; destruct Hy as (x & Hx' & [[Hne ->]|[He ->]]);
    [apply Hnar; assumption|].
  assert (x = t0) as -> by (eapply nodup_ids_unique; eauto using g_nodup).
  cbn in Hr. rewrite E1 in Hr. discriminate.
Qed.

(* ------------------------------------------------------------------ *)
(* the simulation relation *)

Definition no_reset (st : cstate) : Prop :=
  forall th, In th (threads st) -> is_reset (th_cmd th) = false.

Lemma no_reset_active : forall st, no_reset st -> no_active_reset st.
Proof. intros st H th Hin Hr. rewrite (H th Hin) in Hr. discriminate. Qed.

Record trel (m : tmon) (st : cstate) : Prop := {
  tr_ginv : ginv st;
  tr_act : t_act m = keys (threads st);
  tr_term : t_term m = true -> dead st;
  tr_arch : t_term m = true -> t_arch_unknown m = false -> arch_file st = None /\ no_active_reset st;
  tr_late : forall t, mem_tid t (t_late m) = true ->
                      t_term m = true /\
                      forall th, In th (threads st) -> th_id th = t -> failing th /\ th_cmd th <> CShutdown;
  tr_late_bound : forall t, mem_tid t (t_late m) = true -> t < tid_bound st;
  tr_tracked : forall t b, flag_of t (t_terms m) = Some b ->
                           exists th, In th (threads st) /\ th_id th = t /\ th_cmd th = CTerminate;
  tr_all : forall th, In th (threads st) -> th_cmd th = CTerminate ->
                      exists b, flag_of (th_id th) (t_terms m) = Some b;
  tr_done : forall t b, flag_of t (t_terms m) = Some b ->
                        forall th, In th (threads st) -> th_id th = t -> th_pc th = TRet true ->
                                   dead st /\ (b = false -> arch_file st = None);
  tr_clean : forall t, flag_of t (t_terms m) = Some false -> no_reset st
}.

Lemma trel_init : forall md manual, trel tmon_init (init_state md manual).
Proof.
  intros. constructor; cbn; try (intros; discriminate).
  - apply ginv_init.
  - reflexivity.
  - intros th [].
Qed.

Lemma tmon_other : forall m e,
  is_call_ret e = false ->
  (t_term m = true -> dead_event e = true /\ (t_arch_unknown m = false -> arch_event e = true)) ->
  tmon_step false m e = Some m.
Proof.
  intros [a tm un ts lt] e Hcr Hq. cbn in Hq.
  destruct tm.
  - destruct (Hq eq_refl) as [Hd Ha]. unfold dead_event in Hd. apply andb_prop in Hd. destruct Hd as [He Ho].
    apply negb_true_iff in He.
    destruct e; cbn in *; try discriminate; try reflexivity.
    + destruct clean; [|reflexivity]. destruct sess; [discriminate|reflexivity].
    + destruct clean; [|reflexivity]. destruct arch; [|reflexivity].
      destruct un; [reflexivity|]. specialize (Ha eq_refl). discriminate.
    + destruct loaded; [discriminate|reflexivity].
  - destruct e; cbn in *; try discriminate; try reflexivity.
    + destruct clean; [|reflexivity]. destruct sess; reflexivity.
    + destruct clean; [|reflexivity]. destruct arch; reflexivity.
    + destruct loaded; reflexivity.
Qed.

Lemma tmon_run_other : forall evs m,
  forallb (fun e => negb (is_call_ret e)) evs = true ->
  (t_term m = true -> forallb dead_event evs = true /\ (t_arch_unknown m = false -> forallb arch_event evs = true)) ->
  mon_run (tmon_step false) m evs = Some m.
Proof.
  induction evs as [|e r IH]; intros m Hcr Hq; [reflexivity|].
  cbn in *. apply andb_prop in Hcr. destruct Hcr as [He Hr]. apply negb_true_iff in He.
  rewrite tmon_other; [apply IH; [exact Hr|]|exact He|].
  - intro Hm. destruct (Hq Hm) as [H1 H2]. apply andb_prop in H1. split; [apply H1|].
    intro Hu. specialize (H2 Hu). apply andb_prop in H2. apply H2.
  - intro Hm. destruct (Hq Hm) as [H1 H2]. apply andb_prop in H1. split; [apply H1|].
    intro Hu. specialize (H2 Hu). apply andb_prop in H2. apply H2.
Qed.

Lemma trel_step_other : forall m st a st' evs,
  trel m st -> step st a = Some (st', evs) ->
  (forall t c, a <> ACall t c) -> (forall t, a <> AReturn t) ->
  mon_run (tmon_step false) m evs = Some m /\ trel m st'.
Proof.
  intros m st a st' evs R H Hnc Hnr. destruct R as [G Hact Hterm Harch Hlate Hlb Htr Hall Hdone Hclean].
  destruct (step_keys _ _ _ _ H Hnc Hnr) as [Hk Hev].
  pose proof (ginv_step _ _ _ _ G H) as G'.
  assert (Hk' : keys (threads st) = keys (threads st')) by (symmetry; exact Hk).
  split.
  - apply tmon_run_other; [exact Hev|]. intro Hm. pose proof (Hterm Hm) as D. split.
    + exact (proj2 (dead_step _ _ _ _ G D H)).
    + intro Hu. destruct (Harch Hm Hu) as [Ha Hn].
      destruct (arch_stable _ _ _ _ G D Hn Ha H) as (_ & _ & X). exact X.
  - constructor; try assumption.
    + rewrite Hk. exact Hact.
    + intro Hm. exact (proj1 (dead_step _ _ _ _ G (Hterm Hm) H)).
    + intros Hm Hu. destruct (Harch Hm Hu) as [Ha Hn].
      destruct (arch_stable _ _ _ _ G (Hterm Hm) Hn Ha H) as (A1 & A2 & _). auto.
    + intros t Hl. destruct (Hlate t Hl) as [Hm Hth]. split; [exact Hm|].
      intros th' Hin' Hid.
      destruct (keys_transfer _ _ _ Hk Hin') as (x & Hx & Hxid & Hxc).
      assert (th_cmd th' <> CShutdown) as Hns.
      { rewrite <- Hxc. apply (Hth x Hx). congruence. }
      split; [|exact Hns].
      apply (late_step _ _ _ _ th' G (Hterm Hm) H Hin' Hns).
      intros y Hy Hyid. apply (Hth y Hy). congruence.
    + intros t Hl. rewrite (step_bound _ _ _ _ H Hnc). apply Hlb. exact Hl.
    + intros t b Hf. destruct (Htr t b Hf) as (th & Hin & Hid & Hc).
      destruct (keys_transfer _ _ _ Hk' Hin) as (x & Hx & Hxid & Hxc). exists x. repeat split; congruence.
    + intros th' Hin' Hc. destruct (keys_transfer _ _ _ Hk Hin') as (x & Hx & Hxid & Hxc).
      rewrite <- Hxid. apply Hall; congruence.
    + intros t b Hf th' Hin' Hid Hpc.
      assert (th_cmd th' = CTerminate) as Hc.
      { destruct (keys_transfer _ _ _ Hk Hin') as (x & Hx & Hxid & Hxc).
        destruct (Htr t b Hf) as (th0 & Hin0 & Hid0 & Hc0).
        assert (x = th0) by (apply (nodup_ids_unique (threads st)); [apply (g_nodup _ G)|exact Hx|exact Hin0|congruence]). subst x. congruence. }
      destruct (term_completion _ _ _ _ _ G H Hin' Hc Hpc) as [Hold|[D A]].
      * destruct (Hdone t b Hf th' Hold Hid Hpc) as [D Ha]. split; [exact (proj1 (dead_step _ _ _ _ G D H))|].
        intro Hb. subst b.
        destruct (arch_stable _ _ _ _ G D (no_reset_active _ (Hclean t Hf)) (Ha eq_refl) H) as (X & _). exact X.
      * split; [exact D|intros _; exact A].
    + intros t Hf th' Hin'. destruct (keys_transfer _ _ _ Hk Hin') as (x & Hx & Hxid & Hxc).
      rewrite <- Hxc. apply (Hclean t Hf). exact Hx.
Qed.

Lemma flag_of_dirty_some : forall t f b, flag_of t (set_all_dirty f) = Some b -> exists b', flag_of t f = Some b'.
Proof.
  intros t f. induction f as [|[t' b0] r IH]; cbn; intros b H; [discriminate|].
  destruct (Nat.eqb t' t); [eauto|eapply IH; eassumption].
Qed.

Lemma flag_of_dirty_keep : forall t f b, flag_of t f = Some b -> exists b', flag_of t (set_all_dirty f) = Some b'.
Proof.
  intros t f. induction f as [|[t' b0] r IH]; cbn; intros b H; [discriminate|].
  destruct (Nat.eqb t' t); [eauto|eapply IH; eassumption].
Qed.

Lemma flag_of_dirty : forall t f, flag_of t (set_all_dirty f) <> Some false.
Proof.
  intros t f. induction f as [|[t' b] r IH]; cbn; [discriminate|].
  destruct (Nat.eqb t' t); [discriminate|exact IH].
Qed.

Lemma flag_of_remove : forall t t0 f b,
  flag_of t0 (flag_remove t f) = Some b -> t0 <> t /\ flag_of t0 f = Some b.
Proof.
  intros t t0 f. induction f as [|[t' b0] r IH]; cbn; intros b H; [discriminate|].
  destruct (Nat.eqb t' t) eqn:E1; cbn in H.
  - apply IH in H. destruct H as [Hne H]. split; [exact Hne|].
    apply Nat.eqb_eq in E1. subst t'. destruct (Nat.eqb t t0) eqn:E2; [apply Nat.eqb_eq in E2; congruence|exact H].
  - destruct (Nat.eqb t' t0) eqn:E2.
    + apply Nat.eqb_eq in E2. subst t'. split; [|exact H]. intro E. subst t0. rewrite Nat.eqb_refl in E1. discriminate.
    + apply IH. exact H.
Qed.

Lemma flag_of_remove_other : forall t t0 f b,
  t0 <> t -> flag_of t0 f = Some b -> flag_of t0 (flag_remove t f) = Some b.
Proof.
  intros t t0 f. induction f as [|[t' b0] r IH]; cbn; intros b Hne H; [discriminate|].
  destruct (Nat.eqb t' t0) eqn:E2.
  - apply Nat.eqb_eq in E2. subst t'. inv H.
    assert (Nat.eqb t0 t = false) as -> by (apply Nat.eqb_neq; exact Hne). cbn. rewrite Nat.eqb_refl. reflexivity.
  - destruct (Nat.eqb t' t); cbn; [apply IH; assumption|]. rewrite E2. apply IH; assumption.
Qed.

Lemma any_active_reset_false : forall ths,
  any_active is_reset (keys ths) = false -> forall th, In th ths -> is_reset (th_cmd th) = false.
Proof.
  intros ths H th Hin. unfold any_active in H.
  pose proof (existsb_false_forall _ _ _ H (th_id th, th_cmd th)) as Hx. cbn in Hx. apply Hx.
  unfold keys. apply in_map_iff. eauto.
Qed.

(* the flags after a call record *)
Definition terms_after_call (m : tmon) (t : tid) (c : cmd) : flags :=
  let terms1 := if is_reset c then set_all_dirty (t_terms m) else t_terms m in
  if is_terminate c then (t, any_active is_reset (t_act m)) :: terms1 else terms1.

Lemma terms_after_call_inv : forall m t c t0 b,
  (forall b0, flag_of t (t_terms m) <> Some b0) ->
  flag_of t0 (terms_after_call m t c) = Some b ->
  (t0 = t /\ c = CTerminate /\ b = any_active is_reset (t_act m))
  \/ (t0 <> t /\ exists b', flag_of t0 (t_terms m) = Some b' /\ (b = false -> b' = false /\ is_reset c = false)).
Proof.
  intros m t c t0 b Hnottr Hf. unfold terms_after_call in Hf.
  destruct (is_terminate c) eqn:Et.
  - cbn in Hf. destruct (Nat.eqb t t0) eqn:E.
    + apply Nat.eqb_eq in E. subst t0. inv Hf. left. destruct c; try discriminate. auto.
    + apply Nat.eqb_neq in E. right. split; [congruence|].
      destruct (is_reset c) eqn:Er; [destruct c; discriminate|]. exists b. auto.
  - destruct (is_reset c) eqn:Er.
    + assert (t0 <> t) as Hne.
      { intro E. subst t0. apply flag_of_dirty_some in Hf. destruct Hf as (b' & Hf). eapply Hnottr; eassumption. }
      right. split; [exact Hne|]. destruct (flag_of_dirty_some _ _ _ Hf) as (b' & Hb'). exists b'. split; [exact Hb'|].
      intro Hb. subst b. exfalso. eapply flag_of_dirty. exact Hf.
    + assert (t0 <> t) as Hne by (intro E; subst t0; eapply Hnottr; eassumption).
      right. split; [exact Hne|]. exists b. auto.
Qed.

Lemma terms_after_call_keep : forall m t c t0 b,
  t0 <> t -> flag_of t0 (t_terms m) = Some b -> exists b', flag_of t0 (terms_after_call m t c) = Some b'.
Proof.
  intros m t c t0 b Hne Hf. unfold terms_after_call.
  assert (exists b', flag_of t0 (if is_reset c then set_all_dirty (t_terms m) else t_terms m) = Some b') as (b' & H1).
  { destruct (is_reset c); [eapply flag_of_dirty_keep; eassumption|eauto]. }
  destruct (is_terminate c); [|eauto]. cbn.
  assert (Nat.eqb t t0 = false) as -> by (apply Nat.eqb_neq; congruence). eauto.
Qed.

Lemma trel_step_call : forall m st t c st' evs,
  trel m st -> step st (ACall t c) = Some (st', evs) ->
  exists m', mon_run (tmon_step false) m evs = Some m' /\ trel m' st'.
Proof.
  intros m st t c st' evs R H. destruct R as [G Hact Hterm Harch Hlate Hlb Htr Hall Hdone Hclean].
  pose proof (ginv_step _ _ _ _ G H) as G'.
  destruct (step_call _ _ _ _ _ H) as (-> & Hths & Hcr & Hbound & Hbound').
  assert (Hkeys : keys (threads st') = (t, c) :: keys (threads st)) by (rewrite Hths; reflexivity).
  assert (Hnotin : forall th, In th (threads st) -> th_id th <> t).
  { intros th Hin E. pose proof (proj1 (Forall_forall _ _) (g_bound _ G) _ Hin) as Hb. cbn in Hb. lia. }
  assert (Hnottr : forall b, flag_of t (t_terms m) <> Some b).
  { intros b Hf. destruct (Htr t b Hf) as (th & Hin & Hid & _). eapply Hnotin; eassumption. }
  assert (Hnotlate : mem_tid t (t_late m) = false).
  { destruct (mem_tid t (t_late m)) eqn:E; [|reflexivity]. pose proof (Hlb t E). lia. }
  exists {| t_act := (t, c) :: t_act m; t_term := t_term m; t_arch_unknown := t_arch_unknown m;
            t_terms := terms_after_call m t c;
            t_late := if t_term m then match c with CShutdown => t_late m | _ => t :: t_late m end else t_late m |}.
  split; [reflexivity|].
  assert (Hdead' : dead st -> dead st') by (intro D; exact (proj1 (dead_step _ _ _ _ G D H))).
  assert (Hsub : forall th, In th (threads st) -> In th (threads st')) by (intros; rewrite Hths; right; assumption).
  constructor; cbn.
  - exact G'.
  - rewrite Hact, Hkeys. reflexivity.
  - intro Hm. apply Hdead'. apply Hterm. exact Hm.
  - intros Hm Hu. destruct (Harch Hm Hu) as [Ha Hn].
    destruct (arch_stable _ _ _ _ G (Hterm Hm) Hn Ha H) as (A1 & A2 & _). auto.
  - intros t0 Hl. destruct (t_term m) eqn:Etm; [|destruct (Hlate t0 Hl) as [Hm _]; discriminate].
    split; [reflexivity|]. intros th Hin Hid. rewrite Hths in Hin.
    assert (Hcreated : created st = true) by (apply (d_created _ (Hterm eq_refl))).
    assert (Hnc : is_create c = false) by (rewrite Hcreated in Hcr; destruct (is_create c); [discriminate|reflexivity]).
    destruct Hin as [<-|Hin].
    + cbn in Hid. subst t0. cbn. rewrite Hnc. split; [left; reflexivity|].
      destruct c; try discriminate. change (mem_tid t (t_late m) = true) in Hl. congruence.
    + assert (mem_tid t0 (t_late m) = true) as Hl0.
      { destruct c; try exact Hl; cbn in Hl; apply orb_prop in Hl; destruct Hl as [Hl|Hl]; try exact Hl;
          apply Nat.eqb_eq in Hl; subst t0; exfalso; eapply Hnotin; eassumption. }
      destruct (Hlate t0 Hl0) as [_ Hth]. apply Hth; assumption.
  - intros t0 Hl. rewrite Hbound'.
    assert (mem_tid t0 (t_late m) = true \/ t0 = t) as [Hl0|E0]; [|(pose proof (Hlb t0 Hl0); lia)|subst t0; lia].
    { destruct (t_term m); [|left; exact Hl].
      destruct c; try (left; exact Hl); cbn in Hl; apply orb_prop in Hl; destruct Hl as [Hl|Hl]; try (left; exact Hl);
        apply Nat.eqb_eq in Hl; right; exact Hl. }
  - intros t0 b Hf. destruct (terms_after_call_inv _ _ _ _ _ Hnottr Hf) as [(-> & -> & _)|(Hne & b' & Hb' & _)].
    + eexists. split; [rewrite Hths; left; reflexivity|]. cbn. auto.
    + destruct (Htr t0 b' Hb') as (th & Hin & Hid & Hc). exists th. auto.
  - intros th Hin Hc. rewrite Hths in Hin. destruct Hin as [<-|Hin].
    + cbn in Hc. subst c. cbn. unfold terms_after_call. cbn. rewrite Nat.eqb_refl. eauto.
    + destruct (Hall th Hin Hc) as (b & Hb). eapply terms_after_call_keep; [|exact Hb]. eapply Hnotin; eassumption.
  - intros t0 b Hf th Hin Hid Hpc. rewrite Hths in Hin. destruct Hin as [<-|Hin].
    + cbn in Hpc. destruct (is_create c); discriminate.
    + destruct (terms_after_call_inv _ _ _ _ _ Hnottr Hf) as [(-> & _)|(Hne & b' & Hb' & Hclean')].
      * exfalso. eapply Hnotin; eassumption.
      * destruct (Hdone t0 b' Hb' th Hin Hid Hpc) as [D Ha]. split; [apply Hdead'; exact D|].
        intro Hb. destruct (Hclean' Hb) as [-> _].
        destruct (arch_stable _ _ _ _ G D (no_reset_active _ (Hclean t0 Hb')) (Ha eq_refl) H) as (X & _). exact X.
  - intros t0 Hf th Hin. rewrite Hths in Hin.
    destruct (terms_after_call_inv _ _ _ _ _ Hnottr Hf) as [(-> & -> & Hb)|(Hne & b' & Hb' & Hclean')].
    + destruct Hin as [<-|Hin]; [reflexivity|]. symmetry in Hb. rewrite Hact in Hb.
      eapply any_active_reset_false; eassumption.
    + destruct (Hclean' eq_refl) as [-> Hr]. destruct Hin as [<-|Hin]; [exact Hr|]. apply (Hclean t0 Hb'). exact Hin.
Qed.

Lemma trel_step_return : forall m st t st' evs,
  trel m st -> step st (AReturn t) = Some (st', evs) ->
  exists m', mon_run (tmon_step false) m evs = Some m' /\ trel m' st'.
Proof.
  intros m st t st' evs R H. destruct R as [G Hact Hterm Harch Hlate Hlb Htr Hall Hdone Hclean].
  pose proof (ginv_step _ _ _ _ G H) as G'.
  destruct (step_return _ _ _ _ H) as (th & ok & Hf & Hpc & Hths & ->).
  destruct (find_thread_in _ _ _ Hf) as [Hin Hid].
  assert (Hkeys : keys (threads st') = act_remove t (keys (threads st))) by (rewrite Hths; apply keys_remove_thread).
  assert (Hsub : forall x, In x (threads st') -> In x (threads st)).
  { intros x Hx. rewrite Hths in Hx. apply in_remove_thread in Hx. tauto. }
  assert (Hkeep : forall x, In x (threads st) -> th_id x <> t -> In x (threads st')).
  { intros x Hx Hne. rewrite Hths. apply in_remove_thread. auto. }
  assert (Hdead' : dead st -> dead st') by (intro D; exact (proj1 (dead_step _ _ _ _ G D H))).
  assert (Hb' : tid_bound st' = tid_bound st) by (apply (step_bound _ _ _ _ H); intros; discriminate).
  set (ok' := match th_cmd th with CShutdown => true | _ => ok end).
  (* a late thread cannot return nil *)
  assert (Hlate_ok : ok' && mem_tid t (t_late m) = false).
  { destruct (mem_tid t (t_late m)) eqn:El; [|apply andb_false_r].
    destruct (Hlate t El) as [_ Hth]. destruct (Hth th Hin Hid) as [Hfail Hns].
    unfold ok'. destruct Hfail as [Hfail|Hfail]; rewrite Hfail in Hpc; [discriminate|]. inv Hpc.
    destruct (th_cmd th); try reflexivity. congruence. }
  cbn [mon_run]. unfold tmon_step. fold ok'. rewrite Hlate_ok.
  destruct (is_terminate (th_cmd th)) eqn:Et.
  - assert (th_cmd th = CTerminate) as Hc by (destruct (th_cmd th); try discriminate; reflexivity).
    assert (ok' = ok) as Hok by (unfold ok'; rewrite Hc; reflexivity).
    destruct (Hall th Hin Hc) as (b & Hb). rewrite Hid in Hb. rewrite Hb.
    eexists. split; [reflexivity|].
    assert (Hdone_t : ok' = true -> dead st /\ (b = false -> arch_file st = None)).
    { intro E. rewrite Hok in E. rewrite E in Hpc. apply (Hdone t b Hb th Hin Hid Hpc). }
    constructor; cbn.
    + exact G'.
    + rewrite Hact, Hkeys. reflexivity.
    + intro Hm. apply Hdead'. apply orb_prop in Hm. destruct Hm as [Hm|Hm]; [apply Hterm; exact Hm|apply Hdone_t; exact Hm].
    + intros Hm Hu. apply orb_false_elim in Hu. destruct Hu as [Hu1 Hu2].
      destruct (t_term m) eqn:Etm.
      * destruct (Harch eq_refl Hu1) as [Ha Hn].
        destruct (arch_stable _ _ _ _ G (Hterm eq_refl) Hn Ha H) as (A1 & A2 & _). auto.
      * cbn in Hm. rewrite Hm in Hu2. cbn in Hu2. subst b. destruct (Hdone_t Hm) as [D Ha].
        destruct (arch_stable _ _ _ _ G D (no_reset_active _ (Hclean t Hb)) (Ha eq_refl) H) as (A1 & A2 & _). auto.
    + intros t0 Hl. destruct (Hlate t0 Hl) as [Hm Hth]. split; [rewrite Hm; reflexivity|].
      intros x Hx Hxid. apply Hth; [apply Hsub; exact Hx|exact Hxid].
    + intros t0 Hl. rewrite Hb'. apply Hlb. exact Hl.
    + intros t0 b0 Hf0. apply flag_of_remove in Hf0. destruct Hf0 as [Hne Hf0].
      destruct (Htr t0 b0 Hf0) as (x & Hx & Hxid & Hxc). exists x. repeat split; auto. apply Hkeep; congruence.
    + intros x Hx Hxc. rewrite Hths in Hx. apply in_remove_thread in Hx. destruct Hx as [Hx Hne].
      destruct (Hall x Hx Hxc) as (b0 & Hb0). exists b0. apply flag_of_remove_other; assumption.
    + intros t0 b0 Hf0 x Hx Hxid Hxpc. apply flag_of_remove in Hf0. destruct Hf0 as [Hne Hf0].
      destruct (Hdone t0 b0 Hf0 x (Hsub x Hx) Hxid Hxpc) as [D Ha]. split; [apply Hdead'; exact D|].
      intro E. subst b0.
      destruct (arch_stable _ _ _ _ G D (no_reset_active _ (Hclean t0 Hf0)) (Ha eq_refl) H) as (X & _). exact X.
    + intros t0 Hf0 x Hx. apply flag_of_remove in Hf0. destruct Hf0 as [Hne Hf0]. apply (Hclean t0 Hf0). apply Hsub. exact Hx.
  - eexists. split; [reflexivity|].
    assert (Hnt : forall b0, flag_of t (t_terms m) <> Some b0).
    { intros b0 Hb0. destruct (Htr t b0 Hb0) as (x & Hx & Hxid & Hxc).
      assert (x = th) by (apply (nodup_ids_unique (threads st)); [apply (g_nodup _ G)|exact Hx|exact Hin|congruence]).
      subst x. rewrite Hxc in Et. discriminate. }
    constructor; cbn.
    + exact G'.
    + rewrite Hact, Hkeys. reflexivity.
    + intro Hm. apply Hdead'. apply Hterm. exact Hm.
    + intros Hm Hu. destruct (Harch Hm Hu) as [Ha Hn].
      destruct (arch_stable _ _ _ _ G (Hterm Hm) Hn Ha H) as (A1 & A2 & _). auto.
    + intros t0 Hl. destruct (Hlate t0 Hl) as [Hm Hth]. split; [exact Hm|].
      intros x Hx Hxid. apply Hth; [apply Hsub; exact Hx|exact Hxid].
    + intros t0 Hl. rewrite Hb'. apply Hlb. exact Hl.
    + intros t0 b0 Hf0. destruct (Htr t0 b0 Hf0) as (x & Hx & Hxid & Hxc). exists x. repeat split; auto.
      apply Hkeep; [exact Hx|]. intro E. eapply Hnt. rewrite <- E, Hxid. exact Hf0.
    + intros x Hx Hxc. apply Hall; [apply Hsub; exact Hx|exact Hxc].
    + intros t0 b0 Hf0 x Hx Hxid Hxpc.
      destruct (Hdone t0 b0 Hf0 x (Hsub x Hx) Hxid Hxpc) as [D Ha]. split; [apply Hdead'; exact D|].
      intro E. subst b0.
      destruct (arch_stable _ _ _ _ G D (no_reset_active _ (Hclean t0 Hf0)) (Ha eq_refl) H) as (X & _). exact X.
    + intros t0 Hf0 x Hx. apply (Hclean t0 Hf0). apply Hsub. exact Hx.
Qed.

Lemma trel_step : forall m st a st' evs,
  trel m st -> step st a = Some (st', evs) ->
  exists m', mon_run (tmon_step false) m evs = Some m' /\ trel m' st'.
Proof.
  intros m st a st' evs R H.
  destruct a; try (exists m; eapply trel_step_other; try eassumption; intros; discriminate).
  - eapply trel_step_call; eassumption.
  - eapply trel_step_return; eassumption.
Qed.

(* every trace of the machine is accepted by the lenient terminate monitor *)
Theorem terminate_monitor_accepts : forall md manual st tr,
  reach (init_state md manual) st tr -> check_terminate false tr = true.
Proof.
  intros md manual st tr H. unfold check_terminate.
  eapply (simulation_accepts tmon (tmon_step false) trel); [apply trel_init|apply trel_step|exact H].
Qed.

(* ------------------------------------------------------------------ *)
(* strict = lenient outside the known class *)

Definition reset_overlapped_terminate (tr : list event) : bool :=
  match mon_run (tmon_step false) tmon_init tr with
  | Some m => t_arch_unknown m
  | None => false
  end.

Lemma tmon_unknown_mono : forall strict m e m',
  tmon_step strict m e = Some m' -> t_arch_unknown m = true -> t_arch_unknown m' = true.
Proof.
  intros strict m e m' H Hu. unfold tmon_step in H.
  destruct e; crunch; cbn; try assumption; try (rewrite Hu; reflexivity).
Qed.

Lemma tmon_strict_step : forall m e m',
  tmon_step false m e = Some m' -> t_arch_unknown m' = false -> tmon_step true m e = Some m'.
Proof.
  intros m e m' H Hu.
  assert (t_arch_unknown m = false) as Hu0.
  { destruct (t_arch_unknown m) eqn:E; [|reflexivity]. rewrite (tmon_unknown_mono _ _ _ _ H E) in Hu. discriminate. }
  unfold tmon_step in *. destruct e; try exact H.
  destruct clean; [|exact H]. destruct arch; [|exact H].
  cbn in *. rewrite Hu0 in *. cbn in *. destruct (t_term m); cbn in *; [discriminate|exact H].
Qed.

Lemma tmon_strict_run : forall tr m m',
  mon_run (tmon_step false) m tr = Some m' -> t_arch_unknown m' = false ->
  mon_run (tmon_step true) m tr = Some m'.
Proof.
  induction tr as [|e r IH]; intros m m' H Hu; cbn in *; [exact H|].
  destruct (tmon_step false m e) as [m1|] eqn:E; [|discriminate].
  assert (t_arch_unknown m1 = false) as Hu1.
  { destruct (t_arch_unknown m1) eqn:E1; [|reflexivity].
    clear -H E1 Hu. revert m1 H E1. induction r as [|e' r' IH']; intros m1 H E1; cbn in H.
    - inv H. congruence.
    - destruct (tmon_step false m1 e') as [m2|] eqn:E2; [|discriminate].
      eapply IH'; [exact H|]. eapply tmon_unknown_mono; eassumption. }
  rewrite (tmon_strict_step _ _ _ E Hu1). apply IH; assumption.
Qed.

Theorem terminate_strict_accepts : forall md manual st tr,
  reach (init_state md manual) st tr -> reset_overlapped_terminate tr = false ->
  check_terminate true tr = true.
Proof.
  intros md manual st tr H Hk.
  pose proof (terminate_monitor_accepts _ _ _ _ H) as Hl. unfold check_terminate, accepts in *.
  unfold reset_overlapped_terminate in Hk.
  destruct (mon_run (tmon_step false) tmon_init tr) as [m|] eqn:E; [|discriminate].
  rewrite (tmon_strict_run _ _ _ E Hk). reflexivity.
Qed.

(* ------------------------------------------------------------------ *)
(* the repaired code (controller.reset refuses a disabled controller): the
   archive file stays absent after Terminate, whatever overlapped it *)

Lemma arch_stable_fixed : forall st a st' evs,
  ginv st -> dead st -> cfg_fixed st = true -> arch_file st = None -> step st a = Some (st', evs) ->
  arch_file st' = None /\ forallb arch_event evs = true.
Proof.
  intros st a st' evs G D Hfix Ha H.
  destruct (dead_loop _ G D) as [Hl Hk]. destruct D as [Dd Dp Ds Dc].
  destruct a; unfold_steps H; try rewrite Hl in H; try rewrite Dd in H; try rewrite Dp in H;
    try rewrite Ds in H; try rewrite Dc in H; try rewrite Hfix in H; cbn [andb] in H; crunch.
  all: match goal with
       | Hf : find_thread _ _ = Some ?x |- _ =>
         let Hx := fresh "Hx" in let Hid := fresh "Hid" in
         destruct (find_thread_in _ _ _ Hf) as [Hx Hid];
         pose proof (g_pc _ G _ Hx) as Gpc;
         pose proof (holder_locked _ _ Hx) as Ghl; unfold holds_lock in Ghl
       | _ => idtac
       end.
  all: repeat match goal with E : th_pc _ = _ |- _ => rewrite E in * end.
  all: repeat match goal with E : th_cmd _ = _ |- _ => rewrite E in * end.
  all: cbn in *; try discriminate; try congruence.
  all: try (specialize (Ghl eq_refl); congruence).
  all: try (destruct (negb (existsb (fun th => is_create (th_cmd th)) (threads st))); discriminate).
  all: try (split; [try assumption; try reflexivity|try reflexivity; try (rewrite Ha; reflexivity)]).
  all: try (exfalso;
            assert (is_create (th_cmd t0) = true) as Hc by (rewrite E2; reflexivity);
            assert (idle t0 = false) as Hi by (unfold idle; rewrite E0; reflexivity);
            destruct (g_creating _ G _ Hx Hc Hi) as (_ & Hd & _); congruence).
Qed.

Lemma tmon_strict_eq : forall m e,
  (forall a n, e <> ObA true (Some a) n) -> tmon_step true m e = tmon_step false m e.
Proof.
  intros m e H. unfold tmon_step. destruct e; try reflexivity.
  destruct clean; [|reflexivity]. destruct arch as [a|]; [|reflexivity]. exfalso. eapply H. reflexivity.
Qed.

Lemma tmon_strict_no_oba : forall evs m,
  (forall a n, ~ In (ObA true (Some a) n) evs) ->
  mon_run (tmon_step true) m evs = mon_run (tmon_step false) m evs.
Proof.
  induction evs as [|e r IH]; intros m H; [reflexivity|]. cbn.
  rewrite tmon_strict_eq by (intros a n E; apply (H a n); left; exact E).
  destruct (tmon_step false m e); [|reflexivity]. apply IH. intros a n Hin. apply (H a n). right. exact Hin.
Qed.

(* only the observation of the archive emits an archive observation *)
Lemma step_oba : forall st a st' evs,
  step st a = Some (st', evs) -> a <> AObserveA -> forall c x n, ~ In (ObA c x n) evs.
Proof.
  intros st a st' evs H Hno c x n Hin.
  destruct a; try (exfalso; apply Hno; reflexivity).
  14: { cbn in H. destruct (loop st) as [l|] eqn:El; [|discriminate].
        destruct (loop_step_frame _ _ _ _ _ H) as [_ Hev]. rewrite forallb_forall in Hev.
        specialize (Hev _ Hin). discriminate. }
  all: unfold_steps H; crunch; cbn in Hin;
    repeat (destruct Hin as [Hin|Hin]; [discriminate|]); try contradiction.
Qed.

(* t_term rises only at the nil return of a Terminate *)
Lemma term_rise : forall strict evs m m',
  mon_run (tmon_step strict) m evs = Some m' -> t_term m = false -> t_term m' = true ->
  exists t, In (Rt t CTerminate true) evs.
Proof.
  induction evs as [|e r IH]; intros m m' H Hf Ht; cbn in H; [inv H; congruence|].
  destruct (tmon_step strict m e) as [m1|] eqn:E; [|discriminate].
  destruct (t_term m1) eqn:E1.
  - exists (match e with Rt t _ _ => t | _ => 0 end). left.
    unfold tmon_step in E. destruct e; crunch; cbn in E1; try congruence.
    rewrite Hf in E1. cbn in E1. subst ok. destruct c; try discriminate. reflexivity.
  - destruct (IH m1 m' H E1 Ht) as (t & Hin). exists t. right. exact Hin.
Qed.

(* a return record belongs to the return step of that thread *)
Lemma step_rt : forall st a st' evs t c ok,
  step st a = Some (st', evs) -> In (Rt t c ok) evs ->
  exists th ok0, a = AReturn t /\ find_thread t (threads st) = Some th /\ th_cmd th = c /\ th_pc th = TRet ok0 /\
                 (c <> CShutdown -> ok0 = ok).
Proof.
  intros st a st' evs t c ok H Hin.
  destruct a.
  9: { destruct (step_return _ _ _ _ H) as (th & ok0 & Hf & Hpc & _ & ->).
       destruct Hin as [E|[]]. inv E. exists th, ok0. repeat split; auto.
       intro Hns. destruct (th_cmd th); try reflexivity. contradiction. }
  1: { destruct (step_call _ _ _ _ _ H) as (-> & _). destruct Hin as [E|[]]. discriminate. }
  all: exfalso; destruct (step_keys _ _ _ _ H) as [_ Hev]; try (intros; discriminate);
    rewrite forallb_forall in Hev; specialize (Hev _ Hin); discriminate.
Qed.

Record trelF (m : tmon) (st : cstate) : Prop := {
  tf_rel : trel m st;
  tf_fixed : cfg_fixed st = true;
  tf_term : t_term m = true -> arch_file st = None;
  tf_done : forall th, In th (threads st) -> th_cmd th = CTerminate -> th_pc th = TRet true -> arch_file st = None
}.

Lemma trelF_init : forall md manual, trelF tmon_init (init_state md manual).
Proof.
  intros. constructor.
  - apply trel_init.
  - reflexivity.
  - discriminate.
  - intros th [].
Qed.

Lemma trelF_step : forall m st a st' evs,
  trelF m st -> step st a = Some (st', evs) ->
  exists m', mon_run (tmon_step true) m evs = Some m' /\ trelF m' st'.
Proof.
  intros m st a st' evs [R Hfix Hterm Hdone] H.
  pose proof (tr_ginv _ _ R) as G.
  destruct (trel_step _ _ _ _ _ R H) as (m' & Hrun & R').
  destruct (step_config _ _ _ _ H) as [Hfix' _].
  (* a finished Terminate means: terminated state, archive absent *)
  assert (Hdead_of : forall th, In th (threads st) -> th_cmd th = CTerminate -> th_pc th = TRet true -> dead st).
  { intros th Hin Hc Hpc. destruct (tr_all _ _ R th Hin Hc) as (b & Hb).
    apply (tr_done _ _ R (th_id th) b Hb th Hin eq_refl Hpc). }
  assert (Hstrict : mon_run (tmon_step true) m evs = Some m').
  { destruct (action_eq_dec_oa a) as [->|Hno].
    - cbn in H. inv H. cbn [mon_run] in *.
      assert (tmon_step true m (ObA true (arch_file st') (arch_ver st')) =
              tmon_step false m (ObA true (arch_file st') (arch_ver st'))) as ->; [|exact Hrun].
      destruct (arch_file st') as [x|] eqn:Ea.
      + destruct (t_term m) eqn:Et; [pose proof (Hterm eq_refl); congruence|].
        unfold tmon_step. rewrite Et. reflexivity.
      + apply tmon_strict_eq. intros; discriminate.
    - rewrite tmon_strict_no_oba; [exact Hrun|]. intros x n Hin. eapply step_oba; eassumption. }
  exists m'. split; [exact Hstrict|].
  (* the archive after the step *)
  assert (Hkeep : dead st -> arch_file st = None -> arch_file st' = None).
  { intros D Ha. apply (arch_stable_fixed _ _ _ _ G D Hfix Ha H). }
  constructor.
  - exact R'.
  - congruence.
  - intro Ht'. destruct (t_term m) eqn:Et.
    + apply Hkeep; [apply (tr_term _ _ R); exact Et|apply Hterm; reflexivity].
    + destruct (term_rise _ _ _ _ Hrun Et Ht') as (t & Hin).
      destruct (step_rt _ _ _ _ _ _ _ H Hin) as (th & ok0 & -> & Hf & Hc & Hpc & Hok).
      assert (ok0 = true) as -> by (apply Hok; discriminate).
      destruct (find_thread_in _ _ _ Hf) as [Hth _].
      apply Hkeep; [eapply Hdead_of; eassumption|eapply Hdone; eassumption].
  - intros th' Hin' Hc' Hpc'.
    destruct (term_completion _ _ _ _ _ G H Hin' Hc' Hpc') as [Hold|[_ Ha]]; [|exact Ha].
    apply Hkeep; [eapply Hdead_of; eassumption|eapply Hdone; eassumption].
Qed.

(* the full statement for the repaired code: every trace passes the strict
   terminate monitor *)
Theorem terminate_strict_monitor_accepts : forall md manual st tr,
  reach (init_state md manual) st tr -> check_terminate true tr = true.
Proof.
  intros md manual st tr H. unfold check_terminate.
  eapply (simulation_accepts tmon (tmon_step true) trelF); [apply trelF_init|apply trelF_step|exact H].
Qed.
