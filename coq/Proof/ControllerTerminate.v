(* C29, terminate: every trace of the controller machine is accepted by the
   lenient terminate monitor (Model/ControllerCheck.v: tmon with strict = false)
   under every schedule, and by the strict one whenever no Reset overlapped a
   successful Terminate. *)
From Coq Require Import List Bool Arith String Lia.
Import ListNotations.
From Mv Require Import Model.Entry Model.Reconcile Model.Safety Model.Controller Model.ControllerCheck
     Proof.ControllerBase.
Local Open Scope list_scope.

(* the terminated condition *)
Record dead (st : cstate) : Prop := {
  d_disabled : disabled st = true;
  d_present : present st = false;
  d_sess : sess_file st = None;
  d_created : created st = true
}.

(* no Reset thread is past the selection of the controller *)
Definition no_active_reset (st : cstate) : Prop :=
  forall th, In th (threads st) -> is_reset (th_cmd th) = true -> idle th = true.

Definition dead_event (e : event) : bool :=
  negb (is_endpoint e) &&
  match e with
  | ObS _ (Some _) => false
  | Nm true => false
  | _ => true
  end.

Definition arch_event (e : event) : bool :=
  match e with ObA _ (Some _) _ => false | _ => true end.

Lemma dead_loop : forall st, ginv st -> dead st -> loop st = None /\ locked st = false.
Proof. intros st G D. apply (g_disabled _ G). apply (d_disabled _ D). Qed.

Ltac prep_thread G :=
  match goal with
  | Hf : find_thread _ _ = Some ?th |- _ =>
    let Hin := fresh "Hin" in let Hid := fresh "Hid" in
    destruct (find_thread_in _ _ _ Hf) as [Hin Hid];
    pose proof (g_pc _ G _ Hin) as Gpc;
    pose proof (holder_locked _ _ Hin) as Ghl; unfold holds_lock in Ghl
  | _ => idtac
  end.

(* the terminated condition is stable, and nothing observable contradicts it *)
Lemma dead_step : forall st a st' evs,
  ginv st -> dead st -> step st a = Some (st', evs) ->
  dead st' /\ forallb dead_event evs = true.
Proof.
  intros st a st' evs G D H.
  destruct (dead_loop _ G D) as [Hl Hk]. destruct D as [Dd Dp Ds Dc].
  destruct a; unfold_steps H; try rewrite Hl in H; try rewrite Dd in H; try rewrite Dp in H;
    try rewrite Ds in H; try rewrite Dc in H; crunch.
  all: prep_thread G.
  all: repeat match goal with E : th_pc _ = _ |- _ => rewrite E in * end.
  all: cbn in *; try discriminate; try congruence.
  all: try (specialize (Ghl eq_refl); congruence).
  all: try (split; [constructor; cbn; assumption|reflexivity]).
  all: try (destruct (negb (existsb (fun th => is_create (th_cmd th)) (threads st))); discriminate).
Qed.
